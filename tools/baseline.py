#!/venv/bin/python
"""Run the pinned test suite of /repo (or another tree) with the BASELINE.json
command and compare with its stable_pass list.  Exit 0 iff every stable test
still passes.   usage: baseline.py [repo_dir]"""
import json
import os
import subprocess
import sys
import tempfile
import xml.etree.ElementTree as ET

repo = sys.argv[1] if len(sys.argv) > 1 else '/repo'
base = json.load(open('/root/.vp/BASELINE.json'))
fd, junit = tempfile.mkstemp(suffix='.xml', dir=os.environ.get('VERIF_WORK', '/verif/.work') if os.path.isdir('/verif/.work') else None)
os.close(fd)
env = dict(os.environ)
env.pop('HSZINC_VERIF', None)
env['PYTHONDONTWRITEBYTECODE'] = '1'
p = subprocess.run(['/venv/bin/python', '-m', 'pytest', '-ra', '-q', '-p', 'no:cacheprovider',
                    '--timeout=900', '--continue-on-collection-errors', '--junitxml=' + junit],
                   cwd=repo, env=env, stdout=subprocess.PIPE, stderr=subprocess.STDOUT, text=True)
passed = set()
for tc in ET.parse(junit).getroot().iter('testcase'):
    ok = not any(ch.tag in ('failure', 'error', 'skipped') for ch in tc)
    if ok:
        passed.add('%s::%s' % (tc.get('classname'), tc.get('name')))
os.unlink(junit)
missing = [t for t in base['stable_pass'] if t not in passed]
print('stable_pass=%d passed_now=%d missing=%d' % (len(base['stable_pass']), len(passed), len(missing)))
for t in missing[:20]:
    print('  MISSING', t)
if missing:
    print(p.stdout[-3000:])
sys.exit(1 if missing else 0)
