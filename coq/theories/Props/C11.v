(* C11 - Grid.filter selects exactly the rows the Haystack filter denotes.
   Statements about Model/Filter.v.  The specification is `denote` (15 lines): has / missing / comparison
   through get_path, and / or as conjunction / disjunction.  Python's comparison of a cell value with a
   literal is an ORACLE `cmp` (bool(op(left, right)), False on TypeError); every theorem holds for an
   arbitrary one. *)
From Coq Require Import String.
From Coq Require Import List NArith ZArith Bool.
From HS Require Import Base.Prelude Model.Value Model.Filter.
From HS Require Import Proofs.FilterP Proofs.FilterGrammarP.
Import ListNotations.
Open Scope N_scope.

(* compiler correctness: for EVERY filter AST, grid, row and comparison oracle, the generated expression
   evaluated with the generated literal tuple is the boolean the filter denotes *)
Theorem C11_compile_correct : forall cmp rows row e,
  let '(x, consts) := fgen e [] in truthy (eval cmp rows row consts x) = denote cmp rows row e.
Proof. exact compile_correct. Qed.

(* Grid.filter: precisely the rows for which the filter is true, in the original order, truncated to limit *)
Theorem C11_filter_selects : forall cmp (rows : list frow) text e limit,
  fparse text = Some e ->
  let '(x, consts) := fgen e [] in
  run_filter (Some (fun r => truthy (eval cmp rows r consts x))) limit rows =
  let hits := filter (fun r => denote cmp rows r e) rows in
  if (limit <=? 0)%Z then hits else firstn (Z.to_nat limit) hits.
Proof.
  intros cmp rows text e limit _. pose proof (fun r => compile_correct cmp rows r e) as H.
  destruct (fgen e []) as [x consts]. rewrite run_filter_spec.
  assert (E : filter (fun r => truthy (eval cmp rows r consts x)) rows = filter (fun r => denote cmp rows r e) rows).
  { apply filter_ext. exact H. }
  rewrite E. reflexivity.
Qed.

(* a comparison on an absent tag is false whatever the operator; has and missing are complementary *)
Theorem C11_absent_is_false : forall cmp rows row op p v,
  get_path rows (ORow row) p = None -> denote cmp rows row (FCmp op p v) = false.
Proof. intros cmp rows row op p v H. cbn [denote]. rewrite H. reflexivity. Qed.
Theorem C11_missing_is_not_has : forall cmp rows row p,
  denote cmp rows row (FMissing p) = negb (denote cmp rows row (FHas p)).
Proof. intros. cbn [denote]. destruct (get_path rows (ORow row) p); reflexivity. Qed.

(* dereferencing: absent tag, null cell, dangling reference, a step through a plain value: not found;
   a valid reference continues in the row whose id matches *)
Theorem C11_paths : forall rows row t,
  (forall p, assoc t row = None -> get_path rows (ORow row) (t :: p) = None) /\
  (assoc t row = Some FNull -> get_path rows (ORow row) [t] = None) /\
  (forall n sf i t' p, assoc t row = Some (FRef n sf i) -> follow_ref rows n = None ->
                       get_path rows (ORow row) (t :: t' :: p) = None) /\
  (forall n sf i t' p r, assoc t row = Some (FRef n sf i) -> follow_ref rows n = Some r ->
                         get_path rows (ORow row) (t :: t' :: p) = get_path rows (ORow r) (t' :: p)) /\
  (forall i t' p, assoc t row = Some (FOther i) -> get_path rows (ORow row) (t :: t' :: p) = None).
Proof.
  intros rows row t. split; [intros; apply get_path_absent; assumption|]. split; [apply get_path_null|].
  split; [intros; eapply get_path_dangling; eassumption|]. split; [intros; eapply get_path_deref; eassumption|].
  intros i t' p H. apply (get_path_through_scalar rows row t (FOther i) t' p H); intros; discriminate.
Qed.

(* the grammar, on concrete texts (computed; tests of the parser model, the unbounded tie is the correspondence):
   and binds tighter than or, both fold to the left, parentheses, keywords only at word boundaries *)
Definition has (s : string) := FHas [s_ s].
Example C11_grammar_examples :
  fparse (s_ "a and b or c") = Some (FOr (FAnd (has "a") (has "b")) (has "c")) /\
  fparse (s_ "a or b and c") = Some (FOr (has "a") (FAnd (has "b") (has "c"))) /\
  fparse (s_ "a and b and c and d") = Some (FAnd (FAnd (FAnd (has "a") (has "b")) (has "c")) (has "d")) /\
  fparse (s_ "a or b or c") = Some (FOr (FOr (has "a") (has "b")) (has "c")) /\
  fparse (s_ "a and (b or c)") = Some (FAnd (has "a") (FOr (has "b") (has "c"))) /\
  fparse (s_ "note") = Some (has "note") /\ fparse (s_ "not e") = Some (FMissing [s_ "e"]) /\
  fparse (s_ "orb and andy") = Some (FAnd (has "orb") (has "andy")) /\
  fparse (s_ "a->b->c == 5kg") = Some (FCmp CEq [s_ "a"; s_ "b"; s_ "c"] (VNum NkFin (s_ "5") (s_ "5") (Some (s_ "kg")))) /\
  fparse (s_ "a andb") = None /\ fparse (s_ "a ==") = None /\ fparse (s_ "(a") = None.
Proof. vm_compute. repeat split. Qed.

(* THE GRAMMAR, for every filter over presence atoms (has / not on a PATH tag->tag->... of tags whose names are
   lower-case letters, any name but the word "not") and comparison atoms (such a path, any of the six operators, and a literal that is
   a boolean, an unsigned run of digits or ANY string, written with the ZINC escapes), of ANY size and nesting: the text written with single blanks, `and` chains
   inside `or` chains, parentheses exactly where an operand is itself an `or` (under `and`) or a right-nested
   chain, is parsed back to exactly that tree.  Hence `and` binds tighter than `or`, both are
   left-associative over any number of operands, parentheses override, and tags called note, orb, andy...
   are tags. *)
Theorem C11_grammar : forall e, printable e -> fparse (pr_or_i e) = Some e.
Proof. exact fparse_print. Qed.
Corollary C11_and_chain_folds_left : forall ns n0, Forall simple_name (n0 :: ns) ->
  fparse (pr_or_i (fold_left FAnd (map FilterGrammarP.has ns) (FilterGrammarP.has n0))) = Some (fold_left FAnd (map FilterGrammarP.has ns) (FilterGrammarP.has n0)).
Proof. exact chain_and_left. Qed.
(* what the printed text looks like (computed) *)
Example C11_printer :
  pr_or_i (FOr (FAnd (has "a") (has "b")) (has "c")) = s_ "a and b or c" /\
  pr_or_i (FAnd (has "a") (FOr (has "b") (has "c"))) = s_ "a and (b or c)" /\
  pr_or_i (FAnd (has "a") (FAnd (has "b") (has "c"))) = s_ "a and (b and c)" /\
  pr_or_i (FOr (has "note") (FOr (FMissing [s_ "orb"]) (has "andy"))) = s_ "note or (not orb or andy)" /\
  pr_or_i (FOr (FAnd (FCmp CLe [s_ "n"] (VNum NkFin (s_ "42") (s_ "42") None)) (FCmp CNe [s_ "s"] (VStr (s_ "a""b")))) (FCmp CEq [s_ "t"] (VBool true)))
    = s_ "n <= 42 and s != ""a\""b"" or t == true".
Proof. vm_compute. repeat split. Qed.
(* non-vacuity of the comparison case *)
Example C11_printable_cmp :
  printable (FOr (FAnd (FCmp CLe [s_ "n"] (VNum NkFin (s_ "42") (s_ "42") None)) (FCmp CNe [s_ "s"] (VStr (s_ "a""b")))) (FCmp CEq [s_ "t"] (VBool true))) /\
  printable (FAnd (FCmp CGe [s_ "site"; s_ "geo"; s_ "lat"] (VNum NkFin (s_ "40") (s_ "40") None)) (FMissing [s_ "equip"; s_ "hvac"])) /\
  pr_or_i (FAnd (FCmp CGe [s_ "site"; s_ "geo"; s_ "lat"] (VNum NkFin (s_ "40") (s_ "40") None)) (FMissing [s_ "equip"; s_ "hvac"]))
    = s_ "site->geo->lat >= 40 and not equip->hvac".
Proof.
  assert (SN : forall n, n <> [] -> forallb is_lower n = true -> n <> KW_NOT -> simple_name n).
  { intros n H1 H2 H3. split; [exact H1|]. split; [|exact H3]. apply Forall_forall. intros c Hc. rewrite forallb_forall in H2. exact (H2 c Hc). }
  assert (P1 : forall n, n <> [] -> forallb is_lower n = true -> n <> KW_NOT -> path_ok [n]).
  { intros n H1 H2 H3. split; [discriminate|]. constructor; [apply SN; assumption|constructor]. }
  split; [|split; [|reflexivity]].
  - cbn [printable val_ok]. repeat split; try (apply P1; [discriminate|reflexivity|discriminate]); try discriminate; repeat constructor.
  - cbn [printable val_ok]. split; [split|].
    + split; [discriminate|]. repeat (constructor; [apply SN; [discriminate|reflexivity|discriminate]|]). constructor.
    + repeat split; try discriminate; repeat constructor.
    + split; [discriminate|]. repeat (constructor; [apply SN; [discriminate|reflexivity|discriminate]|]). constructor.
Qed.

Print Assumptions C11_grammar.
Print Assumptions C11_compile_correct.
Print Assumptions C11_filter_selects.
Print Assumptions C11_absent_is_false.
Print Assumptions C11_missing_is_not_has.
Print Assumptions C11_paths.
