From HS Require Import Base.Prelude Model.Json.
Theorem C02_placeholder : True. Proof. exact I. Qed.
