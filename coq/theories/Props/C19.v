(* C19 - equality of Haystack values and grids is a lawful, kind-aware relation.
   Statements only; proofs in Proofs/EqP.v.  Model/Eq.v evaluates == and !=
   by Python's rich-comparison protocol over the __eq__/__ne__ each class
   defines or inherits.
   SCOPE OF THE THEOREMS: the first group is about `flat` values - every scalar kind
   (None, bool, number, str, Uri, Bin, Ref, XStr, Quantity, Coordinate, the three
   singletons, date, time, date-time).  The C19_containers_* group (Proofs/EqContP.v)
   is about ALL values, lists and dicts nested to any depth included: != is the
   complement of ==, == raises nothing but TypeError, == is reflexive (NaN-free
   values, unique dict keys), symmetric on nested lists, and symmetric on every value
   whenever neither order raises (a dict is compared in the order of the left
   operand's keys: with two mismatches one of which raises the two orders differ -
   C19_containers_dict_order is that witness, and Python does the same). *)
From Coq Require Import List.
From HS Require Import Base.Prelude Model.Eq Proofs.EqP Proofs.EqContP.
Import ListNotations.
Open Scope Z_scope.

(* == is symmetric *)
Theorem C19_sym : forall a b, flat a = true -> flat b = true -> py_eq a b = py_eq b a.
Proof.
  intros a b Fa Fb. rewrite (py_eq_flat a b R0 Fa Fb), (py_eq_flat b a R0 Fb Fa). now apply pyeq_sym.
Qed.

(* != is the complement of ==, and raises exactly when == does *)
Theorem C19_ne : forall a b, flat a = true -> flat b = true -> py_ne a b = neg_res (py_eq a b).
Proof.
  intros a b Fa Fb. rewrite (py_ne_flat a b R0 Fa Fb), (py_eq_flat a b R0 Fa Fb). now apply pyne_compl.
Qed.

(* reflexive for values that contain no NaN (IEEE: NaN != NaN) *)
Theorem C19_refl : forall a, flat a = true -> nan_free a = true -> py_eq a a = Ok true.
Proof. intros a Fa Hn. rewrite (py_eq_flat a a R0 Fa Fa). now apply pyeq_refl. Qed.

(* never raises, with the one documented exception *)
Theorem C19_total : forall a b e, flat a = true -> flat b = true -> py_eq a b = Raise e ->
  e = TypeError /\ exists v u w u', a = HQty v u /\ b = HQty w u' /\ u <> u'.
Proof. intros a b e Fa Fb. rewrite (py_eq_flat a b R0 Fa Fb). now apply pyeq_raises. Qed.

Theorem C19_qty : forall v u w u',
  py_eq (HQty v u) (HQty w u') = if opt_str_eqb u' u then Ok (num_eqb v w) else Raise TypeError.
Proof. intros. rewrite (py_eq_flat _ _ R0) by reflexivity. apply pyeq_qty. Qed.

(* a Uri, a Bin and a plain string with the same text are three different
   values, and != says so too; a Ref with and without display name differ *)
Theorem C19_kinds : forall a b,
  textlike a = true -> textlike b = true -> same_ctor a b = false ->
  py_eq a b = Ok false /\ py_ne a b = Ok true.
Proof.
  intros a b Ta Tb Hc.
  assert (Fa : flat a = true) by (destruct a; simpl in *; auto; discriminate).
  assert (Fb : flat b = true) by (destruct b; simpl in *; auto; discriminate).
  rewrite (py_eq_flat a b R0 Fa Fb), (py_ne_flat a b R0 Fa Fb). now apply pyeq_text_kinds.
Qed.

Theorem C19_ref_display : forall n d,
  py_eq (HRef n None false) (HRef n (Some d) true) = Ok false /\
  py_ne (HRef n None false) (HRef n (Some d) true) = Ok true.
Proof.
  intros. rewrite (py_eq_flat _ _ R0), (py_ne_flat _ _ R0) by reflexivity.
  destruct (pyeq_ref_display n d) as [A [B _]]. auto.
Qed.

(* equal hashable values of one kind have equal hash keys (numbers: keys that
   are numerically equal - equal numbers hash equally in CPython) *)
Theorem C19_hash : forall a b ka kb,
  same_kind a b = true -> py_eq a b = Ok true ->
  hash_key0 a = Some ka -> hash_key0 b = Some kb -> hkey_eqv ka kb = true.
Proof.
  intros a b ka kb Hk He.
  assert (Fa : flat a = true) by (destruct a, b; simpl in *; auto; discriminate).
  assert (Fb : flat b = true) by (destruct a, b; simpl in *; auto; discriminate).
  rewrite (py_eq_flat a b R0 Fa Fb) in He. now apply hash_law.
Qed.

(* ---- grids ---- *)

(* comparing grids never raises: the answer is True or False *)
Theorem C19_grid_total : forall g h, flat_grid g -> flat_grid h -> exists r, grid_eq g h = Ok r.
Proof. exact grid_eq_total. Qed.

(* a grid equals any faithful copy of itself (same names, same values, no NaN) *)
Theorem C19_grid_copy : forall g, clean_grid g -> grid_eq g g = Ok true.
Proof. exact grid_eq_refl. Qed.

(* materially different grids are unequal - False, since C19_grid_total excludes an exception:
   different row count, different column or metadata names, ... *)
Theorem C19_grid_diff_rows : forall g h r,
  grid_eq g h = Ok r -> length (grows g) <> length (grows h) -> r = false.
Proof. exact grid_eq_rowcount. Qed.

Theorem C19_grid_diff_names : forall g h r, grid_eq g h = Ok r ->
  same_keys (gmeta g) (gmeta h) = false \/ same_keys (gcols g) (gcols h) = false -> r = false.
Proof. exact grid_eq_names. Qed.

(* ... a cell of another kind, or a cell out of tolerance: equality implies every
   pair of corresponding cells is approximately equal, which implies same kind *)
Theorem C19_grid_cells : forall g h, grid_eq g h = Ok true ->
  length (grows g) = length (grows h) /\
  forall n r1 r2 c, nth_error (grows g) n = Some r1 -> nth_error (grows h) n = Some r2 ->
    In c (map fst (gcols g)) -> approx_check (row_get r1 c) (row_get r2 c) = Ok true.
Proof. exact grid_eq_cells. Qed.

Theorem C19_cell_kinds : forall v1 v2, flat v1 = true -> flat v2 = true ->
  approx_check v1 v2 = Ok true -> ctor_id v1 = ctor_id v2.
Proof. exact approx_kinds. Qed.

(* non-vacuity *)
Example C19_nonvacuous :
  let one := HNum (NFin 1 0 false) in
  let onef := HNum (NFin 4503599627370496 (-52) true) in       (* 1.0 *)
  py_eq one onef = Ok true /\ py_eq (HBool true) one = Ok true /\
  py_eq (HUri [115%N]) (HStr [115%N]) = Ok false /\
  py_eq (HQty (NFin 1 0 false) (Some [107%N])) one = Ok true /\
  approx_check (HBool true) one = Ok false /\
  approx_check (HQty (NFin 1 0 false) None) one = Ok false.
Proof. vm_compute. repeat split. Qed.

Example C19_clean_grid_exists :
  clean_grid (mkGG [([109%N], HNum (NFin 1 0 false))] [([97%N], [])]
                   [[([97%N], HNum (NFin 4503599627370496 (-52) true))]]).
Proof.
  unfold clean_grid; simpl. split; [|split; [|split; [|split]]].
  - constructor; [intros [] | constructor].
  - intros k v [H|[]]. inversion H; subst. split; reflexivity.
  - constructor; [intros [] | constructor].
  - intros c m [H|[]]. inversion H; subst. split; [constructor | intros k v []].
  - intros r [H|[]]. subst. intros k v [H|[]]. inversion H; subst. split; reflexivity.
Qed.

(* ---------- all values: lists and dicts nested to any depth ---------- *)
Theorem C19_containers_ne : forall a b, py_ne a b = neg_res (py_eq a b).
Proof. exact py_ne_compl_all. Qed.
Theorem C19_containers_total : forall a b, match py_eq a b with Ok _ => True | Raise e => e = TypeError end.
Proof. exact py_eq_total_all. Qed.
Theorem C19_containers_refl : forall a, good a = true -> py_eq a a = Ok true /\ py_ne a a = Ok false.
Proof. intros a G. split; [apply py_eq_refl_all|apply py_ne_refl_all]; exact G. Qed.
Theorem C19_containers_sym_lists : forall a b, dict_free a = true -> dict_free b = true -> py_eq a b = py_eq b a.
Proof. exact py_eq_sym_lists. Qed.
Theorem C19_containers_sym : forall a b r r', keyed a = true -> keyed b = true -> py_eq a b = Ok r -> py_eq b a = Ok r' -> r = r'.
Proof. exact py_eq_sym_all. Qed.
(* the order of a dict comparison shows when one mismatch raises: {x: 1 u, y: 1} against {y: 2, x: 1 v} *)
Example C19_containers_dict_order :
  let one := NFin 1 0 true in let two := NFin 2 0 true in
  let a := HDict [([120%N], HQty one (Some [117%N])); ([121%N], HNum one)] in
  let b := HDict [([121%N], HNum two); ([120%N], HQty one (Some [118%N]))] in
  py_eq a b = Raise TypeError /\ py_eq b a = Ok false /\ keyed a = true /\ keyed b = true.
Proof. vm_compute. repeat split; reflexivity. Qed.
(* non-vacuity: a nested value satisfying the hypotheses *)
Example C19_containers_nonvacuous :
  let v := HList [HDict [([97%N], HList [HNum (NFin 1 0 true); HStr [98%N]]); ([99%N], HNone)]; HMarker] in
  good v = true /\ keyed v = true /\ py_eq v v = Ok true /\ dict_free (HList [HList [HNone]]) = true.
Proof. vm_compute. repeat split; reflexivity. Qed.

Print Assumptions C19_containers_ne.
Print Assumptions C19_containers_total.
Print Assumptions C19_containers_refl.
Print Assumptions C19_containers_sym_lists.
Print Assumptions C19_containers_sym.
