"""ZINC codec checks shared by C01, C03, C04, C07, C08, C09."""
import math

import codec
import jsonsim
from codec import canon, fbits
from common import Sym


def H():
    return codec.H()


def canon_z(v):
    """canonical form of a value after a ZINC round trip: everything exact except coordinates (six decimals)"""
    h = H()
    if isinstance(v, bool) or v is None:
        return canon(v)
    if isinstance(v, (int, float)):
        return ('num', fbits(v), None)
    if isinstance(v, h.Quantity):
        return ('num', fbits(v.value), v.unit if v.unit else None)
    if isinstance(v, h.Coordinate):
        return ('coord', fbits(float('%f' % v.latitude)), fbits(float('%f' % v.longitude)))
    if isinstance(v, list):
        return ('list',) + tuple(canon_z(x) for x in v)
    if isinstance(v, h.Grid):
        cols = list(v.column.keys())
        return ('grid', str(v.version), tuple((k, canon_z(x)) for k, x in v.metadata.items()),
                tuple((c, tuple((k, canon_z(x)) for k, x in m.items())) for c, m in v.column.items()),
                tuple(tuple((c, canon_z(row.get(c))) for c in cols) for row in v))
    if isinstance(v, dict) or (hasattr(v, 'items') and not isinstance(v, str)):
        return ('dict',) + tuple((k, canon_z(x)) for k, x in v.items())
    return canon(v)


def expected_z(g):
    return jsonsim.dt_to_spec(canon_z(g))


def model_zdump(ctx, grids):
    return ctx.model.ask_parallel([[Sym('zdump'), codec.enc_grid(g)] for g in grids])


# ------------------------------------------------------------------ parallel implementation runs
def _parse_worker(args):
    text, mode, single = args
    h = H()
    import warnings
    warnings.simplefilter('ignore')
    try:
        r = h.parse(text, mode=mode, single=single)
        if single:
            return ('ok', canon(r) if r is not None else ('none',))
        return ('ok', ('list',) + tuple(canon(g) for g in r))
    except Exception as e:  # noqa
        return ('raise', codec.exc_class(e), getattr(e, 'line', None), getattr(e, 'col', None), getattr(e, 'grid_str', None))


def _scalar_worker(args):
    text, mode, ver = args
    h = H()
    import warnings
    warnings.simplefilter('ignore')
    try:
        return ('ok', canon(h.parse_scalar(text, mode=mode, version=ver)))
    except Exception as e:  # noqa
        return ('raise', codec.exc_class(e), isinstance(e, ValueError))


_POOL = {}


def pool():
    if 'p' not in _POOL:
        import multiprocessing
        H()
        _POOL['p'] = multiprocessing.get_context('fork').Pool(14)
    return _POOL['p']


def impl_parse_many(texts, mode=None, single=False):
    h = H()
    mode = mode or h.MODE_ZINC
    return pool().map(_parse_worker, [(t, mode, single) for t in texts], chunksize=8)


def impl_scalar_many(texts, ver='3.0', mode=None):
    h = H()
    mode = mode or h.MODE_ZINC
    return pool().map(_scalar_worker, [(t, mode, ver) for t in texts], chunksize=16)


def model_zparse(ctx, texts):
    """model results for whole documents, as ('ok', ('list', grids...)) / ('raise', name)"""
    out = []
    for a in ctx.model.ask_parallel([[Sym('zparse'), t] for t in texts]):
        if a[0] == 'ok':
            try:
                out.append(('ok', ('list',) + tuple(codec.canon_model(x) for x in a[1])))
            except codec.ModelRaise:
                out.append(('raise', 'ZincParseException'))   # parse_grid wraps whatever a parse action raises
        else:
            out.append(('raise', a[1]))
    return out


def model_zscalar(ctx, texts, ver3=True):
    out = []
    for a in ctx.model.ask_parallel([[Sym('zparse'), bool(ver3), t] for t in texts]):
        out.append(codec.model_result(a))
    return out
