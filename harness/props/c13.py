"""C13 - a filter's result is independent of other filters, earlier or concurrent.

Theorems: coq/theories/Props/C13.v (Model/FilterCache.v: the LRU cache, the name
counter, the module globals; sequential histories with eviction for any capacity;
any number of threads under any schedule).
Tie: the extracted cache model (capacity regenerated from FILTER_CACHE_LRU_SIZE) vs
the implementation on sequential histories around the capacity: which code each call
hands back and the set of _gen_hsfilter_N globals left (names relative to the first).
Search on the implementation: (1) histories of up to ~1500 distinct filters
(ascending, repeated, LRU-hostile, random), every result compared with the rows the
filter denotes; function objects obtained early are called again after everything
else was compiled; (2) deterministic enumeration of interleavings at source-line
granularity inside hszinc (threading.settrace + a turn-passing scheduler),
preemption-bounded, of 2-3 threads compiling and evaluating distinct filters; every
thread's rows compared with the sequential reference."""
import random
import sys
import threading

import codec
from common import Sym

COMPONENTS = ['filter', 'escape', 'version', 'json']


def make_grid(h, n=6):
    g = h.Grid(version='3.0')
    g.column['id'] = {}
    g.column['n'] = {}
    g.column['s'] = {}
    for i in range(n):
        g.append({'id': h.Ref('r%d' % i), 'n': float(i), 's': 'v%d' % (i % 3)})
    return g


def ftext(i):
    """distinct filters with distinct literals and distinct answers"""
    k = i % 7
    if i % 3 == 0:
        return 'n == %d or s == "tag%d"' % (k, i), lambda r, k=k: r['n'] == k
    if i % 3 == 1:
        return 'n < %d and id != @zz%d' % (k, i), lambda r, k=k: r['n'] < k
    return 's == "v%d" and n >= %d and not x%d' % (i % 3, k % 4, i), lambda r, i=i, k=k: r['s'] == 'v%d' % (i % 3) and r['n'] >= k % 4


class NameScheme(Exception):
    pass


def gen_names(grid_filter):
    try:
        return sorted(int(k[len('_gen_hsfilter_'):]) for k in vars(grid_filter) if k.startswith('_gen_hsfilter_'))
    except ValueError:
        raise NameScheme()


# ------------------------------------------------------------------ deterministic scheduler
class Scheduler:
    """threads run one at a time; control passes at 'line' events inside the traced files according to a plan:
    a list of (thread index, number of line steps); afterwards the unfinished threads run to completion in index order"""

    def __init__(self, nthreads, plan, files):
        self.cond = threading.Condition()
        self.plan = list(plan)
        self.files = files
        self.done = [False] * nthreads
        self.current = None
        self.budget = 0
        self.steps = [0] * nthreads
        self.stuck = False
        self._advance()

    def _advance(self):
        while self.plan:
            t, n = self.plan.pop(0)
            if not self.done[t] and n > 0:
                self.current, self.budget = t, n
                return
        for t, d in enumerate(self.done):
            if not d:
                self.current, self.budget = t, 10 ** 9
                return
        self.current = None

    def wait_turn(self, t):
        with self.cond:
            while self.current != t:
                if not self.cond.wait(timeout=90):
                    self.stuck = True
                    self.current = t
                    return

    def line(self, t):
        with self.cond:
            self.steps[t] += 1
            if self.current == t:
                self.budget -= 1
                if self.budget <= 0:
                    self._advance()
                    self.cond.notify_all()
        self.wait_turn(t)

    def finish(self, t):
        with self.cond:
            self.done[t] = True
            if self.current == t:
                self._advance()
            self.cond.notify_all()

    def tracer(self, t):
        def local(frame, event, arg):
            if event == 'line':
                self.line(t)
            return local

        def glob(frame, event, arg):
            if frame.f_code.co_filename in self.files:
                return local
            return None
        return glob


def run_threads(h, grid, texts, plan, files):
    sched = Scheduler(len(texts), plan, files)
    results = [None] * len(texts)

    def body(t):
        sched.wait_turn(t)
        sys.settrace(sched.tracer(t))
        try:
            res = grid.filter(texts[t])
            results[t] = ('ok', [str(r['id']) for r in res])
        except BaseException as e:  # noqa
            results[t] = ('raise', type(e).__name__, str(e)[:100])
        finally:
            sys.settrace(None)
            sched.finish(t)

    ths = [threading.Thread(target=body, args=(t,)) for t in range(len(texts))]
    for th in ths:
        th.start()
    for th in ths:
        th.join(200)
    return results, sched


def run(ctx):
    h = codec.H()
    import warnings
    warnings.simplefilter('ignore')
    from hszinc import grid_filter, grid as grid_mod
    rng = random.Random(ctx.seed + 13)
    thorough = ctx.tier == 'thorough' or ctx.escalate
    cap = grid_filter.FILTER_CACHE_LRU_SIZE
    g = make_grid(h)
    rows = list(g)
    ctx.coverage['rule'] = ('sequential histories over up to %d distinct filters around the cache capacity %d (ascending, each repeated, cyclic over capacity+1 = LRU-hostile, random with repetition), '
                            'early function objects re-used at the end; all schedules with one preemption and %s with two for 2 threads, one preemption for 3 threads, at every source line inside hszinc/grid_filter.py and grid.py; '
                            'distinct by (history position) / (schedule)' % (3 * cap + 40, cap, '6000 sampled' if thorough else '260 sampled'))

    # ---------------- 1. sequential histories
    def history(kind):
        if kind == 'ascending':
            return list(range(cap + 250))
        if kind == 'repeated':
            return [i for i in range(cap + 60) for _ in (0, 1)]
        if kind == 'hostile':
            return [i % (cap + 1) for i in range(2 * cap + 40 if thorough else cap + 140)]
        return [rng.randrange(3 * cap + 40) for _ in range(4 * cap if thorough else cap + 300)]

    scheme_broken = False
    for kind in ('ascending', 'repeated', 'hostile', 'random'):
        grid_filter._filter_function.cache_clear()
        import gc
        gc.collect()
        base = None
        keys = history(kind)
        early = {}
        for pos, i in enumerate(keys):
            text, pred = ftext(i)
            ctx.coverage['evaluations'] += 1
            ctx.count('history:' + kind)
            try:
                got = [str(r['id']) for r in g.filter(text)]
            except Exception as e:  # noqa
                ctx.violation('impl-counterexample', 'filter %r raised %s at position %d of the %s history' % (text, type(e).__name__, pos, kind), {'history': kind, 'position': pos, 'filter': text})
                return
            want = [str(r['id']) for r in rows if pred(r)]
            if got != want:
                ctx.violation('impl-counterexample', 'filter %r, evaluated as number %d of the %s history (capacity %d), returned %r; evaluated first it returns %r'
                              % (text, pos, kind, cap, got, want), {'history': kind, 'position': pos, 'filter': text, 'keys': keys[:pos + 1][-1200:]})
                return
            try:
                if pos == 0:
                    base = gen_names(grid_filter)[-1]
                if pos < 30 and i not in early:
                    early[i] = vars(grid_filter)['_gen_hsfilter_%d' % gen_names(grid_filter)[-1]] if pos == len(early) else None
            except (NameScheme, IndexError, KeyError):
                if not scheme_broken:
                    scheme_broken = True
                    ctx.violation('correspondence-broken', 'the generated functions are no longer module globals named _gen_hsfilter_<counter value> (the cache model names them by the counter)',
                                  {'component': 'cache-run', 'names': [k for k in vars(grid_filter) if k.startswith('_gen_hsfilter_')][:5]})
        for i, fn in early.items():
            if fn is None:
                continue
            text, pred = ftext(i)
            got = [str(r['id']) for r in rows if fn(g, r)]
            want = [str(r['id']) for r in rows if pred(r)]
            if got != want:
                ctx.violation('impl-counterexample', 'the function obtained early for %r gives %r after %d later compilations (it denotes %r)' % (text, got, len(keys), want),
                              {'history': kind, 'filter': text})
                return
        # tie with the cache model: which names are left
        gc.collect()      # an evicted wrapper caught in a reference cycle is finalised by the cyclic collector only
        if scheme_broken:
            continue
        names = gen_names(grid_filter)
        ans = ctx.model.ask([[Sym('cache-run'), cap] + keys + [k for k in list(early)[:0]]])[0]
        ctx.coverage['traces_validated_against_impl'] += 1
        m_results = [int(x) if not isinstance(x, Sym) and str(x) != 'none' else None for x in ans[0]]
        m_names = sorted(int(x) for x in ans[1])
        m_names2 = m_names
        if m_results != keys:
            ctx.violation('correspondence-broken', 'the cache model hands back the wrong code on the %s history' % kind, {'history': kind, 'component': 'cache-run'})
        rel = [n - base for n in names]
        if len(names) != len(m_names2) or rel != m_names2:
            ctx.coverage['disagreements_checked'] += 1
            ctx.violation('correspondence-broken', 'after the %s history the implementation holds %d generated globals (%r...), the model %d (%r...)'
                          % (kind, len(names), rel[:5], len(m_names2), m_names2[:5]), {'history': kind, 'component': 'cache-run'})
    ctx.coverage['distinct_nontrivial'] = ctx.coverage['evaluations']

    # ---------------- 2. interleavings
    files = {grid_filter.__file__, grid_mod.__file__}
    small = make_grid(h, 3)
    srows = list(small)
    counter = [100000 + ctx.seed * 1000]

    def fresh(n):
        out = []
        for _ in range(n):
            counter[0] += 1
            out.append(ftext(counter[0]))
        return out

    def reference(pred):
        return ('ok', [str(r['id']) for r in srows if pred(r)])

    # how many line steps one compile-and-evaluate takes
    fl = fresh(1)
    res, sch = run_threads(h, small, [fl[0][0]], [], files)
    steps = sch.steps[0]
    if res[0] != reference(fl[0][1]) or steps < 10:
        ctx.violation('harness-error', 'the scheduler does not see the implementation (%r, %d steps)' % (res, steps), {})
        return
    plans = []
    for p in range(0, steps + 1):
        plans.append((2, [(0, p), (1, 10 ** 9)]))
        plans.append((2, [(1, p), (0, 10 ** 9)]))
    two = [(p, q) for p in range(1, steps + 1) for q in range(1, steps + 1)]
    two = rng.sample(two, min(len(two), 6000 if ctx.tier == 'thorough' else 1200 if thorough else 260))
    for p, q in two:
        plans.append((2, [(0, p), (1, q), (0, 10 ** 9)]))
    three = [(a, b) for a in range(0, steps + 1, 1 if ctx.tier == 'thorough' else 4) for b in range(0, steps + 1, 1 if ctx.tier == 'thorough' else 4)]
    if ctx.tier != 'thorough':
        three = rng.sample(three, min(len(three), 200 if thorough else 60))
    for a, b in three:
        plans.append((3, [(0, a), (1, b), (2, 10 ** 9)]))
    for nth, plan in plans:
        fl = fresh(nth)
        texts = [t for t, _ in fl]
        ctx.coverage['evaluations'] += 1
        ctx.count('schedule:%d-threads' % nth)
        res, sch = run_threads(h, small, texts, plan, files)
        if sch.stuck:
            # a turn was not taken within 90 s (machine overloaded, or a thread blocked on a lock held by a paused thread):
            # the schedule is not conclusive; try it once more with fresh filters, then leave it out (counted in the evidence)
            fl = fresh(nth)
            texts = [t for t, _ in fl]
            res, sch = run_threads(h, small, texts, plan, files)
            if sch.stuck:
                ctx.count('schedule:inconclusive')
                continue
        for t in range(nth):
            if res[t] != reference(fl[t][1]):
                ctx.violation('impl-counterexample', 'thread %d evaluating %r got %r; alone it gets %r. Schedule (thread, line steps): %r, other filters %r'
                              % (t, texts[t], res[t], reference(fl[t][1]), [(a, b if b < 10 ** 8 else 'to the end') for a, b in plan], [x for i, x in enumerate(texts) if i != t]),
                              {'plan': [[a, b] for a, b in plan], 'filters': texts, 'thread': t})
                return
    ctx.coverage['distinct_nontrivial'] += len(plans)
    ctx.sample({'line steps of one compile-and-evaluate inside hszinc': steps, 'schedules': len(plans)})


def replay(ctx, data):
    print('replay:', data)
    run(ctx)
