"""C14 - Grid behaves as a list of row dicts under every sequence of operations.

Theorems: coq/theories/Props/C14.v (Model/Grid.v: `gstep` is the code model -
the five primitives, extend, reindex, and every MutableSequence mixin in terms
of them; `lst_step` is Python list semantics).
Tie: lock-step triple  extracted model / hszinc.Grid / a real Python list."""
import random

import gridsim

COMPONENTS = []

ROWS = {
    'a': (1, None, 10, False),
    'x1': (2, ('str', 'x'), 20, False),
    'y': (3, ('str', 'y'), 30, False),
    'x2': (4, ('str', 'x'), 40, False),       # duplicate id, other content
    'x1copy': (5, ('str', 'x'), 20, False),   # equal content to x1, another object
    'l3': (6, None, 60, True),                # holds a list: upgrades an unversioned grid to 3.0
}
ND = ('notdict', 9)
KEYS = ['x', 'y', 'zz']


def run(ctx):
    rng = random.Random(ctx.seed)
    thorough = ctx.tier == 'thorough' or ctx.escalate
    ctx.coverage['rule'] = ('from every list of <=2 (quick) / <=3 (thorough) rows every mutator of the alphabet '
                            '(append, insert, extend, +=, setitem, del index/slice, pop, remove, reverse, clear, reindex, continue-on-slice, '
                            'continue-on-filtered-grid; rows with/without/duplicate ids, equal-content twins, a non-dict; indices -5..5, '
                            '9 slices incl. negative/zero steps) followed by an observer block (len, g[i], g[a:b:c], in, index, count, lookups), '
                            'seeded pairs of mutators and random long sequences; each with and without intermediate lookups; '
                            'a case is counted when all three executions agree; distinct by op list')
    gridsim.explore(ctx, ROWS, ND, KEYS, rng, thorough)
    ctx.coverage['exhaustive'] = False


def replay(ctx, data):
    gridsim.replay_case(ctx, data)
