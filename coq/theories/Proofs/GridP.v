(* Proofs about Model/Grid.v: the id index (C15) and the list refinement (C14). *)
From Coq Require Import Lia.
From HS Require Import Base.Prelude Model.PyList Model.Grid Proofs.PreludeP Proofs.PyListP.
Open Scope Z_scope.

(* ------------------------------------------------------------------ *)
(* the index as a finite map *)

Lemma idx_lookup_set_same k r m : idx_lookup k (idx_set k r m) = Some r.
Proof.
  induction m as [|[y w] m IH]; simpl.
  - now rewrite str_eqb_refl.
  - destruct (str_eqb_spec y k) as [E|E]; subst; simpl.
    + now rewrite str_eqb_refl.
    + destruct (str_eqb_spec y k); [contradiction | exact IH].
Qed.

Lemma idx_lookup_set_other k k' r m : k <> k' -> idx_lookup k' (idx_set k r m) = idx_lookup k' m.
Proof.
  intros Hne. induction m as [|[y w] m IH]; simpl.
  - destruct (str_eqb_spec k k'); [contradiction | reflexivity].
  - destruct (str_eqb_spec y k) as [E|E]; subst; simpl.
    + destruct (str_eqb_spec k k'); [contradiction | reflexivity].
    + destruct (str_eqb_spec y k'); auto.
Qed.

(* reindex() computes exactly the scan: the last row whose id has that string form *)
Definition scan_step (k : str) (acc : option row) (r : row) : option row :=
  match rid r with
  | Some i => if str_eqb (pystr i) k then Some r else acc
  | None => acc
  end.

Lemma build_scan k l : forall m,
  idx_lookup k (fold_left (fun m r => match rid r with Some i => idx_set (pystr i) r m | None => m end) l m)
  = fold_left (scan_step k) l (idx_lookup k m).
Proof.
  induction l as [|r l IH]; intros m; simpl; auto.
  rewrite IH. f_equal. unfold scan_step. destruct (rid r) as [i|]; auto.
  destruct (str_eqb_spec (pystr i) k) as [E|E]; subst.
  - apply idx_lookup_set_same.
  - now apply idx_lookup_set_other.
Qed.

Lemma build_index_scan k l : idx_lookup k (build_index l) = scan_lookup l k.
Proof. unfold build_index, scan_lookup. rewrite build_scan. reflexivity. Qed.

Lemma scan_fold_sound k l : forall acc r,
  fold_left (scan_step k) l acc = Some r ->
  (acc = Some r \/ (In r l /\ has_id_key k r = true)).
Proof.
  induction l as [|x l IH]; simpl; intros acc r H; auto.
  apply IH in H. destruct H as [H|[H1 H2]]; [|right; auto].
  unfold scan_step in H. unfold has_id_key. destruct (rid x) as [i|] eqn:Ei; auto.
  destruct (str_eqb (pystr i) k) eqn:E; auto.
  inversion H; subst. right. split; auto. now rewrite Ei.
Qed.

Lemma scan_fold_complete k l : forall acc,
  fold_left (scan_step k) l acc = None ->
  acc = None /\ forall r, In r l -> has_id_key k r = false.
Proof.
  induction l as [|x l IH]; simpl; intros acc H.
  - split; auto. intros r [].
  - apply IH in H as [H1 H2]. unfold scan_step in H1.
    destruct (rid x) as [i|] eqn:Ei.
    + destruct (str_eqb (pystr i) k) eqn:E; [discriminate|]. split; auto.
      intros r [Hr|Hr]; subst; auto. unfold has_id_key. now rewrite Ei.
    + split; auto. intros r [Hr|Hr]; subst; auto. unfold has_id_key. now rewrite Ei.
Qed.

Lemma scan_lookup_sound l k r : scan_lookup l k = Some r -> In r l /\ has_id_key k r = true.
Proof.
  intros H. apply scan_fold_sound in H. destruct H as [H|H]; [discriminate | exact H].
Qed.

Lemma scan_lookup_none l k : scan_lookup l k = None -> forall r, In r l -> has_id_key k r = false.
Proof. intros H. now apply scan_fold_complete in H. Qed.

Lemma scan_lookup_some_if l k r : In r l -> has_id_key k r = true -> exists r', scan_lookup l k = Some r'.
Proof.
  intros Hin Hk. destruct (scan_lookup l k) eqn:E; eauto.
  pose proof (scan_lookup_none l k E r Hin). congruence.
Qed.

(* ------------------------------------------------------------------ *)
(* the invariant of the index: sound and complete for the current rows *)

Definition idx_ok (l : list row) (m : gindex) : Prop :=
  (forall k r, idx_lookup k m = Some r -> In r l /\ has_id_key k r = true) /\
  (forall r k, In r l -> has_id_key k r = true -> exists r', idx_lookup k m = Some r').

Definition IdxInv (g : grid) : Prop :=
  match idx g with None => True | Some m => idx_ok (rows g) m end.

Lemma build_index_ok l : idx_ok l (build_index l).
Proof.
  split.
  - intros k r. rewrite build_index_scan. apply scan_lookup_sound.
  - intros r k Hin Hk. rewrite build_index_scan. eapply scan_lookup_some_if; eauto.
Qed.

Lemma idx_ok_nil_no_ids l : idx_ok l [] -> forall r k, In r l -> has_id_key k r = false.
Proof.
  intros [_ Hc] r k Hin. destruct (has_id_key k r) eqn:E; auto.
  destruct (Hc r k Hin E) as [r' H]. discriminate.
Qed.

Lemma has_id_key_pystr r i : rid r = Some i -> has_id_key (pystr i) r = true.
Proof. intros H. unfold has_id_key. rewrite H. apply str_eqb_refl. Qed.

Lemma has_id_key_eq k r i : rid r = Some i -> has_id_key k r = true -> k = pystr i.
Proof. intros H. unfold has_id_key. rewrite H. intros E. apply str_eqb_eq in E. auto. Qed.

Lemma has_id_key_noid k r : rid r = None -> has_id_key k r = false.
Proof. intros H. unfold has_id_key. now rewrite H. Qed.

(* the index that lookups and inserts work with *)
Lemma ensure_index_ok g : IdxInv g ->
  let g1 := ensure_index g in
  rows g1 = rows g /\ pre3 g1 = pre3 g /\ given g1 = given g /\
  exists m, idx g1 = Some m /\ cur_index g1 = m /\ idx_ok (rows g) m.
Proof.
  intros HI. unfold ensure_index, index_falsy, IdxInv, cur_index in *.
  destruct (idx g) as [[|e m]|] eqn:E; simpl.
  - do 3 (split; [reflexivity|]). exists (build_index (rows g)).
    split; [reflexivity|]. split; [reflexivity|]. apply build_index_ok.
  - do 3 (split; [reflexivity|]). exists (e :: m). rewrite E.
    split; [reflexivity|]. split; [reflexivity|]. exact HI.
  - do 3 (split; [reflexivity|]). exists (build_index (rows g)).
    split; [reflexivity|]. split; [reflexivity|]. apply build_index_ok.
Qed.

Lemma lookup_correct g k :
  IdxInv g ->
  let '(g1, r) := g_get g k in
  IdxInv g1 /\ rows g1 = rows g /\
  match r with
  | Some x => In x (rows g) /\ has_id_key k x = true
  | None => forall x, In x (rows g) -> has_id_key k x = false
  end.
Proof.
  intros HI. unfold g_get. destruct (ensure_index_ok g HI) as [Hr [_ [_ [m [Hm [Hc Hok]]]]]].
  split; [|split]; auto.
  - unfold IdxInv. rewrite Hm, Hr. exact Hok.
  - rewrite Hc. destruct Hok as [Hs Hcm]. destruct (idx_lookup k m) as [x|] eqn:E.
    + now apply Hs.
    + intros x Hx. destruct (has_id_key k x) eqn:E2; auto.
      destruct (Hcm x k Hx E2) as [r' H]. congruence.
Qed.

(* ------------------------------------------------------------------ *)
(* every primitive keeps the invariant *)

Lemma reindex_inv g : IdxInv (reindex g).
Proof. unfold IdxInv, reindex; simpl. apply build_index_ok. Qed.

Lemma validate_row_rows g r g1 : validate_row g r = Ok g1 -> rows g1 = rows g /\ idx g1 = idx g.
Proof.
  unfold validate_row. destruct (v3 r && pre3 g); [destruct (given g)|]; intros H; inversion H; subst; auto.
Qed.

Lemma insert_inv g i x g' r : IdxInv g -> g_insert g i x = (g', r) -> IdxInv g'.
Proof.
  intros HI. unfold g_insert. destruct x as [rw|t]; [|intros H; inversion H; subst; auto].
  destruct (validate_row g rw) as [g1|e] eqn:Ev; [|intros H; inversion H; subst; auto].
  destruct (validate_row_rows g rw g1 Ev) as [Hr Hi].
  assert (HI1 : IdxInv g1) by (unfold IdxInv in *; now rewrite Hi, Hr).
  destruct (rid rw) as [id|] eqn:Eid.
  - set (g2 := mkGrid (py_ins i rw (rows g1)) (idx g1) (pre3 g1) (given g1)).
    intros H; inversion H; subst; clear H. unfold IdxInv; simpl.
    unfold ensure_index, index_falsy. simpl.
    assert (Hcase : forall m, idx_ok (py_ins i rw (rows g1)) m \/ idx_ok (rows g1) m ->
                    idx_ok (py_ins i rw (rows g1)) (idx_set (pystr id) rw m)).
    { intros m Hm. split.
      - intros k r Hl. destruct (str_eqb_spec (pystr id) k) as [E|E]; subst.
        + rewrite idx_lookup_set_same in Hl. inversion Hl; subst. split.
          * apply in_py_ins; auto.
          * now apply has_id_key_pystr.
        + rewrite idx_lookup_set_other in Hl by assumption.
          destruct Hm as [[Hs _]|[Hs _]]; destruct (Hs k r Hl) as [H1 H2]; split; auto.
          apply in_py_ins; auto.
      - intros r k Hin Hk. destruct (str_eqb_spec (pystr id) k) as [E|E]; subst.
        + rewrite idx_lookup_set_same. eauto.
        + rewrite idx_lookup_set_other by assumption.
          destruct Hm as [[_ Hc]|[_ Hc]]; [now apply (Hc r)|].
          apply in_py_ins in Hin as [Hin|Hin]; [|now apply (Hc r)].
          subst r. exfalso. apply E. symmetry. eapply has_id_key_eq; eauto. }
    unfold IdxInv in HI1. destruct (idx g1) as [[|e m]|] eqn:E1; simpl.
    + apply Hcase. left. apply build_index_ok.
    + apply (Hcase (e :: m)). right. exact HI1.
    + apply Hcase. left. apply build_index_ok.
  - intros H; inversion H; subst; clear H. unfold IdxInv in *; simpl.
    destruct (idx g1) as [m|]; auto. destruct HI1 as [Hs Hc]. split.
    + intros k r Hl. destruct (Hs k r Hl). split; auto. apply in_py_ins; auto.
    + intros r k Hin Hk. apply in_py_ins in Hin as [Hin|Hin]; [|now apply (Hc r)].
      subst. rewrite (has_id_key_noid k rw Eid) in Hk. discriminate.
Qed.

Lemma setitem_inv g i x g' r : IdxInv g -> g_setitem g i x = (g', r) -> IdxInv g'.
Proof.
  intros HI. unfold g_setitem. destruct x as [rw|t]; [|intros H; inversion H; subst; auto].
  destruct (validate_row g rw) as [g1|e] eqn:Ev; [|intros H; inversion H; subst; auto].
  destruct (validate_row_rows g rw g1 Ev) as [Hr Hi].
  destruct (py_set i rw (rows g1)); intros H; inversion H; subst.
  - apply reindex_inv.
  - unfold IdxInv in *. now rewrite Hi, Hr.
Qed.

Lemma delitem_inv g i g' r : IdxInv g -> g_delitem g i = (g', r) -> IdxInv g'.
Proof.
  intros HI. unfold g_delitem. destruct (py_del i (rows g)); intros H; inversion H; subst; auto.
  apply reindex_inv.
Qed.

Lemma delslice_inv g sl g' r : IdxInv g -> g_delslice g sl = (g', r) -> IdxInv g'.
Proof.
  intros HI. unfold g_delslice. destruct (py_del_slice sl (rows g)); intros H; inversion H; subst; auto.
  apply reindex_inv.
Qed.

Lemma append_all_inv xs : forall g g' r, IdxInv g -> g_append_all g xs = (g', r) -> IdxInv g'.
Proof.
  induction xs as [|x xs IH]; intros g g' r HI H; cbn [g_append_all] in H.
  - inversion H; subst; auto.
  - unfold g_append in H. destruct (g_insert g (g_len g) x) as [g1 [u|e]] eqn:E.
    + eapply IH; [|exact H]. eapply insert_inv; eauto.
    + inversion H; subst. eapply insert_inv; eauto.
Qed.

Lemma pop_inv g i g' r : IdxInv g -> g_pop g i = (g', r) -> IdxInv g'.
Proof.
  intros HI. unfold g_pop. destruct (g_getitem g i); [|intros H; inversion H; subst; auto].
  destruct (g_delitem g i) as [g1 [u|e]] eqn:E; intros H; inversion H; subst; eapply delitem_inv; eauto.
Qed.

Lemma reverse_loop_inv c : forall i n g g' r, IdxInv g -> g_reverse_loop c i n g = (g', r) -> IdxInv g'.
Proof.
  induction c as [|c IH]; intros i n g g' r HI H; cbn [g_reverse_loop] in H.
  - inversion H; subst; auto.
  - destruct (g_getitem g (n - i - 1)) as [a|e1]; [|inversion H; subst; auto].
    destruct (g_getitem g i) as [b|e2]; [|inversion H; subst; auto].
    destruct (g_setitem g i (VRow a)) as [g1 [u|e]] eqn:E1.
    + assert (H1 : IdxInv g1) by (eapply setitem_inv; eauto).
      destruct (g_setitem g1 (n - i - 1) (VRow b)) as [g2 [u2|e]] eqn:E2.
      * eapply IH; [|exact H]. eapply setitem_inv; eauto.
      * inversion H; subst. eapply setitem_inv; eauto.
    + inversion H; subst. eapply setitem_inv; eauto.
Qed.

Lemma clear_fuel_inv f : forall g g' r, IdxInv g -> g_clear_fuel f g = (g', r) -> IdxInv g'.
Proof.
  induction f as [|f IH]; intros g g' r HI H; cbn [g_clear_fuel] in H.
  - inversion H; subst; auto.
  - destruct (g_pop g (-1)) as [g1 [x|e]] eqn:E.
    + eapply IH; [|exact H]. eapply pop_inv; eauto.
    + assert (IdxInv g1) by (eapply pop_inv; eauto).
      destruct e; inversion H; subst; auto.
Qed.

Lemma new_inv p gv : IdxInv (grid_new p gv).
Proof. exact I. Qed.

Lemma gstep_inv g o g' r : IdxInv g -> gstep g o = (g', r) -> IdxInv g'.
Proof.
  intros HI. destruct o; simpl.
  - unfold g_append. destruct (g_insert g (g_len g) x) as [g1 [u|e]] eqn:E; simpl;
      intros H; inversion H; subst; eapply insert_inv; eauto.
  - destruct (g_insert g i x) as [g1 [u|e]] eqn:E; simpl;
      intros H; inversion H; subst; eapply insert_inv; eauto.
  - unfold g_extend. destruct (g_append_all g xs) as [g1 [u|e]] eqn:E; simpl;
      intros H; inversion H; subst; [apply reindex_inv | eapply append_all_inv; eauto].
  - unfold g_extend. destruct (g_append_all g xs) as [g1 [u|e]] eqn:E; simpl;
      intros H; inversion H; subst; [apply reindex_inv | eapply append_all_inv; eauto].
  - destruct (g_setitem g i x) as [g1 [u|e]] eqn:E; simpl;
      intros H; inversion H; subst; eapply setitem_inv; eauto.
  - destruct (g_delitem g i) as [g1 [u|e]] eqn:E; simpl;
      intros H; inversion H; subst; eapply delitem_inv; eauto.
  - destruct (g_delslice g sl) as [g1 [u|e]] eqn:E; simpl;
      intros H; inversion H; subst; eapply delslice_inv; eauto.
  - destruct (g_pop g (match i with Some i0 => i0 | None => -1 end)) as [g1 [u|e]] eqn:E; simpl;
      intros H; inversion H; subst; eapply pop_inv; eauto.
  - unfold g_remove. destruct (g_index g x) as [n|e]; simpl.
    + destruct (g_delitem g n) as [g1 [u|e]] eqn:E; simpl;
        intros H; inversion H; subst; eapply delitem_inv; eauto.
    + intros H; inversion H; subst; auto.
  - unfold g_reverse.
    destruct (g_reverse_loop (Nat.div2 (length (rows g))) 0 (Z.of_nat (length (rows g))) g) as [g1 [u|e]] eqn:E;
      simpl; intros H; inversion H; subst; eapply reverse_loop_inv; eauto.
  - unfold g_clear. destruct (g_clear_fuel (S (length (rows g))) g) as [g1 [u|e]] eqn:E;
      simpl; intros H; inversion H; subst; eapply clear_fuel_inv; eauto.
  - intros H; inversion H; subst; auto.
  - intros H; inversion H; subst; auto.
  - intros H; inversion H; subst; auto.
  - intros H; inversion H; subst; auto.
  - intros H; inversion H; subst; auto.
  - intros H; inversion H; subst; auto.
  - unfold g_lookup. pose proof (lookup_correct g k HI) as Hl. unfold g_get in Hl.
    destruct Hl as [H1 _]. destruct (idx_lookup k (cur_index (ensure_index g))); simpl;
      intros H; inversion H; subst; auto.
  - pose proof (lookup_correct g k HI) as Hl. unfold g_get in *.
    intros H; inversion H; subst. apply Hl.
  - intros H; inversion H; subst. apply reindex_inv.
  - destruct (g_getslice g sl) as [s|e] eqn:E; intros H; inversion H; subst; auto.
    unfold g_getslice in E. destruct (py_get_slice sl (rows g)); inversion E; subst. exact I.
  - intros H; inversion H; subst.
    destruct (g_append_all (grid_new (pre3 g) true) (map VRow (rows g))) as [g1 r1] eqn:E. simpl.
    eapply append_all_inv; [apply new_inv | exact E].
Qed.

Lemma grun_inv ops : forall g, IdxInv g -> IdxInv (grun g ops).
Proof.
  induction ops as [|o ops IH]; simpl; intros g HI; auto.
  destruct (gstep g o) as [g1 r1] eqn:E. simpl. apply IH. eapply gstep_inv; eauto.
Qed.

(* ================================================================== *)
(* C14: the rows of the grid behave as a Python list *)

Definition plain_val (x : pyval) : bool :=
  match x with VRow r => negb (v3 r) | VNotDict _ => true end.

Definition plain_op (o : gop) : bool :=
  match o with
  | GAppend x | GInsert _ x | GSetItem _ x => plain_val x
  | GExtend xs | GIAdd xs => forallb plain_val xs
  | _ => true
  end.

(* lookups are C15's subject; derived grids change the version flags only *)
Definition seq_op (o : gop) : bool :=
  match o with GLookup _ | GGet _ => false | _ => true end.

Definition erase (o : gout) : gout :=
  match o with ORows rs _ _ => ORows rs false false | x => x end.
Definition erase_res (r : res gout) : res gout :=
  match r with Ok o => Ok (erase o) | Raise e => Raise e end.

Lemma validate_plain g r : v3 r = false -> validate_row g r = Ok g.
Proof. intros H. unfold validate_row. now rewrite H. Qed.

Lemma insert_rows g i r : v3 r = false ->
  exists g', g_insert g i (VRow r) = (g', Ok tt) /\ rows g' = py_ins i r (rows g).
Proof.
  intros H. unfold g_insert. rewrite (validate_plain g r H).
  destruct (rid r); eexists; split; try reflexivity.
  simpl. unfold ensure_index. destruct (index_falsy _); reflexivity.
Qed.

Lemma setitem_rows g i r : v3 r = false ->
  match py_set i r (rows g) with
  | Some l' => exists g', g_setitem g i (VRow r) = (g', Ok tt) /\ rows g' = l'
  | None => g_setitem g i (VRow r) = (g, Raise IndexError)
  end.
Proof.
  intros H. unfold g_setitem. rewrite (validate_plain g r H).
  destruct (py_set i r (rows g)); [eexists; split; reflexivity | reflexivity].
Qed.

Lemma delitem_rows g i :
  match py_del i (rows g) with
  | Some l' => exists g', g_delitem g i = (g', Ok tt) /\ rows g' = l'
  | None => g_delitem g i = (g, Raise IndexError)
  end.
Proof.
  unfold g_delitem. destruct (py_del i (rows g)); [eexists; split; reflexivity | reflexivity].
Qed.

Lemma append_all_rows xs : forall g,
  forallb plain_val xs = true ->
  exists g' r, g_append_all g xs = (g', r) /\
    (fix go (l : list row) (xs : list pyval) : list row * res gout :=
       match xs with
       | [] => (l, Ok ONone)
       | VRow r :: xs' => go (l ++ [r]) xs'
       | VNotDict _ :: _ => (l, Raise TypeError)
       end) (rows g) xs = (rows g', match r with Ok _ => Ok ONone | Raise e => Raise e end).
Proof.
  induction xs as [|x xs IH]; intros g Hp; cbn [g_append_all].
  - exists g, (Ok tt). auto.
  - simpl in Hp. apply andb_true_iff in Hp as [Hx Hp]. destruct x as [r|t].
    + simpl in Hx. apply negb_true_iff in Hx. unfold g_append.
      destruct (insert_rows g (g_len g) r Hx) as [g1 [E1 R1]]. rewrite E1.
      destruct (IH g1 Hp) as [g' [r' [E2 R2]]]. exists g', r'. split; auto.
      rewrite R1 in R2. unfold g_len in R2. rewrite py_ins_end in R2. exact R2.
    + exists g, (Raise TypeError). split; reflexivity.
Qed.

Lemma find_row_lt x l : forall pos n, find_row x l pos = Some n -> (pos <= n < pos + length l)%nat.
Proof.
  induction l as [|r l IH]; simpl; intros pos n H; [discriminate|].
  destruct (val_matches x r).
  - inversion H; subst. lia.
  - apply IH in H. lia.
Qed.

(* clear(): pops from the end until IndexError *)
Lemma pop_last g :
  match rows g with
  | [] => g_pop g (-1) = (g, Raise IndexError)
  | _ :: _ => exists g' r, g_pop g (-1) = (g', Ok r) /\ length (rows g') = (length (rows g) - 1)%nat
  end.
Proof.
  unfold g_pop, g_getitem, g_delitem, py_get, py_del.
  destruct (rows g) as [|x l] eqn:E.
  - simpl. reflexivity.
  - rewrite norm_index_last by (simpl; lia).
    destruct (nth_error (x :: l) (length (x :: l) - 1)) eqn:En.
    + eexists. eexists. split; [reflexivity|]. simpl rows. apply del_nat_length. simpl. lia.
    + apply nth_error_None in En. simpl in En. lia.
Qed.

Lemma clear_rows f : forall g, (length (rows g) < f)%nat ->
  exists g', g_clear_fuel f g = (g', Ok tt) /\ rows g' = [].
Proof.
  induction f as [|f IH]; intros g Hlen; [lia|]. cbn [g_clear_fuel].
  pose proof (pop_last g) as Hp. destruct (rows g) as [|x l] eqn:E.
  - rewrite Hp. exists g. auto.
  - destruct Hp as [g1 [r [Hp Hl]]]. rewrite Hp. apply IH. simpl in *. lia.
Qed.

(* ------------------------------------------------------------------ *)
(* reverse(): the swap loop of MutableSequence.reverse is list reversal *)

Fixpoint rev_loop (n c j : nat) (l : list row) : list row :=
  match c with
  | O => l
  | S c' =>
      match nth_error l (n - 1 - j), nth_error l j with
      | Some a, Some b => rev_loop n c' (S j) (set_nat (n - 1 - j) b (set_nat j a l))
      | _, _ => l
      end
  end.

Definition AllPlain (g : grid) : Prop := forall r, In r (rows g) -> v3 r = false.

Lemma reverse_loop_rows c : forall j g,
  AllPlain g -> (2 * (j + c) <= length (rows g))%nat ->
  exists g', g_reverse_loop c (Z.of_nat j) (Z.of_nat (length (rows g))) g = (g', Ok tt) /\
             rows g' = rev_loop (length (rows g)) c j (rows g).
Proof.
  induction c as [|c IH]; intros j g HP Hlen; cbn [g_reverse_loop rev_loop].
  - exists g. auto.
  - set (n := length (rows g)) in *.
    assert (Hj : (j < n)%nat) by lia.
    assert (Hk : (n - 1 - j < n)%nat) by lia.
    replace (Z.of_nat n - Z.of_nat j - 1) with (Z.of_nat (n - 1 - j)) by lia.
    unfold g_getitem, py_get. fold n.
    rewrite (norm_index_nat (n - 1 - j) n Hk), (norm_index_nat j n Hj).
    destruct (nth_error (rows g) (n - 1 - j)) as [a|] eqn:Ea; [|apply nth_error_None in Ea; lia].
    destruct (nth_error (rows g) j) as [b|] eqn:Eb; [|apply nth_error_None in Eb; lia].
    assert (Ha : v3 a = false) by (apply HP; eapply nth_error_In; eauto).
    assert (Hb : v3 b = false) by (apply HP; eapply nth_error_In; eauto).
    pose proof (setitem_rows g (Z.of_nat j) a Ha) as S1. unfold py_set in S1. fold n in S1.
    rewrite (norm_index_nat j n Hj) in S1. destruct S1 as [g1 [S1 R1]]. rewrite S1.
    assert (Hn1 : length (rows g1) = n) by (rewrite R1; apply set_nat_length).
    pose proof (setitem_rows g1 (Z.of_nat (n - 1 - j)) b Hb) as S2. unfold py_set in S2.
    rewrite Hn1, (norm_index_nat (n - 1 - j) n Hk) in S2. destruct S2 as [g2 [S2 R2]]. rewrite S2.
    assert (Hn2 : length (rows g2) = n) by (rewrite R2, set_nat_length; exact Hn1).
    assert (HP2 : AllPlain g2).
    { intros r Hr. rewrite R2 in Hr. apply in_set_nat in Hr as [Hr|Hr]; [subst; auto|].
      rewrite R1 in Hr. apply in_set_nat in Hr as [Hr|Hr]; [subst; auto|]. now apply HP. }
    destruct (IH (S j) g2 HP2) as [g' [E R]]; [rewrite Hn2; lia|].
    rewrite Hn2 in E, R. replace (Z.of_nat j + 1) with (Z.of_nat (S j)) by lia.
    exists g'. split; auto. rewrite R, R2, R1. reflexivity.
Qed.

Lemma nth_error_rev (l : list row) p :
  (p < length l)%nat -> nth_error (rev l) p = nth_error l (length l - 1 - p).
Proof.
  revert p. induction l as [|x l IH]; simpl; intros p H; [lia|].
  destruct (Nat.eq_dec p (length l)) as [E|E].
  - subst. rewrite nth_error_app2 by (rewrite rev_length; lia).
    rewrite rev_length, Nat.sub_diag. replace (length l - 0 - length l)%nat with O by lia. reflexivity.
  - rewrite nth_error_app1 by (rewrite rev_length; lia). rewrite IH by lia.
    replace (length l - 0 - p)%nat with (S (length l - 1 - p)) by lia. reflexivity.
Qed.

Lemma nth_error_ext_eq (l1 l2 : list row) :
  (forall p, nth_error l1 p = nth_error l2 p) -> l1 = l2.
Proof.
  revert l2. induction l1 as [|x l1 IH]; intros [|y l2] H; auto.
  - specialize (H O). discriminate.
  - specialize (H O). discriminate.
  - pose proof (H O) as H0. simpl in H0. inversion H0; subst. f_equal.
    apply IH. intros p. apply (H (S p)).
Qed.

Lemma rev_loop_spec n l0 c : forall j l,
  length l0 = n -> length l = n -> (2 * (j + c) <= n)%nat ->
  (forall p, (p < n)%nat ->
     nth_error l p = if ((p <? j) || (n - j <=? p))%nat then nth_error l0 (n - 1 - p) else nth_error l0 p) ->
  let l' := rev_loop n c j l in
  length l' = n /\
  forall p, (p < n)%nat ->
     nth_error l' p = if ((p <? j + c) || (n - (j + c) <=? p))%nat then nth_error l0 (n - 1 - p) else nth_error l0 p.
Proof.
  induction c as [|c IH]; intros j l H0 Hl Hlen Hp; cbn [rev_loop].
  - rewrite Nat.add_0_r. auto.
  - assert (Hj : (j < n)%nat) by lia. assert (Hk : (n - 1 - j < n)%nat) by lia.
    destruct (nth_error l (n - 1 - j)) as [a|] eqn:Ea; [|apply nth_error_None in Ea; lia].
    destruct (nth_error l j) as [b|] eqn:Eb; [|apply nth_error_None in Eb; lia].
    replace (j + S c)%nat with (S j + c)%nat by lia.
    apply IH; auto.
    + now rewrite !set_nat_length.
    + lia.
    + intros p Hpn.
      rewrite nth_error_set_nat by (rewrite set_nat_length; lia).
      rewrite nth_error_set_nat by lia.
      rewrite (Hp (n - 1 - j)%nat Hk) in Ea. rewrite (Hp j Hj) in Eb.
      destruct (Nat.eqb_spec p (n - 1 - j)); [subst p|destruct (Nat.eqb_spec p j); [subst p|]].
      * (* p = n-1-j: receives b = l0[j] *)
        replace ((n - 1 - j <? S j) || (n - S j <=? n - 1 - j))%nat with true
          by (symmetry; apply orb_true_iff; right; apply Nat.leb_le; lia).
        replace ((j <? j) || (n - j <=? j))%nat with false in Eb
          by (symmetry; apply orb_false_iff; split; [apply Nat.ltb_ge | apply Nat.leb_gt]; lia).
        rewrite <- Eb. f_equal. lia.
      * (* p = j: receives a = l0[n-1-j] *)
        replace ((j <? S j) || (n - S j <=? j))%nat with true
          by (symmetry; apply orb_true_iff; left; apply Nat.ltb_lt; lia).
        replace ((n - 1 - j <? j) || (n - j <=? n - 1 - j))%nat with false in Ea
          by (symmetry; apply orb_false_iff; split; [apply Nat.ltb_ge | apply Nat.leb_gt]; lia).
        rewrite <- Ea. reflexivity.
      * rewrite (Hp p Hpn).
        replace ((p <? S j) || (n - S j <=? p))%nat with ((p <? j) || (n - j <=? p))%nat; auto.
        destruct (Nat.ltb_spec p j), (Nat.ltb_spec p (S j)), (Nat.leb_spec (n - j) p), (Nat.leb_spec (n - S j) p);
          simpl; auto; lia.
Qed.

Lemma rev_loop_is_rev (l : list row) :
  rev_loop (length l) (Nat.div2 (length l)) 0 l = rev l.
Proof.
  set (n := length l).
  assert (Hd : (2 * Nat.div2 n <= n)%nat).
  { clear. induction n as [n IH] using lt_wf_ind. destruct n as [|[|n]]; simpl; try lia.
    specialize (IH n ltac:(lia)). lia. }
  assert (Hd2 : (n <= 2 * Nat.div2 n + 1)%nat).
  { clear. induction n as [n IH] using lt_wf_ind. destruct n as [|[|n]]; simpl; try lia.
    specialize (IH n ltac:(lia)). lia. }
  destruct (rev_loop_spec n l (Nat.div2 n) O l eq_refl eq_refl ltac:(simpl; lia)) as [Hlen Hp].
  { intros p Hpn. replace ((p <? 0) || (n - 0 <=? p))%nat with false; auto.
    symmetry. apply orb_false_iff. split; [reflexivity | apply Nat.leb_gt; lia]. }
  apply nth_error_ext_eq. intros p.
  destruct (Nat.lt_ge_cases p n) as [Hpn|Hpn].
  - rewrite (Hp p Hpn), nth_error_rev by exact Hpn. simpl.
    destruct ((p <? Nat.div2 n) || (n - Nat.div2 n <=? p))%nat eqn:E; auto.
    apply orb_false_iff in E as [E1 E2]. apply Nat.ltb_ge in E1. apply Nat.leb_gt in E2.
    f_equal. fold n. lia.
  - assert (nth_error (rev_loop n (Nat.div2 n) 0 l) p = None) as -> by (apply nth_error_None; lia).
    symmetry. apply nth_error_None. rewrite rev_length. exact Hpn.
Qed.

Lemma reverse_rows g : AllPlain g ->
  exists g', g_reverse g = (g', Ok tt) /\ rows g' = rev (rows g).
Proof.
  intros HP. unfold g_reverse.
  assert (Hd : (2 * (0 + Nat.div2 (length (rows g))) <= length (rows g))%nat).
  { generalize (length (rows g)). clear. intros n. induction n as [n IH] using lt_wf_ind.
    destruct n as [|[|n]]; simpl; try lia. specialize (IH n ltac:(lia)). simpl in IH. lia. }
  destruct (reverse_loop_rows (Nat.div2 (length (rows g))) O g HP Hd) as [g' [E R]].
  exists g'. split; auto. rewrite R. apply rev_loop_is_rev.
Qed.

(* ------------------------------------------------------------------ *)
(* one step of the grid is one step of the list *)

Lemma go_all_rows (rs : list row) : forall l,
  (fix go (l : list row) (xs : list pyval) : list row * res gout :=
     match xs with
     | [] => (l, Ok ONone)
     | VRow r :: xs' => go (l ++ [r]) xs'
     | VNotDict _ :: _ => (l, Raise TypeError)
     end) l (map VRow rs) = (l ++ rs, Ok ONone).
Proof.
  induction rs as [|r rs IH]; intros l; simpl.
  - now rewrite app_nil_r.
  - rewrite IH. now rewrite <- app_assoc.
Qed.

Lemma append_all_plain xs : forall g g' r,
  AllPlain g -> forallb plain_val xs = true -> g_append_all g xs = (g', r) -> AllPlain g'.
Proof.
  induction xs as [|x xs IH]; intros g g' r HP Hp H; cbn [g_append_all] in H.
  - inversion H; subst; auto.
  - simpl in Hp. apply andb_true_iff in Hp as [Hx Hp]. destruct x as [rw|t].
    + simpl in Hx. apply negb_true_iff in Hx. unfold g_append in H.
      destruct (insert_rows g (g_len g) rw Hx) as [g1 [E R]]. rewrite E in H.
      eapply IH; [|exact Hp|exact H].
      intros x Hin. rewrite R in Hin. apply in_py_ins in Hin as [Hin|Hin]; subst; auto.
    + simpl in H. inversion H; subst; auto.
Qed.

Lemma reindex_rows g : rows (reindex g) = rows g.
Proof. reflexivity. Qed.

Lemma gstep_list g o g' r :
  AllPlain g -> plain_op o = true -> seq_op o = true -> gstep g o = (g', r) ->
  lst_step (rows g) o = (rows g', erase_res r) /\ AllPlain g'.
Proof.
  intros HP Hpl Hs. destruct o; simpl in Hpl, Hs; try discriminate; simpl.
  - (* append *) destruct x as [rw|t]; simpl in Hpl.
    + apply negb_true_iff in Hpl. unfold g_append.
      destruct (insert_rows g (g_len g) rw Hpl) as [g1 [E R]]. rewrite E. simpl.
      intros H; inversion H; subst. unfold g_len in R. rewrite py_ins_end in R. rewrite R. split; auto.
      intros r Hr. rewrite R in Hr. apply in_app_iff in Hr as [Hr|[Hr|[]]]; subst; auto.
    + intros H; inversion H; subst; auto.
  - (* insert *) destruct x as [rw|t]; simpl in Hpl.
    + apply negb_true_iff in Hpl. destruct (insert_rows g i rw Hpl) as [g1 [E R]]. rewrite E. simpl.
      intros H; inversion H; subst g' r. rewrite R. split; auto.
      intros r Hr. rewrite R in Hr. apply in_py_ins in Hr as [Hr|Hr]; subst; auto.
    + intros H; inversion H; subst; auto.
  - (* extend *) unfold g_extend. destruct (append_all_rows xs g Hpl) as [g1 [r1 [E R]]]. rewrite E, R.
    pose proof (append_all_plain xs g g1 r1 HP Hpl E) as HP1.
    destruct r1; simpl; intros H; inversion H; subst; simpl; split; auto.
  - (* += *) unfold g_extend. destruct (append_all_rows xs g Hpl) as [g1 [r1 [E R]]]. rewrite E, R.
    pose proof (append_all_plain xs g g1 r1 HP Hpl E) as HP1.
    destruct r1; simpl; intros H; inversion H; subst; simpl; split; auto.
  - (* setitem *) destruct x as [rw|t]; simpl in Hpl.
    + apply negb_true_iff in Hpl. pose proof (setitem_rows g i rw Hpl) as S. unfold py_set in *.
      destruct (norm_index i (length (rows g))) as [n|] eqn:En.
      * destruct S as [g1 [E R]]. rewrite E. simpl. intros H; inversion H; subst g' r. rewrite R. split; auto.
        intros y Hy. rewrite R in Hy. apply in_set_nat in Hy as [Hy|Hy]; subst; auto.
      * rewrite S. simpl. intros H; inversion H; subst; auto.
    + intros H; inversion H; subst; auto.
  - (* delitem *) pose proof (delitem_rows g i) as S. unfold py_del in *.
    destruct (norm_index i (length (rows g))) as [n|] eqn:En.
    + destruct S as [g1 [E R]]. rewrite E. simpl. intros H; inversion H; subst g' r. rewrite R. split; auto.
      intros y Hy. rewrite R in Hy. apply in_del_nat in Hy. auto.
    + rewrite S. simpl. intros H; inversion H; subst; auto.
  - (* delslice *) unfold g_delslice. destruct (py_del_slice sl (rows g)) as [l'|] eqn:El; simpl;
      intros H; inversion H; subst; simpl; split; auto.
    intros r Hr. unfold py_del_slice in El. destruct (slice_positions sl (length (rows g))); inversion El; subst.
    apply in_drop_positions in Hr. auto.
  - (* pop *) set (j := match i with Some i0 => i0 | None => -1 end).
    unfold g_pop, g_getitem. pose proof (delitem_rows g j) as S.
    unfold py_get, py_del in *. destruct (norm_index j (length (rows g))) as [n|] eqn:En.
    + pose proof (norm_index_lt _ _ _ En) as Hn.
      destruct (nth_error (rows g) n) as [x|] eqn:Ex; [|apply nth_error_None in Ex; lia].
      destruct S as [g1 [E R]]. rewrite E. simpl. intros H; inversion H; subst g' r. rewrite R. split; auto.
      intros y Hy. rewrite R in Hy. apply in_del_nat in Hy. auto.
    + simpl. intros H; inversion H; subst; auto.
  - (* remove *) unfold g_remove, g_index. destruct (find_row x (rows g) 0) as [n|] eqn:Ef.
    + pose proof (find_row_lt _ _ _ _ Ef) as Hn. pose proof (delitem_rows g (Z.of_nat n)) as S.
      unfold py_del in S. rewrite norm_index_nat in S by lia. destruct S as [g1 [E R]]. rewrite E. simpl.
      intros H; inversion H; subst g' r. rewrite R. split; auto. intros y Hy. rewrite R in Hy. apply in_del_nat in Hy. auto.
    + simpl. intros H; inversion H; subst; auto.
  - (* reverse *) destruct (reverse_rows g HP) as [g1 [E R]]. rewrite E. simpl.
    intros H; inversion H; subst g' r. rewrite R. split; auto. intros y Hy. rewrite R in Hy. rewrite <- in_rev in Hy. auto.
  - (* clear *) unfold g_clear. destruct (clear_rows (S (length (rows g))) g ltac:(lia)) as [g1 [E R]].
    rewrite E. simpl. intros H; inversion H; subst g' r. rewrite R. split; auto. intros y Hy. rewrite R in Hy. destruct Hy.
  - (* len *) intros H; inversion H; subst; auto.
  - (* getitem *) unfold g_getitem. destruct (py_get i (rows g)); intros H; inversion H; subst; auto.
  - (* getslice *) unfold g_getslice. destruct (py_get_slice sl (rows g)); intros H; inversion H; subst; auto.
  - (* contains *) intros H; inversion H; subst; auto.
  - (* index *) unfold g_index. destruct (find_row x (rows g) 0); intros H; inversion H; subst; auto.
  - (* count *) intros H; inversion H; subst; auto.
  - (* reindex *) intros H; inversion H; subst; auto.
  - (* continue on a slice *) unfold g_getslice. destruct (py_get_slice sl (rows g)) as [rs|] eqn:El;
      intros H; inversion H; subst; simpl; split; auto.
    intros r Hr. unfold py_get_slice in El. destruct (slice_positions sl (length (rows g))); inversion El; subst.
    apply in_flat_nth in Hr. auto.
  - (* continue on the filtered grid *)
    assert (Hall : forallb plain_val (map VRow (rows g)) = true).
    { apply forallb_forall. intros x Hx. apply in_map_iff in Hx as [rw [Hx Hin]]. subst. simpl.
      apply negb_true_iff. auto. }
    destruct (append_all_rows (map VRow (rows g)) (grid_new (pre3 g) true) Hall) as [g1 [r1 [E R]]].
    rewrite E. simpl. intros H; inversion H; subst; clear H.
    simpl in R. rewrite go_all_rows in R. simpl in R. inversion R; subst. split; auto.
    eapply append_all_plain; [|exact Hall|exact E]. intros r [].
Qed.

(* ------------------------------------------------------------------ *)
(* lifted to every history *)

Fixpoint gouts (g : grid) (ops : list gop) : list (res gout) :=
  match ops with [] => [] | o :: ops' => snd (gstep g o) :: gouts (fst (gstep g o)) ops' end.
Fixpoint lrun (l : list row) (ops : list gop) : list row :=
  match ops with [] => l | o :: ops' => lrun (fst (lst_step l o)) ops' end.
Fixpoint louts (l : list row) (ops : list gop) : list (res gout) :=
  match ops with [] => [] | o :: ops' => snd (lst_step l o) :: louts (fst (lst_step l o)) ops' end.

Lemma grun_list ops : forall g,
  AllPlain g -> forallb plain_op ops = true -> forallb seq_op ops = true ->
  rows (grun g ops) = lrun (rows g) ops /\ map erase_res (gouts g ops) = louts (rows g) ops.
Proof.
  induction ops as [|o ops IH]; intros g HP H1 H2; simpl; auto.
  simpl in H1, H2. apply andb_true_iff in H1 as [H1 H1']. apply andb_true_iff in H2 as [H2 H2'].
  destruct (gstep g o) as [g1 r1] eqn:E. destruct (gstep_list g o g1 r1 HP H1 H2 E) as [A B].
  rewrite A. simpl. destruct (IH g1 B H1' H2') as [C D]. split; auto. now rewrite D.
Qed.

(* a refused non-dict row: TypeError, nothing changes *)
Lemma notdict_refused g t :
  (forall i, gstep g (GInsert i (VNotDict t)) = (g, Raise TypeError)) /\
  gstep g (GAppend (VNotDict t)) = (g, Raise TypeError) /\
  (forall i, gstep g (GSetItem i (VNotDict t)) = (g, Raise TypeError)).
Proof. repeat split. Qed.

(* lookups never raise anything but KeyError, and never fail internally *)
Lemma lookup_only_keyerror g k g' e : gstep g (GLookup k) = (g', Raise e) -> e = KeyError.
Proof.
  simpl. unfold g_lookup. destruct (idx_lookup k (cur_index (ensure_index g))); simpl;
    intros H; inversion H; subst; auto.
Qed.
