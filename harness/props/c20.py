"""C20 - a Quantity is numerically transparent.

Theorems: coq/theories/Props/C20.v over the method table of class Qty
regenerated from hszinc/datatypes.py (Gen/QtyData.v) and the model of Python's
operator dispatch (Model/Qty.v).
Tie: the translator (fails closed on any method body it cannot classify) + this
correspondence: for every operator and operand shape the model says WHICH plain
expression is evaluated; it is evaluated on real numbers and compared with what
the real Quantity gives (value bits, type, exception class).  The property
itself is checked directly as well (Quantity vs plain value)."""
import math
import operator
import random
import struct

from common import Sym

COMPONENTS = ['qty']

BINOPS = {
    'add': operator.add, 'sub': operator.sub, 'mul': operator.mul, 'truediv': operator.truediv,
    'floordiv': operator.floordiv, 'mod': operator.mod, 'divmod': divmod, 'pow': pow,
    'lshift': operator.lshift, 'rshift': operator.rshift, 'and': operator.and_, 'xor': operator.xor, 'or': operator.or_,
}
CMPOPS = {'lt': operator.lt, 'le': operator.le, 'eq': operator.eq, 'ne': operator.ne, 'ge': operator.ge, 'gt': operator.gt}
UNOPS = {'neg': operator.neg, 'pos': operator.pos, 'abs': abs, 'invert': operator.invert,
         'int': int, 'float': float, 'complex': complex, 'index': operator.index}

NUMBERS = [0, 1, -1, 2, 3, -7, 10, 255, 2 ** 70, -2 ** 70, 10 ** 30 + 1, True, False,
           0.0, -0.0, 0.5, -2.5, 3.5, 1e-7, 1e16, 1e308, -1e308, 5e-324, float('inf'), float('-inf'), float('nan'),
           0.1, 1.0, -1.0, 2.0, 9007199254740993, 1e22]


def canon(x):
    """value -> comparable form: type name + exact bits"""
    if isinstance(x, bool):
        return ('bool', x)
    if isinstance(x, int):
        return ('int', x)
    if isinstance(x, float):
        return ('float', struct.pack('>d', x) if not math.isnan(x) else b'nan')
    if isinstance(x, complex):
        return ('complex', canon(x.real), canon(x.imag))
    if isinstance(x, tuple):
        return ('tuple',) + tuple(canon(y) for y in x)
    return (type(x).__name__, repr(x))


def attempt(f, *args):
    try:
        return ('ok', canon(f(*args)))
    except Exception as e:  # noqa
        return ('raise', type(e).__name__)


def too_big(name, a, b):
    if name == 'pow' and isinstance(a, int) and isinstance(b, int) and abs(b) > 300 and abs(a) > 1:
        return True
    if name == 'lshift' and isinstance(a, int) and isinstance(b, int) and b > 4096:
        return False      # raises OverflowError/MemoryError quickly only for huge b; 2**70 is "huge"
    return False


def evaluate(e, env):
    """evaluate a model expression on real numbers"""
    k = e[0]
    if e == 'none':
        return None
    if k == 'v':
        return env[e[1]]
    if k == 'bin':
        return BINOPS[e[1]](evaluate(e[2], env), evaluate(e[3], env))
    if k == 'pow3':
        return pow(evaluate(e[1], env), evaluate(e[2], env), evaluate(e[3], env))
    if k == 'un':
        return UNOPS[e[1]](evaluate(e[2], env))
    if k == 'cmp':
        return CMPOPS[e[1]](evaluate(e[2], env), evaluate(e[3], env))
    if k == 'hash':
        u = e[2]
        return hash((evaluate(e[1], env), None if u == 'none' else u[1]))
    raise AssertionError(e)


def model_eval(m, env):
    if m[0] == 'raise':
        return ('raise', m[1])
    return attempt(evaluate, m[1], env)


def run(ctx):
    import hszinc
    Q = hszinc.Quantity
    rng = random.Random(ctx.seed)
    thorough = ctx.tier == 'thorough' or ctx.escalate
    nums = list(NUMBERS)
    if thorough:
        for _ in range(30):
            nums.append(rng.choice([rng.randint(-10 ** 6, 10 ** 6), rng.uniform(-1e6, 1e6),
                                    struct.unpack('>d', struct.pack('>Q', rng.getrandbits(64)))[0]]))
    else:
        nums = nums[:26] + rng.sample(nums[26:], 3)
    ctx.coverage['rule'] = ('13 binary operators (incl. divmod, pow) x {Q.x, x.Q, Q.Q same unit, Q.Q other unit}, 6 comparisons x the same shapes, '
                            '- + abs ~ int float complex index, 3-argument pow, hash; operands all ordered pairs of a catalogue of %d numbers '
                            '(0, +-1, small/large ints, 2**70, +-0.0, 0.5, 1e308, 5e-324, +-inf, nan, bools, 2**53+1); a combination is non-trivial when the '
                            'plain operation does not raise TypeError; results compared by type and exact bits, exceptions by class' % len(nums))
    u1, u2 = 'kg', 'm'
    table = ctx.model.ask([[Sym('qty-table'), [u1], [u2]], [Sym('qty-table'), Sym('none'), [u1]]])
    tb, tc, tu, tp3, th = table[0]
    tb_none = table[1]
    shapes = ['Qx', 'xQ', 'QQ']
    nontriv = set()
    corr_broken = False

    def report_corr(what, snippet):
        nonlocal corr_broken
        if not corr_broken:
            ctx.violation('correspondence-broken', what, {'component': 'Qty dispatch model', 'python': snippet})
        corr_broken = True

    def check(kind, name, shape, a, b, impl, plain, model):
        ctx.coverage['evaluations'] += 1
        if plain[0] != 'raise' or plain[1] != 'TypeError':
            nontriv.add((kind, name, shape, repr(a), repr(b)))
        if impl != plain:
            ctx.violation('impl-counterexample',
                          '%s %s %s with v=%r, other=%r: Quantity gives %r, the plain value gives %r' % (kind, name, shape, a, b, impl, plain),
                          {'kind': kind, 'op': name, 'shape': shape, 'v': repr(a), 'x': repr(b)})
            return False
        if model is not None and model != impl:
            report_corr('%s %s %s with v=%r, other=%r: model evaluates to %r, Quantity gives %r' % (kind, name, shape, a, b, model, impl),
                        'see replay')
        ctx.count(kind + ':' + ('raise' if impl[0] == 'raise' else 'ok'))
        return True

    # units are compared as they are: any two different units - the empty unit and no unit included - refuse a comparison
    units = ['kg', 'm', '', None, 'KG', 'kg ', u'\u00b0C', '%', 0]
    for ua in units:
        for ub in units:
            for (a, b) in ((1, 1), (0, 0), (1.5, 2), (0, 1)):
                for name, f in CMPOPS.items():
                    ctx.coverage['evaluations'] += 1
                    got = attempt(f, Q(a, ua), Q(b, ub))
                    same = (ua == ub) and (type(ua) is type(ub))
                    want = attempt(f, a, b) if same else ('raise', 'TypeError')
                    if got != want:
                        ctx.violation('impl-counterexample', 'comparison %s of Quantity(%r, %r) with Quantity(%r, %r) gives %r, expected %r' % (name, a, ua, b, ub, got, want),
                                      {'kind': 'cmp-units', 'op': name, 'a': repr(a), 'ua': repr(ua), 'b': repr(b), 'ub': repr(ub)})
                        return
    # the SAME Quantity object on both sides compares as its value compared with itself (nan == nan is False, nan != nan is True)
    for a in list(nums) + [float('nan'), float('inf'), -float('inf'), -0.0]:
        for u in (None, 'kg', ''):
            q = Q(a, u)
            for name, f in CMPOPS.items():
                ctx.coverage['evaluations'] += 1
                ctx.count('cmp-same-object')
                got, want = attempt(f, q, q), attempt(f, a, a)
                if got != want:
                    ctx.violation('impl-counterexample', 'comparison %s of Quantity(%r, %r) with ITSELF (the same object on both sides) gives %r, the value compared with itself gives %r'
                                  % (name, a, u, got, want), {'kind': 'cmp-same-object', 'op': name, 'a': repr(a), 'u': repr(u)})
                    return
    for a in nums:
        qa = Q(a, u1)
        for b in nums:
            qb_same, qb_other = Q(b, u1), Q(b, u2)
            env = {0: a, 1: b}
            for si, shape in enumerate(shapes):
                for (name, m) in tb[si]:
                    if too_big(name, a if shape != 'xQ' else b, b if shape != 'xQ' else a):
                        continue
                    f = BINOPS[name]
                    if shape == 'Qx':
                        impl, plain = attempt(f, qa, b), attempt(f, a, b)
                    elif shape == 'xQ':
                        impl, plain = attempt(f, b, qa), attempt(f, b, a)
                    else:
                        impl, plain = attempt(f, qa, qb_other), attempt(f, a, b)
                        impl2 = attempt(f, qa, qb_same)
                        if impl2 != plain:
                            impl = impl2
                    if not check('binary', name, shape, a, b, impl, plain, model_eval(m, env)):
                        return
                for (name, m) in tc[si]:
                    f = CMPOPS[name]
                    if shape == 'Qx':
                        impl, plain = attempt(f, qa, b), attempt(f, a, b)
                        mod = model_eval(m, env)
                    elif shape == 'xQ':
                        impl, plain = attempt(f, b, qa), attempt(f, b, a)
                        mod = model_eval(m, env)
                    else:
                        impl, plain = attempt(f, qa, qb_same), attempt(f, a, b)
                        mod = None            # the table was asked with different units, checked next
                        other = attempt(f, qa, qb_other)
                        ctx.coverage['evaluations'] += 1
                        if other != ('raise', 'TypeError'):
                            ctx.violation('impl-counterexample',
                                          'comparison %s of Quantities with different units (%r kg vs %r m) gives %r instead of TypeError' % (name, a, b, other),
                                          {'kind': 'cmp', 'op': name, 'v': repr(a), 'x': repr(b)})
                            return
                        if model_eval(m, env) != other:
                            report_corr('cmp %s QQ other unit: model %r, Quantity %r' % (name, model_eval(m, env), other), '')
                    if not check('cmp', name, shape, a, b, impl, plain, mod):
                        return
        for (name, m) in tu:
            if name == 'index':
                continue      # not part of the property (see Props/C20.v)
            f = UNOPS[name]
            if not check('unary', name, 'Q', a, None, attempt(f, qa), attempt(f, a), model_eval(m, {0: a})):
                return
        ctx.coverage['evaluations'] += 1
        if attempt(hash, qa) != attempt(lambda: hash((a, u1))) or model_eval(th, {0: a}) != attempt(hash, qa):
            report_corr('hash(Quantity(%r, kg)) is not hash((value, unit))' % (a,), '')
    # 3-argument pow, ints only
    ints = [n for n in nums if isinstance(n, int) and not isinstance(n, bool) and abs(n) < 10 ** 6]
    for a in ints:
        for b in ints:
            for mod in (1, 7, -5, 0):
                impl, plain = attempt(pow, Q(a, u1), b, mod), attempt(pow, a, b, mod)
                if not check('pow3', 'pow', 'Q', a, (b, mod), impl, plain, model_eval(tp3, {0: a, 1: b, 2: mod})):
                    return
    # same-unit Q.Q comparisons against the model asked with equal units
    same = ctx.model.ask([[Sym('qty-table'), [u1], [u1]]])[0][1][2]
    for a in nums[:12]:
        for b in nums[:12]:
            for (name, m) in same:
                impl = attempt(CMPOPS[name], Q(a, u1), Q(b, u1))
                if model_eval(m, {0: a, 1: b}) != impl:
                    report_corr('cmp %s QQ same unit: model %r, Quantity %r' % (name, model_eval(m, {0: a, 1: b}), impl), '')
    ctx.sample({'operands': [repr(n) for n in nums[:10]], 'model_table_excerpt': tb[0][:3]})
    ctx.coverage['distinct_nontrivial'] = len(nontriv)
    ctx.coverage['traces_validated_against_impl'] = ctx.coverage['evaluations']
    ctx.coverage['exhaustive'] = True


def replay(ctx, data):
    import hszinc
    Q = hszinc.Quantity
    if data.get('kind') == 'cmp-same-object':
        v = eval(data['a'], {'inf': float('inf'), 'nan': float('nan')})
        q = Q(v, eval(data['u']))
        f = CMPOPS[data['op']]
        ctx.coverage['evaluations'] += 1
        impl, plain = attempt(f, q, q), attempt(f, v, v)
        print('Quantity with itself:', impl, ' value with itself:', plain)
        if impl != plain:
            ctx.violation('impl-counterexample', 'comparison %s of a Quantity with itself: %r, the value with itself %r' % (data['op'], impl, plain), data)
        return
    if data.get('kind') == 'cmp-units':
        ev = lambda t: eval(t, {'inf': float('inf'), 'nan': float('nan')})
        a_, ua, b_, ub = ev(data['a']), ev(data['ua']), ev(data['b']), ev(data['ub'])
        f = CMPOPS[data['op']]
        ctx.coverage['evaluations'] += 1
        got = attempt(f, Q(a_, ua), Q(b_, ub))
        want = attempt(f, a_, b_) if (ua == ub and type(ua) is type(ub)) else ('raise', 'TypeError')
        print('Quantities:', got, ' expected:', want)
        if got != want:
            ctx.violation('impl-counterexample', 'comparison %s of Quantity(%r, %r) with Quantity(%r, %r) gives %r, expected %r' % (data['op'], a_, ua, b_, ub, got, want), data)
        return
    a = eval(data['v'], {'inf': float('inf'), 'nan': float('nan')})
    b = eval(data['x'], {'inf': float('inf'), 'nan': float('nan')})
    kind, name, shape = data['kind'], data['op'], data.get('shape', 'Qx')
    f = {'binary': BINOPS, 'cmp': CMPOPS, 'unary': UNOPS, 'pow3': {'pow': pow}}[kind][name]
    ctx.coverage['evaluations'] += 1
    if kind == 'unary':
        impl, plain = attempt(f, Q(a, 'kg')), attempt(f, a)
    elif kind == 'pow3':
        impl, plain = attempt(pow, Q(a, 'kg'), b[0], b[1]), attempt(pow, a, b[0], b[1])
    elif shape == 'xQ':
        impl, plain = attempt(f, b, Q(a, 'kg')), attempt(f, b, a)
    elif shape == 'QQ':
        impl, plain = attempt(f, Q(a, 'kg'), Q(b, 'kg')), attempt(f, a, b)
    else:
        impl, plain = attempt(f, Q(a, 'kg'), b), attempt(f, a, b)
    print('Quantity:', impl, ' plain:', plain)
    if impl != plain:
        ctx.violation('impl-counterexample', '%s %s: Quantity %r, plain %r' % (kind, name, impl, plain), data)
