"""C16 - ordered metadata maps (SortableDict / MetadataObject).

Theorems: coq/theories/Props/C16.v  (Model/SortableDict.v: the code model `step`,
the reference ordered map `om_step`; refinement and invariants proved).
Tie: lock-step correspondence model vs hszinc.metadata.MetadataObject on
operation sequences (exhaustive small alphabet + random long), and the property
itself (implementation vs the extracted reference map; uniqueness of keys;
rejected operations change nothing)."""
import itertools
import random

from common import Sym

COMPONENTS = []

KEYS3 = ['a', 'b', 'c']
MISSING = 'zz'
# the model's values are integers; this one stands for Python's None on the implementation side (a present key
# whose value is None - and, with 0, a present key whose value is falsy)
NONE_CODE = 990001


def dv(v):
    return None if v == NONE_CODE else v


def ev(v):
    return NONE_CODE if v is None else v


def enc_op(op):
    n = op[0]
    if n == 'add':
        _, k, v, after, index, pos_key, replace = op
        return [Sym('add'), k, v, bool(after), Sym('none') if index is None else index,
                Sym('none') if pos_key is None else [pos_key], bool(replace)]
    if n in ('extend',):
        return [Sym(n), [[k, v] for k, v in op[1]], bool(op[2])]
    if n == 'update':
        return [Sym(n), [[k, v] for k, v in op[1]]]
    if n == 'sort':
        return [Sym(n), bool(op[1])]
    if n == 'append':
        return [Sym(n), op[1], op[2], bool(op[3])]
    return [Sym(n)] + list(op[1:])


def alphabet(keys):
    ops = []
    v = 7
    for k in keys:
        ops.append(('set', k, v))
        ops.append(('add', k, v, False, None, None, False))
        ops.append(('add', k, v, True, None, None, True))
        ops.append(('add', k, v, False, 1, keys[0], True))          # both given
        for idx in (0, 1, 2, 5):
            for after in (False, True):
                for rep in (True, False):
                    ops.append(('add', k, v, after, idx, None, rep))
        for pk in keys + [MISSING]:
            for after in (False, True):
                for rep in (True, False):
                    ops.append(('add', k, v, after, None, pk, rep))
        ops.append(('del', k))
        ops.append(('pop', k))
        ops.append(('append', k, v, True))
        ops.append(('append', k, v, False))
        ops.append(('setdefault', k, v))
        ops.append(('set', k, NONE_CODE))
        ops.append(('set', k, 0))
    ops.append(('set', keys[0], -1))                                  # refused by validate_fn
    ops.append(('add', keys[1], -1, True, None, keys[0], True))
    ops.append(('del', MISSING))
    ops.append(('pop', MISSING))
    for i in (0, 1, -1, 7, -7):
        ops.append(('popat', i))
    ops.append(('popitem',))
    ops.append(('sort', False))
    ops.append(('sort', True))
    ops.append(('reverse',))
    ops.append(('clear',))
    ops.append(('extend', [(keys[1], 8), (keys[0], 9)], True))
    ops.append(('extend', [(keys[-1], 8), (keys[0], 9), (MISSING, 3)], False))
    ops.append(('extend', [(keys[0], 8), (keys[1], -1), (keys[2], 3)], True))
    # the pair list itself repeats a key (first occurrence wins and the repeat is rejected under replace=False; last wins under replace=True)
    ops.append(('extend', [(keys[0], 1), (keys[1], 2), (keys[0], 3), (keys[2], 4)], False))
    ops.append(('extend', [(keys[0], 1), (keys[1], 2), (keys[0], 3), (keys[2], 4)], True))
    ops.append(('extend', [(keys[1], 5), (keys[1], 6)], False))
    ops.append(('update', [(keys[-1], 1), (keys[0], 2)]))
    ops.append(('update', [(keys[1], 1), (keys[1], 2)]))
    return ops


def base_states(keys):
    """op prefixes reaching every ordered subset of keys, and states in which a present key holds None or 0"""
    out = []
    for n in range(len(keys) + 1):
        for perm in itertools.permutations(keys, n):
            out.append([('set', k, i + 1) for i, k in enumerate(perm)])
    for special in (NONE_CODE, 0):
        for n in (1, 2, 3):
            for j in range(n):
                out.append([('set', k, special if i == j else i + 1) for i, k in enumerate(keys[:n])])
    return out


def impl_apply(d, op):
    n = op[0]
    if n == 'set':
        d[op[1]] = dv(op[2])
        return 'none'
    if n == 'add':
        _, k, v, after, index, pos_key, replace = op
        d.add_item(k, dv(v), after=after, index=index, pos_key=pos_key, replace=replace)
        return 'none'
    if n == 'del':
        del d[op[1]]
        return 'none'
    if n == 'pop':
        return ['val', ev(d.pop(op[1]))]
    if n == 'popat':
        return ['val', ev(d.pop_at(op[1]))]
    if n == 'popitem':
        k, v = d.popitem()
        return ['item', k, ev(v)]
    if n == 'sort':
        d.sort(reverse=op[1])
        return 'none'
    if n == 'reverse':
        d.reverse()
        return 'none'
    if n == 'clear':
        d.clear()
        return 'none'
    if n == 'append':
        d.append(op[1], dv(op[2]), replace=op[3])
        return 'none'
    if n == 'extend':
        d.extend([(k, dv(v)) for k, v in op[1]], replace=op[2])
        return 'none'
    if n == 'update':
        d.update([(k, dv(v)) for k, v in op[1]])
        return 'none'
    if n == 'setdefault':
        return ['val', ev(d.setdefault(op[1], dv(op[2])))]
    raise AssertionError(op)


def _vfn(v):
    if v is not None and v < 0:
        raise ValueError('negative')


def impl_trace(ops):
    from hszinc.metadata import MetadataObject
    d = MetadataObject(validate_fn=_vfn)
    out = []
    for op in ops:
        try:
            r = ['ok', impl_apply(d, op)]
        except Exception as e:  # noqa
            r = ['raise', type(e).__name__]
        keys = list(d)
        items = [[k, ev(d._values.get(k, '<missing>'))] for k in keys]
        out.append((r, items, keys, len(d), sorted(d._values.keys())))
    return out


REJECTING = ('add', 'set', 'append', 'del', 'pop', 'popat', 'popitem', 'setdefault')


def check_cases(ctx, cases, seen_nontrivial):
    """cases: list of op lists.  Returns False when a violation was recorded."""
    answers = ctx.model.ask_parallel([[Sym('sd-run')] + [enc_op(o) for o in ops] for ops in cases])
    for ops, ans in zip(cases, answers):
        tr = impl_trace(ops)
        ctx.coverage['evaluations'] += 1
        prev_items = []
        nontrivial = False
        for i, (op, (r, items, keys, ln, valkeys)) in enumerate(zip(ops, tr)):
            m_r, m_items, m_order, s_r, s_items = ans[i]
            m_r = ['ok', m_r[1]] if m_r[0] == 'ok' else ['raise', m_r[1]]
            s_r = ['ok', s_r[1]] if s_r[0] == 'ok' else ['raise', s_r[1]]
            here = {'ops': [list(map(_j, o)) for o in ops[:i + 1]], 'step': i,
                    'python': 'from hszinc.metadata import MetadataObject  # replay with ./check C16 --replay'}
            # -- the property on the implementation, judged by the reference map (spec)
            problem = None
            if len(set(keys)) != len(keys):
                problem = 'duplicate keys in iteration order: %r' % keys
            elif ln != len(keys) or sorted(keys) != valkeys:
                problem = 'length/content mismatch: len=%d order=%r values=%r' % (ln, keys, valkeys)
            elif r != s_r:
                problem = 'result %r, reference ordered map says %r' % (r, s_r)
            elif items != s_items:
                problem = 'items %r, reference ordered map says %r' % (items, s_items)
            elif r[0] == 'raise' and op[0] in REJECTING and items != prev_items:
                problem = 'rejected operation changed the map: %r -> %r' % (prev_items, items)
            if problem:
                ctx.violation('impl-counterexample', 'after %r: %s' % (ops[:i + 1], problem), here)
                return False
            # -- correspondence: the code model
            if m_r != r or m_items != items or m_order != keys:
                ctx.violation('correspondence-broken',
                              'model of SortableDict disagrees after %r: model %r %r, implementation %r %r'
                              % (ops[:i + 1], m_r, m_items, r, items), dict(here, component='SortableDict.step'))
                return False
            if r[0] == 'raise' or (op[0] == 'add' and (op[4] is not None or op[5] is not None)) \
                    or op[0] in ('del', 'pop', 'popat', 'popitem', 'sort', 'reverse'):
                nontrivial = True
            prev_items = items
            ctx.count('op:' + op[0] + (':raise:' + r[1] if r[0] == 'raise' else ''))
        ctx.coverage['traces_validated_against_impl'] += 1
        if nontrivial:
            seen_nontrivial.add(repr(ops))
    return True


def _j(x):
    return list(x) if isinstance(x, tuple) else x


def random_case(rng, keys, alpha, n):
    ops = []
    for i in range(n):
        op = rng.choice(alpha)
        if op[0] in ('set', 'add', 'append', 'setdefault') and op[2] > 0 and op[2] != NONE_CODE:
            op = (op[0], op[1], 10 + i) + tuple(op[3:])
        ops.append(op)
    return ops


KEYFNS = [('len', len), ('first', lambda k: k[:1]), ('last', lambda k: k[-1:]), ('const', lambda k: 0),
          ('lower', lambda k: k.lower()), ('identity', lambda k: k)]


def keyed_sorts(ctx, rng, thorough):
    """sort(key=f, reverse=r) is list.sort on the key order (stable, reverse keeps the order of ties): the reference is
    sorted() on the keys; content and length must not change.  (The code model has sort() / sort(reverse=True) only.)"""
    import itertools
    from hszinc.metadata import MetadataObject
    from hszinc.sortabledict import SortableDict
    pool = ['a', 'bb', 'b', 'ab', 'c', 'B', 'ba']
    perms = []
    for n in (2, 3, 4):
        for sub in itertools.permutations(pool, n):
            perms.append(list(sub))
    if not thorough:
        perms = perms[:40] + rng.sample(perms, 260)
    for cls in (SortableDict, MetadataObject):
        for order in perms:
            for fname, f in KEYFNS:
                for rev in (False, True):
                    for how in ('kw', 'key-only', 'rev-only'):
                        if how == 'key-only' and rev or how == 'rev-only' and fname != 'identity':
                            continue
                        d = cls()
                        for i, k in enumerate(order):
                            d[k] = i
                        try:
                            if how == 'kw':
                                d.sort(key=f, reverse=rev)
                            elif how == 'key-only':
                                d.sort(key=f)
                            else:
                                d.sort(reverse=rev)
                            got = ['ok', list(d.keys())]
                        except Exception as e:  # noqa
                            got = ['raise', type(e).__name__]
                        want = ['ok', sorted(order, key=f, reverse=rev)]
                        ctx.coverage['evaluations'] += 1
                        ctx.count('keyed-sort:' + fname + (':reverse' if rev else ''))
                        content = sorted((k, d[k]) for k in d) if got[0] == 'ok' else None
                        if got != want or content != sorted((k, i) for i, k in enumerate(order)) or len(d) != len(order):
                            ctx.violation('impl-counterexample',
                                          '%s built by storing %r, then sort(%s): keys %r, list.sort gives %r (content %r)'
                                          % (cls.__name__, order, {'kw': 'key=%s, reverse=%r' % (fname, rev), 'key-only': 'key=%s' % fname,
                                                                   'rev-only': 'reverse=%r' % rev}[how], got, want, content),
                                          {'class': cls.__name__, 'stores': order, 'key': fname, 'reverse': rev, 'call': how,
                                           'python': 'd = %s(); [d.__setitem__(k, i) for i, k in enumerate(%r)]; d.sort(key=<%s>, reverse=%r); list(d.keys())'
                                                     % (cls.__name__, order, fname, rev)})
                            return False
    ctx.coverage['nontrivial'] = ctx.coverage.get('nontrivial', 0)
    return True


def run(ctx):
    rng = random.Random(ctx.seed)
    thorough = ctx.tier == 'thorough' or ctx.escalate
    seen = set()
    ctx.coverage['rule'] = ('from every ordered subset of the keys (built by plain stores) every single operation of the alphabet '
                            '(stores, positioned adds with every index/pos_key/after/replace combination, deletions, pop, pop_at, popitem, '
                            'sort, reverse, clear, append, extend, update, setdefault, refused values) and pairs of operations '
                            '(all pairs in thorough, a seeded sample in quick), plus random sequences of length 30-300; sort(key=f, reverse=r) for six key '
                            'functions with ties against list.sort on the key order; '
                            'a case is non-trivial when it contains a positioned add, a removal, a reordering or a rejection; distinct by op list')
    corpus = [
        # the witness of fix 18c3ac8 (relocation relative to a key)
        [('set', 'a', 1), ('set', 'b', 2), ('set', 'c', 3), ('set', 'd', 4), ('add', 'a', 9, False, None, 'c', True)],
        [('set', 'a', 1), ('set', 'b', 2), ('set', 'c', 3), ('set', 'd', 4), ('add', 'a', 9, True, None, 'c', True)],
        [('set', 'a', 1), ('set', 'b', 2), ('add', 'b', 9, True, None, 'a', True)],
        [('set', 'a', 1), ('set', 'b', 2), ('add', 'a', 9, True, None, 'a', True), ('add', 'b', 9, False, None, 'b', True)],
        [('set', 'a', 1), ('set', 'b', 2), ('add', 'a', 9, False, None, 'zz', True)],
    ]
    if not check_cases(ctx, corpus, seen):
        return
    if not keyed_sorts(ctx, rng, thorough):
        return
    for keys in ([KEYS3] if not thorough else [KEYS3, ['a', 'b', 'c', 'd']]):
        alpha = alphabet(keys)
        bases = base_states(keys)
        cases = [b + [op] for b in bases for op in alpha]
        if not check_cases(ctx, cases, seen):
            return
        ctx.sample({'ops': [list(map(_j, o)) for o in cases[len(cases) // 2]]})
        # pairs
        pairs = [(op1, op2) for op1 in alpha for op2 in alpha]
        if thorough and len(keys) == 3:
            chosen = [b + [o1, o2] for b in bases for (o1, o2) in pairs]
        else:
            chosen = [rng.choice(bases) + list(rng.choice(pairs)) for _ in range(12000 if not thorough else 60000)]
        for i in range(0, len(chosen), 40000):
            if not check_cases(ctx, chosen[i:i + 40000], seen):
                return
        ctx.sample({'ops': [list(map(_j, o)) for o in chosen[0]]})
    ctx.coverage['exhaustive'] = bool(thorough)
    # random long sequences
    alpha4 = alphabet(['a', 'b', 'c', 'd'])
    longs = [random_case(rng, None, alpha4, rng.choice([30, 80, 300])) for _ in range(40 if not thorough else 400)]
    if not check_cases(ctx, longs, seen):
        return
    ctx.coverage['distinct_nontrivial'] = len(seen)


def replay(ctx, data):
    if 'stores' in data:
        return replay_keyed(ctx, data)
    ops = [tuple(tuple(x) if isinstance(x, list) and o[0] not in ('extend', 'update') else x for x in o) for o in data['ops']]
    fixed = []
    for o in data['ops']:
        if o[0] in ('extend', 'update'):
            fixed.append((o[0], [tuple(x) for x in o[1]]) + tuple(o[2:]))
        else:
            fixed.append(tuple(o))
    seen = set()
    check_cases(ctx, [fixed], seen)
    ctx.coverage['distinct_nontrivial'] = len(seen)


def replay_keyed(ctx, data):
    from hszinc.metadata import MetadataObject
    from hszinc.sortabledict import SortableDict
    cls = {'SortableDict': SortableDict, 'MetadataObject': MetadataObject}[data['class']]
    f = dict(KEYFNS)[data['key']]
    d = cls()
    for i, k in enumerate(data['stores']):
        d[k] = i
    d.sort(key=f, reverse=data['reverse'])
    got, want = list(d.keys()), sorted(data['stores'], key=f, reverse=data['reverse'])
    ctx.coverage['evaluations'] += 1
    if got != want:
        ctx.violation('impl-counterexample', 'sort(key=%s, reverse=%r) after storing %r: keys %r, list.sort gives %r'
                      % (data['key'], data['reverse'], data['stores'], got, want), data)
