#!/venv/bin/python
"""Write harness/pins.json: the AST fingerprints of every unit of the source the hand-written models were written
against.  Run by hand (with /venv/bin/python, whose ast the checks use) after the models have been brought up to date
with a changed source; never at check time."""
import json
import os
import sys

V = os.path.dirname(os.path.dirname(os.path.abspath(__file__)))
sys.path.insert(0, os.path.join(V, 'harness'))
import srcdata  # noqa: E402

pins = {f: srcdata.unit_fingerprints(f) for f in srcdata.PIN_FILES}
with open(srcdata.PINS_JSON, 'w') as fh:
    json.dump(pins, fh, indent=1, sort_keys=True)
print('written', srcdata.PINS_JSON, sum(len(v) for v in pins.values()), 'units')
