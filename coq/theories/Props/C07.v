From HS Require Import Base.Prelude Model.ZincParse.
Theorem C07_placeholder : True. Proof. exact I. Qed.
