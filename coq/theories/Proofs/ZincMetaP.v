(* Grid and column metadata through the grid rule of the ZINC reader model *)
From Coq Require Import String.
From Coq Require Import List NArith Bool Lia Arith Setoid.
From HS Require Import Base.Prelude Model.Value Model.Escape Model.Version Model.Json Model.ZincParse Model.ZincDump.
From HS Require Import Proofs.PreludeP Proofs.VersionP Proofs.EscapeP Proofs.JsonP Proofs.ZincParseP Proofs.ZincDumpP Proofs.ZincNumP Proofs.ZincListP Proofs.ZincGridP Proofs.ZincDictP.
Import ListNotations.
Open Scope N_scope.

Definition lower (c : N) : Prop := (97 <=? c) && (c <=? 122) = true.
(* what may follow a metadata item: a delimiter other than a blank, or a blank and the next tag name *)
Definition mfol (r : str) : Prop := delim_ns r \/ exists c r', r = 32 :: c :: r' /\ lower c.

Lemma mfol_delim r : mfol r -> delim r.
Proof. intros [H|[c [r' [E _]]]]; [apply delim_ns_delim; exact H|subst; apply delim_sp]. Qed.
Lemma mfol_noid r : mfol r -> match r with c :: _ => is_id_rest c = false | [] => True end.
Proof.
  intros [H|[c [r' [E _]]]]; [|subst; reflexivity]. pose proof (ns_hd r H) as Q. destruct r; [exact I|tauto].
Qed.

Lemma p_id_mfol k rest : colname k -> mfol rest -> p_id (k ++ rest) = Some (Ok k, rest).
Proof.
  intros Hn Hd. destruct k as [|c r]; [contradiction|]. destruct Hn as [Hc Hr]. cbn [List.app]. unfold p_id. rewrite Hc.
  rewrite (span_all is_id_rest r rest Hr); [reflexivity|]. exact (mfol_noid rest Hd).
Qed.

(* after a bare tag name no colon follows, blanks skipped *)
Lemma no_colon_after rest : mfol rest -> pthen spaces (pthen (plit [58]) (fun t : str => @None (res hval * str))) rest = None \/ True.
Proof. intros _. right. exact I. Qed.

Lemma colon_none (q : parser hval) rest : mfol rest -> pthen spaces (pthen (plit [58]) (pthen spaces q)) rest = None.
Proof.
  intros [H|[c [r' [E Hl]]]].
  - pose proof (ns_hd rest H) as Q. destruct rest as [|c r]; [reflexivity|]. destruct Q as [_ Q].
    assert (S1 : spaces (c :: r) = Some (Ok tt, c :: r)).
    { unfold spaces, pmap, pspan. cbn [span]. unfold is_sp. destruct (N.eqb_spec c 32); [contradiction|reflexivity]. }
    unfold pthen at 1. unfold pmap, pand. rewrite S1.
    assert (C : c <> 58). { destruct H as [E|[c0 [r0 [E Hc]]]]; [discriminate|]. inversion E; subst. dl Hc; discriminate. }
    unfold pthen at 1. unfold pmap, pand, plit. cbn [strip_prefix]. destruct (N.eqb_spec 58 c); [subst; contradiction|reflexivity].
  - subst rest. unfold lower in Hl.
    assert (Hs : is_sp c = false).
    { apply andb_true_iff in Hl. destruct Hl as [H1 _]. apply N.leb_le in H1. unfold is_sp. destruct (N.eqb_spec c 32); [lia|reflexivity]. }
    assert (S1 : spaces (32 :: c :: r') = Some (Ok tt, c :: r')).
    { unfold spaces, pmap, pspan. cbn [span]. assert (E : is_sp 32 = true) by reflexivity. rewrite E, Hs. reflexivity. }
    unfold pthen at 1. unfold pmap, pand. rewrite S1.
    assert (C : c <> 58). { apply andb_true_iff in Hl. destruct Hl as [H1 _]. apply N.leb_le in H1. lia. }
    unfold pthen at 1. unfold pmap, pand, plit. cbn [strip_prefix]. destruct (N.eqb_spec 58 c); [subst; contradiction|reflexivity].
Qed.

(* ---------- one metadata item ---------- *)
Definition mtext (p : str * hval * str) : str := let '(k, v, t) := p in match v with VMarker => k | _ => (k ++ 58 :: t)%list end.
Definition mitem_ok (g : nat) (p : str * hval * str) : Prop := let '(k, v, t) := p in colname k /\ (v = VMarker \/ readsd g v t).

Lemma mitem_reads g p rest : mitem_ok g p -> mfol rest ->
  g_meta_item (p_scalar (S g) true) (mtext p ++ rest) = Some (Ok (pkv p), rest).
Proof.
  destruct p as [[k v] t]. intros [Hk Hv] Hf. cbn [pkv].
  assert (Mk : forall r0, mfol r0 -> g_meta_item (p_scalar (S g) true) (k ++ r0) = Some (Ok (k, VMarker), r0)).
  { intros r0 Hr0. unfold g_meta_item, por.
    rewrite (por_pick_start _ _ _ _ _ (pmap_ok (fun k0 => (k0, VMarker)) p_id _ k _ (p_id_mfol k r0 Hk Hr0))).
    rewrite por_pick_skip; [reflexivity|]. unfold pand. rewrite (p_id_mfol k r0 Hk Hr0), (colon_none _ r0 Hr0). reflexivity. }
  assert (Pr : readsd g v t -> g_meta_item (p_scalar (S g) true) ((k ++ 58 :: t) ++ rest) = Some (Ok (k, v), rest)).
  { intro Hr. rewrite <- app_assoc. cbn [List.app].
    destruct (reads_hd g v t (readsd_reads g v t Hr)) as [c [t' [E Hc]]]. destruct (nosp_hd c Hc) as [Hs _].
    assert (SP : spaces (t ++ rest) = Some (Ok tt, t ++ rest)).
    { subst t. unfold spaces, pmap, pspan. cbn [List.app span]. rewrite Hs. reflexivity. }
    assert (A1 : pmap (fun k0 => (k0, VMarker)) p_id (k ++ 58 :: t ++ rest) = Some (Ok (k, VMarker), 58 :: t ++ rest))
      by exact (pmap_ok (fun k0 => (k0, VMarker)) p_id _ k _ (p_id_colon k _ Hk)).
    assert (A2 : pand p_id (pthen spaces (pthen (plit [58]) (pthen spaces (p_scalar (S g) true)))) (k ++ 58 :: t ++ rest) = Some (Ok (k, v), rest)).
    { eapply pand_ok; [apply p_id_colon; exact Hk|].
      assert (I2 : pthen spaces (p_scalar (S g) true) (t ++ rest) = Some (Ok v, rest)).
      { unfold pthen, pmap, pand. rewrite SP, (Hr rest (mfol_delim rest Hf)). reflexivity. }
      assert (I3 : pthen (plit [58]) (pthen spaces (p_scalar (S g) true)) (58 :: t ++ rest) = Some (Ok v, rest)).
      { unfold pthen at 1. unfold pmap, pand. assert (L0 : plit [58] (58 :: t ++ rest) = Some (Ok tt, t ++ rest)) by reflexivity. rewrite L0, I2. reflexivity. }
      unfold pthen at 1. unfold pmap, pand. assert (S0 : spaces (58 :: t ++ rest) = Some (Ok tt, 58 :: t ++ rest)) by reflexivity. rewrite S0, I3. reflexivity. }
    unfold g_meta_item, por. rewrite (por_pick_start _ _ _ _ _ A1). cbn [por_pick]. rewrite A2.
    assert (L : Nat.ltb (length rest) (length (58 :: t ++ rest)) = true) by (apply Nat.ltb_lt; cbn [length]; rewrite app_length; lia).
    rewrite L. reflexivity. }
  destruct Hv as [E|Hr].
  - subst v. cbn [mtext]. apply Mk. exact Hf.
  - destruct v; try (cbn [mtext]; apply Pr; exact Hr).
    (* a marker that happens to be readable too is still written bare *)
    cbn [mtext]. apply Mk. exact Hf.
Qed.

(* ---------- a blank-separated run of items ---------- *)
Definition mmore (ps : list (str * hval * str)) : str := concat (map (fun p => 32 :: mtext p) ps).
Definition mbody (ps : list (str * hval * str)) : str := match ps with [] => [] | p :: ps' => (mtext p ++ mmore ps')%list end.

Lemma mtext_hd g p : mitem_ok g p -> exists c r, mtext p = c :: r /\ lower c.
Proof.
  destruct p as [[k v] t]. intros [Hk _]. destruct (colname_hd k Hk) as [c [kr [E [_ Hl]]]]. subst k.
  destruct v; cbn [mtext List.app]; eexists; eexists; (split; [reflexivity|exact Hl]).
Qed.

Lemma mmore_fol g ps rest : Forall (mitem_ok g) ps -> delim_ns rest -> mfol (mmore ps ++ rest).
Proof.
  intros Hps Hd. destruct ps as [|p ps]; cbn [mmore map concat List.app]; [left; exact Hd|].
  inversion Hps as [|? ? Hp _]; subst. destruct (mtext_hd g p Hp) as [c [r [E Hl]]]. rewrite E. cbn [List.app].
  right. eexists. eexists. split; [reflexivity|exact Hl].
Qed.

Lemma sep32_stop {A} (p : parser A) rest : delim_ns rest -> pthen (plit [32]) p rest = None.
Proof.
  intro H. pose proof (ns_hd rest H) as Q. unfold pthen, pmap, pand, plit. destruct rest as [|c r]; [reflexivity|]. cbn [strip_prefix].
  destruct Q as [_ Q]. destruct (N.eqb_spec 32 c); [subst; contradiction|reflexivity].
Qed.

Lemma mmany g rest : delim_ns rest -> forall ps, Forall (mitem_ok g) ps -> forall fuel, (length ps < fuel)%nat ->
  pmany_fuel fuel (pthen (plit [32]) (g_meta_item (p_scalar (S g) true))) (mmore ps ++ rest) = (Ok (map pkv ps), rest).
Proof.
  intros Hd. induction 1 as [|p ps Hp Hps IH]; intros fuel Hf.
  - cbn [mmore map concat List.app]. destruct fuel as [|f]; [cbn in Hf; lia|]. cbn [pmany_fuel]. rewrite (sep32_stop _ rest Hd). reflexivity.
  - destruct fuel as [|f]; [cbn in Hf; lia|]. cbn [mmore map concat]. fold (mmore ps). rewrite <- app_assoc. cbn [List.app pmany_fuel].
    assert (S1 : pthen (plit [32]) (g_meta_item (p_scalar (S g) true)) (32 :: mtext p ++ mmore ps ++ rest) = Some (Ok (pkv p), mmore ps ++ rest)).
    { unfold pthen, pmap, pand. assert (L0 : plit [32] (32 :: mtext p ++ mmore ps ++ rest) = Some (Ok tt, mtext p ++ mmore ps ++ rest)) by reflexivity.
      rewrite L0, (mitem_reads g p _ Hp (mmore_fol g ps rest Hps Hd)). reflexivity. }
    rewrite S1.
    assert (L : Nat.ltb (length (mmore ps ++ rest)) (length (32 :: mtext p ++ mmore ps ++ rest)) = true).
    { apply Nat.ltb_lt. cbn [length]. rewrite !app_length. lia. }
    rewrite L, (IH f) by (cbn in Hf; lia). reflexivity.
Qed.

Lemma mmore_len ps : (length ps <= length (mmore ps))%nat.
Proof. induction ps as [|p ps IH]; cbn [mmore map concat length]; [lia|]. fold (mmore ps). rewrite app_length. cbn [length]. lia. Qed.

Lemma meta_reads g p ps rest : Forall (mitem_ok g) (p :: ps) -> delim_ns rest ->
  g_meta (p_scalar (S g) true) (mbody (p :: ps) ++ rest) = Some (Ok (dict_of (map pkv (p :: ps))), rest).
Proof.
  intros H Hd. inversion H as [|? ? Hp Hps]; subst. cbn [mbody]. rewrite <- app_assoc.
  unfold g_meta, pmap, pdelimited, pmap, pand.
  rewrite (mitem_reads g p _ Hp (mmore_fol g ps rest Hps Hd)). unfold pmany.
  rewrite (mmany g rest Hd ps Hps) by (rewrite app_length; pose proof (mmore_len ps); lia). reflexivity.
Qed.

(* ---------- the header line with metadata ---------- *)
Definition mpart (ps : list (str * hval * str)) : str := match ps with [] => [] | _ => 32 :: mbody ps end.
Definition htext (ps : list (str * hval * str)) : str := (s_ "ver:" ++ DQ :: V30 ++ DQ :: mpart ps ++ [10])%list.

Lemma lf_ns' r : delim_ns (10 :: r). Proof. apply lf_ns. Qed.

Lemma opt_meta_reads g ps rest : Forall (mitem_ok g) ps -> delim_ns rest ->
  pmap (fun o : option (list (str * hval)) => match o with Some m => m | None => [] end) (popt (pthen (plit [32]) (g_meta (p_scalar (S g) true)))) (mpart ps ++ rest)
  = Some (Ok (dict_of (map pkv ps)), rest).
Proof.
  intros Hps Hd. destruct ps as [|p ps].
  - cbn [mpart List.app map]. unfold pmap, popt. rewrite (sep32_stop _ rest Hd). reflexivity.
  - cbn [mpart]. change ((32 :: mbody (p :: ps)) ++ rest)%list with (32 :: mbody (p :: ps) ++ rest)%list.
    assert (E : pthen (plit [32]) (g_meta (p_scalar (S g) true)) (32 :: mbody (p :: ps) ++ rest) = Some (Ok (dict_of (map pkv (p :: ps))), rest)).
    { unfold pthen, pmap, pand. assert (L0 : plit [32] (32 :: mbody (p :: ps) ++ rest) = Some (Ok tt, mbody (p :: ps) ++ rest)) by reflexivity.
      rewrite L0, (meta_reads g p ps rest Hps Hd). reflexivity. }
    unfold pmap, popt. rewrite E. reflexivity.
Qed.

Lemma header_meta_reads g ps r : Forall (mitem_ok g) ps ->
  g_grid_meta (p_scalar (S g) true) (htext ps ++ r) = Some (Ok (V30, dict_of (map pkv ps)), r).
Proof.
  intro Hps. unfold g_grid_meta, htext.
  assert (E0 : ((s_ "ver:" ++ DQ :: V30 ++ DQ :: mpart ps ++ [10]) ++ r)%list = (118 :: 101 :: 114 :: 58 :: DQ :: V30 ++ DQ :: mpart ps ++ 10 :: r)%list).
  { change (s_ "ver:") with [118; 101; 114; 58]. unfold V30. cbn [List.app]. rewrite <- app_assoc. reflexivity. }
  assert (S1 : pthen (plit (s_ "ver:")) p_str ((s_ "ver:" ++ DQ :: V30 ++ DQ :: mpart ps ++ [10]) ++ r) = Some (Ok V30, mpart ps ++ 10 :: r)).
  { rewrite E0. unfold pthen, pmap, pand.
    assert (L : plit (s_ "ver:") (118 :: 101 :: 114 :: 58 :: DQ :: V30 ++ DQ :: mpart ps ++ 10 :: r) = Some (Ok tt, DQ :: V30 ++ DQ :: mpart ps ++ 10 :: r)) by reflexivity.
    rewrite L. unfold p_str, hs_str.
    rewrite (quoted_roundtrip DQ str_esc_letters false esc_str_char dq_ne dq_32 every_char_str V30 V30 (mpart ps ++ 10 :: r) eq_refl). reflexivity. }
  assert (S2 : pbefore (pmap (fun o : option (list (str * hval)) => match o with Some m => m | None => [] end) (popt (pthen (plit [32]) (g_meta (p_scalar (S g) true)))))
                       (pthen spaces nl) (mpart ps ++ 10 :: r) = Some (Ok (dict_of (map pkv ps)), r)).
  { unfold pbefore. unfold pmap at 1. unfold pand. rewrite (opt_meta_reads g ps (10 :: r) Hps (lf_ns r)).
    assert (E : pthen spaces nl (10 :: r) = Some (Ok tt, r)) by reflexivity. rewrite E. reflexivity. }
  unfold pand. rewrite S1, S2. reflexivity.
Qed.

(* ---------- columns with metadata ---------- *)
Definition ctext (c : str * list (str * hval * str)) : str := (fst c ++ mpart (snd c))%list.
Definition cval (c : str * list (str * hval * str)) : str * list (str * hval) := (fst c, dict_of (map pkv (snd c))).
Definition col_ok (g : nat) (c : str * list (str * hval * str)) : Prop := colname (fst c) /\ Forall (mitem_ok g) (snd c).
Definition col_rel (g : nat) (x : str * list (str * hval)) (t : str) : Prop := exists c, col_ok g c /\ x = cval c /\ t = ctext c.

Lemma mpart_fol g ps rest : Forall (mitem_ok g) ps -> delim_ns rest -> mfol (mpart ps ++ rest).
Proof.
  intros Hps Hd. destruct ps as [|p ps]; cbn [mpart List.app]; [left; exact Hd|].
  inversion Hps as [|? ? Hp _]; subst. destruct (mtext_hd g p Hp) as [c [r [E Hl]]]. cbn [mbody]. rewrite E. cbn [List.app].
  right. eexists. eexists. split; [reflexivity|exact Hl].
Qed.

Lemma col_reads g x t : col_rel g x t -> forall rest, delim_ns rest -> g_col (p_scalar (S g) true) (t ++ rest) = Some (Ok x, rest).
Proof.
  intros [[name cps] [[Hn Hps] [Ex Et]]] rest Hd. subst x t. unfold ctext, cval. cbn [fst snd]. rewrite <- app_assoc.
  unfold g_col, pand. rewrite (p_id_mfol name _ Hn (mpart_fol g cps rest Hps Hd)), (opt_meta_reads g cps rest Hps Hd). reflexivity.
Qed.
Lemma col_hd g x t : col_rel g x t -> match t with c :: _ => is_sp c = false | [] => False end.
Proof.
  intros [[name cps] [[Hn _] [_ Et]]]. subst t. unfold ctext. cbn [fst snd]. destruct (colname_hd name Hn) as [c [r [E [Hs _]]]]. subst name. exact Hs.
Qed.

Lemma cols_meta_reads g x t xs ts r : col_rel g x t -> Forall2 (col_rel g) xs ts ->
  g_cols (p_scalar (S g) true) (join [44] (t :: ts) ++ 10 :: r) = Some (Ok (dict_of (x :: xs)), r).
Proof.
  intros Hx Hxs. unfold g_cols, pbefore, pmap, pand.
  rewrite (g_delimited (g_col (p_scalar (S g) true)) 10 (col_rel g) (col_reads g) (col_hd g) lf_ns (sep_stop_lf _) x t xs ts r Hx Hxs).
  assert (E : pthen spaces nl (10 :: r) = Some (Ok tt, r)) by reflexivity. rewrite E. reflexivity.
Qed.

(* ---------- whole grids with metadata: the reader ---------- *)
Definition VERK : str := s_ "ver".
Lemma remove_key_absent {A} k (m : list (str * A)) : ~ In k (map fst m) -> remove_key k m = m.
Proof.
  induction m as [|[y v] m IH]; intro H; [reflexivity|]. cbn [remove_key]. cbn [map fst In] in H.
  destruct (str_eqb_spec y k) as [E|_]; [subst; exfalso; apply H; left; reflexivity|]. rewrite IH; [reflexivity|]. intro Hi. apply H. right. exact Hi.
Qed.

Definition mkeys (ps : list (str * hval * str)) : list str := map fst (map pkv ps).
Definition cols_ok (g : nat) (cols : list (str * list (str * hval * str))) : Prop :=
  cols <> [] /\ Forall (col_ok g) cols /\ NoDup (map fst cols) /\ Forall (fun c => NoDup (mkeys (snd c))) cols.

Theorem grid_meta_reads g mps cols rows rts :
  Forall (mitem_ok g) mps -> NoDup (mkeys mps) -> ~ In VERK (mkeys mps) ->
  cols_ok g cols ->
  Forall2 (grid_row_ok g (map fst cols)) rows rts ->
  p_grid (S (S g)) true (htext mps ++ join [44] (map ctext cols) ++ 10 :: rows_text rts)
  = Some (Ok (VGrid V30 (map pkv mps) (map (fun c => (fst c, map pkv (snd c))) cols)
                    (map (fun cells => combine (map fst cols) cells) rows)), []).
Proof.
  intros Hm Hmn Hmv [Hne [Hco [Hcn Hcm]]] Hrows. rewrite p_grid_unfold.
  set (sc := p_scalar (S g) true).
  destruct cols as [|c cs]; [contradiction|].
  assert (CV : forall l, Forall (fun c0 : str * list (str * hval * str) => NoDup (mkeys (snd c0))) l -> map cval l = map (fun c0 => (fst c0, map pkv (snd c0))) l).
  { intros l Hl. induction Hl as [|c0 l Hc0 _ IH]; [reflexivity|]. cbn [map]. rewrite IH. unfold cval. rewrite (dict_of_nodup (map pkv (snd c0)) Hc0). reflexivity. }
  assert (HC : g_cols sc (join [44] (map ctext (c :: cs)) ++ 10 :: rows_text rts) = Some (Ok (dict_of (map cval (c :: cs))), rows_text rts)).
  { cbn [map]. inversion Hco as [|? ? Hc Hcs]; subst.
    apply (cols_meta_reads g (cval c) (ctext c) (map cval cs) (map ctext cs) (rows_text rts)); [exists c; split; [exact Hc|split; reflexivity]|].
    clear -Hcs. induction Hcs as [|x l Hx _ IH]; cbn [map]; constructor; [exists x; split; [exact Hx|split; reflexivity]|exact IH]. }
  assert (HR : pmany (hs_row sc) (rows_text rts) = Some (Ok rows, [])).
  { unfold pmany. rewrite (rows_many g rows rts); [reflexivity| |pose proof (rows_len rts); lia].
    clear -Hrows Hne. induction Hrows as [|cells ts rows rts [Hl Hc] _ IH]; constructor; [|exact IH].
    split; [|exact Hc]. destruct cells; [cbn in Hl; discriminate|discriminate]. }
  unfold pact. unfold pand at 1. rewrite (header_meta_reads g mps _ Hm). unfold pand. rewrite HC, HR.
  destruct ver30_facts as [pv [PV [P3 VS]]].
  unfold g_action. rewrite PV, P3. cbn [bind andb]. rewrite VS.
  rewrite (dict_of_nodup (map pkv mps) Hmn).
  change (s_ "ver") with VERK. rewrite (remove_key_absent VERK (map pkv mps) Hmv).
  rewrite (CV (c :: cs) Hcm).
  assert (NK : map fst (map (fun c0 : str * list (str * hval * str) => (fst c0, map pkv (snd c0))) (c :: cs)) = map fst (c :: cs)) by (rewrite map_map; reflexivity).
  rewrite (dict_of_nodup (map (fun c0 : str * list (str * hval * str) => (fst c0, map pkv (snd c0))) (c :: cs))) by (rewrite NK; exact Hcn).
  rewrite NK.
  assert (RW : map (fun cells => dict_of (combine (map fst (c :: cs)) cells)) rows = map (fun cells => combine (map fst (c :: cs)) cells) rows).
  { clear -Hrows Hcn. induction Hrows as [|cells ts rows rts [Hl _] _ IH]; [reflexivity|]. cbn [map]. cbn [map] in IH. rewrite IH. f_equal.
    apply dict_of_nodup. rewrite map_fst_combine by (symmetry; exact Hl). exact Hcn. }
  rewrite RW. reflexivity.
Qed.

(* ---------- whole grids with metadata: the writer ---------- *)
Definition mitem_dump (f : nat) (p : str * hval * str) : Prop := let '(k, v, t) := p in v = VMarker \/ zdump f false v = Ok t.

Lemma res_map_gen {A B} (K : A -> res B) (h : A -> B) l : (forall x, In x l -> K x = Ok (h x)) -> res_map K l = Ok (map h l).
Proof.
  induction l as [|x l IH]; intro H; cbn [res_map map]; [reflexivity|].
  rewrite (H x (or_introl eq_refl)), IH; [reflexivity|]. intros y Hy. apply H. right. exact Hy.
Qed.

Lemma join_mtext ps : join [32] (map mtext ps) = mbody ps.
Proof.
  destruct ps as [|p ps]; [reflexivity|]. cbn [mbody]. revert p. induction ps as [|q ps IH]; intro p.
  - cbn [map join mmore concat]. rewrite app_nil_r. reflexivity.
  - cbn [map]. rewrite join_cons_cons. specialize (IH q). cbn [map] in IH. rewrite IH.
    cbn [mmore map concat]. fold (mmore ps). cbn [List.app]. reflexivity.
Qed.

Definition dmeta (f : nat) : str * hval -> res str :=
  fun kv => match snd kv with VMarker => Ok (fst kv) | x => do t <- zdump f false x; Ok (fst kv ++ 58 :: t) end.

Lemma dmeta_item f p : mitem_dump f p -> dmeta f (pkv p) = Ok (mtext p).
Proof.
  destruct p as [[k v] t]. cbn [mitem_dump pkv]. unfold dmeta. cbn [snd fst mtext].
  intros [E|E]; [subst v; reflexivity|]. destruct v; try (rewrite E; reflexivity). reflexivity.
Qed.

Lemma dmeta_all f ps : Forall (mitem_dump f) ps -> res_map (dmeta f) (map pkv ps) = Ok (map mtext ps).
Proof.
  intro H. rewrite res_map_map. apply res_map_gen. intros p Hp. apply dmeta_item. rewrite Forall_forall in H. exact (H p Hp).
Qed.

Definition dmetaP (f : nat) (p3 : bool) : str * hval -> res str :=
  fun kv => match snd kv with VMarker => Ok (fst kv) | x => do t <- zdump f p3 x; Ok (fst kv ++ 58 :: t) end.
Definition dump_metaP (f : nat) (p3 : bool) (m : list (str * hval)) : res str := do items <- res_map (dmetaP f p3) m; Ok (join [32] items).
Definition dcol (f : nat) (p3 : bool) (c : str * list (str * hval)) : res str :=
  match snd c with [] => Ok (fst c) | cm => do mt <- dump_metaP f p3 cm; Ok (fst c ++ 32 :: mt) end.
Definition drow (f : nat) (p3 : bool) (cols : list (str * list (str * hval))) (row : list (str * hval)) : res str :=
  do cells <- res_map (fun c : str * list (str * hval) => zdump f p3 (match assoc (fst c) row with Some x => x | None => VNull end)) cols; Ok (join [44] cells).

Lemma zdump_grid_unfold f ver meta cols rows : zdump_grid (S f) ver meta cols rows =
  do p3 <- pre3_of ver;
  do vtxt <- zdump_str ver;
  do header <- match meta with
               | [] => Ok (s_ "ver:" ++ vtxt)%list
               | _ => do mt <- dump_metaP f p3 meta; Ok (s_ "ver:" ++ vtxt ++ 32 :: mt)%list
               end;
  match cols with
  | [] => Raise TypeError
  | _ => do cs <- res_map (dcol f p3) cols;
         do rs <- res_map (drow f p3 cols) rows;
         Ok (join NL1 ([header; join [44] cs] ++ rs ++ [[]]))
  end.
Proof. reflexivity. Qed.

Lemma match_ne' {A B} (l : list A) (a b : B) : l <> [] -> match l with [] => a | _ :: _ => b end = b.
Proof. destruct l; [contradiction|reflexivity]. Qed.

Lemma dump_metaP_items f ps : ps <> [] -> Forall (mitem_dump f) ps -> dump_metaP f false (map pkv ps) = Ok (mbody ps).
Proof.
  intros Hne H. unfold dump_metaP. change (dmetaP f false) with (dmeta f). rewrite (dmeta_all f ps H). cbn [bind]. rewrite join_mtext. reflexivity.
Qed.

Definition col_dump_ok (f : nat) (c : str * list (str * hval * str)) : Prop := Forall (mitem_dump f) (snd c).

Lemma dcol_text f c : col_dump_ok f c -> dcol f false (fst c, map pkv (snd c)) = Ok (ctext c).
Proof.
  destruct c as [name cps]. unfold col_dump_ok, dcol, ctext. cbn [fst snd]. intro H. destruct cps as [|p ps].
  - cbn [map mpart]. rewrite app_nil_r. reflexivity.
  - cbn [map]. change (pkv p :: map pkv ps) with (map pkv (p :: ps)). rewrite (dump_metaP_items f (p :: ps) ltac:(discriminate) H). reflexivity.
Qed.

Theorem grid_meta_dumps f mps cols rows rts :
  Forall (mitem_dump f) mps -> cols <> [] -> Forall (col_dump_ok f) cols -> NoDup (map fst cols) ->
  Forall2 (dump_row_ok f (map fst cols)) rows rts ->
  zdump_grid (S f) V30 (map pkv mps) (map (fun c => (fst c, map pkv (snd c))) cols) (map (fun cells => combine (map fst cols) cells) rows)
  = Ok (htext mps ++ join [44] (map ctext cols) ++ 10 :: rows_text rts).
Proof.
  intros Hm Hne Hc Hnd Hrows. rewrite zdump_grid_unfold.
  assert (P3 : pre3_of V30 = Ok false) by (vm_compute; reflexivity). rewrite P3. cbn [bind].
  assert (VS : zdump_str V30 = Ok (DQ :: V30 ++ [DQ])) by (vm_compute; reflexivity). rewrite VS. cbn [bind].
  set (cols' := map (fun c : str * list (str * hval * str) => (fst c, map pkv (snd c))) cols).
  assert (NK : map fst cols' = map fst cols) by (unfold cols'; rewrite map_map; reflexivity).
  assert (HD : match map pkv mps with
               | [] => Ok (s_ "ver:" ++ DQ :: V30 ++ [DQ])%list
               | _ :: _ => do mt <- dump_metaP f false (map pkv mps); Ok (s_ "ver:" ++ (DQ :: V30 ++ [DQ]) ++ 32 :: mt)%list
               end = Ok (s_ "ver:" ++ DQ :: V30 ++ DQ :: mpart mps)%list).
  { destruct mps as [|p ps]; [reflexivity|]. cbn [map]. change (pkv p :: map pkv ps) with (map pkv (p :: ps)).
    rewrite (dump_metaP_items f (p :: ps) ltac:(discriminate) Hm). cbn [bind mpart]. unfold V30. cbn [List.app]. reflexivity. }
  rewrite HD. cbn [bind].
  assert (Ne' : cols' <> []) by (unfold cols'; destruct cols; [contradiction|discriminate]).
  rewrite (match_ne' cols' _ _ Ne').
  assert (CS : res_map (dcol f false) cols' = Ok (map ctext cols)).
  { unfold cols'. rewrite res_map_map. apply res_map_gen. intros c Hin. apply dcol_text. rewrite Forall_forall in Hc. exact (Hc c Hin). }
  rewrite CS. cbn [bind].
  assert (RS : res_map (drow f false cols') (map (fun cells => combine (map fst cols) cells) rows) = Ok (map (join [44]) rts)).
  { rewrite res_map_map. clear -Hrows Hnd NK. induction Hrows as [|cells ts rows rts [Hl Hcs] _ IH]; cbn [res_map map]; [reflexivity|].
    unfold drow at 1.
    assert (E : res_map (fun c : str * list (str * hval) => zdump f false (match assoc (fst c) (combine (map fst cols) cells) with Some x => x | None => VNull end)) cols' = Ok ts).
    { rewrite <- (res_map_map fst (fun n : str => zdump f false (match assoc n (combine (map fst cols) cells) with Some x => x | None => VNull end)) cols').
      rewrite NK.
      rewrite <- (res_map_map (fun n : str => match assoc n (combine (map fst cols) cells) with Some x => x | None => VNull end) (zdump f false)).
      rewrite (assoc_combine (map fst cols) cells Hnd Hl). apply res_map_forall2. exact Hcs. }
    rewrite E. cbn [bind]. rewrite IH. reflexivity. }
  rewrite RS. cbn [bind].
  unfold NL1. cbn [List.app]. rewrite join_lines. unfold htext, rows_text. rewrite map_map.
  cbn [List.app]. repeat (rewrite <- app_assoc; cbn [List.app]). reflexivity.
Qed.

(* ---------- round trip of whole grids with grid and column metadata ---------- *)
Definition mval (n : nat) (p : str * hval * str) : Prop := let '(k, v, t) := p in colname k /\ (v = VMarker \/ zval n v t).
Definition mcol (n : nat) (c : str * list (str * hval * str)) : Prop := colname (fst c) /\ Forall (mval n) (snd c) /\ NoDup (mkeys (snd c)).
Definition meta_grid (mps : list (str * hval * str)) (cols : list (str * list (str * hval * str))) (rows : list (list hval)) : hval :=
  VGrid V30 (map pkv mps) (map (fun c => (fst c, map pkv (snd c))) cols) (map (fun cells => combine (map fst cols) cells) rows).
Definition meta_text (mps : list (str * hval * str)) (cols : list (str * list (str * hval * str))) (rts : list (list str)) : str :=
  (htext mps ++ join [44] (map ctext cols) ++ 10 :: rows_text rts)%list.

Lemma mval_ok n k p : mval n p -> mitem_ok (n + k) p.
Proof. destruct p as [[k0 v] t]. intros [Hk [E|Hz]]; (split; [exact Hk|]); [left; exact E|right; apply zval_readsd; exact Hz]. Qed.
Lemma mval_dump n f p : mval n p -> mitem_dump (S (n + f)) p.
Proof. destruct p as [[k0 v] t]. intros [Hk [E|Hz]]; [left; exact E|right; apply zval_dump; exact Hz]. Qed.

Theorem grid_meta_roundtrip n mps cols rows rts :
  Forall (mval n) mps -> NoDup (mkeys mps) -> ~ In VERK (mkeys mps) ->
  cols <> [] -> Forall (mcol n) cols -> NoDup (map fst cols) ->
  Forall2 (grid_gcells_ok n (map fst cols)) rows rts ->
  (forall f, zdump_grid (S (S (n + f))) V30 (map pkv mps) (map (fun c => (fst c, map pkv (snd c))) cols)
                        (map (fun cells => combine (map fst cols) cells) rows) = Ok (meta_text mps cols rts)) /\
  (forall k, p_grid (S (S (n + k))) true (meta_text mps cols rts) = Some (Ok (meta_grid mps cols rows), [])) /\
  ((n <= length (meta_text mps cols rts))%nat -> zparse_grid (meta_text mps cols rts) = Ok (meta_grid mps cols rows)).
Proof.
  intros Hm Hmn Hmv Hne Hc Hcn Hrows.
  assert (R : forall k, p_grid (S (S (n + k))) true (meta_text mps cols rts) = Some (Ok (meta_grid mps cols rows), [])).
  { intro k. apply grid_meta_reads; [|exact Hmn|exact Hmv| |].
    - eapply Forall_impl; [|exact Hm]. intros p Hp. apply mval_ok. exact Hp.
    - split; [exact Hne|]. split; [|split; [exact Hcn|]].
      + eapply Forall_impl; [|exact Hc]. intros c [A [B _]]. split; [exact A|]. eapply Forall_impl; [|exact B]. intros p Hp. apply mval_ok. exact Hp.
      + eapply Forall_impl; [|exact Hc]. intros c [_ [_ C]]. exact C.
    - clear -Hrows. induction Hrows as [|cells ts rows rts [Hl Hcs] _ IH]; constructor; [|exact IH]. split; [exact Hl|].
      clear -Hcs. induction Hcs as [|v t vs ts Hvt _ IH]; constructor; [exact (proj2 Hvt k)|exact IH]. }
  split; [|split; [exact R|]].
  - intro f. apply grid_meta_dumps; [| exact Hne | | exact Hcn |].
    + eapply Forall_impl; [|exact Hm]. intros p Hp. apply mval_dump. exact Hp.
    + eapply Forall_impl; [|exact Hc]. intros c [_ [B _]]. unfold col_dump_ok. eapply Forall_impl; [|exact B]. intros p Hp. apply mval_dump. exact Hp.
    + clear -Hrows. induction Hrows as [|cells ts rows rts [Hl Hcs] _ IH]; constructor; [|exact IH]. split; [exact Hl|].
      clear -Hcs. induction Hcs as [|v t vs ts Hvt _ IH]; constructor; [exact (proj1 Hvt f)|exact IH].
  - intro Hn. unfold zparse_grid.
    assert (SV : sniff_version (meta_text mps cols rts) = Some V30) by reflexivity. rewrite SV.
    assert (P3 : pre3_of V30 = Ok false) by (vm_compute; reflexivity). rewrite P3. cbn [negb].
    specialize (R (length (meta_text mps cols rts) - n)%nat).
    replace (n + (length (meta_text mps cols rts) - n))%nat with (length (meta_text mps cols rts)) in R by lia.
    rewrite R. reflexivity.
Qed.
