(* Model of hszinc/grid_filter.py and Grid.filter:
     - the pyparsing grammar of filters (scannerless, with pyparsing's default skipping of blanks before
       every token, MatchFirst alternatives, Keyword boundaries, the left fold of and / or),
       for a subset of literal kinds (numbers with / without unit, INF, -INF, NaN, strings, URIs,
       references with / without display name, true / false, N, M, NA);
     - the code generator _generate_filter_in_python (an expression tree over _get_path, _compare, and,
       or, id(..) == / != id(NOT_FOUND), _c[i]) and its rendering as Python source;
     - _get_path and _follow_ref over rows of abstract values, _compare through an oracle for Python's
       comparison of two values;
     - the row loop of Grid.filter with its limit.
   Executable definitions only; proofs in Proofs/FilterP.v. *)
From Coq Require Import List NArith ZArith Bool.
From HS Require Import Base.Prelude Model.Value Model.Escape Model.Version Model.Json.
Import ListNotations.
Open Scope N_scope.

(* ------------------------------------------------------------------ source language *)
Inductive cmpop := CEq | CNe | CLe | CGe | CLt | CGt.
Definition path := list str.
Inductive fexpr :=
| FHas (p : path)
| FMissing (p : path)
| FCmp (op : cmpop) (p : path) (v : hval)
| FAnd (a b : fexpr)
| FOr (a b : fexpr).

(* ------------------------------------------------------------------ the parser *)
(* input: the character before the cursor (0 at the start) and what is left *)
Record inp := mkInp { prev : N ; rest : str }.
Definition fparser (A : Type) := inp -> option (A * inp).

Definition is_ws (c : N) : bool := (c =? 32) || (c =? 9) || (c =? 10) || (c =? 13).
Fixpoint skip_ws (i : inp) (fuel : nat) : inp :=
  match fuel with
  | O => i
  | S f => match rest i with
           | c :: r => if is_ws c then skip_ws (mkInp c r) f else i
           | [] => i
           end
  end.
Definition ws (i : inp) : inp := skip_ws i (length (rest i)).

(* consume exactly the characters of s (no skipping) *)
Fixpoint eat (s : str) (i : inp) : option inp :=
  match s with
  | [] => Some i
  | c :: s' => match rest i with
               | x :: r => if x =? c then eat s' (mkInp x r) else None
               | [] => None
               end
  end.
(* Literal(s): blanks, then s *)
Definition lit (s : str) : fparser unit := fun i => match eat s (ws i) with Some j => Some (tt, j) | None => None end.
(* the longest run of characters satisfying f (no skipping) *)
Fixpoint run (f : N -> bool) (i : inp) (fuel : nat) : str * inp :=
  match fuel with
  | O => ([], i)
  | S n => match rest i with
           | c :: r => if f c then let '(a, j) := run f (mkInp c r) n in (c :: a, j) else ([], i)
           | [] => ([], i)
           end
  end.
Definition span_of (f : N -> bool) (i : inp) : str * inp := run f i (length (rest i)).

Definition is_lower (c : N) : bool := (97 <=? c) && (c <=? 122).
Definition is_alpha (c : N) : bool := ((65 <=? c) && (c <=? 90)) || is_lower c.
Definition is_dig (c : N) : bool := (48 <=? c) && (c <=? 57).
Definition is_id_rest (c : N) : bool := is_alpha c || is_dig c || (c =? 95).
(* pyparsing Keyword: identChars = alphanums + "_$" *)
Definition is_kw_char (c : N) : bool := is_alpha c || is_dig c || (c =? 95) || (c =? 36).

(* Keyword(s) *)
Definition keyword (s : str) : fparser unit :=
  fun i => let j := ws i in
           if is_kw_char (prev j) then None
           else match eat s j with
                | Some k => match rest k with
                            | c :: _ => if is_kw_char c then None else Some (tt, k)
                            | [] => Some (tt, k)
                            end
                | None => None
                end.

(* hs_id = Regex('[a-z][a-zA-Z0-9_]*') *)
Definition p_name : fparser str :=
  fun i => let j := ws i in
           match rest j with
           | c :: r => if is_lower c then let '(a, k) := span_of is_id_rest (mkInp c r) in Some (c :: a, k) else None
           | [] => None
           end.

(* hs_path = hs_name + ZeroOrMore(Suppress("->") + hs_name) *)
Fixpoint p_path_rest (fuel : nat) (i : inp) : list str * inp :=
  match fuel with
  | O => ([], i)
  | S f => match lit [45; 62] i with
           | Some (_, j) => match p_name j with
                            | Some (n, k) => let '(l, e) := p_path_rest f k in (n :: l, e)
                            | None => ([], i)
                            end
           | None => ([], i)
           end
  end.
Definition p_path : fparser path :=
  fun i => match p_name i with
           | Some (n, j) => let '(l, k) := p_path_rest (length (rest j)) j in Some (n :: l, k)
           | None => None
           end.

(* hs_cmpOp: MatchFirst *)
Definition p_cmpop : fparser cmpop :=
  fun i => match lit [61; 61] i with Some (_, j) => Some (CEq, j) | None =>
           match lit [33; 61] i with Some (_, j) => Some (CNe, j) | None =>
           match lit [60; 61] i with Some (_, j) => Some (CLe, j) | None =>
           match lit [62; 61] i with Some (_, j) => Some (CGe, j) | None =>
           match lit [60] i with Some (_, j) => Some (CLt, j) | None =>
           match lit [62] i with Some (_, j) => Some (CGt, j) | None => None end end end end end end.

(* ---- literals (the modelled subset of hs_val, in its MatchFirst order) ---- *)
Definition to_inp_result {A} (p : str -> option (A * str)) (i : inp) : option (A * inp) :=
  (* run a contiguous parser on the text at the cursor; prev becomes the last character consumed *)
  match p (rest i) with
  | Some (a, r) =>
      let n := (length (rest i) - length r)%nat in
      let consumed := firstn n (rest i) in
      Some (a, mkInp (last consumed (prev i)) r)
  | None => None
  end.

(* quoted string / URI: the literal rules of Model/Escape.v (same regexes, same _unescape) *)
Definition p_qstr : fparser str :=
  fun i => to_inp_result (fun t => match hs_str t with Some (Ok s, r) => Some (s, r) | _ => None end) (ws i).
Definition p_quri : fparser str :=
  fun i => to_inp_result (fun t => match hs_uri t with Some (Ok s, r) => Some (s, r) | _ => None end) (ws i).

(* hs_ref = '@' Combine(ZeroOrMore(refChar)) Optional(hs_str), blanks allowed between the parts *)
Definition is_ref_char (c : N) : bool := is_alpha c || is_dig c || memN c [95; 58; 45; 46; 126].
Definition p_ref : fparser hval :=
  fun i => match lit [64] i with
           | Some (_, j) =>
               let '(n, k) := span_of is_ref_char (ws j) in
               (* Combine(ZeroOrMore(..)) matching nothing does not move the cursor *)
               let k := match n with [] => j | _ => k end in
               match p_qstr k with
               | Some (d, e) => Some (VRef n (Some d), e)
               | None => Some (VRef n None, k)
               end
           | None => None
           end.

(* hs_decimal = Combine('-'? digits ('.' digits)? exp?) with digits = [0-9_]+ *)
Definition is_dig_us (c : N) : bool := is_dig c || (c =? 95).
Definition p_decimal_text (t : str) : option (str * str) :=
  let '(sg, t0) := match t with 45 :: r => ([45], r) | _ => ([], t) end in
  let '(ip, t1) := span is_dig_us t0 in
  match ip with
  | [] => None
  | _ =>
      let '(fp, t2) := match t1 with
                       | 46 :: r => let '(d, r') := span is_dig_us r in
                                    match d with [] => ([], t1) | _ => (46 :: d, r') end
                       | _ => ([], t1)
                       end in
      let '(ex, t3) := match t2 with
                       | e :: r => if (e =? 101) || (e =? 69) then
                                     let '(s2, r2) := match r with
                                                      | c :: r' => if (c =? 43) || (c =? 45) then ([c], r') else ([], r)
                                                      | [] => ([], r)
                                                      end in
                                     let '(d, r3) := span is_dig_us r2 in
                                     match d with [] => ([], t2) | _ => (101 :: s2 ++ d, r3) end
                                   else ([], t2)
                       | [] => ([], t2)
                       end in
      Some (sg ++ ip ++ fp ++ ex, t3)
  end.
Definition is_unit_char (c : N) : bool :=
  is_alpha c || (c =? 37) || (c =? 95) || (c =? 47) || (c =? 36) || ((128 <=? c) && (c <=? 65534)).
Definition strip3 (a b c0 : N) (t : str) : option str :=
  match t with x :: y :: z :: r => if (x =? a) && (y =? b) && (z =? c0) then Some r else None | _ => None end.
(* hs_number = hs_quantity | hs_decimal | INF | -INF | NaN | Nan *)
Definition p_number : fparser hval :=
  fun i => let j := ws i in
    match to_inp_result p_decimal_text j with
    | Some (tok, k) =>
        let '(u, e) := span_of is_unit_char k in
        match u with
        | [] => Some (VNum NkFin tok tok None, k)
        | _ => Some (VNum NkFin tok tok (Some u), e)
        end
    | None =>
        match eat [73; 78; 70] j with Some k => Some (VNum NkInf [] [] None, k) | None =>
        match eat [45; 73; 78; 70] j with Some k => Some (VNum NkNegInf [] [] None, k) | None =>
        match eat [78; 97; 78] j with Some k => Some (VNum NkNaN [] [] None, k) | None =>
        match eat [78; 97; 110] j with Some k => Some (VNum NkNaN [] [] None, k) | None => None end end end end
    end.

(* the modelled alternatives of hs_val, in source order: ref, number, NA, N, M, true/false, str, uri.
   (lists, dicts, Bin, XStr, dates, times, coordinates precede or follow them in the source; a literal that
   one of those rules could start - '[', '{', '*', a name followed by '(', 'C(', digits followed by '-' or ':' -
   is outside the model and is not offered to it) *)
Definition p_val : fparser hval :=
  fun i =>
    match p_ref i with Some r => Some r | None =>
    match p_number i with Some r => Some r | None =>
    match lit [78; 65] i with Some (_, j) => Some (VNA, j) | None =>
    match lit [78] i with Some (_, j) => Some (VNull, j) | None =>
    match lit [77] i with Some (_, j) => Some (VMarker, j) | None =>
    match lit [116; 114; 117; 101] i with Some (_, j) => Some (VBool true, j) | None =>
    match lit [102; 97; 108; 115; 101] i with Some (_, j) => Some (VBool false, j) | None =>
    match p_qstr i with Some (s, j) => Some (VStr s, j) | None =>
    match p_quri i with Some (s, j) => Some (VUri s, j) | None => None
    end end end end end end end end end.

(* ---- terms, and, or ---- *)
Definition KW_NOT : str := [110; 111; 116].
Definition KW_AND : str := [97; 110; 100].
Definition KW_OR : str := [111; 114].

(* ZeroOrMore(Keyword(k) + operand): folded to the left as _fold_binary does *)
Fixpoint fold_more (fuel : nat) (k : str) (mk : fexpr -> fexpr -> fexpr) (operand : fparser fexpr)
                   (acc : fexpr) (i : inp) : fexpr * inp :=
  match fuel with
  | O => (acc, i)
  | S f => match keyword k i with
           | Some (_, j) => match operand j with
                            | Some (e, l) => fold_more f k mk operand (mk acc e) l
                            | None => (acc, i)
                            end
           | None => (acc, i)
           end
  end.

(* hs_term = hs_parens | hs_missing | hs_cmp | hs_has, given the parser of the nested filter *)
Definition p_term_with (inner : fparser fexpr) : fparser fexpr := fun i =>
  match (match lit [40] i with
         | Some (_, j) => match inner j with
                          | Some (e, k) => match lit [41] k with Some (_, l) => Some (e, l) | None => None end
                          | None => None
                          end
         | None => None
         end) with
  | Some r => Some r
  | None =>
    match (match keyword KW_NOT i with
           | Some (_, j) => match p_path j with Some (p, k) => Some (FMissing p, k) | None => None end
           | None => None
           end) with
    | Some r => Some r
    | None =>
      match (match p_path i with
             | Some (p, j) => match p_cmpop j with
                              | Some (op, k) => match p_val k with Some (v, l) => Some (FCmp op p v, l) | None => None end
                              | None => None
                              end
             | None => None
             end) with
      | Some r => Some r
      | None => match p_path i with Some (p, j) => Some (FHas p, j) | None => None end
      end
    end
  end.
(* hs_condAnd, hs_condOr *)
Definition p_and_with (inner : fparser fexpr) : fparser fexpr := fun i =>
  match p_term_with inner i with
  | Some (e, j) => Some (fold_more (length (rest j)) KW_AND FAnd (p_term_with inner) e j)
  | None => None
  end.
Definition p_or_with (inner : fparser fexpr) : fparser fexpr := fun i =>
  match p_and_with inner i with
  | Some (e, j) => Some (fold_more (length (rest j)) KW_OR FOr (p_and_with inner) e j)
  | None => None
  end.
Fixpoint p_filter (fuel : nat) (i : inp) {struct fuel} : option (fexpr * inp) :=
  match fuel with
  | O => None
  | S f => p_or_with (fun j => p_filter f j) i
  end.

(* parse_filter: parseAll=True *)
Definition fparse (t : str) : option fexpr :=
  match p_filter (S (length t)) (mkInp 0 t) with
  | Some (e, j) => match rest (ws j) with [] => Some e | _ => None end
  | None => None
  end.

(* ------------------------------------------------------------------ the generated code *)
Inductive pyexpr :=
| PGetPath (p : path)
| PConst (i : nat)
| PCompare (op : cmpop) (l r : pyexpr)
| PAnd (a b : pyexpr)
| POr (a b : pyexpr)
| PIdNe (x : pyexpr)        (* (id(x) !=  id(NOT_FOUND)) *)
| PIdEq (x : pyexpr).       (* (id(x) == id(NOT_FOUND)) *)

(* _generate_filter_in_python: the literals go to consts, the expression refers to them by position *)
Fixpoint fgen (e : fexpr) (consts : list hval) : pyexpr * list hval :=
  match e with
  | FHas p => (PIdNe (PGetPath p), consts)
  | FMissing p => (PIdEq (PGetPath p), consts)
  | FCmp op p v => (PCompare op (PGetPath p) (PConst (length consts)), consts ++ [v])
  | FAnd a b => let '(x, c1) := fgen a consts in let '(y, c2) := fgen b c1 in (PAnd x y, c2)
  | FOr a b => let '(x, c1) := fgen a consts in let '(y, c2) := fgen b c1 in (POr x y, c2)
  end.

(* the Python source of the expression *)
From Coq Require Import String.
Definition op_text (op : cmpop) : str :=
  s_ (match op with CEq => "==" | CNe => "!=" | CLe => "<=" | CGe => ">=" | CLt => "<" | CGt => ">" end)%string.
Definition py_list_repr (p : path) : str :=
  (* repr of a list of plain names: ['a', 'b'] *)
  91 :: join [44; 32] (List.map (fun n => 39 :: List.app n [39]) p) ++ [93].
Fixpoint render (e : pyexpr) : str :=
  match e with
  | PGetPath p => List.app (s_ "_get_path(_grid, _entity, "%string) (List.app (py_list_repr p) [41])
  | PConst i => List.app (s_ "_c["%string) (List.app (str_of_N (N.of_nat i)) [93])
  | PCompare op l r => List.app (s_ "_compare('"%string) (List.app (op_text op) (List.app (s_ "', "%string)
                         (List.app (render l) (List.app (s_ ", "%string) (List.app (render r) [41])))))
  | PAnd a b => 40 :: List.app (render a) (List.app (s_ " and "%string) (List.app (render b) [41]))
  | POr a b => 40 :: List.app (render a) (List.app (s_ " or "%string) (List.app (render b) [41]))
  | PIdNe x => List.app (s_ "(id("%string) (List.app (render x) (s_ ") !=  id(NOT_FOUND))"%string))
  | PIdEq x => List.app (s_ "(id("%string) (List.app (render x) (s_ ") == id(NOT_FOUND))"%string))
  end.

(* ------------------------------------------------------------------ rows and evaluation *)
(* a cell value, as far as filters can tell: null; a string (ids may be kept as strings); a reference
   (its name and its str() form, which is what the grid index is keyed by); a nested dict; anything else.
   `vid` identifies the Python object for the comparison oracle. *)
Inductive fval :=
| FNull
| FStr (s : str) (vid : N)
| FRef (name : str) (strform : str) (vid : N)
| FDict (d : list (str * fval)) (vid : N)
| FOther (vid : N).
Definition frow := list (str * fval).
Definition ID : str := [105; 100].

Definition id_key (r : frow) : option str :=
  match assoc ID r with
  | Some (FStr s _) => Some s
  | Some (FRef _ sf _) => Some sf
  | _ => None
  end.
(* grid.get(key): the index maps str(id) to the LAST row carrying it *)
Fixpoint grid_get (rows : list frow) (k : str) : option frow :=
  match rows with
  | [] => None
  | r :: rows' =>
      match grid_get rows' k with
      | Some x => Some x
      | None => match id_key r with Some k' => if str_eqb k' k then Some r else None | None => None end
      end
  end.
(* _follow_ref *)
Definition follow_ref (rows : list frow) (name : str) : option frow :=
  match grid_get rows name with
  | Some r => Some r
  | None =>
      match grid_get rows (64 :: name) with
      | Some r => Some r
      | None => find (fun r => match assoc ID r with Some (FRef n _ _) => str_eqb n name | _ => false end) rows
      end
  end.

(* what a step of _get_path indexes into *)
Inductive fobj := ORow (r : frow) | OVal (v : fval).
(* _get_path: None is NOT_FOUND *)
Fixpoint get_path (rows : list frow) (obj : fobj) (p : path) : option fval :=
  match p with
  | [] => match obj with OVal FNull => None | OVal v => Some v | ORow _ => None end
  | name :: p' =>
      let item := match obj with
                  | ORow r => assoc name r
                  | OVal (FDict d _) => assoc name d
                  | OVal _ => None              (* TypeError / KeyError / IndexError -> NOT_FOUND *)
                  end in
      match item with
      | None => None
      | Some v =>
          match p' with
          | [] => match v with FNull => None | _ => Some v end
          | _ => match v with
                 | FRef n _ _ => match follow_ref rows n with
                                 | Some r => get_path rows (ORow r) p'
                                 | None => None
                                 end
                 | _ => get_path rows (OVal v) p'
                 end
          end
      end
  end.

Section Eval.
  (* Python's comparison of a cell value with a literal: bool(op(left, right)), False on TypeError *)
  Variable cmp : cmpop -> fval -> hval -> bool.
  Variable rows : list frow.
  Variable row : frow.

  Inductive pyv := PVBool (b : bool) | PVVal (v : option fval) | PVLit (v : hval) | PVBad.
  Definition truthy (x : pyv) : bool :=
    match x with PVBool b => b | PVVal None => false | PVVal (Some _) => true | _ => true end.

  Fixpoint eval (consts : list hval) (e : pyexpr) : pyv :=
    match e with
    | PGetPath p => PVVal (get_path rows (ORow row) p)
    | PConst i => match nth_error consts i with Some v => PVLit v | None => PVBad end
    | PCompare op l r =>
        match eval consts l, eval consts r with
        | PVVal None, PVLit _ => PVBool false             (* left is NOT_FOUND *)
        | PVVal (Some v), PVLit x => PVBool (cmp op v x)
        | _, _ => PVBad
        end
    | PAnd a b => let x := eval consts a in if truthy x then eval consts b else x
    | POr a b => let x := eval consts a in if truthy x then x else eval consts b
    | PIdNe x => match eval consts x with PVVal None => PVBool false | PVVal (Some _) => PVBool true | _ => PVBad end
    | PIdEq x => match eval consts x with PVVal None => PVBool true | PVVal (Some _) => PVBool false | _ => PVBad end
    end.

  (* the specification: what the filter denotes on this row *)
  Fixpoint denote (e : fexpr) : bool :=
    match e with
    | FHas p => match get_path rows (ORow row) p with Some _ => true | None => false end
    | FMissing p => match get_path rows (ORow row) p with Some _ => false | None => true end
    | FCmp op p v => match get_path rows (ORow row) p with Some x => cmp op x v | None => false end
    | FAnd a b => denote a && denote b
    | FOr a b => denote a || denote b
    end.
End Eval.

(* Grid.filter's loop: append the rows for which the function is true, stop when `limit` rows were taken *)
Fixpoint filter_loop {A} (f : A -> bool) (limit : nat) (taken : nat) (rows : list A) : list A :=
  match rows with
  | [] => []
  | r :: rows' =>
      let hit := f r in
      let taken' := if hit then S taken else taken in
      let out := if hit then [r] else [] in
      if negb (Nat.eqb limit 0) && Nat.eqb taken' limit then out
      else List.app out (filter_loop f limit taken' rows')
  end.
(* Grid.filter(text, limit) on the rows: a blank filter gives the grid itself / its first rows *)
Definition is_blank_text (t : str) : bool := forallb (fun c => (c =? 32) || ((9 <=? c) && (c <=? 13)) || ((28 <=? c) && (c <=? 31))) t.
Definition run_filter {A} (sel : option (A -> bool)) (limit : Z) (rows : list A) : list A :=
  match sel with
  | None => (* blank filter *)
      if (limit =? 0)%Z then rows
      else if (0 <? limit)%Z then firstn (Z.to_nat limit) rows
      else firstn (List.length rows - Z.to_nat (- limit)) rows
  | Some f => filter_loop f (Z.to_nat limit) 0 rows
  end.

(* ------------------------------------------------------------------ wire *)
Local Open Scope string_scope.
Definition scmp (op : cmpop) : sexp := SStr (op_text op).
Definition spath (p : path) : sexp := SList (List.map SStr p).
Fixpoint sfexpr (e : fexpr) : sexp :=
  match e with
  | FHas p => SList [sym "has"; spath p]
  | FMissing p => SList [sym "missing"; spath p]
  | FCmp op p v => SList [sym "cmp"; scmp op; spath p; shval 6 v]
  | FAnd a b => SList [sym "and"; sfexpr a; sfexpr b]
  | FOr a b => SList [sym "or"; sfexpr a; sfexpr b]
  end.

(* (fparse text): the AST, the generated source, the literals *)
Definition cmd_fparse (args : list sexp) : sexp :=
  match args with
  | [SStr t] => match fparse t with
                | Some e => let '(x, consts) := fgen e [] in
                            SList [sym "ok"; sfexpr e; SStr (render x); SList (List.map (shval 6) consts)]
                | None => sym "error"
                end
  | _ => bad_request
  end.

Fixpoint dec_fval (fuel : nat) (e : sexp) : option fval :=
  match fuel with
  | O => None
  | S f =>
      match e with
      | SList [h] => if is_sym "null" h then Some FNull else None
      | SList [h; SStr s; SInt i] => if is_sym "str" h then Some (FStr s (Z.to_N i)) else None
      | SList [h; SStr n; SStr sf; SInt i] => if is_sym "ref" h then Some (FRef n sf (Z.to_N i)) else None
      | SList [h; SInt i] => if is_sym "other" h then Some (FOther (Z.to_N i)) else None
      | SList [h; SList items; SInt i] =>
          if is_sym "dict" h then
            match (fix go (l : list sexp) : option (list (str * fval)) :=
                     match l with
                     | [] => Some []
                     | SList [SStr k; v] :: l' => match dec_fval f v, go l' with
                                                  | Some x, Some r => Some ((k, x) :: r)
                                                  | _, _ => None
                                                  end
                     | _ => None
                     end) items with
            | Some d => Some (FDict d (Z.to_N i))
            | None => None
            end
          else None
      | _ => None
      end
  end.

Definition dec_frow (e : sexp) : option frow :=
  match e with
  | SList items =>
      (fix go (l : list sexp) : option frow :=
         match l with
         | [] => Some []
         | SList [SStr k; v] :: l' => match dec_fval 6 v, go l' with
                                      | Some x, Some r => Some ((k, x) :: r)
                                      | _, _ => None
                                      end
         | _ => None
         end) items
  | _ => None
  end.

Definition vid_of (v : fval) : option N :=
  match v with FStr _ i | FRef _ _ i | FOther i | FDict _ i => Some i | FNull => None end.

(* (frun text limit (row ...) ((vid const-index outcome-bits) ...)):
   the indices of the selected rows; the oracle table gives, for a value id and a literal position,
   the outcomes of == != <= >= < > as six booleans *)
Definition cmd_frun (args : list sexp) : sexp :=
  match args with
  | [SStr t; SInt limit; SList rws; SList table] =>
      let rows := flat_map (fun r => match dec_frow r with Some x => [x] | None => [] end) rws in
      let numbered := combine (seq 0 (List.length rows)) rows in
      let answer (sel : list (nat * frow)) := SList (sym "ok" :: List.map (fun nr => SInt (Z.of_nat (fst nr))) sel) in
      if is_blank_text t then answer (run_filter None limit numbered)
      else
      match fparse t with
      | None => sym "error"
      | Some e =>
          let '(x, consts) := fgen e [] in
          let tbl := flat_map (fun en => match en with
                                         | SList [SInt v; SInt c; SList bits] => [((Z.to_N v, Z.to_nat c), List.map (is_sym "true") bits)]
                                         | _ => []
                                         end) table in
          (* the k-th literal is replaced by the number k, so that the oracle can be asked by position *)
          let marks := List.map (fun k => VNum NkFin (str_of_N (N.of_nat k)) [] None) (seq 0 (List.length consts)) in
          let cmp (op : cmpop) (v : fval) (lit : hval) : bool :=
            match vid_of v, lit with
            | Some i, VNum _ tok _ _ =>
                let ci := N.to_nat (Model.Version.int_of_digits tok) in
                match find (fun en => N.eqb (fst (fst en)) i && Nat.eqb (snd (fst en)) ci) tbl with
                | Some (_, bits) => nth (match op with CEq => 0 | CNe => 1 | CLe => 2 | CGe => 3 | CLt => 4 | CGt => 5 end)%nat bits false
                | None => false
                end
            | _, _ => false
            end in
          let f := fun nr : nat * frow => truthy (eval cmp rows (snd nr) marks x) in
          answer (run_filter (Some f) limit numbered)
      end
  | _ => bad_request
  end.
