(* Coordinates through the scalar alternation *)
From Coq Require Import String.
From Coq Require Import List NArith Bool Lia Arith.
From HS Require Import Base.Prelude Model.Value Model.Escape Model.Version Model.Json Model.ZincParse Model.ZincDump.
From HS Require Import Proofs.EscapeP Proofs.JsonP Proofs.ZincParseP Proofs.ZincNumP Proofs.ZincListP Proofs.ZincGridP Proofs.ZincDictP Proofs.ZincLeavesP.
Import ListNotations.
Open Scope N_scope.

(* a degree text: optional minus, digits, optional fraction *)
Definition deg (sg : bool) (ip : str) (fp : option str) : str := (sgn sg ++ ip ++ fpt fp)%list.
Definition deg_ok (ip : str) (fp : option str) : Prop := digs ip /\ fp_ok fp.
(* what may follow: no digit / underscore, no dot *)
Definition degstop (t : str) : Prop := match t with c :: _ => is_digit_us c = false /\ c <> 46 | [] => True end.

Lemma p_coord_deg_tok sg ip fp tail : deg_ok ip fp -> degstop tail ->
  p_coord_deg (deg sg ip fp ++ tail) = Some (Ok (deg sg ip fp), tail).
Proof.
  intros [Hip Hfp] Ht.
  assert (Nt : nodig tail) by (destruct tail; cbn in *; tauto).
  assert (F : popt (pthen (plit [46]) p_digits) (fpt fp ++ tail) = Some (Ok fp, tail)).
  { destruct fp as [d|]; cbn [fp_ok] in Hfp; cbn [fpt List.app].
    - apply opt_frac_some; [exact Hfp|exact Nt].
    - apply opt_frac_none. destruct tail; [exact I|]. cbn in Ht. tauto. }
  assert (I1 : popt p_digits (ip ++ fpt fp ++ tail) = Some (Ok (Some ip), fpt fp ++ tail)).
  { apply popt_ok. apply p_digits_run; [exact Hip|]. destruct fp as [d|]; cbn [fpt List.app]; [reflexivity|exact Nt]. }
  assert (S1 : popt (plit [45]) (sgn sg ++ ip ++ fpt fp ++ tail) = Some (Ok (if sg then Some tt else None), ip ++ fpt fp ++ tail)).
  { destruct sg; cbn [sgn List.app]; [reflexivity|]. destruct Hip as [Hne Hall]. destruct ip as [|c ip']; [contradiction|].
    inversion Hall as [|? ? Hc _]; subst. cbn [List.app]. unfold popt, plit. dcases Hc; reflexivity. }
  unfold deg. rewrite <- !app_assoc.
  set (P := pand (popt (plit [45])) (pand (popt p_digits) (popt (pthen (plit [46]) p_digits)))).
  assert (Q : P (sgn sg ++ ip ++ fpt fp ++ tail) = Some (Ok (if sg then Some tt else None, (Some ip, fp)), tail)).
  { eapply pand_ok; [exact S1|]. eapply pand_ok; [exact I1|exact F]. }
  unfold p_coord_deg. fold P. unfold pact. rewrite Q.
  destruct Hip as [Hne _]. destruct ip as [|c ip']; [contradiction|].
  destruct sg; destruct fp as [d|]; reflexivity.
Qed.

Definition coord_text (la lo : str) : str := (67 :: 40 :: la ++ 44 :: lo ++ [41])%list.

Lemma deg_hd sg ip fp : digs ip -> exists c t, deg sg ip fp = c :: t /\ is_sp c = false /\ c <> 34.
Proof.
  intros [Hne Hall]. destruct ip as [|c ip']; [contradiction|]. inversion Hall as [|? ? Hc _]; subst. unfold deg.
  destruct sg; cbn [sgn List.app]; eexists; eexists; (split; [reflexivity|]); [split; [reflexivity|discriminate]|].
  dcases Hc; split; try reflexivity; discriminate.
Qed.

Lemma p_coord_reads s1 i1 f1 s2 i2 f2 rest : deg_ok i1 f1 -> deg_ok i2 f2 ->
  p_coord (coord_text (deg s1 i1 f1) (deg s2 i2 f2) ++ rest) = Some (Ok (VCoord (deg s1 i1 f1) (deg s2 i2 f2)), rest).
Proof.
  intros H1 H2. unfold coord_text. cbn [List.app]. rewrite <- !app_assoc. cbn [List.app]. rewrite <- !app_assoc. cbn [List.app].
  unfold p_coord.
  assert (L : plit (s_ "C(") (67 :: 40 :: deg s1 i1 f1 ++ 44 :: deg s2 i2 f2 ++ 41 :: rest) = Some (Ok tt, deg s1 i1 f1 ++ 44 :: deg s2 i2 f2 ++ 41 :: rest)) by reflexivity.
  assert (A : p_coord_deg (deg s1 i1 f1 ++ 44 :: deg s2 i2 f2 ++ 41 :: rest) = Some (Ok (deg s1 i1 f1), 44 :: deg s2 i2 f2 ++ 41 :: rest)).
  { apply p_coord_deg_tok; [exact H1|]. cbn. split; [reflexivity|discriminate]. }
  destruct (deg_hd s2 i2 f2 (proj1 H2)) as [c [t [E [Hs _]]]].
  assert (V : value_sep (44 :: deg s2 i2 f2 ++ 41 :: rest) = Some (Ok tt, deg s2 i2 f2 ++ 41 :: rest)).
  { pose proof (comma_with_blanks 0 0 (deg s2 i2 f2 ++ 41 :: rest)) as V. cbn [blanks repeat List.app] in V. apply V. rewrite E. exact Hs. }
  assert (B : p_coord_deg (deg s2 i2 f2 ++ 41 :: rest) = Some (Ok (deg s2 i2 f2), 41 :: rest)).
  { apply p_coord_deg_tok; [exact H2|]. cbn. split; [reflexivity|discriminate]. }
  assert (C : plit [41] (41 :: rest) = Some (Ok tt, rest)) by reflexivity.
  unfold pthen at 1. unfold pmap. unfold pand at 1. rewrite L. unfold pand at 1. rewrite A.
  unfold pthen, pbefore, pmap, pand. rewrite V, B, C. reflexivity.
Qed.

Lemma scalar_coord f v3 s1 i1 f1 s2 i2 f2 rest : deg_ok i1 f1 -> deg_ok i2 f2 ->
  p_scalar (S f) v3 (coord_text (deg s1 i1 f1) (deg s2 i2 f2) ++ rest) = Some (Ok (VCoord (deg s1 i1 f1) (deg s2 i2 f2)), rest).
Proof.
  intros H1 H2. pose proof (p_coord_reads s1 i1 f1 s2 i2 f2 rest H1 H2) as R.
  destruct (deg_hd s1 i1 f1 (proj1 H1)) as [c [t [E [_ Hq]]]].
  revert R. unfold coord_text. cbn [List.app]. rewrite E. cbn [List.app]. intro R.
  set (T := (t ++ 44 :: deg s2 i2 f2 ++ [41])%list ++ rest) in *.
  assert (X : p_xstr (67 :: 40 :: c :: T) = None).
  { unfold p_xstr, pmap, pand, pspan1.
    assert (S1 : span is_xname_char (67 :: 40 :: c :: T) = ([67], 40 :: c :: T)) by reflexivity. rewrite S1.
    unfold pthen, pbefore, pmap, pand. assert (L : plit [40] (40 :: c :: T) = Some (Ok tt, c :: T)) by reflexivity. rewrite L.
    rewrite (p_str_not_quote c T Hq). reflexivity. }
  destruct (date_letters 67 (40 :: c :: T) eq_refl) as [D1 [D2 D3]].
  cbn [p_scalar]. destruct v3; cbv zeta; unfold scalars_2_0, por.
  - rewrite por_pick_skip by reflexivity. rewrite por_pick_skip by exact X. do 3 rewrite por_pick_skip by reflexivity.
    rewrite por_pick_skip by exact D1. rewrite por_pick_skip by exact D2. rewrite por_pick_skip by exact D3.
    apply por_pick_take; [exact R|]. repeat (apply Forall_cons; [reflexivity|]). apply Forall_nil.
  - do 4 rewrite por_pick_skip by reflexivity.
    rewrite por_pick_skip by exact D1. rewrite por_pick_skip by exact D2. rewrite por_pick_skip by exact D3.
    apply por_pick_take; [exact R|]. repeat (apply Forall_cons; [reflexivity|]). apply Forall_nil.
Qed.

Lemma leafd_coord s1 i1 f1 s2 i2 f2 : deg_ok i1 f1 -> deg_ok i2 f2 ->
  leafd (VCoord (deg s1 i1 f1) (deg s2 i2 f2)) (coord_text (deg s1 i1 f1) (deg s2 i2 f2)).
Proof.
  intros H1 H2. split.
  - intro f. reflexivity.
  - intros g rest _. apply scalar_coord; assumption.
Qed.
