(* Model of hszinc/jsondumper.py and hszinc/jsonparser.py on JSON trees
   (json.dumps / json.loads are the harness's business).  The writer is the
   isinstance ladder of dump_scalar; the reader is the cascade of
   parse_embedded_scalar in its order, each regex as a hand-written matcher
   with the typos of the source ("(:?" groups), re.match's prefix matching and
   the flags the source compiles with.
   Executable definitions only; proofs in Proofs/JsonP.v. *)
From Coq Require Import String.
From HS Require Import Base.Prelude Gen.JsonData Model.Value Model.Version.
Open Scope N_scope.

Definition COLON : N := 58.
Definition SP : N := 32.

Definition is_v3_only (v : hval) : bool :=
  match v with VNA | VList _ | VDict _ | VGrid _ _ _ _ | VXStr _ _ => true | _ => false end.

(* pre_3_0(version): nearest official version < 3.0 *)
Definition pre3_of (ver : str) : res bool :=
  do v <- parse_ver ver;
  do n <- nearest officials v;
  Ok (vlt n (mkVer [3; 0] None)).

(* ================================================================== *)
(* WRITER *)

Definition jnum_text (k : numkind) (jtok : str) : str :=
  match k with
  | NkNaN => s_ "n:NaN"%string | NkInf => s_ "n:INF"%string | NkNegInf => s_ "n:-INF"%string
  | NkFin => 110 :: COLON :: jtok
  end.

Fixpoint jdump (fuel : nat) (pre3 : bool) (v : hval) {struct fuel} : res json :=
  match fuel with
  | O => Raise OutOfFuel
  | S f =>
      match v with
      | VNull => Ok JNull
      | VMarker => Ok (JStr marker_str)
      | VNA => if pre3 then Raise ValueError else Ok (JStr na_str)
      | VRemove => Ok (JStr (if pre3 then remove2_str else remove3_str))
      | VList l =>
          if pre3 then Raise ValueError else
          do r <- (fix go (l : list hval) : res (list json) :=
                     match l with
                     | [] => Ok []
                     | x :: l' => do j <- jdump f pre3 x; do r <- go l'; Ok (j :: r)
                     end) l;
          Ok (JArr r)
      | VDict d =>
          if pre3 then Raise ValueError else
          do r <- (fix go (l : list (str * hval)) : res (list (str * json)) :=
                     match l with
                     | [] => Ok []
                     | (k, x) :: l' => do j <- jdump f pre3 x; do r <- go l'; Ok ((k, j) :: r)
                     end) d;
          Ok (JObj (dict_of r))
      | VBool b => Ok (JBool b)
      | VRef n dis => Ok (JStr (114 :: COLON :: n ++ match dis with Some d => SP :: d | None => [] end))
      | VBin s => Ok (JStr (98 :: COLON :: s))
      | VXStr en tx => if pre3 then Raise ValueError else Ok (JStr (120 :: COLON :: en ++ COLON :: tx))
      | VUri s => Ok (JStr (117 :: COLON :: s))
      | VStr s => Ok (JStr (115 :: COLON :: s))
      | VDateTime y m d h mi s us off z =>
          match z with
          | ZError e => Raise e
          | ZName n => Ok (JStr (116 :: COLON :: iso_datetime y m d h mi s us off ++ SP :: n))
          end
      | VDateTimeRaw _ _ => Raise NotImplementedError
      | VTime h mi s us => Ok (JStr (104 :: COLON :: iso_time h mi s us))
      | VDate y m d => Ok (JStr (100 :: COLON :: iso_date y m d))
      | VCoord la lo => Ok (JStr (99 :: COLON :: la ++ 44 :: lo))
      | VNum k _ jtok u =>
          match u with
          | Some (c :: u') => Ok (JStr (110 :: COLON :: jtok ++ SP :: c :: u'))     (* 'n:%f %s' *)
          | _ => Ok (JStr (jnum_text k jtok))
          end
      | VGrid ver meta cols rows =>
          if pre3 then Raise ValueError else jdump_grid f ver meta cols rows
      end
  end

(* _dump_grid_to_json: everything inside is judged by the grid's OWN version *)
with jdump_grid (fuel : nat) (ver : str) (meta : list (str * hval))
                (cols : list (str * list (str * hval))) (rows : list (list (str * hval)))
                {struct fuel} : res json :=
  match fuel with
  | O => Raise OutOfFuel
  | S f =>
      do p3 <- pre3_of ver;
      let dump_items := (fix go (l : list (str * hval)) : res (list (str * json)) :=
                           match l with
                           | [] => Ok []
                           | (k, x) :: l' => do j <- jdump f p3 x; do r <- go l'; Ok ((k, j) :: r)
                           end) in
      do m <- dump_items meta;
      match cols with
      | [] => Raise TypeError          (* dump_columns of no columns: map() is called without an iterable *)
      | _ =>
          do cs <- (fix go (l : list (str * list (str * hval))) : res (list json) :=
                      match l with
                      | [] => Ok []
                      | (c, cm) :: l' =>
                          do cmj <- dump_items cm;
                          do r <- go l';
                          Ok (JObj (dict_set (s_ "name"%string) (JStr c) (dict_of cmj)) :: r)
                      end) cols;
          do rs <- (fix go (l : list (list (str * hval))) : res (list json) :=
                      match l with
                      | [] => Ok []
                      | row :: l' =>
                          do cells <- dump_items (map (fun c => (fst c, match assoc (fst c) row with
                                                                        | Some x => x | None => VNull end)) cols);
                          do r <- go l';
                          Ok (JObj (dict_of cells) :: r)
                      end) rows;
          Ok (JObj [(s_ "meta"%string, JObj (dict_set (s_ "ver"%string) (JStr ver) (dict_of m)));
                    (s_ "cols"%string, JArr cs); (s_ "rows"%string, JArr rs)])
      end
  end.

Fixpoint vdepth (v : hval) : nat :=
  match v with
  | VList l => S (fold_right (fun x a => Nat.max (vdepth x) a) O l)
  | VDict d => S (fold_right (fun kv a => Nat.max (vdepth (snd kv)) a) O d)
  | VGrid _ m cs rs =>
      let items := fun (l : list (str * hval)) => fold_right (fun kv a => Nat.max (vdepth (snd kv)) a) O l in
      S (S (Nat.max (items m)
             (Nat.max (fold_right (fun c a => Nat.max (items (snd c)) a) O cs)
                      (fold_right (fun r a => Nat.max (items r) a) O rs))))
  | _ => O
  end.

Definition jdump_scalar (pre3 : bool) (v : hval) : res json := jdump (S (S (vdepth v))) pre3 v.
Definition jdump_top (v : hval) : res json :=
  match v with
  | VGrid ver m cs rs => jdump_grid (S (S (vdepth v))) ver m cs rs
  | _ => Raise TypeError
  end.

(* ================================================================== *)
(* READER *)

Fixpoint strip_prefix (p t : str) : option str :=
  match p, t with
  | [], _ => Some t
  | x :: p', y :: t' => if N.eqb x y then strip_prefix p' t' else None
  | _, [] => None
  end.

Fixpoint span (f : N -> bool) (t : str) : str * str :=
  match t with
  | c :: t' => if f c then let '(a, b) := span f t' in (c :: a, b) else ([], t)
  | [] => ([], [])
  end.

Definition NLc : N := 10.
(* "$" without re.MULTILINE: the end, or just before a final newline *)
Definition at_end (t : str) : bool := match t with [] => true | [c] => N.eqb c NLc | _ => false end.
(* "$" with re.MULTILINE: the end, or just before any newline *)
Definition at_eol (t : str) : bool := match t with [] => true | c :: _ => N.eqb c NLc end.

Definition two_digits (t : str) : option (str * str) :=
  match t with a :: b :: r => if is_digit a && is_digit b then Some ([a; b], r) else None | _ => None end.
Definition four_digits (t : str) : option (str * str) :=
  match t with
  | a :: b :: c :: d :: r => if is_digit a && is_digit b && is_digit c && is_digit d then Some ([a; b; c; d], r) else None
  | _ => None
  end.

(* t = c :: r ?  (tests by N.eqb, never by matching on numerals) *)
Definition hd_is (c : N) (t : str) : option str :=
  match t with x :: r => if x =? c then Some r else None | [] => None end.

(* a dot and digits *)
Definition dot_digits (t : str) : option (str * str) :=
  match hd_is 46 t with
  | Some r => let '(ds, r') := span is_digit r in
              match ds with [] => None | _ => Some (46 :: ds, r') end
  | None => None
  end.

(* the optional fraction group: an optional colon, a dot, digits - or nothing at all *)
Definition opt_frac (t : str) : str * str :=
  match (match hd_is 58 t with
         | Some r => match dot_digits r with Some (f, r') => Some (58 :: f, r') | None => None end
         | None => None
         end) with
  | Some x => x
  | None => match dot_digits t with Some x => x | None => ([], t) end
  end.

(* e|E, optional sign, digits *)
Definition exp_part (t : str) : option (str * str) :=
  match t with
  | e :: r =>
      if (e =? 101) || (e =? 69) then
        let signed :=
          match r with
          | sg :: r' => if (sg =? 43) || (sg =? 45) then
                          let '(ds, r'') := span is_digit r' in
                          match ds with [] => None | _ => Some (e :: sg :: ds, r'') end
                        else None
          | [] => None
          end in
        match signed with
        | Some x => Some x
        | None => let '(ds, r') := span is_digit r in
                  match ds with [] => None | _ => Some (e :: ds, r') end
        end
      else None
  | [] => None
  end.

(* the optional exponent group: optional colon, e|E, optional sign, digits *)
Definition opt_exp (t : str) : str * str :=
  match (match hd_is 58 t with
         | Some r => match exp_part r with Some (f, r') => Some (58 :: f, r') | None => None end
         | None => None
         end) with
  | Some x => x
  | None => match exp_part t with Some x => x | None => ([], t) end
  end.

(* NUMBER_RE after the "n:" prefix: (token handed to float(), unit) *)
Definition number_body (sign t1 : str) : option (str * option str) :=
  let '(ds, t2) := span is_digit t1 in
  match ds with
  | [] => None
  | _ =>
      let '(fr, t3) := opt_frac t2 in
      let '(ex, t4) := opt_exp t3 in
      let tok := sign ++ ds ++ fr ++ ex in
      match (match hd_is 58 t4 with Some r => hd_is 32 r | None => None end) with
      | Some u => Some (tok, Some u)
      | None =>
          match hd_is 32 t4 with
          | Some u => Some (tok, Some u)
          | None => if at_end t4 then Some (tok, None) else None
          end
      end
  end.
Definition match_number (t : str) : option (str * option str) :=
  match hd_is 45 t with Some r => number_body [45] r | None => number_body [] t end.

Definition is_ref_char (c : N) : bool :=
  ((48 <=? c) && (c <=? 57)) || ((65 <=? c) && (c <=? 90)) || ((97 <=? c) && (c <=? 122))
  || (c =? 95) || (c =? 58) || (c =? 45) || (c =? 46) || (c =? 126).

(* REF_RE after "r:" *)
Definition match_ref (t : str) : option (str * option str) :=
  let '(nm, r) := span is_ref_char t in
  match nm with
  | [] => None
  | _ => match hd_is 32 r with
         | Some d => Some (nm, Some d)
         | None => if at_end r then Some (nm, None) else None
         end
  end.

Definition days_in_month (y m : N) : N :=
  if (m =? 2) then (if ((y mod 4 =? 0) && negb (y mod 100 =? 0)) || (y mod 400 =? 0) then 29 else 28)
  else if (m =? 4) || (m =? 6) || (m =? 9) || (m =? 11) then 30 else 31.
Definition valid_date (y m d : N) : bool :=
  (1 <=? y) && (y <=? 9999) && (1 <=? m) && (m <=? 12) && (1 <=? d) && (d <=? days_in_month y m).

(* DATE_RE after "d:" *)
Definition match_date (t : str) : option (res hval) :=
  match four_digits t with
  | Some (y, t0) =>
    match hd_is 45 t0 with
    | Some t1 =>
      match two_digits t1 with
      | Some (m, t1') =>
        match hd_is 45 t1' with
        | Some t2 =>
          match two_digits t2 with
          | Some (d, t3) =>
              if at_eol t3 then
                let '(y, m, d) := (int_of_digits y, int_of_digits m, int_of_digits d) in
                Some (if valid_date y m d then Ok (VDate y m d) else Raise ValueError)
              else None
          | None => None
          end
        | None => None
        end
      | None => None
      end
    | None => None
    end
  | None => None
  end.

Fixpoint split_dot1 (t : str) : str * option str :=
  match t with
  | [] => ([], None)
  | c :: t' => if c =? 46 then ([], Some t')
               else let '(a, b) := split_dot1 t' in (c :: a, b)
  end.

Definition all_digits (t : str) : bool := forallb is_digit t && negb (match t with [] => true | _ => false end).

(* frac_sec[:6].ljust(6, '0') *)
Definition usec_of (frac : str) : N :=
  let six := firstn 6 frac in
  int_of_digits six * 10 ^ N.of_nat (6 - length six).

(* the seconds group: [colon] colon dd [fraction]; gives (text after the colons, rest) *)
Definition secs_part (t : str) : option (str * str * str) :=      (* (prefix colons, seconds text, rest) *)
  let try (pre : str) (r : str) :=
    match two_digits r with
    | Some (ss, r') => let '(fr, r'') := opt_frac r' in Some (pre, ss ++ fr, r'')
    | None => None
    end in
  match hd_is 58 t with
  | Some r1 =>
      match (match hd_is 58 r1 with Some r2 => try [58; 58] r2 | None => None end) with
      | Some x => Some x
      | None => try [58] r1
      end
  | None => None
  end.

(* TIME_RE after "h:" *)
Definition match_time (t : str) : option (res hval) :=
  match two_digits t with
  | Some (hh, t0) =>
    match hd_is 58 t0 with
    | Some t1 =>
      match two_digits t1 with
      | Some (mm, t2) =>
          let finish (second : option str) (rest : str) : option (res hval) :=
            if at_eol rest then
              let h := int_of_digits hh in let mi := int_of_digits mm in
              match second with
              | None => Some (if (h <=? 23) && (mi <=? 59) then Ok (VTime h mi 0 0) else Raise ValueError)
              | Some sec =>
                  let '(whole, frac) := split_dot1 sec in
                  if negb (all_digits whole) then Some (Raise ValueError) else
                  let s := int_of_digits whole in
                  let us := match frac with Some f => usec_of f | None => 0 end in
                  Some (if (h <=? 23) && (mi <=? 59) && (s <=? 59) then Ok (VTime h mi s us) else Raise ValueError)
              end
            else None in
          match secs_part t2 with
          | Some (_, sec, rest) => match finish (Some sec) rest with
                                   | Some x => Some x
                                   | None => finish None t2
                                   end
          | None => finish None t2
          end
      | None => None
      end
    | None => None
    end
  | None => None
  end.

Definition is_tzname_char (c : N) : bool :=
  ((48 <=? c) && (c <=? 57)) || ((65 <=? c) && (c <=? 90)) || ((97 <=? c) && (c <=? 122))
  || (c =? 45) || (c =? 43) || (c =? 95).

(* the offset group: [colon] z|Z, or sign digits [colon] [digits] *)
Definition tz_part (t : str) : option (str * str) :=
  let zed (pre : str) (r : str) :=
    match r with
    | z :: r' => if (z =? 122) || (z =? 90) then Some (pre ++ [z], r') else None
    | [] => None
    end in
  match (match hd_is 58 t with Some r => zed [58] r | None => None end) with
  | Some x => Some x
  | None =>
      match zed [] t with
      | Some x => Some x
      | None =>
          match t with
          | z :: r =>
              if (z =? 43) || (z =? 45) then
                let '(d1, r1) := span is_digit r in
                match d1 with
                | [] => None
                | _ => match hd_is 58 r1 with
                       | Some r2 => let '(d2', r3) := span is_digit r2 in Some (z :: d1 ++ 58 :: d2', r3)
                       | None => Some (z :: d1, r1)
                       end
                end
              else None
          | [] => None
          end
      end
  end.

(* DATETIME_RE after "t:": (text of group 1, zone name) *)
Definition match_datetime (t : str) : option (str * option str) :=
  match four_digits t with
  | Some (y, t0) =>
  match hd_is 45 t0 with
  | Some t1 =>
  match two_digits t1 with
  | Some (m, t1') =>
  match hd_is 45 t1' with
  | Some t2 =>
  match two_digits t2 with
  | Some (d, t2') =>
  match hd_is 84 t2' with
  | Some t3 =>
  match two_digits t3 with
  | Some (hh, t3') =>
  match hd_is 58 t3' with
  | Some t4 =>
  match two_digits t4 with
  | Some (mm, t5) =>
      match secs_part t5 with
      | None => None
      | Some (pre, sec, t6) =>
          match tz_part t6 with
          | None => None
          | Some (tzt, t7) =>
              let head := y ++ 45 :: m ++ 45 :: d ++ 84 :: hh ++ 58 :: mm ++ pre ++ sec ++ tzt in
              let name_after (r : str) : option (option str * str) :=
                let '(nm, r') := span is_tzname_char r in
                match nm with [] => None | _ => Some (Some nm, r') end in
              let with_name :=
                match (match hd_is 58 t7 with Some r => hd_is 32 r | None => None end) with
                | Some r => name_after r
                | None => match hd_is 32 t7 with Some r => name_after r | None => None end
                end in
              match with_name with
              | Some (nm, r) => if at_eol r then Some (head, nm)
                                else if at_eol t7 then Some (head, None) else None
              | None => if at_eol t7 then Some (head, None) else None
              end
          end
      end
  | None => None end
  | None => None end
  | None => None end
  | None => None end
  | None => None end
  | None => None end
  | None => None end
  | None => None end
  | None => None end.

(* COORD_RE after "c:" *)
Definition coord_part (t : str) : str * str :=
  let '(sg, t1) := match hd_is 45 t with Some r => ([45], r) | None => ([], t) end in
  let '(d1, t2) := span is_digit t1 in
  let '(dot, t3) := match hd_is 46 t2 with Some r => ([46], r) | None => ([], t2) end in
  let '(d2', t4) := span is_digit t3 in
  (sg ++ d1 ++ dot ++ d2', t4).
Definition has_digit (t : str) : bool := existsb is_digit t.
Definition match_coord (t : str) : option (res hval) :=
  let '(la, t1) := coord_part t in
  match hd_is 44 t1 with
  | Some t2 =>
      let '(lo, t3) := coord_part t2 in
      if at_eol t3 then Some (if has_digit la && has_digit lo then Ok (VCoord la lo) else Raise ValueError)
      else None
  | None => None
  end.

Fixpoint split_colon1 (t : str) : str * option str :=
  match t with
  | [] => ([], None)
  | c :: t' => if c =? 58 then ([], Some t')
               else let '(a, b) := split_colon1 t' in (c :: a, b)
  end.

Fixpoint mem_colon (t : str) : bool := match t with [] => false | c :: t' => (c =? 58) || mem_colon t' end.

(* the cascade for a JSON string *)
Definition jparse_str (pre3 : bool) (s : str) : res hval :=
  if str_eqb s marker_str then Ok VMarker
  else if str_eqb s na_str then (if pre3 then Raise ValueError else Ok VNA)
  else if str_eqb s remove2_str || str_eqb s remove3_str then Ok VRemove
  else if str_eqb s (s_ "n:INF"%string) then Ok (VNum NkInf [] [] None)
  else if str_eqb s (s_ "n:-INF"%string) then Ok (VNum NkNegInf [] [] None)
  else if str_eqb s (s_ "n:NaN"%string) then Ok (VNum NkNaN [] [] None)
  else
  match (match strip_prefix (s_ "n:"%string) s with Some t => match_number t | None => None end) with
  | Some (tok, u) => if mem_colon tok then Raise ValueError else Ok (VNum NkFin tok tok u)
  | None =>
  match strip_prefix (s_ "s:"%string) s with
  | Some t => Ok (VStr t)
  | None =>
  match strip_prefix (s_ "x:"%string) s with
  | Some t =>
      if pre3 then Raise ValueError else
      match split_colon1 t with
      | (en, Some d) => Ok (VXStr en d)
      | (_, None) => Raise TypeError
      end
  | None =>
  match (match strip_prefix (s_ "r:"%string) s with Some t => match_ref t | None => None end) with
  | Some (nm, d) => Ok (VRef nm d)
  | None =>
  match (match strip_prefix (s_ "d:"%string) s with Some t => match_date t | None => None end) with
  | Some r => r
  | None =>
  match (match strip_prefix (s_ "h:"%string) s with Some t => match_time t | None => None end) with
  | Some r => r
  | None =>
  match (match strip_prefix (s_ "t:"%string) s with Some t => match_datetime t | None => None end) with
  | Some (iso, zn) => Ok (VDateTimeRaw iso zn)
  | None =>
  match strip_prefix (s_ "u:"%string) s with
  | Some t => Ok (VUri t)
  | None =>
  match strip_prefix (s_ "b:"%string) s with
  | Some t => Ok (VBin t)
  | None =>
  match (match strip_prefix (s_ "c:"%string) s with Some t => match_coord t | None => None end) with
  | Some r => r
  | None => Ok (VStr s)
  end end end end end end end end end end.

Definition is_grid_obj (m : list (str * json)) : bool :=
  match assoc (s_ "meta"%string) m, assoc (s_ "cols"%string) m, assoc (s_ "rows"%string) m with
  | Some _, Some _, Some _ => true
  | _, _, _ => false
  end.

Fixpoint jparse (fuel : nat) (pre3 : bool) (j : json) {struct fuel} : res hval :=
  match fuel with
  | O => Raise OutOfFuel
  | S f =>
      match j with
      | JNull => Ok VNull
      | JArr l =>
          if pre3 then Raise ValueError else
          do r <- (fix go (l : list json) : res (list hval) :=
                     match l with
                     | [] => Ok []
                     | x :: l' => do v <- jparse f pre3 x; do r <- go l'; Ok (v :: r)
                     end) l;
          Ok (VList r)
      | JObj m =>
          if pre3 then Raise ValueError else
          if is_grid_obj m then jparse_grid f m
          else
            do r <- (fix go (l : list (str * json)) : res (list (str * hval)) :=
                       match l with
                       | [] => Ok []
                       | (k, x) :: l' => do v <- jparse f pre3 x; do r <- go l'; Ok ((k, v) :: r)
                       end) m;
            Ok (VDict (dict_of r))
      | JBool b => Ok (VBool b)
      | JNum tok => Ok (VNum NkFin tok tok None)
      | JStr s => jparse_str pre3 s
      end
  end

(* jsonparser.parse_grid on a decoded object *)
with jparse_grid (fuel : nat) (m : list (str * json)) {struct fuel} : res hval :=
  match fuel with
  | O => Raise OutOfFuel
  | S f =>
      match assoc (s_ "meta"%string) m with
      | Some (JObj meta) =>
          match assoc (s_ "ver"%string) meta with
          | Some (JStr ver) =>
              do pv <- parse_ver ver;
              do p3 <- pre3_of ver;
              let parse_items := (fix go (l : list (str * json)) : res (list (str * hval)) :=
                                    match l with
                                    | [] => Ok []
                                    | (k, x) :: l' => do v <- jparse f p3 x; do r <- go l'; Ok ((k, v) :: r)
                                    end) in
              do md <- parse_items (remove_key (s_ "ver"%string) meta);
              match assoc (s_ "cols"%string) m with
              | Some (JArr cols) =>
                  do cs <- (fix go (l : list json) : res (list (str * list (str * hval))) :=
                              match l with
                              | [] => Ok []
                              | JObj c :: l' =>
                                  match assoc (s_ "name"%string) c with
                                  | Some (JStr nm) =>
                                      do cm <- parse_items (remove_key (s_ "name"%string) c);
                                      do r <- go l';
                                      Ok ((nm, dict_of cm) :: r)
                                  | Some _ => Raise TypeError
                                  | None => Raise KeyError
                                  end
                              | _ :: _ => Raise AttributeError
                              end) cols;
                  do rs <- match assoc (s_ "rows"%string) m with
                           | Some (JArr rows) =>
                               (fix go (l : list json) : res (list (list (str * hval))) :=
                                  match l with
                                  | [] => Ok []
                                  | JObj r :: l' => do cells <- parse_items r; do rest <- go l'; Ok (dict_of cells :: rest)
                                  | _ :: _ => Raise AttributeError
                                  end) rows
                           | Some JNull | None => Ok []
                           | Some _ => Raise TypeError
                           end;
                  Ok (VGrid (vstr pv) (dict_of md) (dict_of cs) rs)
              | Some _ => Raise TypeError
              | None => Raise KeyError
              end
          | Some _ => Raise TypeError
          | None => Raise KeyError
          end
      | Some _ => Raise AttributeError
      | None => Raise KeyError
      end
  end.

Fixpoint jdepth (j : json) : nat :=
  match j with
  | JArr l => S (fold_right (fun x a => Nat.max (jdepth x) a) O l)
  | JObj m => S (fold_right (fun kv a => Nat.max (jdepth (snd kv)) a) O m)
  | _ => O
  end.

Definition jparse_scalar (pre3 : bool) (j : json) : res hval := jparse (S (S (jdepth j))) pre3 j.
Definition jparse_top (j : json) : res hval :=
  match j with
  | JObj m => jparse_grid (S (S (jdepth j))) m
  | _ => Raise AttributeError
  end.

(* ---- wire ---- *)
Local Open Scope string_scope.

Definition cmd_jdump (args : list sexp) : sexp :=
  match args with
  | [p; e] => match dec_hval 12 e with
              | Some v => sres (sjson 16) (jdump_scalar (is_sym "true" p) v)
              | None => bad_request
              end
  | [e] => match dec_hval 12 e with
           | Some v => sres (sjson 16) (jdump_top v)
           | None => bad_request
           end
  | _ => bad_request
  end.

Definition cmd_jparse (args : list sexp) : sexp :=
  match args with
  | [p; e] => match dec_json 16 e with
              | Some j => sres (shval 14) (jparse_scalar (is_sym "true" p) j)
              | None => bad_request
              end
  | [e] => match dec_json 16 e with
           | Some j => sres (shval 14) (jparse_top j)
           | None => bad_request
           end
  | _ => bad_request
  end.
