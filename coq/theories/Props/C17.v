(* C17 - date-times keep instant, offset and zone through every zone and DST transition.
   Statements about Model/TZ.v: _map_timezones over the regenerated lists (HAYSTACK_TIMEZONES of the source,
   pytz.all_timezones of this host), timezone(), timezone_name(), the date-time text of both writers and
   what both readers make of it.  pytz is an ORACLE: `zoff z i` = the UTC offset zone z has at instant i;
   every theorem holds for an arbitrary zoff, hence at every transition of every zone, ambiguous and
   skipped local times included (the text carries the numeric offset, the reader recovers the instant from
   it and asks the zone for its offset at that instant). *)
From Coq Require Import String.
From Coq Require Import List NArith ZArith Bool Arith.
From HS Require Import Base.Prelude Gen.TzData Model.TZ.
From HS Require Import Proofs.TZP.
Import ListNotations.
Open Scope N_scope.

(* the zone-name <-> tz mapping is one-to-one: for ANY Haystack list and ANY duplicate-free host list ... *)
Theorem C17_map_one_to_one_alg : forall hay all, NoDup all ->
  NoDup (map fst (map_timezones hay all)) /\ NoDup (map snd (map_timezones hay all)).
Proof. exact map_timezones_injective. Qed.
(* ... and on this host *)
Theorem C17_map_one_to_one_here : NoDup (map fst tz_map) /\ NoDup (map snd tz_map).
Proof. exact here_keys_vals. Qed.
Theorem C17_map_inverse_here : forall n z, lookup n tz_map = Some z <-> rlookup z tz_map = Some n.
Proof.
  intros n z. destruct here_keys_vals as [Hk Hv]. split; intro H.
  - apply (rlookup_In n z tz_map Hv). apply lookup_Some_In. exact H.
  - apply (lookup_In n z tz_map Hk). apply rlookup_Some_In. exact H.
Qed.

(* every mapped zone, every instant: written and read back, the same instant, offset and zone; the name is the zone's *)
Theorem C17_roundtrip : forall (zoff : str -> Z -> option Z) n z i o,
  In (n, z) tz_map -> zoff z i = Some o ->
  let d := mkAdt i o (Some z) in
  exists t, write zoff tz_map d = Ok t /\ tname t = Some n /\ read zoff tz_map t = d.
Proof. intros zoff n z i o. destruct here_keys_vals as [Hk Hv]. exact (roundtrip zoff tz_map Hk Hv n z i o). Qed.

(* any other tz-aware date-time: a zone whose offset at that instant equals the value's offset (UTC for a zero
   offset), or ValueError; never anything else *)
Theorem C17_foreign : forall (zoff : str -> Z -> option Z) d,
  match tz_name zoff tz_map d with
  | Ok n => (exists z, In (n, z) tz_map /\ zoff z (inst d) = Some (off d)) \/ (n = UTC /\ off d = 0%Z)
  | Raise e => e = ValueError
  end.
Proof. intros zoff d. exact (foreign zoff tz_map d). Qed.

(* the instant is never changed: what is written denotes it, what is read back has it *)
Theorem C17_instant_preserved : forall (zoff : str -> Z -> option Z) d t, write zoff tz_map d = Ok t ->
  (local t - toff t * 1000000)%Z = inst d /\ toff t = off d /\ inst (read zoff tz_map t) = inst d.
Proof. intros zoff d t. exact (instant_preserved zoff tz_map d t). Qed.

(* non-vacuity, on this host: the map is populated, UTC is in it *)
Example C17_map_here : (300 <= length tz_map)%nat /\ lookup UTC tz_map = Some (s_ "Etc/UTC") /\
  lookup (s_ "New_York") tz_map = Some (s_ "America/New_York").
Proof. split; [apply Nat.leb_le; vm_compute; reflexivity|]. split; vm_compute; reflexivity. Qed.

Print Assumptions C17_map_one_to_one_alg.
Print Assumptions C17_map_one_to_one_here.
Print Assumptions C17_map_inverse_here.
Print Assumptions C17_roundtrip.
Print Assumptions C17_foreign.
Print Assumptions C17_instant_preserved.
