From Coq Require Import String.
From Coq Require Import List NArith Bool Lia Arith.
From HS Require Import Base.Prelude Model.Value Model.Escape Model.Version Model.Json Model.ZincParse Model.ZincDump.
From HS Require Import Proofs.EscapeP Proofs.ZincParseP Proofs.ZincNumP Proofs.ZincListP Proofs.ZincGridP Proofs.ZincDictP.
Import ListNotations.
Open Scope N_scope.

(* references with a display name *)
Lemma p_ref_dis name s e rest : Forall (fun c => is_zref_char c = true) name -> escape_str s = Ok e ->
  p_ref (64 :: name ++ 32 :: DQ :: e ++ DQ :: rest) = Some (Ok (VRef name (Some s)), rest).
Proof.
  intros Hn He. unfold p_ref, pthen, pmap, pand.
  assert (L : plit [64] (64 :: name ++ 32 :: DQ :: e ++ DQ :: rest) = Some (Ok tt, name ++ 32 :: DQ :: e ++ DQ :: rest)) by reflexivity. rewrite L.
  unfold pspan. rewrite (span_all is_zref_char name (32 :: DQ :: e ++ DQ :: rest) Hn eq_refl).
  unfold popt, pthen, pmap, pand.
  assert (P : plit [32] (32 :: DQ :: e ++ DQ :: rest) = Some (Ok tt, DQ :: e ++ DQ :: rest)) by reflexivity. rewrite P.
  unfold p_str, hs_str. rewrite (quoted_roundtrip DQ str_esc_letters false esc_str_char dq_ne dq_32 every_char_str s e rest He). reflexivity.
Qed.

Lemma scalar_ref_dis f v3 name s e rest : Forall (fun c => is_zref_char c = true) name -> escape_str s = Ok e ->
  p_scalar (S f) v3 (64 :: name ++ 32 :: DQ :: e ++ DQ :: rest) = Some (Ok (VRef name (Some s)), rest).
Proof.
  intros Hn He. pose proof (p_ref_dis name s e rest Hn He) as R.
  destruct (date_letters 64 (name ++ 32 :: DQ :: e ++ DQ :: rest) eq_refl) as [D1 [D2 D3]].
  cbn [p_scalar]. destruct v3; cbv zeta; unfold scalars_2_0, por.
  - apply por_pick_take; [exact R|]. repeat (apply Forall_cons; [first [exact D1 | exact D2 | exact D3 | reflexivity]|]). apply Forall_nil.
  - apply por_pick_take; [exact R|]. repeat (apply Forall_cons; [first [exact D1 | exact D2 | exact D3 | reflexivity]|]). apply Forall_nil.
Qed.

Lemma leafd_ref_dis name s e : Forall (fun c => is_zref_char c = true) name -> escape_str s = Ok e ->
  leafd (VRef name (Some s)) (64 :: name ++ 32 :: DQ :: e ++ [DQ]).
Proof.
  intros Hn He. split.
  - intro f. cbn [zdump]. unfold zdump_str. rewrite He. reflexivity.
  - intros g rest _. cbn [List.app]. rewrite <- app_assoc. cbn [List.app]. rewrite <- app_assoc. cbn [List.app]. apply scalar_ref_dis; assumption.
Qed.

(* Bin(mime) *)
Definition bin_ok (m : str) : Prop := Forall (fun c => is_bin_char c = true) m /\ match m with c :: _ => c <> 34 | [] => True end.
Definition BINP : str := [66; 105; 110; 40].

Lemma p_bin_reads m rest : bin_ok m -> p_bin (BINP ++ m ++ 41 :: rest) = Some (Ok (VBin m), rest).
Proof.
  intros [Hm _]. unfold p_bin, pthen, pbefore, pmap, pand.
  assert (L : plit (s_ "Bin(") (BINP ++ m ++ 41 :: rest) = Some (Ok tt, m ++ 41 :: rest)) by reflexivity. rewrite L.
  unfold pspan. rewrite (span_all is_bin_char m (41 :: rest) Hm eq_refl).
  assert (P : plit [41] (41 :: rest) = Some (Ok tt, rest)) by reflexivity. rewrite P. reflexivity.
Qed.

Lemma p_str_not_quote c t : c <> 34 -> p_str (c :: t) = None.
Proof. intro H. unfold p_str, hs_str, quoted. destruct (N.eqb_spec c DQ) as [E|_]; [unfold DQ in E; contradiction|reflexivity]. Qed.

Lemma p_xstr_bin m rest : bin_ok m -> p_xstr (BINP ++ m ++ 41 :: rest) = None.
Proof.
  intros [_ Hh]. unfold BINP. cbn [List.app]. unfold p_xstr, pmap, pand, pspan1.
  assert (S1 : span is_xname_char (66 :: 105 :: 110 :: 40 :: m ++ 41 :: rest) = ([66; 105; 110], 40 :: m ++ 41 :: rest)) by reflexivity.
  rewrite S1. unfold pthen, pbefore, pmap, pand.
  assert (L : plit [40] (40 :: m ++ 41 :: rest) = Some (Ok tt, m ++ 41 :: rest)) by reflexivity. rewrite L.
  destruct m as [|c m']; cbn [List.app].
  - rewrite (p_str_not_quote 41 rest) by discriminate. reflexivity.
  - rewrite (p_str_not_quote c _ Hh). reflexivity.
Qed.

Lemma scalar_bin f v3 m rest : bin_ok m -> p_scalar (S f) v3 (BINP ++ m ++ 41 :: rest) = Some (Ok (VBin m), rest).
Proof.
  intros Hm. pose proof (p_bin_reads m rest Hm) as R. pose proof (p_xstr_bin m rest Hm) as X.
  revert R X. unfold BINP. cbn [List.app]. intros R X.
  destruct (date_letters 66 (105 :: 110 :: 40 :: m ++ 41 :: rest) eq_refl) as [D1 [D2 D3]].
  cbn [p_scalar]. destruct v3; cbv zeta; unfold scalars_2_0, por.
  - rewrite por_pick_skip by reflexivity. rewrite por_pick_skip by exact X.
    apply por_pick_take; [exact R|]. repeat (apply Forall_cons; [first [exact D1 | exact D2 | exact D3 | reflexivity]|]). apply Forall_nil.
  - rewrite por_pick_skip by reflexivity.
    apply por_pick_take; [exact R|]. repeat (apply Forall_cons; [first [exact D1 | exact D2 | exact D3 | reflexivity]|]). apply Forall_nil.
Qed.

Lemma leafd_bin m : bin_ok m -> leafd (VBin m) (BINP ++ m ++ [41]).
Proof.
  intro Hm. split.
  - intro f. reflexivity.
  - intros g rest _. rewrite <- !app_assoc. cbn [List.app]. apply (scalar_bin g true m rest Hm).
Qed.
