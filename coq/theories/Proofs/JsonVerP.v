(* JSON whole-grid round trip for any version family (the writer and the reader judge every value by the grid's own version) *)
From Coq Require Import String.
From Coq Require Import List NArith Bool Lia Arith.
From HS Require Import Base.Prelude Model.Value Model.Escape Model.Version Model.Json.
From HS Require Import Proofs.PreludeP Proofs.VersionP Proofs.JsonP Proofs.JsonGridP Proofs.JsonReadP.
Import ListNotations.
Open Scope N_scope.

Theorem json_grid_roundtrip_any f g ver p3 meta cols rows j :
  ver_any ver p3 -> cols <> [] ->
  NoDup (map fst meta) -> ~ In VER (map fst meta) -> Forall (fun kv => item_rt f g p3 (snd kv)) meta ->
  NoDup (map fst cols) -> Forall (col_ok f g p3) cols -> Forall (row_ok f g p3 cols) rows ->
  jdump_grid (S f) ver meta cols rows = Ok j ->
  exists m, j = JObj m /\ jparse_grid (S g) m = Ok (VGrid ver meta cols rows).
Proof.
  intros [pv [PV [P3 VS]]] Hne Hmn Hmv Hmi Hcn Hci Hri H.
  rewrite jdump_grid_unfold, P3 in H. cbn [bind] in H.
  destruct (dump_items f p3 meta) as [mj|] eqn:Em; [|discriminate]. cbn [bind] in H.
  rewrite (match_ne cols _ _ Hne) in H.
  destruct (dump_cols f p3 cols) as [cs|] eqn:Ec; [|discriminate]. cbn [bind] in H.
  destruct (dump_rows f p3 cols rows) as [rs|] eqn:Er; [|discriminate]. cbn [bind] in H.
  pose proof H as H'. inversion H'; subst j. clear H H'. eexists. split; [reflexivity|].
  destruct (items_rt f g p3 meta mj Hmi Em) as [P M].
  assert (D : dict_of mj = mj) by (apply dict_of_nodup; rewrite M; exact Hmn).
  assert (Fr : ~ In VER (map fst mj)) by (rewrite M; exact Hmv).
  rewrite jparse_grid_unfold. fold VER. rewrite D, (dict_set_fresh VER (JStr ver) mj Fr).
  assert (A1 : assoc (s_ "meta"%string) [(s_ "meta"%string, JObj (mj ++ [(VER, JStr ver)])); (s_ "cols"%string, JArr cs); (s_ "rows"%string, JArr rs)] = Some (JObj (mj ++ [(VER, JStr ver)]))) by reflexivity.
  rewrite A1. rewrite (assoc_last VER (JStr ver) mj Fr), PV, P3. cbn [bind].
  rewrite (remove_key_last VER (JStr ver) mj Fr), P. cbn [bind].
  assert (A2 : assoc (s_ "cols"%string) [(s_ "meta"%string, JObj (mj ++ [(VER, JStr ver)])); (s_ "cols"%string, JArr cs); (s_ "rows"%string, JArr rs)] = Some (JArr cs)) by reflexivity.
  assert (A3 : assoc (s_ "rows"%string) [(s_ "meta"%string, JObj (mj ++ [(VER, JStr ver)])); (s_ "cols"%string, JArr cs); (s_ "rows"%string, JArr rs)] = Some (JArr rs)) by reflexivity.
  rewrite A2, A3, (cols_rt f g p3 cols cs Hci Ec). cbn [bind]. rewrite (rows_rt f g p3 cols Hcn rows rs Hri Er). cbn [bind].
  rewrite VS, (dict_of_nodup meta Hmn), (dict_of_nodup cols Hcn). reflexivity.
Qed.

(* under a 2.0-family version: every scalar kind that round-trips under pre3 = true *)
Example ver_any_2_0 : ver_any (s_ "2.0") true.
Proof. eexists. split; [vm_compute; reflexivity|]. split; vm_compute; reflexivity. Qed.

(* leaves under the pre-3.0 rules *)
Definition leaf2 (v : hval) : Prop :=
  match v with VStr _ | VUri _ | VBin _ | VMarker | VNull | VBool _ | VRemove => True | _ => False end.
Lemma leaf2_item f g v : leaf2 v -> item_rt (S f) (S g) true v.
Proof.
  destruct v; cbn [leaf2]; try contradiction; intros _ j Hj; cbn [jdump] in Hj; inversion Hj; subst j; cbn [jparse].
  - reflexivity.
  - apply rt_marker.
  - exact (proj1 (rt_remove true)).
  - reflexivity.
  - apply rt_str.
  - apply rt_uri.
  - apply rt_bin.
Qed.

Theorem json_grid_roundtrip_2_0 f g ver meta cols rows j :
  ver_any ver true -> cols <> [] ->
  NoDup (map fst meta) -> ~ In VER (map fst meta) -> Forall (fun kv => leaf2 (snd kv)) meta ->
  NoDup (map fst cols) ->
  Forall (fun c => NoDup (map fst (snd c)) /\ ~ In NAME (map fst (snd c)) /\ Forall (fun kv => leaf2 (snd kv)) (snd c)) cols ->
  Forall (fun row => canon_row cols row /\ Forall (fun kv => leaf2 (snd kv)) row) rows ->
  jdump_grid (S (S f)) ver meta cols rows = Ok j ->
  exists m, j = JObj m /\ jparse_grid (S (S g)) m = Ok (VGrid ver meta cols rows).
Proof.
  intros Hv Hne Hmn Hmv Hmi Hcn Hci Hri H.
  assert (I : forall l, Forall (fun kv : str * hval => leaf2 (snd kv)) l -> Forall (fun kv => item_rt (S f) (S g) true (snd kv)) l).
  { intros l Hl. eapply Forall_impl; [|exact Hl]. cbn beta. intros kv Hk. apply leaf2_item. exact Hk. }
  apply (json_grid_roundtrip_any (S f) (S g) ver true meta cols rows j Hv Hne Hmn Hmv (I _ Hmi) Hcn); [| |exact H].
  - eapply Forall_impl; [|exact Hci]. intros c [A [B C]]. split; [exact A|]. split; [exact B|]. apply I. exact C.
  - eapply Forall_impl; [|exact Hri]. intros r [A B]. split; [exact A|]. apply I. exact B.
Qed.
