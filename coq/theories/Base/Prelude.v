(* Base definitions shared by every model: text, exceptions, results,
   decimal printing, S-expressions (the wire format of the extracted model). *)
From Coq Require Export List NArith ZArith Bool.
From Coq Require Import Ascii String.
Export ListNotations.
Open Scope N_scope.

(* Text is a list of code points, exactly Python's str. *)
Definition str := list N.

Definition s_ (x : string) : str :=
  List.map (fun a => N_of_ascii a) (list_ascii_of_string x).

(* Python exception classes that occur in the modelled code. *)
Inductive exn :=
| TypeError | ValueError | KeyError | IndexError | AttributeError
| ZincParseException | ParseException | NameError | SyntaxError
| AmbiguousTimeError | NonExistentTimeError | UnicodeEncodeError
| NotImplementedError | RecursionError | ZeroDivisionError | OverflowError
| AssertionError | JSONDecodeError | OutOfFuel.

Inductive res (A : Type) := Ok (a : A) | Raise (e : exn).
Arguments Ok {A} a.
Arguments Raise {A} e.

Definition bind {A B} (r : res A) (f : A -> res B) : res B :=
  match r with Ok a => f a | Raise e => Raise e end.
Notation "'do' x <- r ; k" := (bind r (fun x => k))
  (at level 200, x name, r at level 100, k at level 200, right associativity).
Notation "'do' ' p <- r ; k" := (bind r (fun x => let 'p := x in k))
  (at level 200, p pattern, r at level 100, k at level 200, right associativity).

Definition exn_eqb (a b : exn) : bool :=
  match a, b with
  | TypeError, TypeError | ValueError, ValueError | KeyError, KeyError
  | IndexError, IndexError | AttributeError, AttributeError
  | ZincParseException, ZincParseException | ParseException, ParseException
  | NameError, NameError | SyntaxError, SyntaxError
  | AmbiguousTimeError, AmbiguousTimeError
  | NonExistentTimeError, NonExistentTimeError
  | UnicodeEncodeError, UnicodeEncodeError
  | NotImplementedError, NotImplementedError | RecursionError, RecursionError
  | ZeroDivisionError, ZeroDivisionError | OverflowError, OverflowError
  | AssertionError, AssertionError | JSONDecodeError, JSONDecodeError
  | OutOfFuel, OutOfFuel => true
  | _, _ => false
  end.

Definition exn_name (e : exn) : str :=
  match e with
  | TypeError => s_ "TypeError" | ValueError => s_ "ValueError"
  | KeyError => s_ "KeyError" | IndexError => s_ "IndexError"
  | AttributeError => s_ "AttributeError"
  | ZincParseException => s_ "ZincParseException"
  | ParseException => s_ "ParseException" | NameError => s_ "NameError"
  | SyntaxError => s_ "SyntaxError"
  | AmbiguousTimeError => s_ "AmbiguousTimeError"
  | NonExistentTimeError => s_ "NonExistentTimeError"
  | UnicodeEncodeError => s_ "UnicodeEncodeError"
  | NotImplementedError => s_ "NotImplementedError"
  | RecursionError => s_ "RecursionError"
  | ZeroDivisionError => s_ "ZeroDivisionError"
  | OverflowError => s_ "OverflowError"
  | AssertionError => s_ "AssertionError"
  | JSONDecodeError => s_ "JSONDecodeError"
  | OutOfFuel => s_ "OutOfFuel"
  end.

(* ---- lists of code points ---- *)

Fixpoint str_eqb (a b : str) : bool :=
  match a, b with
  | [], [] => true
  | x :: a', y :: b' => N.eqb x y && str_eqb a' b'
  | _, _ => false
  end.

(* Python's str ordering: lexicographic by code point, a proper prefix is smaller. *)
Fixpoint str_compare (a b : str) : comparison :=
  match a, b with
  | [], [] => Eq
  | [], _ :: _ => Lt
  | _ :: _, [] => Gt
  | x :: a', y :: b' =>
      match N.compare x y with Eq => str_compare a' b' | c => c end
  end.

Definition opt_str_eqb (a b : option str) : bool :=
  match a, b with
  | None, None => true
  | Some x, Some y => str_eqb x y
  | _, _ => false
  end.

Fixpoint list_eqb {A} (eqb : A -> A -> bool) (a b : list A) : bool :=
  match a, b with
  | [], [] => true
  | x :: a', y :: b' => eqb x y && list_eqb eqb a' b'
  | _, _ => false
  end.

Fixpoint mem_str (x : str) (l : list str) : bool :=
  match l with [] => false | y :: l' => str_eqb x y || mem_str x l' end.

Fixpoint memN (x : N) (l : list N) : bool :=
  match l with [] => false | y :: l' => N.eqb x y || memN x l' end.

Fixpoint in_ranges (c : N) (rs : list (N * N)) : bool :=
  match rs with
  | [] => false
  | (lo, hi) :: rs' => (N.leb lo c && N.leb c hi) || in_ranges c rs'
  end.

Fixpoint join (sep : str) (l : list str) : str :=
  match l with
  | [] => []
  | [x] => x
  | x :: l' => x ++ sep ++ join sep l'
  end.

(* ---- decimal printing: Python's str(int) for a non-negative int ---- *)

Fixpoint digits_fuel (fuel : nat) (n : N) (acc : str) : str :=
  if N.ltb n 10 then (48 + n) :: acc
  else match fuel with
       | O => (48 + n mod 10) :: acc
       | S f => digits_fuel f (n / 10) ((48 + n mod 10) :: acc)
       end.

Definition str_of_N (n : N) : str := digits_fuel (N.size_nat n) n [].

Definition str_of_Z (z : Z) : str :=
  match z with
  | Z0 => [48]
  | Zpos p => str_of_N (Npos p)
  | Zneg p => 45 :: str_of_N (Npos p)
  end.

(* ---- S-expressions: the wire format between harness and extracted model ---- *)

Inductive sexp :=
| SInt (z : Z)
| SStr (s : str)
| SList (l : list sexp).

Definition sym (x : string) : sexp := SStr (s_ x).
Definition sbool (b : bool) : sexp := sym (if b then "true" else "false").
Definition sexn (e : exn) : sexp := SList [sym "raise"; SStr (exn_name e)].
Definition sres {A} (f : A -> sexp) (r : res A) : sexp :=
  match r with Ok a => SList [sym "ok"; f a] | Raise e => sexn e end.
Definition sopt {A} (f : A -> sexp) (o : option A) : sexp :=
  match o with Some a => SList [sym "some"; f a] | None => sym "none" end.
Definition scmp (c : comparison) : sexp :=
  SInt (match c with Lt => (-1)%Z | Eq => 0%Z | Gt => 1%Z end).
Definition snat (n : nat) : sexp := SInt (Z.of_nat n).
Definition sN (n : N) : sexp := SInt (Z.of_N n).

Definition is_sym (x : string) (e : sexp) : bool :=
  match e with SStr t => str_eqb t (s_ x) | _ => false end.

Definition bad_request : sexp := SList [sym "bad-request"].
