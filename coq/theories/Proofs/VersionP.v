(* Proofs about Model/Version.v (property C18). *)
From Coq Require Import Lia.
From HS Require Import Base.Prelude Gen.VersionData Model.Version Proofs.PreludeP.
Open Scope N_scope.

(* ------------------------------------------------------------------ *)
(* comparison helpers *)

Lemma N_compare_antisym x y : N.compare y x = CompOpp (N.compare x y).
Proof. apply N.compare_antisym. Qed.

Lemma str_compare_eq a b : str_compare a b = Eq <-> a = b.
Proof.
  revert b; induction a as [|x a IH]; intros [|y b]; simpl; split; intro H;
    try reflexivity; try discriminate.
  - destruct (N.compare x y) eqn:E; try discriminate.
    apply N.compare_eq in E. apply IH in H. now subst.
  - inversion H; subst. rewrite N.compare_refl. now apply IH.
Qed.

Lemma str_compare_antisym a b : str_compare b a = CompOpp (str_compare a b).
Proof.
  revert b; induction a as [|x a IH]; intros [|y b]; simpl; try reflexivity.
  rewrite (N_compare_antisym x y). destruct (N.compare x y); simpl; auto.
Qed.

Lemma str_compare_lt_trans a b c :
  str_compare a b = Lt -> str_compare b c = Lt -> str_compare a c = Lt.
Proof.
  revert b c; induction a as [|x a IH]; intros [|y b] [|z c]; simpl; intros H1 H2;
    try reflexivity; try discriminate.
  destruct (N.compare x y) eqn:E1; try discriminate;
    destruct (N.compare y z) eqn:E2; try discriminate.
  - apply N.compare_eq in E1, E2; subst. rewrite N.compare_refl. eapply IH; eauto.
  - apply N.compare_eq in E1; subst. now rewrite E2.
  - apply N.compare_eq in E2; subst. now rewrite E1.
  - rewrite N.compare_lt_iff in E1, E2.
    assert (x < z) by lia. apply N.compare_lt_iff in H. now rewrite H.
Qed.

(* ------------------------------------------------------------------ *)
(* cmp_zip on lists of equal length *)

Lemma cmp_zip_eq a b : length a = length b -> (cmp_zip a b = Eq <-> a = b).
Proof.
  revert b; induction a as [|x a IH]; intros [|y b]; simpl; intros L; split; intro H;
    try reflexivity; try discriminate.
  - destruct (N.compare x y) eqn:E; try discriminate.
    apply N.compare_eq in E. apply IH in H; [now subst | lia].
  - inversion H; subst. rewrite N.compare_refl. apply IH; [lia | reflexivity].
Qed.

Lemma cmp_zip_antisym a b : cmp_zip b a = CompOpp (cmp_zip a b).
Proof.
  revert b; induction a as [|x a IH]; intros [|y b]; simpl; try reflexivity.
  rewrite (N_compare_antisym x y). destruct (N.compare x y); simpl; auto.
Qed.

Lemma cmp_zip_lt_trans a b c :
  length a = length b -> length b = length c ->
  cmp_zip a b = Lt -> cmp_zip b c = Lt -> cmp_zip a c = Lt.
Proof.
  revert b c; induction a as [|x a IH]; intros [|y b] [|z c]; simpl; intros L1 L2 H1 H2;
    try discriminate.
  destruct (N.compare x y) eqn:E1; try discriminate;
    destruct (N.compare y z) eqn:E2; try discriminate.
  - apply N.compare_eq in E1, E2; subst. rewrite N.compare_refl. apply (IH b c); [lia|lia|assumption|assumption].
  - apply N.compare_eq in E1; subst. now rewrite E2.
  - apply N.compare_eq in E2; subst. now rewrite E1.
  - rewrite N.compare_lt_iff in E1, E2.
    assert (x < z) by lia. apply N.compare_lt_iff in H. now rewrite H.
Qed.

Lemma cmp_zip_app a b u w :
  length a = length b ->
  cmp_zip (a ++ u) (b ++ w) = match cmp_zip a b with Eq => cmp_zip u w | c => c end.
Proof.
  revert b; induction a as [|x a IH]; intros [|y b]; simpl; intros L; try discriminate; auto.
  destruct (N.compare x y); auto.
Qed.

Lemma cmp_zip_zeros k : cmp_zip (repeat 0 k) (repeat 0 k) = Eq.
Proof. induction k; simpl; auto. Qed.

(* ------------------------------------------------------------------ *)
(* padding *)

Lemma pad_length n l : (length l <= n)%nat -> length (pad n l) = n.
Proof. intros H. unfold pad. rewrite app_length, repeat_length. lia. Qed.

Lemma pad_more n m l : (length l <= m)%nat -> (m <= n)%nat ->
  pad n l = pad m l ++ repeat 0 (n - m).
Proof.
  intros H1 H2. unfold pad. rewrite <- app_assoc. f_equal.
  rewrite <- repeat_app. f_equal. lia.
Qed.

Definition ncmp (n : nat) (a b : list N) : comparison := cmp_zip (pad n a) (pad n b).

Lemma ncmp_more n m a b :
  (length a <= m)%nat -> (length b <= m)%nat -> (m <= n)%nat -> ncmp n a b = ncmp m a b.
Proof.
  intros Ha Hb Hn. unfold ncmp.
  rewrite (pad_more n m a), (pad_more n m b) by assumption.
  rewrite cmp_zip_app by (rewrite !pad_length; auto).
  rewrite cmp_zip_zeros. now destruct (cmp_zip (pad m a) (pad m b)).
Qed.

(* vcmp at any sufficiently large common width *)
Definition kcmp (n : nat) (a b : ver) : comparison :=
  match ncmp n (nums a) (nums b) with
  | Eq => cmp_extra (extra a) (extra b)
  | c => c
  end.

Lemma vcmp_kcmp n a b :
  (length (nums a) <= n)%nat -> (length (nums b) <= n)%nat -> vcmp a b = kcmp n a b.
Proof.
  intros Ha Hb. unfold vcmp, kcmp.
  rewrite (ncmp_more n (Nat.max (length (nums a)) (length (nums b)))) by lia.
  reflexivity.
Qed.

(* ------------------------------------------------------------------ *)
(* cmp_extra *)

Lemma cmp_extra_eq a b : cmp_extra a b = Eq <-> a = b.
Proof.
  destruct a, b; simpl; split; intro H; try discriminate; try reflexivity.
  - apply str_compare_eq in H. now subst.
  - inversion H; subst. now apply str_compare_eq.
Qed.

Lemma cmp_extra_antisym a b : cmp_extra b a = CompOpp (cmp_extra a b).
Proof. destruct a, b; simpl; auto. apply str_compare_antisym. Qed.

Lemma cmp_extra_lt_trans a b c :
  cmp_extra a b = Lt -> cmp_extra b c = Lt -> cmp_extra a c = Lt.
Proof.
  destruct a, b, c; simpl; intros; try discriminate; auto.
  eapply str_compare_lt_trans; eauto.
Qed.

(* ------------------------------------------------------------------ *)
(* kcmp is a total order on padded keys *)

Lemma kcmp_antisym n a b : kcmp n b a = CompOpp (kcmp n a b).
Proof.
  unfold kcmp, ncmp. rewrite (cmp_zip_antisym (pad n (nums a))).
  destruct (cmp_zip (pad n (nums a)) (pad n (nums b))); simpl; auto.
  apply cmp_extra_antisym.
Qed.

Lemma kcmp_eq n a b :
  (length (nums a) <= n)%nat -> (length (nums b) <= n)%nat ->
  (kcmp n a b = Eq <-> pad n (nums a) = pad n (nums b) /\ extra a = extra b).
Proof.
  intros Ha Hb. unfold kcmp, ncmp.
  assert (L : length (pad n (nums a)) = length (pad n (nums b))) by (rewrite !pad_length; auto).
  pose proof (cmp_zip_eq _ _ L) as Hz.
  destruct (cmp_zip (pad n (nums a)) (pad n (nums b))) eqn:E; split; intro H; try discriminate.
  - split; [now apply Hz | now apply cmp_extra_eq].
  - now apply cmp_extra_eq.
  - destruct H as [H _]. apply Hz in H. discriminate.
  - destruct H as [H _]. apply Hz in H. discriminate.
Qed.

Lemma kcmp_lt_trans n a b c :
  (length (nums a) <= n)%nat -> (length (nums b) <= n)%nat -> (length (nums c) <= n)%nat ->
  kcmp n a b = Lt -> kcmp n b c = Lt -> kcmp n a c = Lt.
Proof.
  intros Ha Hb Hc. unfold kcmp, ncmp.
  assert (La : length (pad n (nums a)) = n) by now apply pad_length.
  assert (Lb : length (pad n (nums b)) = n) by now apply pad_length.
  assert (Lc : length (pad n (nums c)) = n) by now apply pad_length.
  destruct (cmp_zip (pad n (nums a)) (pad n (nums b))) eqn:E1; try discriminate;
    destruct (cmp_zip (pad n (nums b)) (pad n (nums c))) eqn:E2; try discriminate; intros H1 H2.
  - apply cmp_zip_eq in E1, E2; try congruence. rewrite E1, E2.
    assert (cmp_zip (pad n (nums c)) (pad n (nums c)) = Eq) as -> by (apply cmp_zip_eq; auto).
    eapply cmp_extra_lt_trans; eauto.
  - apply cmp_zip_eq in E1; try congruence. now rewrite E1, E2.
  - apply cmp_zip_eq in E2; try congruence. now rewrite <- E2, E1.
  - rewrite (cmp_zip_lt_trans (pad n (nums a)) (pad n (nums b)) (pad n (nums c))); auto; congruence.
Qed.

(* ------------------------------------------------------------------ *)
(* vcmp: antisymmetry, transitivity *)

Lemma vcmp_antisym a b : vcmp b a = CompOpp (vcmp a b).
Proof.
  set (n := Nat.max (length (nums a)) (length (nums b))).
  rewrite (vcmp_kcmp n a b), (vcmp_kcmp n b a) by lia. apply kcmp_antisym.
Qed.

Lemma vcmp_refl a : vcmp a a = Eq.
Proof.
  rewrite (vcmp_kcmp (length (nums a))) by lia. apply kcmp_eq; auto.
Qed.

Definition width3 (a b c : ver) : nat :=
  Nat.max (length (nums a)) (Nat.max (length (nums b)) (length (nums c))).

Lemma vcmp_lt_trans a b c : vcmp a b = Lt -> vcmp b c = Lt -> vcmp a c = Lt.
Proof.
  set (n := width3 a b c). unfold width3 in n.
  rewrite (vcmp_kcmp n a b), (vcmp_kcmp n b c), (vcmp_kcmp n a c) by lia.
  apply kcmp_lt_trans; lia.
Qed.

Lemma vcmp_eq_l a b c : vcmp a b = Eq -> vcmp a c = vcmp b c.
Proof.
  set (n := width3 a b c). unfold width3 in n.
  rewrite (vcmp_kcmp n a b), (vcmp_kcmp n b c), (vcmp_kcmp n a c) by lia.
  intros H. apply kcmp_eq in H as [H1 H2]; try lia.
  unfold kcmp, ncmp. now rewrite H1, H2.
Qed.

Lemma vcmp_eq_r a b c : vcmp b c = Eq -> vcmp a b = vcmp a c.
Proof.
  intros H. rewrite (vcmp_antisym b a), (vcmp_antisym c a). f_equal.
  apply vcmp_eq_l. exact H.
Qed.

(* the derived relations *)
Definition vle_p (a b : ver) : Prop := vcmp a b <> Gt.

Lemma vle_p_trans a b c : vle_p a b -> vle_p b c -> vle_p a c.
Proof.
  unfold vle_p. intros H1 H2.
  destruct (vcmp a b) eqn:E1; try congruence.
  - now rewrite (vcmp_eq_l a b c E1).
  - destruct (vcmp b c) eqn:E2; try congruence.
    + rewrite <- (vcmp_eq_r a b c E2), E1. discriminate.
    + rewrite (vcmp_lt_trans a b c E1 E2). discriminate.
Qed.

Lemma vle_p_total a b : vle_p a b \/ vle_p b a.
Proof.
  unfold vle_p. rewrite (vcmp_antisym a b). destruct (vcmp a b); simpl; intuition congruence.
Qed.

(* operators in terms of vcmp *)
Lemma vlt_iff a b : vlt a b = true <-> vcmp a b = Lt.
Proof. unfold vlt. destruct (vcmp a b); cbv; intuition congruence. Qed.
Lemma veq_iff a b : veq a b = true <-> vcmp a b = Eq.
Proof. unfold veq. destruct (vcmp a b); cbv; intuition congruence. Qed.
Lemma vgt_iff a b : vgt a b = true <-> vcmp a b = Gt.
Proof. unfold vgt. destruct (vcmp a b); cbv; intuition congruence. Qed.
Lemma vle_iff a b : vle a b = true <-> vle_p a b.
Proof. unfold vle, vle_p. destruct (vcmp a b); cbv; intuition congruence. Qed.

(* ------------------------------------------------------------------ *)
(* the statements of C18 about the operators *)

Lemma trichotomy a b :
  (vlt a b = true /\ veq a b = false /\ vgt a b = false) \/
  (vlt a b = false /\ veq a b = true /\ vgt a b = false) \/
  (vlt a b = false /\ veq a b = false /\ vgt a b = true).
Proof. unfold vlt, veq, vgt. destruct (vcmp a b); cbv; auto. Qed.

Lemma ops_agree a b :
  vle a b = (vlt a b || veq a b) /\ vge a b = (vgt a b || veq a b) /\
  vne a b = negb (veq a b) /\ vlt a b = vgt b a /\ vle a b = vge b a /\
  veq a b = veq b a /\ vne a b = vne b a.
Proof.
  unfold vle, vlt, veq, vge, vgt, vne. rewrite (vcmp_antisym a b).
  destruct (vcmp a b); cbv; auto 10.
Qed.

Lemma le_trans a b c : vle a b = true -> vle b c = true -> vle a c = true.
Proof. rewrite !vle_iff. apply vle_p_trans. Qed.

Lemma lt_trans a b c : vlt a b = true -> vlt b c = true -> vlt a c = true.
Proof. rewrite !vlt_iff. apply vcmp_lt_trans. Qed.

Lemma le_lt_trans a b c : vle a b = true -> vlt b c = true -> vlt a c = true.
Proof.
  rewrite vle_iff, !vlt_iff. unfold vle_p. intros H1 H2.
  destruct (vcmp a b) eqn:E; try congruence.
  - now rewrite (vcmp_eq_l a b c E).
  - eapply vcmp_lt_trans; eauto.
Qed.

Lemma lt_le_trans a b c : vlt a b = true -> vle b c = true -> vlt a c = true.
Proof.
  rewrite vle_iff, !vlt_iff. unfold vle_p. intros H1 H2.
  destruct (vcmp b c) eqn:E; try congruence.
  - now rewrite <- (vcmp_eq_r a b c E).
  - eapply vcmp_lt_trans; eauto.
Qed.

Lemma veq_trans a b c : veq a b = true -> veq b c = true -> veq a c = true.
Proof. rewrite !veq_iff. intros H1 H2. now rewrite (vcmp_eq_l a b c H1). Qed.

Lemma veq_refl a : veq a a = true.
Proof. apply veq_iff, vcmp_refl. Qed.

(* numeric padding: appending zero groups does not change the version *)
Lemma padding v k : vcmp v (mkVer (nums v ++ repeat 0 k) (extra v)) = Eq.
Proof.
  rewrite (vcmp_kcmp (length (nums v) + k)); simpl; try rewrite app_length, repeat_length; try lia.
  apply kcmp_eq; simpl; try rewrite app_length, repeat_length; try lia.
  split; auto. unfold pad. rewrite <- app_assoc, <- repeat_app, app_length, repeat_length.
  f_equal. f_equal. lia.
Qed.

(* ------------------------------------------------------------------ *)
(* equal versions have equal hash keys *)

Lemma strip0_rev_zeros k l : strip0_rev (repeat 0 k ++ l) = strip0_rev l.
Proof. induction k; simpl; auto. Qed.

Lemma rev_repeat {A} (x : A) k : rev (repeat x k) = repeat x k.
Proof.
  induction k; simpl; auto. rewrite IHk.
  clear IHk. induction k; simpl; auto. now rewrite IHk.
Qed.

Lemma strip0_pad n l : strip0 (pad n l) = strip0 l.
Proof.
  unfold strip0, pad. rewrite rev_app_distr, rev_repeat, strip0_rev_zeros. reflexivity.
Qed.

Lemma eq_hash a b : veq a b = true -> hash_key a = hash_key b.
Proof.
  rewrite veq_iff.
  set (n := Nat.max (length (nums a)) (length (nums b))).
  rewrite (vcmp_kcmp n) by lia. intros H. apply kcmp_eq in H as [H1 H2]; try lia.
  unfold hash_key. rewrite <- (strip0_pad n (nums a)), <- (strip0_pad n (nums b)), H1, H2.
  reflexivity.
Qed.

Lemma list_eqb_N_refl l : list_eqb N.eqb l l = true.
Proof. induction l; simpl; auto. now rewrite N.eqb_refl. Qed.

Lemma hash_key_eqb_refl k : hash_key_eqb k k = true.
Proof.
  unfold hash_key_eqb. rewrite list_eqb_N_refl. destruct (snd k); simpl; auto using str_eqb_refl.
Qed.

(* ------------------------------------------------------------------ *)
(* nearest *)

Lemma in_officials_iff offs v :
  in_officials offs v = true <-> exists o, In o offs /\ veq o v = true.
Proof.
  unfold in_officials. rewrite existsb_exists. split; intros [o [Hin H]]; exists o; split; auto.
  - now apply andb_true_iff in H.
  - rewrite H, (eq_hash _ _ H), hash_key_eqb_refl. reflexivity.
Qed.

Definition vge_p (a b : ver) : Prop := vle_p b a.

(* descending order *)
Inductive sorted_desc : list ver -> Prop :=
| sd_nil : sorted_desc []
| sd_cons x l : (forall y, In y l -> vle_p y x) -> sorted_desc l -> sorted_desc (x :: l).

Lemma insert_desc_in x l y : In y (insert_desc x l) <-> y = x \/ In y l.
Proof.
  induction l as [|z l IH]; simpl.
  - intuition.
  - destruct (vlt x z); simpl; rewrite ?IH; intuition.
Qed.

Lemma insert_desc_sorted x l : sorted_desc l -> sorted_desc (insert_desc x l).
Proof.
  induction 1 as [|z l Hz Hs IH]; simpl.
  - constructor; [intros y []| constructor].
  - destruct (vlt x z) eqn:E.
    + constructor; auto. intros y Hy. apply insert_desc_in in Hy as [->|Hy]; auto.
      apply vlt_iff in E. unfold vle_p. rewrite E. discriminate.
    + constructor; [|constructor; auto].
      assert (Hzx : vle_p z x).
      { unfold vle_p. rewrite vcmp_antisym. destruct (vcmp x z) eqn:E2; simpl; try discriminate.
        apply vlt_iff in E2. congruence. }
      intros y [->|Hy]; auto. eapply vle_p_trans; [apply Hz; auto | exact Hzx].
Qed.

Lemma sort_desc_in l y : In y (sort_desc l) <-> In y l.
Proof.
  induction l as [|x l IH]; simpl; [tauto|]. rewrite insert_desc_in, IH. intuition.
Qed.

Lemma sort_desc_sorted l : sorted_desc (sort_desc l).
Proof. induction l; simpl; [constructor | now apply insert_desc_sorted]. Qed.

(* what the scan returns: the least candidate >= v if there is one, else the
   greatest candidate *)
Definition nearest_rel (cands : list ver) (v r : ver) : Prop :=
  (vle_p v r /\ forall o, In o cands -> vle_p v o -> vle_p r o) \/
  (forall o, In o cands -> vcmp o v = Lt /\ vle_p o r).

Lemma scan_spec v : forall cands best r,
  sorted_desc cands ->
  (forall b, best = Some b -> vcmp b v = Gt /\ forall x, In x cands -> vle_p x b) ->
  nearest_scan best cands v = Some r ->
  (In r cands \/ best = Some r) /\
  ((vle_p v r /\ forall o, (In o cands \/ best = Some o) -> vle_p v o -> vle_p r o)
   \/ (best = None /\ forall o, In o cands -> vcmp o v = Lt /\ vle_p o r)).
Proof.
  induction cands as [|c cands IH]; intros best r Hs Hb Hscan; simpl in Hscan.
  - subst best. destruct (Hb r eq_refl) as [Hgt _]. split; [auto|]. left. split.
    + unfold vle_p. rewrite vcmp_antisym, Hgt. discriminate.
    + intros o [[]|Ho] _. inversion Ho; subst. unfold vle_p. rewrite vcmp_refl. discriminate.
  - inversion Hs as [|? ? Hc Hs']; subst.
    destruct (veq c v) eqn:Eeq.
    { inversion Hscan; subst r. apply veq_iff in Eeq. split; [simpl; auto|]. left. split.
      - unfold vle_p. rewrite vcmp_antisym, Eeq. discriminate.
      - intros o _ Hvo. unfold vle_p. rewrite (vcmp_eq_l c v o Eeq). exact Hvo. }
    destruct ((match best with None => true | Some _ => false end) && vlt c v) eqn:Elt.
    { inversion Hscan; subst r. apply andb_true_iff in Elt as [Hnone Hlt].
      destruct best; [discriminate|]. apply vlt_iff in Hlt.
      split; [simpl; auto|]. right. split; auto.
      intros o [->|Ho].
      - split; auto. unfold vle_p. rewrite vcmp_refl. discriminate.
      - split; [|apply Hc; auto].
        assert (H : vle_p o c) by (apply Hc; auto).
        apply vlt_iff. eapply le_lt_trans; [apply vle_iff; exact H | now apply vlt_iff]. }
    destruct (vgt c v) eqn:Egt.
    { apply vgt_iff in Egt.
      destruct (IH (Some c) r Hs') as [Hin Hspec]; auto.
      { intros b Hbe. inversion Hbe; subst b. split; auto. }
      split.
      { destruct Hin as [Hin|Hin]; [left; simpl; auto | inversion Hin; subst; left; simpl; auto]. }
      destruct Hspec as [[Hvr Hleast]|[Hcontra _]]; [|discriminate].
      left. split; auto.
      intros o [[->|Ho]|Ho] Hvo.
      - apply Hleast; auto.
      - apply Hleast; auto.
      - (* the previous best is above every remaining candidate and above c *)
        destruct (Hb o Ho) as [_ Hall].
        destruct Hin as [Hin|Hin].
        + apply Hall; simpl; auto.
        + inversion Hin; subst. apply Hall; simpl; auto. }
    (* c < v with a best already seen: every later candidate is below v as well *)
    assert (Hcv : vcmp c v = Lt).
    { destruct (vcmp c v) eqn:E; auto.
      - apply veq_iff in E. congruence.
      - apply vgt_iff in E. congruence. }
    destruct best as [b|]; [|simpl in Elt; apply vlt_iff in Hcv; congruence].
    destruct (IH (Some b) r Hs') as [Hin Hspec]; auto.
    { intros b' Hbe. inversion Hbe; subst b'. destruct (Hb b eq_refl) as [H1 H2].
      split; auto. intros x Hx. apply H2; simpl; auto. }
    split.
    { destruct Hin; [left; simpl; auto | auto]. }
    destruct Hspec as [[Hvr Hleast]|[Hcontra _]]; [|discriminate].
    left. split; auto.
    intros o [[->|Ho]|Ho] Hvo; auto.
    exfalso. unfold vle_p in Hvo. rewrite vcmp_antisym, Hcv in Hvo. simpl in Hvo. congruence.
Qed.

Lemma nearest_spec offs v :
  offs <> [] ->
  exists r, nearest offs v = Ok r /\
    (exists o, In o offs /\ veq o r = true) /\
    nearest_rel offs v r.
Proof.
  intros Hne. unfold nearest, nearest_rel. destruct (in_officials offs v) eqn:Ein.
  - apply in_officials_iff in Ein as [o [Hin Heq]]. exists v. split; auto. split; [eauto|].
    left. split.
    + unfold vle_p. rewrite vcmp_refl. discriminate.
    + intros o' _ H. exact H.
  - destruct (nearest_scan None (sort_desc offs) v) as [r|] eqn:Escan.
    + destruct (scan_spec v _ None r (sort_desc_sorted offs) ltac:(discriminate) Escan) as [Hin Hspec].
      destruct Hin as [Hin|]; [|discriminate]. rewrite sort_desc_in in Hin.
      exists r. split; auto. split; [exists r; split; auto using veq_refl|].
      destruct Hspec as [[H1 H2]|[_ H2]].
      * left. split; auto. intros o Ho. apply H2. left. now rewrite sort_desc_in.
      * right. intros o Ho. apply H2. now rewrite sort_desc_in.
    + exfalso. destruct offs as [|o offs]; [congruence|].
      assert (Hin : In o (sort_desc (o :: offs))) by (rewrite sort_desc_in; simpl; auto).
      destruct (sort_desc (o :: offs)) as [|c cs]; [inversion Hin|].
      simpl in Escan. destruct (veq c v) eqn:E0; [discriminate|].
      destruct (vlt c v) eqn:E1; simpl in Escan; [discriminate|].
      destruct (vgt c v) eqn:E2.
      * clear - Escan. revert Escan. generalize c. induction cs as [|d cs IH]; simpl; intros b H; [discriminate|].
        destruct (veq d v); [discriminate|]. simpl in H.
        destruct (vgt d v); [eapply IH; eauto | eapply IH; eauto].
      * destruct (trichotomy c v) as [[H _]|[[_ [H _]]|[_ [_ H]]]]; congruence.
Qed.

Lemma nearest_exact offs v r :
  nearest offs v = Ok r -> (exists o, In o offs /\ veq o v = true) -> veq r v = true.
Proof.
  intros H Hex. unfold nearest in H.
  apply in_officials_iff in Hex. rewrite Hex in H. inversion H; subst. apply veq_refl.
Qed.

Lemma nearest_rel_mono offs a b ra rb :
  (exists o, In o offs /\ veq o ra = true) ->
  (exists o, In o offs /\ veq o rb = true) ->
  nearest_rel offs a ra -> nearest_rel offs b rb ->
  vle_p a b -> vle_p ra rb.
Proof.
  intros [oa [Hoa Ea]] [ob [Hob Eb]] Ra Rb Hab.
  apply veq_iff in Ea, Eb.
  assert (Toa : forall x, vle_p x oa <-> vle_p x ra).
  { intros x. unfold vle_p. now rewrite (vcmp_eq_r x oa ra Ea). }
  assert (Tob : forall x, vle_p x ob <-> vle_p x rb).
  { intros x. unfold vle_p. now rewrite (vcmp_eq_r x ob rb Eb). }
  assert (Foa : forall x, vle_p oa x <-> vle_p ra x).
  { intros x. unfold vle_p. now rewrite (vcmp_eq_l oa ra x Ea). }
  destruct Rb as [[Hbrb Hleastb]|Hallb].
  - (* rb >= b >= a, and rb is (equal to) an official: ra is below it or no official is >= a *)
    assert (Haob : vle_p a ob).
    { apply Tob. eapply vle_p_trans; eauto. }
    destruct Ra as [[Hara Hleasta]|Halla].
    + apply Tob. apply Hleasta; auto.
    + destruct (Halla ob Hob) as [Hlt _]. exfalso.
      unfold vle_p in Haob. rewrite vcmp_antisym, Hlt in Haob. simpl in Haob. congruence.
  - (* rb is the greatest official *)
    apply Foa. destruct (Hallb oa Hoa) as [_ H]. exact H.
Qed.

Lemma nearest_monotone offs a b ra rb :
  nearest offs a = Ok ra -> nearest offs b = Ok rb ->
  vle a b = true -> vle ra rb = true.
Proof.
  intros Ha Hb Hab. rewrite vle_iff in *.
  destruct offs as [|o offs].
  { unfold nearest in Ha. simpl in Ha. discriminate. }
  destruct (nearest_spec (o :: offs) a ltac:(discriminate)) as [ra' [Ha' [Hoa Ra]]].
  destruct (nearest_spec (o :: offs) b ltac:(discriminate)) as [rb' [Hb' [Hob Rb]]].
  rewrite Ha in Ha'. rewrite Hb in Hb'. inversion Ha'; inversion Hb'; subst.
  eapply nearest_rel_mono; eauto.
Qed.
