(* C20 - a Quantity is numerically transparent.
   The method table of class Qty is regenerated from hszinc/datatypes.py on
   every run (Gen/QtyData.v); Model/Qty.v is Python's operator dispatch over
   it.  Results are expressions over the plain numbers, so each theorem says:
   the Quantity evaluates EXACTLY the plain operation on its value (hence the
   same result, type and exception, whatever the numbers are).
   A method that applies the wrong operator, swaps the operands, forgets to
   unwrap a Quantity operand or is missing changes the table and these proofs
   no longer check. *)
From HS Require Import Base.Prelude Model.QtyOps Gen.QtyData Model.Qty.
Open Scope N_scope.

(* v ** x is spelled pow(v, x, None) by Qty.__pow__ *)
Definition plain (op : binop) (a b : nexpr) : nexpr :=
  match op with Pow => NPow3 a b NNone | _ => NBin op a b end.

(* Quantity OP number *)
Theorem C20_left : forall op v u x,
  py_binop qty_methods op (PQ v u) (PNum x) = Ok (plain op v x).
Proof. intros op v u x. destruct op; reflexivity. Qed.

(* number OP Quantity (through the reflected method) *)
Theorem C20_right : forall op v u x,
  py_binop qty_methods op (PNum x) (PQ v u) = Ok (NBin op x v).
Proof. intros op v u x. destruct op; reflexivity. Qed.

(* Quantity OP Quantity, whatever the units *)
Theorem C20_both : forall op v u w u',
  py_binop qty_methods op (PQ v u) (PQ w u') = Ok (plain op v w).
Proof. intros op v u w u'. destruct op; reflexivity. Qed.

(* pow(Quantity, x, m) *)
Theorem C20_pow3 : forall v u x m, py_pow3 qty_methods (PQ v u) x m = Ok (NPow3 v x m).
Proof. reflexivity. Qed.

(* - + abs ~ int float complex.  (__index__ is not part of the property: it calls
   self.value.__index__() directly, which for a float value raises AttributeError
   where operator.index(value) raises TypeError.) *)
Theorem C20_unary : forall op v u,
  In op [Neg; Pos; Abs; Invert; ToInt; ToFloat; ToComplex] ->
  py_unop qty_methods op (PQ v u) = Ok (NUn op v).
Proof.
  intros op v u H. simpl in H.
  repeat (destruct H as [H|H]; [subst; reflexivity|]). destruct H.
Qed.

(* ordering and equality against plain numbers compare the value; with the
   number on the left Python calls the reflected comparison on the Quantity *)
Theorem C20_cmp_num : forall op v u x,
  py_cmp qty_methods op (PQ v u) (PNum x) = Ok (NCmp op v x) /\
  py_cmp qty_methods op (PNum x) (PQ v u) = Ok (NCmp (swap_cmp op) v x).
Proof. intros op v u x. destruct op; split; reflexivity. Qed.

(* against another Quantity: values when the units match, TypeError otherwise *)
Theorem C20_cmp_qty : forall op v u w u',
  py_cmp qty_methods op (PQ v u) (PQ w u') =
  if opt_str_eqb u' u then Ok (NCmp op v w) else Raise TypeError.
Proof. intros op v u w u'. destruct op; reflexivity. Qed.

(* hash((value, unit)) *)
Theorem C20_hash : forall v u, py_hash qty_methods (PQ v u) = Ok (NHash v u).
Proof. reflexivity. Qed.

(* non-vacuity: the table really has the 13 forward and 13 reflected binary methods *)
Example C20_table_complete :
  forallb (fun op => match find_method (dunder op) qty_methods, find_method (rdunder op) qty_methods with
                     | Some _, Some _ => true | _, _ => false end) all_binops = true /\
  forallb (fun op => match find_method (cmp_dunder op) qty_methods with Some (QCmp o) => true | _ => false end)
          all_cmpops = true.
Proof. vm_compute. split; reflexivity. Qed.
