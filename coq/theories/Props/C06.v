(* C06 - the JSON writer emits well-formed Haystack JSON that denotes the grid.
   Statements only; proofs in Proofs/JsonP.v.  Model/Json.v `jdump` is the
   isinstance ladder of jsondumper.dump_scalar, `jdump_grid` the layout of
   _dump_grid_to_json; "valid JSON" is established on every case by json.loads
   in the correspondence check (the model works on trees).
   PARTIAL: conformance of the whole output against a grammar relation is not
   proved; what is proved is the shape, the per-kind prefix / lexical form and
   (Props/C02.v) that the own reader recovers every scalar.  The independent
   reader of the property is run by the harness. *)
From Coq Require Import String.
From HS Require Import Base.Prelude Gen.JsonData Model.Value Model.Json Proofs.JsonP Proofs.JsonGridP Proofs.JsonShapeP.
Open Scope N_scope.

(* {meta:{ver,...}, cols:[...], rows:[...]} in that order, ver present, at least one column *)
Theorem C06_shape : forall fuel ver meta cols rows j,
  jdump_grid fuel ver meta cols rows = Ok j ->
  exists m cs rs,
    j = JObj [(s_ "meta", JObj m); (s_ "cols", JArr cs); (s_ "rows", JArr rs)] /\
    assoc (s_ "ver") m = Some (JStr ver) /\ cols <> [].
Proof. exact jdump_grid_shape. Qed.

(* every scalar carries the type prefix of its kind and its payload in that kind's lexical form *)
Theorem C06_lexical : forall pre3,
  (forall s, jdump_scalar pre3 (VStr s) = Ok (JStr (115 :: 58 :: s))) /\
  (forall s, jdump_scalar pre3 (VUri s) = Ok (JStr (117 :: 58 :: s))) /\
  (forall s, jdump_scalar pre3 (VBin s) = Ok (JStr (98 :: 58 :: s))) /\
  (forall n d, jdump_scalar pre3 (VRef n (Some d)) = Ok (JStr (114 :: 58 :: n ++ 32 :: d))) /\
  (forall y m d, jdump_scalar pre3 (VDate y m d) = Ok (JStr (100 :: 58 :: iso_date y m d))) /\
  (forall h mi s us, jdump_scalar pre3 (VTime h mi s us) = Ok (JStr (104 :: 58 :: iso_time h mi s us))) /\
  (forall la lo, jdump_scalar pre3 (VCoord la lo) = Ok (JStr (99 :: 58 :: la ++ 44 :: lo))) /\
  jdump_scalar pre3 VMarker = Ok (JStr marker_str) /\
  jdump_scalar pre3 VNull = Ok JNull /\
  (forall b, jdump_scalar pre3 (VBool b) = Ok (JBool b)) /\
  jdump_scalar pre3 VRemove = Ok (JStr (if pre3 then remove2_str else remove3_str)).
Proof. exact jdump_prefixes. Qed.

Theorem C06_ref_plain : forall pre3 n, jdump_scalar pre3 (VRef n None) = Ok (JStr (114 :: 58 :: n)).
Proof. exact jdump_ref_plain. Qed.

(* non-finite numbers are spelled n:INF, n:-INF, n:NaN *)
Theorem C06_nonfinite : forall pre3 z j,
  jdump_scalar pre3 (VNum NkInf z j None) = Ok (JStr (s_ "n:INF")) /\
  jdump_scalar pre3 (VNum NkNegInf z j None) = Ok (JStr (s_ "n:-INF")) /\
  jdump_scalar pre3 (VNum NkNaN z j None) = Ok (JStr (s_ "n:NaN")).
Proof. exact jdump_nonfinite. Qed.

(* 3.0-only kinds are refused under a pre-3.0 version instead of being emitted *)
Theorem C06_gate : forall v, is_v3_only v = true -> jdump_scalar true v = Raise ValueError.
Proof. exact jdump_gate. Qed.

(* THE OBJECT, PIECE BY PIECE: for every grid with distinct column names that the writer accepts, the output is the object
   {meta, cols, rows} in that order; meta carries ver; there is one column object per column, in order, each with the
   column's name under "name"; there is one row object per row, and every row object has exactly one member per column, in
   column order (every cell present - absent cells are written as null).  By induction over columns and rows. *)
Theorem C06_object_pieces : forall f ver meta cols rows j, cols <> nil -> NoDup (map fst cols) ->
  jdump_grid (S f) ver meta cols rows = Ok j ->
  exists m cs rs, j = JObj (cons (s_ "meta", JObj m) (cons (s_ "cols", JArr cs) (cons (s_ "rows", JArr rs) nil))) /\
    assoc VER m = Some (JStr ver) /\
    Forall2 (fun c cj => exists o, cj = JObj o /\ assoc NAME o = Some (JStr (fst c))) cols cs /\
    length rs = length rows /\ Forall (fun r => exists cells, r = JObj cells /\ map fst cells = map fst cols) rs.
Proof. exact json_grid_pieces. Qed.
(* and an independent reader - here the reader model - recovers the same grid: C02_full_grid *)
Print Assumptions C06_object_pieces.
