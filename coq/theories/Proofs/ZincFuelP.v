(* Fuel adequacy of the ZINC reader model: the OutOfFuel marker is never produced when the fuel exceeds the length
   of the text (every nesting level consumes at least one character). *)
From Coq Require Import List NArith Bool Lia Arith.
From HS Require Import Base.Prelude Model.Value Model.Escape Model.Version Model.Json Model.ZincParse.
From HS Require Import Proofs.VersionP Proofs.EscapeP Proofs.ZincParseP.
Import ListNotations.
Open Scope N_scope.

(* ---------- "raises ValueError only" ---------- *)
Definition ve {A} (p : parser A) : Prop := forall t e r, p t = Some (Raise e, r) -> e = ValueError.
Lemma noraise_ve {A} (p : parser A) : noraise p -> ve p.
Proof. intros H t e r E. exfalso. exact (H t e r E). Qed.
Lemma ve_pmap {A B} (f : A -> B) p : ve p -> ve (pmap f p).
Proof. intros H t e r. unfold pmap. destruct (p t) as [[[a|e'] r']|] eqn:E; intro Q; inversion Q; subst. eapply H; eauto. Qed.
Lemma ve_pact {A B} (f : A -> res B) p : ve p -> (forall a e, f a = Raise e -> e = ValueError) -> ve (pact f p).
Proof.
  intros H Hf t e r. unfold pact. destruct (p t) as [[[a|e'] r']|] eqn:E; intro Q; inversion Q; subst; [eapply Hf; eauto|eapply H; eauto].
Qed.
Lemma ve_pand {A B} (p : parser A) (q : parser B) : ve p -> ve q -> ve (pand p q).
Proof.
  intros Hp Hq t e r. unfold pand. destruct (p t) as [[ra t1]|] eqn:E1; [|discriminate].
  destruct (q t1) as [[rb t2]|] eqn:E2; [|discriminate].
  intro Q. inversion Q; subst. destruct ra as [a|ea]; destruct rb as [b|eb]; try discriminate;
    match goal with H : Raise _ = Raise _ |- _ => inversion H; subst end; eauto.
Qed.
Lemma ve_pthen {A B} (p : parser A) (q : parser B) : ve p -> ve q -> ve (pthen p q).
Proof. intros. apply ve_pmap, ve_pand; assumption. Qed.
Lemma ve_pbefore {A B} (p : parser A) (q : parser B) : ve p -> ve q -> ve (pbefore p q).
Proof. intros. apply ve_pmap, ve_pand; assumption. Qed.
Lemma ve_popt {A} (p : parser A) : ve p -> ve (popt p).
Proof. intros H t e r. unfold popt. destruct (p t) as [[[a|e'] r']|] eqn:E; intro Q; inversion Q; subst. eapply H; eauto. Qed.
Lemma ve_por_pick {A} (ps : list (parser A)) : Forall ve ps ->
  forall best t e r, (forall e' r', best = Some (Raise e', r') -> e' = ValueError) -> por_pick best ps t = Some (Raise e, r) -> e = ValueError.
Proof.
  induction 1 as [|p ps Hp Hps IH]; intros best t e r Hb; cbn [por_pick]; [intro Q; eapply Hb; eauto|].
  destruct (p t) as [[rr rest]|] eqn:E; [|apply IH; assumption].
  assert (Hnew : forall e' r', Some (rr, rest) = Some (Raise e', r') -> e' = ValueError) by (intros e' r' Q; inversion Q; subst; eapply Hp; eauto).
  destruct best as [[br brest]|]; [destruct (Nat.ltb (length rest) (length brest))|]; apply IH; assumption.
Qed.
Lemma ve_por {A} (ps : list (parser A)) : Forall ve ps -> ve (por ps).
Proof. intros H t e r. unfold por. eapply ve_por_pick; eauto. intros; discriminate. Qed.

Ltac vact := let a := fresh "a" in let e := fresh "e" in let Q := fresh "Q" in
  intros a e; repeat match goal with x : (_ * _)%type |- _ => destruct x end; cbn beta iota;
  intro Q; repeat match type of Q with context [match ?x with _ => _ end] => destruct x end;
  try discriminate; inversion Q; reflexivity.

Lemma ve_p_date : ve p_date. Proof. unfold p_date. apply ve_pact; [apply noraise_ve, noraise_p_date_str|]. vact. Qed.
Lemma ve_p_time : ve p_time. Proof. unfold p_time. apply ve_pact; [apply noraise_ve, noraise_p_time_str|]. vact. Qed.
Lemma ve_p_iso_datetime : ve p_iso_datetime.
Proof. unfold p_iso_datetime. apply ve_pact; [apply noraise_ve; nr2|vact]. Qed.
Lemma ve_p_datetime : ve p_datetime.
Proof. unfold p_datetime. apply ve_pmap, ve_pand; [apply ve_p_iso_datetime|apply noraise_ve; nr2]. Qed.
Lemma ve_p_coord_deg : ve p_coord_deg.
Proof. unfold p_coord_deg. apply ve_pact; [apply noraise_ve; nr2|vact]. Qed.
Lemma ve_p_coord : ve p_coord.
Proof.
  unfold p_coord. apply ve_pmap, ve_pthen; [apply noraise_ve, noraise_plit|].
  apply ve_pand; [apply ve_p_coord_deg|]. apply ve_pthen; [apply noraise_ve, noraise_value_sep|].
  apply ve_pbefore; [apply ve_p_coord_deg|apply noraise_ve, noraise_plit].
Qed.
Lemma ve_p_decimal : ve p_decimal.
Proof. unfold p_decimal. apply ve_pact; [apply noraise_ve; nr2|vact]. Qed.
Lemma ve_p_number : ve p_number.
Proof.
  unfold p_number. apply ve_por. repeat apply Forall_cons; try apply Forall_nil.
  - apply ve_pmap, ve_pand; [apply ve_p_decimal|apply noraise_ve, noraise_p_unit].
  - apply ve_pmap, ve_p_decimal.
  - apply noraise_ve. nr2.
Qed.

(* ---------- what is left is never longer than what was given ---------- *)
Definition shr {A} (p : parser A) : Prop := forall t x r, p t = Some (x, r) -> (length r <= length t)%nat.

Lemma shr_pmap {A B} (f : A -> B) p : shr p -> shr (pmap f p).
Proof. intros H t x r. unfold pmap. destruct (p t) as [[[a|e'] r']|] eqn:E; intro Q; inversion Q; subst; exact (H _ _ _ E). Qed.
Lemma shr_pact {A B} (f : A -> res B) p : shr p -> shr (pact f p).
Proof. intros H t x r. unfold pact. destruct (p t) as [[[a|e'] r']|] eqn:E; intro Q; inversion Q; subst; exact (H _ _ _ E). Qed.
Lemma shr_pand {A B} (p : parser A) (q : parser B) : shr p -> shr q -> shr (pand p q).
Proof.
  intros Hp Hq t x r. unfold pand. destruct (p t) as [[ra t1]|] eqn:E1; [|discriminate].
  destruct (q t1) as [[rb t2]|] eqn:E2; [|discriminate]. intro Q; inversion Q; subst.
  pose proof (Hp _ _ _ E1). pose proof (Hq _ _ _ E2). lia.
Qed.
Lemma shr_pthen {A B} (p : parser A) (q : parser B) : shr p -> shr q -> shr (pthen p q).
Proof. intros. apply shr_pmap, shr_pand; assumption. Qed.
Lemma shr_pbefore {A B} (p : parser A) (q : parser B) : shr p -> shr q -> shr (pbefore p q).
Proof. intros. apply shr_pmap, shr_pand; assumption. Qed.
Lemma shr_popt {A} (p : parser A) : shr p -> shr (popt p).
Proof.
  intros H t x r. unfold popt. destruct (p t) as [[[a|e'] r']|] eqn:E; intro Q; inversion Q; subst.
  - exact (H _ _ _ E).
  - exact (H _ _ _ E).
  - lia.
Qed.
Lemma shr_por_pick {A} (ps : list (parser A)) : Forall shr ps ->
  forall best t x r, (forall x' r', best = Some (x', r') -> (length r' <= length t)%nat) -> por_pick best ps t = Some (x, r) -> (length r <= length t)%nat.
Proof.
  induction 1 as [|p ps Hp Hps IH]; intros best t x r Hb; cbn [por_pick]; [intro Q; eapply Hb; eauto|].
  destruct (p t) as [[rr rest]|] eqn:E; [|apply IH; assumption].
  assert (Hnew : forall x' r', Some (rr, rest) = Some (x', r') -> (length r' <= length t)%nat) by (intros x' r' Q; inversion Q; subst; eapply Hp; eauto).
  destruct best as [[br brest]|]; [destruct (Nat.ltb (length rest) (length brest))|]; apply IH; assumption.
Qed.
Lemma shr_por {A} (ps : list (parser A)) : Forall shr ps -> shr (por ps).
Proof. intros H t x r. unfold por. eapply shr_por_pick; eauto. intros; discriminate. Qed.
Lemma shr_pmany_fuel {A} (p : parser A) : forall fuel t x r, pmany_fuel fuel p t = (x, r) -> (length r <= length t)%nat.
Proof.
  induction fuel as [|f IH]; intros t x r; cbn [pmany_fuel]; [intro Q; inversion Q; lia|].
  destruct (p t) as [[rr t1]|] eqn:E; [|intro Q; inversion Q; lia].
  destruct (Nat.ltb_spec (length t1) (length t)); [|intro Q; inversion Q; lia].
  destruct (pmany_fuel f p t1) as [rs t2] eqn:E2. intro Q; inversion Q; subst. pose proof (IH _ _ _ E2). lia.
Qed.
Lemma shr_pmany {A} (p : parser A) : shr (pmany p).
Proof. intros t x r. unfold pmany. intro Q. assert (Q' : pmany_fuel (S (length t)) p t = (x, r)) by (inversion Q; reflexivity). eapply shr_pmany_fuel; eauto. Qed.
Lemma shr_pdelimited {A B} (p : parser A) (d : parser B) : shr p -> shr (pdelimited p d).
Proof. intros. apply shr_pmap, shr_pand; [assumption|apply shr_pmany]. Qed.

(* leaves *)
Lemma strip_prefix_len s : forall t r, strip_prefix s t = Some r -> (length r <= length t)%nat.
Proof.
  induction s as [|c s IH]; intros t r; cbn [strip_prefix]; [intro Q; inversion Q; lia|].
  destruct t as [|y t']; [discriminate|]. destruct (N.eqb c y); [|discriminate]. intro H. apply IH in H. cbn [length]. lia.
Qed.
Lemma shr_plit s : shr (plit s).
Proof. intros t x r. unfold plit. destruct (strip_prefix s t) eqn:E; [|discriminate]. intro Q; inversion Q; subst. eapply strip_prefix_len; eauto. Qed.
Lemma shr_pchar f : shr (pchar f).
Proof. intros t x r. unfold pchar. destruct t as [|c t']; [discriminate|]. destruct (f c); [|discriminate]. intro Q; inversion Q; subst. cbn; lia. Qed.
Lemma span_len f : forall t a b, span f t = (a, b) -> (length b <= length t)%nat.
Proof.
  induction t as [|c t IH]; intros a b; cbn [span]; [intro Q; inversion Q; lia|].
  destruct (f c); [|intro Q; inversion Q; cbn; lia]. destruct (span f t) as [a' b'] eqn:E. intro Q; inversion Q; subst. pose proof (IH _ _ eq_refl). cbn; lia.
Qed.
Lemma shr_pspan f : shr (pspan f).
Proof. intros t x r. unfold pspan. destruct (span f t) as [a b] eqn:E. intro Q; inversion Q; subst. eapply span_len; eauto. Qed.
Lemma shr_pspan1 f : shr (pspan1 f).
Proof. intros t x r. unfold pspan1. destruct (span f t) as [a b] eqn:E. destruct a; [discriminate|]. intro Q; inversion Q; subst. eapply span_len; eauto. Qed.
Lemma hd_is_len c t r : hd_is c t = Some r -> (length r <= length t)%nat.
Proof. unfold hd_is. destruct t as [|x t']; [discriminate|]. destruct (x =? c); [|discriminate]. intro Q; inversion Q; subst. cbn; lia. Qed.
Lemma two_digits_len t a r : two_digits t = Some (a, r) -> (length r <= length t)%nat.
Proof. unfold two_digits. destruct t as [|x [|y t']]; try discriminate. destruct (is_digit x && is_digit y); [|discriminate]. intro Q; inversion Q; subst. cbn; lia. Qed.
Lemma four_digits_len t a r : four_digits t = Some (a, r) -> (length r <= length t)%nat.
Proof. unfold four_digits. destruct t as [|x [|y [|z [|w t']]]]; try discriminate. destruct (is_digit x && is_digit y && is_digit z && is_digit w); [|discriminate]. intro Q; inversion Q; subst. cbn; lia. Qed.

Ltac lens := repeat match goal with
  | H : hd_is _ _ = Some _ |- _ => apply hd_is_len in H
  | H : two_digits _ = Some (_, _) |- _ => apply two_digits_len in H
  | H : four_digits _ = Some (_, _) |- _ => apply four_digits_len in H
  | H : span _ _ = (_, _) |- _ => apply span_len in H
  end.
Ltac direct_shr := let t := fresh "t" in let x := fresh "x" in let r := fresh "r" in intros t x r;
  repeat match goal with
         | |- context [match ?y with _ => _ end] => let E := fresh "E" in destruct y eqn:E
         end; intro Q; try discriminate; inversion Q; subst; lens; cbn [length] in *; try lia.

Lemma shr_p_id : shr p_id. Proof. unfold p_id. direct_shr. Qed.
Lemma shr_p_date_str : shr p_date_str. Proof. unfold p_date_str. direct_shr. Qed.
Lemma shr_p_time_str : shr p_time_str. Proof. unfold p_time_str. direct_shr. Qed.
Lemma shr_p_tz_name : shr p_tz_name. Proof. unfold p_tz_name. direct_shr. Qed.
Lemma shr_nl : shr nl. Proof. unfold nl. direct_shr. Qed.

Lemma shr_quoted quote letters uri : shr (quoted quote letters uri).
Proof.
  intros t x r. unfold quoted. destruct t as [|q t1]; [discriminate|]. destruct (q =? quote); [|discriminate].
  destruct (match_chars quote letters t1) as [body t2] eqn:E. destruct t2 as [|q2 rest]; [discriminate|]. destruct (q2 =? quote); [|discriminate].
  intro Q; inversion Q; subst. unfold match_chars in E. apply chars_loop_split in E. subst t1. cbn [length]. rewrite app_length. cbn [length]. lia.
Qed.
Lemma shr_hs_str : shr hs_str. Proof. apply shr_quoted. Qed.
Lemma shr_hs_uri : shr hs_uri. Proof. apply shr_quoted. Qed.

Ltac sh := repeat first
  [ assumption
  | apply shr_p_id | apply shr_p_date_str | apply shr_p_time_str | apply shr_p_tz_name | apply shr_nl
  | apply shr_hs_str | apply shr_hs_uri
  | apply shr_plit | apply shr_pchar | apply shr_pspan | apply shr_pspan1 | apply shr_pmany | apply shr_pdelimited
  | apply shr_pthen | apply shr_pbefore | apply shr_pmap | apply shr_pact | apply shr_pand | apply shr_popt
  | apply shr_por; repeat apply Forall_cons; try apply Forall_nil
  | solve [intros ? ? ? Q; inversion Q; subst; lia] ].

Lemma shr_spaces : shr spaces. Proof. unfold spaces. sh. Qed.
Lemma shr_value_sep : shr value_sep. Proof. unfold value_sep, spaces. sh. Qed.
Lemma shr_p_ref : shr p_ref. Proof. unfold p_ref, p_str. sh. Qed.
Lemma shr_p_bin : shr p_bin. Proof. unfold p_bin. sh. Qed.
Lemma shr_p_xstr : shr p_xstr. Proof. unfold p_xstr, p_str. sh. Qed.
Lemma shr_p_offset : shr p_offset. Proof. unfold p_offset. sh. direct_shr. Qed.
Lemma shr_p_timezone_name : shr p_timezone_name. Proof. unfold p_timezone_name, p_tz_utc_offset. sh. Qed.
Lemma shr_p_digits : shr p_digits. Proof. unfold p_digits. sh. Qed.
Lemma shr_p_exp : shr p_exp. Proof. unfold p_exp, p_digits. sh. Qed.
Lemma shr_p_unit : shr p_unit. Proof. unfold p_unit. sh. Qed.
Ltac sh2 := repeat first
  [ assumption
  | apply shr_spaces | apply shr_value_sep | apply shr_p_ref | apply shr_p_bin | apply shr_p_xstr | apply shr_p_offset | apply shr_p_timezone_name
  | apply shr_p_digits | apply shr_p_exp | apply shr_p_unit
  | apply shr_p_id | apply shr_p_date_str | apply shr_p_time_str | apply shr_p_tz_name | apply shr_nl
  | apply shr_hs_str | apply shr_hs_uri
  | apply shr_plit | apply shr_pchar | apply shr_pspan | apply shr_pspan1 | apply shr_pmany | apply shr_pdelimited
  | apply shr_pthen | apply shr_pbefore | apply shr_pmap | apply shr_pact | apply shr_pand | apply shr_popt
  | apply shr_por; repeat apply Forall_cons; try apply Forall_nil
  | solve [intros ? ? ? Q; inversion Q; subst; lia] ].
Lemma shr_p_date : shr p_date. Proof. unfold p_date. sh. Qed.
Lemma shr_p_time : shr p_time. Proof. unfold p_time. sh. Qed.
Lemma shr_p_iso_datetime : shr p_iso_datetime. Proof. unfold p_iso_datetime. sh2. Qed.
Lemma shr_p_datetime : shr p_datetime. Proof. unfold p_datetime. apply shr_pmap, shr_pand; [apply shr_p_iso_datetime|sh2]. Qed.
Lemma shr_p_coord_deg : shr p_coord_deg. Proof. unfold p_coord_deg. sh2. Qed.
Lemma shr_p_coord : shr p_coord.
Proof. unfold p_coord. apply shr_pmap, shr_pthen; [sh2|]. apply shr_pand; [apply shr_p_coord_deg|]. apply shr_pthen; [sh2|]. apply shr_pbefore; [apply shr_p_coord_deg|sh2]. Qed.
Lemma shr_p_decimal : shr p_decimal. Proof. unfold p_decimal. sh2. Qed.
Lemma shr_p_number : shr p_number.
Proof.
  unfold p_number. apply shr_por. repeat apply Forall_cons; try apply Forall_nil.
  - apply shr_pmap, shr_pand; [apply shr_p_decimal|sh2].
  - apply shr_pmap, shr_p_decimal.
  - sh2.
Qed.
Lemma shr_consts : shr p_null /\ shr p_marker /\ shr p_remove /\ shr p_na /\ shr p_bool.
Proof. unfold p_null, p_marker, p_remove, p_na, p_bool. repeat split; sh. Qed.

Ltac sh3 := repeat first
  [ assumption
  | apply shr_p_date | apply shr_p_time | apply shr_p_datetime | apply shr_p_coord | apply shr_p_number | apply shr_consts
  | apply shr_spaces | apply shr_value_sep | apply shr_p_ref | apply shr_p_bin | apply shr_p_xstr | apply shr_p_offset | apply shr_p_timezone_name
  | apply shr_p_digits | apply shr_p_exp | apply shr_p_unit
  | apply shr_p_id | apply shr_p_date_str | apply shr_p_time_str | apply shr_p_tz_name | apply shr_nl
  | apply shr_hs_str | apply shr_hs_uri
  | apply shr_plit | apply shr_pchar | apply shr_pspan | apply shr_pspan1 | apply shr_pmany | apply shr_pdelimited
  | apply shr_pthen | apply shr_pbefore | apply shr_pmap | apply shr_pact | apply shr_pand | apply shr_popt
  | apply shr_por; repeat apply Forall_cons; try apply Forall_nil
  | solve [intros ? ? ? Q; inversion Q; subst; lia] ].

Lemma shr_scalar_grid : forall f v, shr (p_scalar f v) /\ shr (p_grid f v).
Proof.
  induction f as [|f IH]; intro v.
  - split; intros t x r Q; cbn in Q; inversion Q; cbn; lia.
  - split.
    + intros t x r. cbn [p_scalar]. destruct v.
      * cbv zeta. pose proof (proj1 (IH true)) as IHs. pose proof (proj2 (IH true)) as IHg.
        apply shr_por. repeat apply Forall_cons; try apply Forall_nil; sh3; try apply shr_consts.
      * unfold scalars_2_0. apply shr_por. repeat apply Forall_cons; try apply Forall_nil; sh3; try apply shr_consts.
    + intros t x r. cbn [p_grid]. cbv zeta. pose proof (proj1 (IH v)) as IHs. apply shr_pact. sh3.
Qed.

(* ---------- OutOfFuel only when the fuel does not exceed the length of the input ---------- *)
Definition oofb {A} (n : nat) (p : parser A) : Prop := forall t r, p t = Some (Raise OutOfFuel, r) -> (n <= length t)%nat.
Definition shr1 {A} (p : parser A) : Prop := forall t x r, p t = Some (x, r) -> (length r < length t)%nat.

Lemma ve_oofb {A} n (p : parser A) : ve p -> oofb n p.
Proof. intros H t r E. apply H in E. discriminate. Qed.
Lemma oofb_le {A} n m (p : parser A) : oofb n p -> (m <= n)%nat -> oofb m p.
Proof. intros H L t r E. specialize (H t r E). lia. Qed.
Lemma oofb_pmap {A B} n (f : A -> B) p : oofb n p -> oofb n (pmap f p).
Proof. intros H t r. unfold pmap. destruct (p t) as [[[a|e'] r']|] eqn:E; intro Q; inversion Q; subst. exact (H _ _ E). Qed.
Lemma oofb_pact {A B} n (f : A -> res B) p : oofb n p -> (forall a, f a <> Raise OutOfFuel) -> oofb n (pact f p).
Proof.
  intros H Hf t r. unfold pact. destruct (p t) as [[[a|e'] r']|] eqn:E; intro Q; inversion Q; subst.
  - exfalso. eapply Hf; eauto.
  - exact (H _ _ E).
Qed.
Lemma oofb_pand {A B} n (p : parser A) (q : parser B) : oofb n p -> oofb n q -> shr p -> oofb n (pand p q).
Proof.
  intros Hp Hq Sp t r. unfold pand. destruct (p t) as [[ra t1]|] eqn:E1; [|discriminate].
  destruct (q t1) as [[rb t2]|] eqn:E2; [|discriminate]. intro Q. inversion Q; subst. clear Q.
  destruct ra as [a|ea]; destruct rb as [b|eb]; try discriminate;
    match goal with H : Raise _ = Raise _ |- _ => inversion H; subst end.
  - pose proof (Hq _ _ E2). pose proof (Sp _ _ _ E1). lia.
  - exact (Hp _ _ E1).
  - exact (Hp _ _ E1).
Qed.
Lemma oofb_pand_strict {A B} n (p : parser A) (q : parser B) : oofb (S n) p -> oofb n q -> shr1 p -> oofb (S n) (pand p q).
Proof.
  intros Hp Hq Sp t r. unfold pand. destruct (p t) as [[ra t1]|] eqn:E1; [|discriminate].
  destruct (q t1) as [[rb t2]|] eqn:E2; [|discriminate]. intro Q. inversion Q; subst. clear Q.
  destruct ra as [a|ea]; destruct rb as [b|eb]; try discriminate;
    match goal with H : Raise _ = Raise _ |- _ => inversion H; subst end.
  - pose proof (Hq _ _ E2). pose proof (Sp _ _ _ E1). lia.
  - exact (Hp _ _ E1).
  - exact (Hp _ _ E1).
Qed.
Lemma oofb_pthen {A B} n (p : parser A) (q : parser B) : oofb n p -> oofb n q -> shr p -> oofb n (pthen p q).
Proof. intros. apply oofb_pmap, oofb_pand; assumption. Qed.
Lemma oofb_pbefore {A B} n (p : parser A) (q : parser B) : oofb n p -> oofb n q -> shr p -> oofb n (pbefore p q).
Proof. intros. apply oofb_pmap, oofb_pand; assumption. Qed.
Lemma oofb_pthen_strict {A B} n (p : parser A) (q : parser B) : oofb (S n) p -> oofb n q -> shr1 p -> oofb (S n) (pthen p q).
Proof. intros. apply oofb_pmap, oofb_pand_strict; assumption. Qed.
Lemma oofb_popt {A} n (p : parser A) : oofb n p -> oofb n (popt p).
Proof. intros H t r. unfold popt. destruct (p t) as [[[a|e'] r']|] eqn:E; intro Q; inversion Q; subst. exact (H _ _ E). Qed.
Lemma oofb_por_pick {A} n (ps : list (parser A)) : Forall (oofb n) ps ->
  forall best t r, (forall r', best = Some (Raise OutOfFuel, r') -> (n <= length t)%nat) -> por_pick best ps t = Some (Raise OutOfFuel, r) -> (n <= length t)%nat.
Proof.
  induction 1 as [|p ps Hp Hps IH]; intros best t r Hb; cbn [por_pick]; [intro Q; eapply Hb; eauto|].
  destruct (p t) as [[rr rest]|] eqn:E; [|apply IH; assumption].
  assert (Hnew : forall r', Some (rr, rest) = Some (Raise OutOfFuel, r') -> (n <= length t)%nat) by (intros r' Q; inversion Q; subst; eapply Hp; eauto).
  destruct best as [[br brest]|]; [destruct (Nat.ltb (length rest) (length brest))|]; apply IH; assumption.
Qed.
Lemma oofb_por {A} n (ps : list (parser A)) : Forall (oofb n) ps -> oofb n (por ps).
Proof. intros H t r. unfold por. eapply oofb_por_pick; eauto. intros; discriminate. Qed.
Lemma oofb_pmany_fuel {A} n (p : parser A) : oofb n p -> forall fuel t r, pmany_fuel fuel p t = (Raise OutOfFuel, r) -> (n <= length t)%nat.
Proof.
  intros H. induction fuel as [|f IH]; intros t r; cbn [pmany_fuel]; [discriminate|].
  destruct (p t) as [[rr t1]|] eqn:E; [|discriminate].
  destruct (Nat.ltb_spec (length t1) (length t)); [|discriminate].
  destruct (pmany_fuel f p t1) as [rs t2] eqn:E2. intro Q. inversion Q; subst. clear Q.
  destruct rr as [a|ea]; destruct rs as [l|el]; try discriminate;
    match goal with H0 : Raise _ = Raise _ |- _ => inversion H0; subst end.
  - pose proof (IH _ _ E2). lia.
  - exact (H _ _ E).
  - exact (H _ _ E).
Qed.
Lemma oofb_pmany {A} n (p : parser A) : oofb n p -> oofb n (pmany p).
Proof. intros H t r. unfold pmany. intro Q. assert (Q' : pmany_fuel (S (length t)) p t = (Raise OutOfFuel, r)) by (inversion Q; reflexivity). eapply oofb_pmany_fuel; eauto. Qed.
Lemma oofb_pdelimited {A B} n (p : parser A) (d : parser B) : oofb n p -> oofb n d -> shr p -> shr d -> oofb n (pdelimited p d).
Proof. intros. apply oofb_pmap, oofb_pand; [assumption| |assumption]. apply oofb_pmany, oofb_pthen; assumption. Qed.

Lemma strip_prefix_strict c s : forall t r, strip_prefix (c :: s) t = Some r -> (length r < length t)%nat.
Proof. intros t r. cbn [strip_prefix]. destruct t as [|y t']; [discriminate|]. destruct (N.eqb c y); [|discriminate]. intro H. apply strip_prefix_len in H. cbn [length]. lia. Qed.
Lemma shr1_plit c s : shr1 (plit (c :: s)).
Proof. intros t x r. unfold plit. destruct (strip_prefix (c :: s) t) eqn:E; [|discriminate]. intro Q; inversion Q; subst. eapply strip_prefix_strict; eauto. Qed.
Lemma shr1_pand_l {A B} (p : parser A) (q : parser B) : shr1 p -> shr q -> shr1 (pand p q).
Proof.
  intros Hp Hq t x r. unfold pand. destruct (p t) as [[ra t1]|] eqn:E1; [|discriminate].
  destruct (q t1) as [[rb t2]|] eqn:E2; [|discriminate]. intro Q; inversion Q; subst.
  pose proof (Hp _ _ _ E1). pose proof (Hq _ _ _ E2). lia.
Qed.
Lemma shr1_pmap {A B} (f : A -> B) p : shr1 p -> shr1 (pmap f p).
Proof. intros H t x r. unfold pmap. destruct (p t) as [[[a|e'] r']|] eqn:E; intro Q; inversion Q; subst; exact (H _ _ _ E). Qed.
Lemma shr1_pthen_l {A B} (p : parser A) (q : parser B) : shr1 p -> shr q -> shr1 (pthen p q).
Proof. intros. apply shr1_pmap, shr1_pand_l; assumption. Qed.
Lemma shr1_pbefore_l {A B} (p : parser A) (q : parser B) : shr1 p -> shr q -> shr1 (pbefore p q).
Proof. intros. apply shr1_pmap, shr1_pand_l; assumption. Qed.

Lemma noraise_consts_each : Forall (fun p : parser hval => noraise p) [p_na; p_null; p_marker; p_remove; p_bool].
Proof. repeat apply Forall_cons; try apply Forall_nil; apply noraise_consts. Qed.

Ltac vetac := solve
  [ apply ve_p_date | apply ve_p_time | apply ve_p_datetime | apply ve_p_coord | apply ve_p_number
  | apply noraise_ve; solve [nr2 | apply noraise_consts] ].

Ltac oo := repeat first
  [ assumption
  | solve [apply ve_oofb; vetac]
  | solve [intros ? ? Q; discriminate Q]
  | apply oofb_pthen_strict; [ | | solve [apply shr1_plit] ]
  | apply oofb_pthen; [ | | solve [sh3] ]
  | apply oofb_pbefore; [ | | solve [sh3] ]
  | apply oofb_pdelimited; [ | | solve [sh3] | solve [sh3] ]
  | apply oofb_pand; [ | | solve [sh3] ]
  | apply oofb_pmap | apply oofb_popt | apply oofb_pmany
  | apply oofb_por; repeat apply Forall_cons; try apply Forall_nil ].
Lemma oofb_scalar_grid : forall f v, oofb f (p_scalar f v) /\ oofb f (p_grid f v).
Proof.
  induction f as [|f IH]; intro v.
  - split; intros t r _; apply Nat.le_0_l.
  - split.
    + intros t r. cbn [p_scalar]. destruct v.
      * cbv zeta. pose proof (proj1 (IH true)) as IHs. pose proof (proj2 (IH true)) as IHg.
        pose proof (proj1 (shr_scalar_grid f true)) as Ss. pose proof (proj2 (shr_scalar_grid f true)) as Sg.
        apply oofb_por. repeat apply Forall_cons; try apply Forall_nil; oo.
      * unfold scalars_2_0. apply oofb_por. repeat apply Forall_cons; try apply Forall_nil; oo.
    + intros t r. cbn [p_grid]. cbv zeta. pose proof (proj1 (IH v)) as IHs.
      pose proof (proj1 (shr_scalar_grid f v)) as Ss.
      assert (S1 : shr1 (pthen (plit [118; 101; 114; 58]) p_str)).
      { apply shr1_pthen_l; [exact (shr1_plit 118 _)|sh3]. }
      apply oofb_pact.
      * apply oofb_pand_strict.
        -- apply oofb_pand_strict; [apply ve_oofb; vetac| |exact S1]. oo.
        -- oo.
        -- apply shr1_pand_l; [exact S1|sh3].
      * intros a. destruct a as [[ver meta] [cols rows]]. cbn beta iota.
        destruct (parse_ver ver) as [pv|e1] eqn:Epv; cbn [bind].
        -- destruct (pre3_of_ok ver pv Epv) as [b Hb]. rewrite Hb. cbn [bind].
           match goal with |- context [if ?c then _ else _] => destruct c end; discriminate.
        -- intro Q; inversion Q; subst. apply parse_ver_raises in Epv. discriminate.
Qed.

Theorem fuel_adequate_scalar v t r : p_scalar (S (S (length t))) v t <> Some (Raise OutOfFuel, r).
Proof. intro H. apply (proj1 (oofb_scalar_grid _ v)) in H. lia. Qed.
Theorem fuel_adequate_grid v t r : p_grid (S (S (length t))) v t <> Some (Raise OutOfFuel, r).
Proof. intro H. apply (proj2 (oofb_scalar_grid _ v)) in H. lia. Qed.

Theorem zparse_scalar_exn_full v t e : zparse_scalar v t = Raise e -> e = ZincParseException \/ e = ValueError.
Proof.
  intro H. destruct (zparse_scalar_exn v t e H) as [E|[E|E]]; auto. subst. exfalso.
  unfold zparse_scalar in H. destruct (p_scalar _ v t) as [[[x|e'] rest]|] eqn:E.
  - destruct (only_ws rest); discriminate.
  - inversion H; subst. eapply fuel_adequate_scalar; eauto.
  - discriminate.
Qed.
