"""./check <property> [--tier quick|thorough] [--replay FILE]"""
import argparse
import importlib
import json
import os
import sys
import traceback

sys.path.insert(0, os.path.dirname(os.path.abspath(__file__)))
import common  # noqa: E402


def main():
    ap = argparse.ArgumentParser()
    ap.add_argument('prop')
    ap.add_argument('--tier', default=os.environ.get('VERIF_TIER', 'quick'), choices=['quick', 'thorough'])
    ap.add_argument('--replay')
    a = ap.parse_args()
    seed = int(os.environ.get('VERIF_SEED', '0') or 0)
    ctx = common.Ctx(a.prop, a.tier, seed)
    try:
        mod = importlib.import_module('props.' + a.prop.lower())
    except ImportError:
        print('no check for property %s' % a.prop)
        return 2
    ctx.build = common.build(a.prop, getattr(mod, 'COMPONENTS', None))
    b = ctx.build
    # a broken proof or translator escalates the search to the thorough budget
    ctx.escalate = (not b['props_ok']) or bool(b['errors'])
    if ctx.escalate:
        ctx.notes.append('escalated: ' + '; '.join(e for e in b['errors'] if e)[:600])
    try:
        if a.replay:
            with open(a.replay) as f:
                data = json.load(f)
            mod.replay(ctx, data.get('replay', data))
        elif b['model_ok']:
            mod.run(ctx)
        else:
            mod.run_impl_only(ctx) if hasattr(mod, 'run_impl_only') else None
    except Exception:
        tb = traceback.format_exc()
        ctx.violation('correspondence-broken', 'check crashed: ' + tb[-1500:],
                      {'component': 'harness', 'traceback': tb})
    terr = [e for e in b['errors'] if e.startswith('translator ')]
    pins = b.get('pins_broken') or []
    if pins and not terr and b['model_ok']:
        # a unit of the source that the hand-written model of this property was written against has changed (AST fingerprint,
        # harness/pins.json): the model is not known to describe this code.  The search above ran at its normal depth; a concrete
        # failing input it found takes precedence as the replay
        ctx.notes.append('pinned source changed: ' + '; '.join(pins)[:600])
        ctx.violation('correspondence-broken', 'the source the hand-written model of %s was written against has changed (the tie is broken: '
                      'the theorems of Props/%s.v are about the pinned source): %s' % (a.prop, a.prop, '; '.join(pins)[:1000]),
                      {'component': 'pins harness/pins.json', 'changed_units': pins, 'theorem_file': 'coq/theories/Props/%s.v' % a.prop})
    if terr and b['model_ok']:
        # the translator failed closed: a table has a shape it does not handle, or a function body the hand-written model was
        # written against has changed.  The model data in Gen/*.v is then NOT what the code says now, so the theorems are not
        # about this code: unless the search above found a concrete failing input (which takes precedence as the replay), the
        # property is no longer shown to hold
        ctx.violation('correspondence-broken', 'the translator could not regenerate the model from the current source (the tie is broken: '
                      'the theorems of Props/%s.v are about the previous source): %s' % (a.prop, '; '.join(terr)[:1000]),
                      {'component': 'translator harness/srcdata.py', 'errors': terr, 'theorem_file': 'coq/theories/Props/%s.v' % a.prop})
    if not b['model_ok']:
        ctx.violation('correspondence-broken', 'the model could not be regenerated/built from the source: '
                      + '; '.join(b['errors'])[:800], {'component': 'build', 'errors': b['errors']})
    elif not b['props_ok']:
        ctx.violation('proof-broken', 'proof obligations of Props/%s.v no longer check: %s'
                      % (a.prop, '; '.join(b['errors'])[:1200]),
                      {'component': 'coq', 'theorem_file': 'coq/theories/Props/%s.v' % a.prop,
                       'broken_files': b['broken_files'], 'errors': b['errors']})
    return ctx.finish()


if __name__ == '__main__':
    sys.exit(main())
