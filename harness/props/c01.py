"""C01 - ZINC round trip: parse(dump(g)) is g, for every valid grid.

Theorems: coq/theories/Props/C01.v (Model/ZincDump.v, Model/ZincParse.v, Model/Escape.v).
Tie: exact text equality of the writer model with hszinc.dump, and value equality of the
reader model (the pyparsing grammar, combinator for combinator) with hszinc.parse on
those texts.  Search: parse(dump(g)) against g, kind-aware and order-aware (numbers,
dates, times, date-times exact; coordinates to six decimals), single and multi-grid documents."""
import random

import codec
import zincsim

COMPONENTS = ['escape', 'version']


def run(ctx):
    h = codec.H()
    rng = random.Random(ctx.seed + 1)
    thorough = ctx.tier == 'thorough' or ctx.escalate
    n = 20000 if thorough else 600
    ctx.coverage['rule'] = ('generated grids (every kind in metadata, column metadata, cells, lists, dicts, nested grids; all code points; boundary and '
                            'non-finite floats; all mapped zones incl. transition instants; depth <= 3; versions 2.0/3.0) through dump+parse in ZINC mode, '
                            'singly and as multi-grid documents; distinct by dumped text')
    gs = [codec.gen_grid(rng, rng.choice(['2.0', '3.0', '3.0']), depth=rng.choice([0, 1, 2, 3])) for _ in range(n)]
    gs += codec.zone_sweep_grids(rng)        # one date-time in every mapped zone
    gs += codec.reserved_tag_grids(flat=True)         # dict values whose tags are the names of the JSON grid encoding (meta, cols, rows)
    texts = []
    for g in gs:
        try:
            texts.append(h.dump(g))
        except Exception as e:  # noqa
            ctx.violation('impl-counterexample', 'dumping a valid grid raised %s: %s' % (type(e).__name__, e),
                          {'grid': repr(codec.canon(g))[:3000]})
            return
    # multi-grid documents
    multi = []
    for k in (0, 2, 3):
        for _ in range(20 if thorough else 5):
            sub = [rng.choice(gs) for _ in range(k)]
            multi.append((sub, h.dump(sub)))
    m_dump = zincsim.model_zdump(ctx, gs)
    all_texts = texts + [t for _, t in multi]
    impl = zincsim.impl_parse_many(all_texts)
    model = zincsim.model_zparse(ctx, all_texts)
    seen = set()
    corr = False
    for i, txt in enumerate(all_texts):
        ctx.coverage['evaluations'] += 1
        src = [gs[i]] if i < len(gs) else multi[i - len(gs)][0]
        want = ('list',) + tuple(zincsim.canon_z(g) for g in src)
        rep = {'dumped': txt[:4000], 'grids_canonical': repr([codec.canon(g) for g in src])[:4000]}
        got = impl[i]
        if got[0] != 'ok':
            ctx.violation('impl-counterexample', 'parse(dump(g)) raised %s' % got[1], rep)
            return
        if got[1] != want:
            ctx.violation('impl-counterexample', 'parse(dump(g)) differs from g: got %r, expected %r' % _diff(got[1], want), rep)
            return
        if not corr:
            if i < len(gs) and m_dump[i] != ['ok', txt]:
                ctx.violation('correspondence-broken', 'model of the ZINC writer differs: %r' % (repr(m_dump[i])[:300],), dict(rep, component='zdump'))
                corr = True
            elif model[i][:2] != got[:2]:
                ctx.violation('correspondence-broken', 'model of the ZINC reader: %r, implementation %r' % _diff(model[i], got[:2]),
                              dict(rep, component='zparse'))
                corr = True
        ctx.coverage['traces_validated_against_impl'] += 1
        if len(txt) > 30:
            seen.add(txt)
    # single=True gives the first grid / None
    for sub, txt in multi[:6]:
        r = h.parse(txt, single=True)
        ctx.coverage['evaluations'] += 1
        if (r is None) != (not sub) or (sub and zincsim.canon_z(r) != zincsim.canon_z(sub[0])):
            ctx.violation('impl-counterexample', 'single=True does not give the first grid / None', {'dumped': txt[:2000]})
            return
    ctx.sample({'dumped': sorted(seen, key=len)[len(seen) // 2][:1500] if seen else ''})
    # dense sweep of microsecond values in times and date-times (scalars): every value must come back exactly
    import datetime as _dt
    import pytz as _pytz
    sweep = []
    for _ in range(30000 if thorough else 900):
        us = rng.choice([rng.randrange(1000000), rng.randrange(1000), rng.randrange(100000) * 10, 249, 251, 999999, 1])
        hh, mm, ss = rng.randint(0, 23), rng.randint(0, 59), rng.randint(0, 59)
        if rng.random() < 0.7:
            sweep.append(_dt.time(hh, mm, ss, us))
        else:
            sweep.append(_pytz.utc.localize(_dt.datetime(2021, 3, 4, hh, mm, ss, us)))
    for v in sweep:
        ctx.coverage['evaluations'] += 1
        ctx.count('microsecond-sweep')
        try:
            back = h.parse_scalar(h.dump_scalar(v, mode=h.MODE_ZINC), mode=h.MODE_ZINC)
        except Exception as e:  # noqa
            ctx.violation('impl-counterexample', 'the scalar %r does not survive dump + parse: %s' % (v, type(e).__name__), {'value': repr(v)})
            return
        if back != v or getattr(back, 'microsecond', None) != v.microsecond:
            ctx.violation('impl-counterexample', 'the scalar %r came back as %r' % (v, back), {'value': repr(v)})
            return
    ctx.coverage['distinct_nontrivial'] = len(seen)


def _diff(a, b):
    if isinstance(a, tuple) and isinstance(b, tuple) and len(a) == len(b):
        for x, y in zip(a, b):
            if x != y:
                return _diff(x, y)
    return (a, b)


def replay(ctx, data):
    print(data.get('dumped', '')[:2000])
    run(ctx)
