(* Number spellings the writer does not use: _ digit separators, upper-case E *)
From Coq Require Import String.
From Coq Require Import List NArith Bool Lia Arith.
From HS Require Import Base.Prelude Model.Value Model.Escape Model.Version Model.Json Model.ZincParse.
From HS Require Import Proofs.VersionP Proofs.EscapeP Proofs.JsonP Proofs.ZincParseP Proofs.ZincNumP.
Import ListNotations.
Open Scope N_scope.

Definition nrm (d : str) : str := filter (fun c => negb (c =? 95)) d.
(* a run of digits and underscores that starts with a digit *)
Definition udigs (d : str) : Prop := match d with c :: r => is_ascii_digit c = true /\ Forall (fun x => is_digit_us x = true) r | [] => False end.

Lemma udigs_us d : udigs d -> d <> [] /\ Forall (fun x => is_digit_us x = true) d.
Proof. destruct d as [|c r]; [contradiction|]. intros [Hc Hr]. split; [discriminate|]. constructor; [apply adig_us; exact Hc|exact Hr]. Qed.
Lemma nrm_hd d : udigs d -> exists c r, nrm d = c :: r.
Proof. destruct d as [|c r]; [contradiction|]. intros [Hc _]. unfold nrm. cbn [filter]. rewrite (adig_not95 c Hc). eexists. eexists. reflexivity. Qed.

Lemma p_digits_u d tail : udigs d -> nodig tail -> p_digits (d ++ tail) = Some (Ok (nrm d), tail).
Proof. intros Hd Ht. destruct (udigs_us d Hd) as [Hne Hall]. exact (digits_with_separators d tail Hne Hall Ht). Qed.

Definition fptu (fp : option str) : str := match fp with Some d => 46 :: d | None => [] end.
Definition extu (ex : option (N * option N * str)) : str :=
  match ex with Some (e, s, d) => e :: (match s with Some c => [c] | None => [] end) ++ d | None => [] end.
Definition fpu_ok (fp : option str) : Prop := match fp with Some d => udigs d | None => True end.
Definition exu_ok (ex : option (N * option N * str)) : Prop :=
  match ex with Some (e, s, d) => (e = 101 \/ e = 69) /\ (s = None \/ s = Some 43 \/ s = Some 45) /\ udigs d | None => True end.
(* the value text: separators dropped, the exponent letter in lower case *)
Definition fpn (fp : option str) : option str := match fp with Some d => Some (nrm d) | None => None end.
Definition exn (ex : option (N * option N * str)) : option (option N * str) := match ex with Some (e, s, d) => Some (s, nrm d) | None => None end.

Lemma opt_frac_some_u d tail : udigs d -> nodig tail -> popt (pthen (plit [46]) p_digits) (46 :: d ++ tail) = Some (Ok (Some (nrm d)), tail).
Proof.
  intros Hd Ht. unfold popt, pthen, pmap, pand.
  assert (L : plit [46] (46 :: d ++ tail) = Some (Ok tt, d ++ tail)) by reflexivity.
  rewrite L, (p_digits_u d tail Hd Ht). reflexivity.
Qed.

Lemma udigs_hd d : udigs d -> exists c r, d = c :: r /\ is_ascii_digit c = true.
Proof. destruct d as [|c r]; [contradiction|]. intros [Hc _]. exists c, r. split; [reflexivity|exact Hc]. Qed.

Lemma opt_exp_some_u e s d tail : (e = 101 \/ e = 69) -> (s = None \/ s = Some 43 \/ s = Some 45) -> udigs d -> nodig tail ->
  popt p_exp (extu (Some (e, s, d)) ++ tail) = Some (Ok (Some (ext (Some (s, nrm d)), true)), tail).
Proof.
  intros He Hs Hd Ht. pose proof (p_digits_u d tail Hd Ht) as PD. destruct (nrm_hd d Hd) as [n0 [nr En]].
  destruct (udigs_hd d Hd) as [c [d' [Ed Hc]]].
  apply popt_ok. unfold p_exp, extu, ext.
  set (P := pand (pchar (fun c0 => (c0 =? 101) || (c0 =? 69))) (pand (popt (pchar (fun c0 => (c0 =? 43) || (c0 =? 45)))) p_digits)).
  assert (Q : P ((e :: (match s with Some c0 => [c0] | None => [] end) ++ d) ++ tail) = Some (Ok (e, (s, nrm d)), tail)).
  { cbn [List.app]. rewrite <- app_assoc. unfold P. eapply pand_ok.
    - unfold pchar. destruct He; subst e; reflexivity.
    - destruct Hs as [E|[E|E]]; subst s; cbn [List.app].
      + eapply pand_ok; [|exact PD]. unfold popt, pchar. rewrite Ed. cbn [List.app]. dcases Hc; reflexivity.
      + eapply pand_ok; [reflexivity|exact PD].
      + eapply pand_ok; [reflexivity|exact PD]. }
  rewrite (pmap_ok _ P _ _ _ Q). cbn [fst snd]. rewrite En. reflexivity.
Qed.

Definition mantu (sg : bool) (ip : str) (fp : option str) (ex : option (N * option N * str)) : str := (sgn sg ++ ip ++ fptu fp ++ extu ex)%list.
Definition mantn (sg : bool) (ip : str) (fp : option str) (ex : option (N * option N * str)) : str := mant sg (nrm ip) (fpn fp) (exn ex).

Lemma p_decimal_tok_u sg ip fp ex tail : udigs ip -> fpu_ok fp -> exu_ok ex -> numstop tail ->
  p_decimal (mantu sg ip fp ex ++ tail) = Some (Ok (mantn sg ip fp ex), tail).
Proof.
  intros Hip Hfp Hex Ht. pose proof (numstop_nodig tail Ht) as Nt.
  assert (E : popt p_exp (extu ex ++ tail) = Some (Ok (match ex with Some (e, s, d) => Some (ext (Some (s, nrm d)), true) | None => None end), tail)).
  { destruct ex as [[[e s] d]|]; cbn [exu_ok] in Hex.
    - destruct Hex as [He [Hs Hd]]. apply opt_exp_some_u; assumption.
    - cbn [extu List.app]. apply opt_exp_none. destruct tail; [exact I|]. cbn in Ht. tauto. }
  assert (Ne : match (extu ex ++ tail) with c :: _ => is_digit_us c = false /\ c <> 46 | [] => True end).
  { destruct ex as [[[e s] d]|]; cbn [extu List.app exu_ok] in *.
    - destruct Hex as [[He|He] _]; subst e; split; try reflexivity; discriminate.
    - destruct tail; [exact I|]. cbn in Ht. tauto. }
  assert (F : popt (pthen (plit [46]) p_digits) (fptu fp ++ extu ex ++ tail) = Some (Ok (fpn fp), extu ex ++ tail)).
  { destruct fp as [d|]; cbn [fpu_ok] in Hfp; cbn [fptu fpn List.app].
    - apply opt_frac_some_u; [exact Hfp|]. destruct (extu ex ++ tail); [exact I|]. cbn. tauto.
    - apply opt_frac_none. destruct (extu ex ++ tail); [exact I|]. tauto. }
  assert (I1 : p_digits (ip ++ fptu fp ++ extu ex ++ tail) = Some (Ok (nrm ip), fptu fp ++ extu ex ++ tail)).
  { apply p_digits_u; [exact Hip|]. destruct fp as [d|]; cbn [fptu List.app]; [reflexivity|]. destruct (extu ex ++ tail); [exact I|]. cbn. tauto. }
  assert (S1 : popt (plit [45]) (sgn sg ++ ip ++ fptu fp ++ extu ex ++ tail) = Some (Ok (if sg then Some tt else None), ip ++ fptu fp ++ extu ex ++ tail)).
  { destruct sg; cbn [sgn List.app]; [reflexivity|]. destruct (udigs_hd ip Hip) as [c [r [Ei Hc]]]. rewrite Ei. cbn [List.app]. unfold popt, plit. dcases Hc; reflexivity. }
  unfold mantu. rewrite <- !app_assoc.
  set (P := pand (popt (plit [45])) (pand p_digits (pand (popt (pthen (plit [46]) p_digits)) (popt p_exp)))).
  assert (Q : P (sgn sg ++ ip ++ fptu fp ++ extu ex ++ tail) =
              Some (Ok (if sg then Some tt else None, (nrm ip, (fpn fp, match ex with Some (e, s, d) => Some (ext (Some (s, nrm d)), true) | None => None end))), tail)).
  { eapply pand_ok; [exact S1|]. eapply pand_ok; [exact I1|]. eapply pand_ok; [exact F|exact E]. }
  unfold p_decimal. fold P. unfold pact. rewrite Q.
  destruct (nrm_hd ip Hip) as [c [r En]]. unfold mantn, mant. rewrite En.
  destruct sg; destruct fp as [d|]; destruct ex as [[[e s] d2]|]; reflexivity.
Qed.

Definition ntoku_ok sg ip fp ex u := udigs ip /\ fpu_ok fp /\ exu_ok ex /\ u_ok u /\ (sg = true \/ sg = false).
Definition nvalu (sg : bool) ip fp ex u : hval := VNum NkFin (mantn sg ip fp ex) (mantn sg ip fp ex) u.

Lemma consts_none_u sg ip fp ex tail : udigs ip ->
  por [ pmap (fun _ => VNum NkInf [] [] None) (plit [73; 78; 70]);
        pmap (fun _ => VNum NkNegInf [] [] None) (plit [45; 73; 78; 70]);
        pmap (fun _ => VNum NkNaN [] [] None) (plit [78; 97; 78]) ] (mantu sg ip fp ex ++ tail) = None.
Proof.
  intro Hip. destruct (udigs_hd ip Hip) as [c [r [Ei Hc]]]. subst ip.
  unfold mantu. destruct sg; cbn [sgn List.app]; dcases Hc; reflexivity.
Qed.

Lemma p_number_tok_u sg ip fp ex u rest : ntoku_ok sg ip fp ex u -> delim rest ->
  p_number (mantu sg ip fp ex ++ upt u ++ rest) = Some (Ok (nvalu sg ip fp ex u), rest).
Proof.
  intros [Hip [Hfp [Hex [Hu _]]]] Hd. unfold p_number.
  change (s_ "INF") with [73; 78; 70]. change (s_ "-INF") with [45; 73; 78; 70]. change (s_ "NaN") with [78; 97; 78].
  pose proof (consts_none_u sg ip fp ex (upt u ++ rest) Hip) as C.
  destruct u as [u|]; cbn [upt u_ok] in *.
  - pose proof (p_decimal_tok_u sg ip fp ex (u ++ rest) Hip Hfp Hex (unit_numstop u rest Hu)) as D.
    pose proof (p_unit_run u rest Hu Hd) as U.
    unfold por at 1. erewrite por_pick_start.
    2:{ apply pmap_ok. eapply pand_ok; [exact D|exact U]. }
    erewrite por_pick_keep.
    2:{ apply pmap_ok. exact D. }
    2:{ rewrite app_length. lia. }
    rewrite por_pick_skip by exact C. reflexivity.
  - cbn [List.app] in *. pose proof (p_decimal_tok_u sg ip fp ex rest Hip Hfp Hex (delim_numstop rest Hd)) as D.
    unfold por at 1. rewrite por_pick_skip.
    2:{ unfold pmap, pand. rewrite D, (p_unit_none rest Hd). reflexivity. }
    erewrite por_pick_start.
    2:{ apply pmap_ok. exact D. }
    rewrite por_pick_skip by exact C. reflexivity.
Qed.

(* the leading digits of a run *)
Lemma udigs_split : forall r, Forall (fun x => is_digit_us x = true) r ->
  exists d0 r', r = (d0 ++ r')%list /\ Forall (fun c => is_ascii_digit c = true) d0 /\ (r' = [] \/ exists r'', r' = 95 :: r'').
Proof.
  induction r as [|x r IH]; intro H.
  - exists [], []. repeat split; [constructor|left; reflexivity].
  - inversion H as [|? ? Hx Hr]; subst. destruct (IH Hr) as [d0 [r' [E [Hd Hr']]]].
    unfold is_digit_us in Hx. destruct (is_ascii_digit x) eqn:Ex.
    + exists (x :: d0), r'. split; [cbn [List.app]; rewrite E; reflexivity|]. split; [constructor; assumption|exact Hr'].
    + cbn [orb] in Hx. apply N.eqb_eq in Hx. subst x. exists [], (95 :: r). split; [reflexivity|]. split; [constructor|right; eexists; reflexivity].
Qed.

Lemma tail_sepch_u fp ex u rest : fpu_ok fp -> exu_ok ex -> u_ok u -> delim rest -> sepch (fptu fp ++ extu ex ++ upt u ++ rest).
Proof.
  intros Hfp Hex Hu Hd. destruct fp as [d|]; cbn [fptu List.app]; [cbn [sepch]; split; [reflexivity|split; discriminate]|].
  destruct ex as [[[e s] d]|]; cbn [extu List.app exu_ok] in *.
  - destruct Hex as [[He|He] _]; subst e; cbn [sepch]; (split; [reflexivity|split; discriminate]).
  - exact (tail_sepch None None u rest I I Hu Hd).
Qed.

Lemma number_no_date_u sg ip fp ex u rest : ntoku_ok sg ip fp ex u -> delim rest ->
  let t := (mantu sg ip fp ex ++ upt u ++ rest)%list in p_datetime t = None /\ p_date t = None /\ p_time t = None.
Proof.
  intros [Hip [Hfp [Hex [Hu _]]]] Hd t. subst t. unfold mantu. rewrite <- !app_assoc.
  destruct sg; cbn [sgn List.app]; [apply date_letters; reflexivity|].
  destruct ip as [|c r]; [contradiction|]. destruct Hip as [Hc Hr].
  destruct (udigs_split r Hr) as [d0 [r' [E [Hd0 Hr']]]]. subst r.
  set (tail := (r' ++ fptu fp ++ extu ex ++ upt u ++ rest)%list).
  assert (TS : sepch tail).
  { unfold tail. destruct Hr' as [E|[r'' E]]; subst r'; cbn [List.app]; [apply tail_sepch_u; assumption|].
    cbn [sepch]. split; [reflexivity|split; discriminate]. }
  assert (TX : ((c :: d0 ++ r') ++ fptu fp ++ extu ex ++ upt u ++ rest)%list = ((c :: d0) ++ tail)%list).
  { unfold tail. cbn [List.app]. rewrite <- !app_assoc. reflexivity. }
  rewrite TX.
  destruct (digits_no_date (c :: d0) tail ltac:(discriminate) ltac:(constructor; assumption) TS) as [Hd1 Ht1].
  repeat split.
  - unfold p_datetime, p_iso_datetime, pmap, pact, pand. rewrite Hd1. reflexivity.
  - unfold p_date, pact. rewrite Hd1. reflexivity.
  - unfold p_time, pact. rewrite Ht1. reflexivity.
Qed.

Lemma us_not40 d : Forall (fun x => is_digit_us x = true) d -> Forall (fun c => c <> 40) d.
Proof. intro H. eapply Forall_impl; [|exact H]. intros c Hc E. subst. discriminate. Qed.

Lemma number_no_xstr_u sg ip fp ex u rest : ntoku_ok sg ip fp ex u -> delim rest ->
  p_xstr (mantu sg ip fp ex ++ upt u ++ rest) = None.
Proof.
  intros [Hip [Hfp [Hex [Hu _]]]] Hd. rewrite app_assoc. apply p_xstr_none.
  - unfold mantu. repeat (apply Forall_app; split).
    + destruct sg; cbn [sgn]; repeat constructor. discriminate.
    + apply us_not40. exact (proj2 (udigs_us ip Hip)).
    + destruct fp as [d|]; cbn [fptu fpu_ok] in *; [|constructor]. constructor; [discriminate|]. apply us_not40. exact (proj2 (udigs_us d Hfp)).
    + destruct ex as [[[e s] d]|]; cbn [extu exu_ok] in *; [|constructor]. destruct Hex as [He [Hs Hd2]]. constructor; [destruct He; subst; discriminate|].
      apply Forall_app. split; [|apply us_not40; exact (proj2 (udigs_us d Hd2))].
      destruct Hs as [E|[E|E]]; subst; repeat constructor; discriminate.
    + destruct u as [u|]; cbn [upt u_ok] in *; [|constructor]. destruct Hu as [_ [Hall2 _]].
      eapply Forall_impl; [|exact Hall2]. cbn beta. intros c [Hc _] E. subst. discriminate.
  - apply delim_hd in Hd. destruct rest as [|c r]; [exact I|]. dl Hd; split; try reflexivity; discriminate.
Qed.

Theorem scalar_number_u f v3 sg ip fp ex u rest : ntoku_ok sg ip fp ex u -> delim rest ->
  p_scalar (S f) v3 (mantu sg ip fp ex ++ upt u ++ rest) = Some (Ok (nvalu sg ip fp ex u), rest).
Proof.
  intros Hok Hd.
  pose proof (p_number_tok_u sg ip fp ex u rest Hok Hd) as N.
  destruct (number_no_date_u sg ip fp ex u rest Hok Hd) as [D1 [D2 D3]].
  pose proof (number_no_xstr_u sg ip fp ex u rest Hok Hd) as X.
  destruct Hok as [Hip _]. destruct (udigs_hd ip Hip) as [c [ip' [Ei Hc]]]. subst ip.
  revert N D1 D2 D3 X. unfold nvalu, mantu.
  set (tl := (ip' ++ fptu fp ++ extu ex)%list).
  assert (E : forall s0, (sgn s0 ++ (c :: ip') ++ fptu fp ++ extu ex)%list = (sgn s0 ++ c :: tl)%list) by (intro s0; reflexivity).
  rewrite !E. clear E. set (V := mantn sg (c :: ip') fp ex). clearbody V.
  destruct sg; cbn [sgn List.app]; [|dcases Hc]; intros N D1 D2 D3 X; cbn [p_scalar]; destruct v3; cbv zeta; unfold scalars_2_0, por.
  all: try (rewrite por_pick_skip by reflexivity; rewrite por_pick_skip by exact X; do 3 rewrite por_pick_skip by reflexivity;
            rewrite por_pick_skip by exact D1; rewrite por_pick_skip by exact D2; rewrite por_pick_skip by exact D3;
            rewrite por_pick_skip by reflexivity;
            apply por_pick_take; [exact N|]; repeat (apply Forall_cons; [reflexivity|]); apply Forall_nil).
  all: (do 4 rewrite por_pick_skip by reflexivity;
        rewrite por_pick_skip by exact D1; rewrite por_pick_skip by exact D2; rewrite por_pick_skip by exact D3;
        rewrite por_pick_skip by reflexivity;
        apply por_pick_take; [exact N|]; repeat (apply Forall_cons; [reflexivity|]); apply Forall_nil).
Qed.
