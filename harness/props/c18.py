"""C18 - version numbers: total order consistent with == and hash; nearest().

Theorems: coq/theories/Props/C18.v (Model/Version.v).
Tie: Gen/VersionData.v regenerated from hszinc/version.py + this correspondence
(model vs hszinc.version.Version on the same strings), and the property itself
evaluated on the implementation."""
import itertools
import random
import warnings

from common import Sym

COMPONENTS = ['version']


def domain(rng, tier):
    groups = ['0', '1', '2', '3', '10', '02']
    suffixes = [None, 'a', 'b', ' ', '-rc1', 'A']
    core = []
    for n in (1, 2, 3):
        for g in itertools.product(groups, repeat=n):
            for sfx in suffixes:
                core.append('.'.join(g) + (sfx or ''))
    odd = ['2.', '2..1', '2.0.', '3.0a\nb', '3.0\n', '3.0\nx\ny', '2.0 ', '2.0a1', '2.0a.1',
           '٣.٠', '2.١', '\U0001d7d0.0', '2.0٣', '2.0é', '2.0\U0001f600', '4.0', '2.5', '3.0.0',
           '1.0', '00', '0.0.0.0', '2.0.0.0.1', '9' * 30, '2.0-', '2.0+', '2.0~', '3', '3.', '3.0.1', '2.9.9']
    must = ['2', '2.0', '2.0.0', '2.0a', '2.0b', '2.0.1', '10.0', '3.0', '2.5', '1.0', '4.0']
    if tier == 'thorough':
        pick = core
    else:
        pick = rng.sample(core, 220)
    # a few random ones
    rnd = []
    for _ in range(60 if tier == 'quick' else 300):
        n = rng.randint(1, 5)
        s = '.'.join(str(rng.choice([0, 1, 2, 3, 7, 10, 255, 2 ** 40])) for _ in range(n))
        if rng.random() < 0.5:
            s += rng.choice(['a', 'b', 'rc', '-', ' x', '\n', 'Z', 'é', '~1'])
        rnd.append(s)
    out = []
    seen = set()
    for s in must + odd + pick + rnd:
        if s not in seen:
            seen.add(s)
            out.append(s)
    bad = ['', 'a', '.1', ' 2', 'v2', '-1', '\n2', '²']
    return out, bad


def impl_cmp(V, a, b):
    return a._cmp(b)


def run(ctx):
    from hszinc.version import Version as V, OFFICIAL_VERSIONS
    warnings.simplefilter('ignore')
    rng = random.Random(ctx.seed)
    tier = 'thorough' if (ctx.tier == 'thorough' or ctx.escalate) else 'quick'
    strs, bad = domain(rng, tier)
    cov = ctx.coverage
    cov['rule'] = ('version strings: <=3 groups over {0,1,2,3,10,02} x suffixes {None,a,b,space,-rc1,A} '
                   '(exhaustive in thorough, seeded sample in quick) + odd spellings (trailing dots, newlines, '
                   'Unicode digits, long numbers) + random; all ordered pairs, triples on a subset; '
                   'a pair is non-trivial when its two strings differ')
    # ---------------- correspondence: parsing, printing, hash key, nearest
    info = ctx.model.ask([[Sym('ver-info'), s] for s in strs + bad])
    objs = {}
    for s, m in zip(strs + bad, info):
        try:
            v = V(s)
            impl = ['ok', [list(v.version_nums), ['some', v.version_extra] if v.version_extra is not None else 'none'],
                    str(v)]
            objs[s] = v
        except ValueError:
            impl = ['raise', 'ValueError']
        ctx.coverage['evaluations'] += 1
        if m[0] == 'raise':
            mm = ['raise', m[1]]
        else:
            mm = ['ok', m[1][0], m[1][1]]
        if mm != impl:
            ctx.violation('correspondence-broken', 'Version(%r): model %r, implementation %r' % (s, mm, impl),
                          {'component': 'Version.__init__/__str__', 'input': s, 'model': mm, 'impl': impl,
                           'python': 'from hszinc.version import Version; v=Version(%r); print(v.version_nums, v.version_extra, str(v))' % s})
            return _impl_only(ctx, strs)
        ctx.count('parse:' + impl[0])
    for s in bad:
        if s in objs:
            pass
    good = [s for s in strs if s in objs]
    ctx.sample({'version_strings': good[:8]})
    # nearest
    offs = sorted(OFFICIAL_VERSIONS)
    near = {}
    for s, m in zip(strs, info):
        if s not in objs:
            continue
        r = V.nearest(objs[s])
        near[s] = r
        mr = m[1][3]
        if mr[0] != 'ok' or [list(r.version_nums), ['some', r.version_extra] if r.version_extra is not None else 'none'] != mr[1]:
            ctx.violation('correspondence-broken', 'nearest(%r): model %r, implementation %s' % (s, mr, r),
                          {'component': 'Version.nearest', 'input': s, 'model': mr, 'impl': str(r)})
            return _impl_only(ctx, strs)
        # property: official, exact
        if not any(o == r for o in offs):
            ctx.violation('impl-counterexample', 'nearest(%r) = %s is not an official version' % (s, r),
                          {'input': s, 'python': 'from hszinc.version import Version; print(Version.nearest(%r))' % s})
        if any(o == objs[s] for o in offs) and not (r == objs[s]):
            ctx.violation('impl-counterexample', 'nearest(%r) = %s although an equal official version exists' % (s, r),
                          {'input': s, 'python': 'from hszinc.version import Version; print(Version.nearest(%r))' % s})
    # ---------------- correspondence + property on all ordered pairs
    mat = ctx.model.ask([[Sym('ver-matrix')] + good])[0]
    n = len(good)
    vs = [objs[s] for s in good]
    hs = [hash(v) for v in vs]
    nontriv = 0
    for i in range(n):
        a = vs[i]
        row = mat[i]
        for j in range(n):
            b = vs[j]
            c = a._cmp(b)
            lt, le, eq, ne, ge, gt = a < b, a <= b, a == b, a != b, a >= b, a > b
            heq = hs[i] == hs[j]
            code = row[j]
            mc, mh = (code - (code % 2)) // 2, bool(code % 2)
            ctx.coverage['evaluations'] += 1
            if i != j:
                nontriv += 1
            if mc != c or mh != heq:
                ctx.violation('correspondence-broken',
                              'cmp/hash of (%r, %r): model cmp=%d hash-equal=%s, implementation cmp=%d hash-equal=%s'
                              % (good[i], good[j], mc, mh, c, heq),
                              {'component': 'Version._cmp/__hash__', 'a': good[i], 'b': good[j],
                               'python': 'from hszinc.version import Version as V; a,b=V(%r),V(%r); print(a._cmp(b), hash(a)==hash(b))' % (good[i], good[j])})
                return _search_only(ctx, good, vs, hs, near)
            problem = None
            if (lt, eq, gt).count(True) != 1:
                problem = 'not exactly one of <,==,> : %s' % ((lt, eq, gt),)
            elif le != (lt or eq) or ge != (gt or eq) or ne != (not eq):
                problem = 'operators disagree: lt,le,eq,ne,ge,gt=%s' % ((lt, le, eq, ne, ge, gt),)
            elif eq and not heq:
                problem = 'equal versions hash differently'
            elif lt != (b > a) or le != (b >= a) or eq != (b == a):
                problem = 'operand order: a<b is %s but b>a is %s' % (lt, b > a)
            if problem:
                ctx.violation('impl-counterexample', '%r vs %r: %s' % (good[i], good[j], problem),
                              {'a': good[i], 'b': good[j],
                               'python': 'from hszinc.version import Version as V; a,b=V(%r),V(%r); print(a<b,a<=b,a==b,a!=b,a>=b,a>b,hash(a)==hash(b))' % (good[i], good[j])})
                if len(ctx.violations) > 5:
                    return
    ctx.coverage['distinct_nontrivial'] = nontriv
    ctx.coverage['traces_validated_against_impl'] = n * n + len(strs) + len(bad)
    ctx.coverage['exhaustive'] = (tier == 'thorough')
    _strings_and_triples(ctx, rng, good, vs, near, tier)


def _impl_only(ctx, strs):
    """correspondence is broken: decide the property on the implementation alone"""
    from hszinc.version import Version as V
    good, vs = [], []
    for s in strs:
        try:
            vs.append(V(s))
            good.append(s)
        except ValueError:
            pass
    hs = [hash(v) for v in vs]
    near = {s: V.nearest(v) for s, v in zip(good, vs)}
    from hszinc.version import OFFICIAL_VERSIONS
    offs = list(OFFICIAL_VERSIONS)
    for s, v in zip(good, vs):
        r = near[s]
        if not any(o == r for o in offs):
            ctx.violation('impl-counterexample', 'nearest(%r) = %s is not an official version' % (s, r), {'input': s})
            return
        if any(o == v for o in offs) and not (r == v):
            ctx.violation('impl-counterexample', 'nearest(%r) = %s although an equal official version exists' % (s, r), {'input': s})
            return
    _search_only(ctx, good, vs, hs, near)


def _search_only(ctx, good, vs, hs, near):
    """the model no longer corresponds: look for a failing input on the implementation alone"""
    n = len(good)
    for i in range(n):
        a = vs[i]
        for j in range(n):
            b = vs[j]
            lt, le, eq, ne, ge, gt = a < b, a <= b, a == b, a != b, a >= b, a > b
            problem = None
            if (lt, eq, gt).count(True) != 1:
                problem = 'not exactly one of <,==,>'
            elif le != (lt or eq) or ge != (gt or eq) or ne != (not eq):
                problem = 'operators disagree'
            elif eq and hs[i] != hs[j]:
                problem = 'equal versions hash differently'
            elif lt != (b > a) or eq != (b == a):
                problem = 'operand order'
            if problem:
                ctx.violation('impl-counterexample', '%r vs %r: %s' % (good[i], good[j], problem),
                              {'a': good[i], 'b': good[j],
                               'python': 'from hszinc.version import Version as V; a,b=V(%r),V(%r); print(a<b,a<=b,a==b,a!=b,a>=b,a>b,hash(a)==hash(b))' % (good[i], good[j])})
                return
    _strings_and_triples(ctx, __import__('random').Random(ctx.seed), good, vs, near, 'thorough')


def _strings_and_triples(ctx, rng, good, vs, near, tier):
    import operator
    ops = [operator.lt, operator.le, operator.eq, operator.ne, operator.ge, operator.gt]
    # strings compare like the versions they spell, both operand orders
    k = len(good) if tier == 'thorough' else min(len(good), 120)
    idx = list(range(len(good)))
    sub = idx[:40] + rng.sample(idx, min(k, len(idx)))
    for i in sub:
        for j in sub[:60]:
            for op in ops:
                ref = op(vs[i], vs[j])
                ctx.coverage['evaluations'] += 2
                if op(vs[i], good[j]) != ref or op(good[i], vs[j]) != ref:
                    ctx.violation('impl-counterexample',
                                  'string operand compares differently from the version it spells: %r %s %r'
                                  % (good[i], op.__name__, good[j]),
                                  {'a': good[i], 'b': good[j], 'op': op.__name__,
                                   'python': 'import operator; from hszinc.version import Version as V; print(operator.%s(V(%r), %r), operator.%s(%r, V(%r)), operator.%s(V(%r), V(%r)))'
                                             % (op.__name__, good[i], good[j], op.__name__, good[i], good[j], op.__name__, good[i], good[j])})
                    return
    # transitivity on triples
    t = idx[:25] + rng.sample(idx, min(35 if tier == 'quick' else 90, len(idx)))
    for i in t:
        for j in t:
            if not (vs[i] <= vs[j]):
                continue
            for kk in t:
                ctx.coverage['evaluations'] += 1
                if vs[j] <= vs[kk] and not (vs[i] <= vs[kk]):
                    ctx.violation('impl-counterexample', 'not transitive: %r <= %r <= %r' % (good[i], good[j], good[kk]),
                                  {'a': good[i], 'b': good[j], 'c': good[kk],
                                   'python': 'from hszinc.version import Version as V; a,b,c=V(%r),V(%r),V(%r); print(a<=b, b<=c, a<=c)' % (good[i], good[j], good[kk])})
                    return
                if vs[j] < vs[kk] and not (vs[i] < vs[kk]):
                    ctx.violation('impl-counterexample', 'not transitive: %r <= %r < %r' % (good[i], good[j], good[kk]),
                                  {'a': good[i], 'b': good[j], 'c': good[kk]})
                    return
    # the documented chain
    from hszinc.version import Version as V
    chain = ['2', '2.0', '2.0.0', '2.0a', '2.0b', '2.0.1', '10.0']
    c = [V(s) for s in chain]
    ok = c[0] == c[1] == c[2] and c[2] < c[3] < c[4] < c[5] < c[6] and hash(c[0]) == hash(c[1]) == hash(c[2])
    if not ok:
        ctx.violation('impl-counterexample', 'padding chain 2 == 2.0 == 2.0.0 < 2.0a < 2.0b < 2.0.1 < 10.0 fails',
                      {'chain': chain})
    # nearest is monotone
    order = sorted(range(len(good)), key=lambda i: vs[i])
    for x, y in zip(order, order[1:]):
        ctx.coverage['evaluations'] += 1
        if not (near[good[x]] <= near[good[y]]):
            ctx.violation('impl-counterexample', 'nearest not monotone: %r <= %r but nearest %s > %s'
                          % (good[x], good[y], near[good[x]], near[good[y]]),
                          {'a': good[x], 'b': good[y],
                           'python': 'from hszinc.version import Version as V; print(V.nearest(%r), V.nearest(%r))' % (good[x], good[y])})
            return


def replay(ctx, data):
    from hszinc.version import Version as V
    warnings.simplefilter('ignore')
    if 'python' in data:
        print('replay snippet:', data['python'])
    strs = [data[k] for k in ('a', 'b', 'c', 'input') if k in data]
    vs = [V(s) for s in strs]
    hs = [hash(v) for v in vs]
    near = {s: V.nearest(v) for s, v in zip(strs, vs)}
    ctx.coverage['evaluations'] = len(strs)
    _search_only(ctx, strs, vs, hs, near)
