(* Proofs about Model/TZ.v. *)
From Coq Require Import List NArith ZArith Bool Lia.
From HS Require Import Base.Prelude Gen.TzData Model.TZ.
From HS Require Import Proofs.PreludeP.
Import ListNotations.
Open Scope N_scope.

Lemma mem_str_In x l : mem_str x l = true <-> In x l.
Proof.
  unfold mem_str. rewrite existsb_exists. split.
  - intros [y [Hy He]]. apply str_eqb_eq in He. subst. exact Hy.
  - intro H. exists x. split; [exact H|apply str_eqb_refl].
Qed.
Lemma remove_str_In x y l : In y (remove_str x l) <-> In y l /\ y <> x.
Proof.
  induction l as [|z l IH]; cbn [remove_str In]; [tauto|].
  destruct (str_eqb_spec x z) as [E|E].
  - subst z. rewrite IH. split; [tauto|]. intros [[H|H] N]; [congruence|tauto].
  - cbn [In]. rewrite IH. split; [intros [H|[H N]]; [subst; split; [tauto|congruence]|tauto]|tauto].
Qed.

Definition keys (m : list (str * str)) := map fst m.
Definition vals (m : list (str * str)) := map snd m.

(* ---- _map_timezones, for ANY haystack list and ANY duplicate-free list of host zones:
        no haystack name is mapped twice, no host zone is used twice ---- *)
Lemma map_go_inv : forall all todo acc,
  NoDup all ->
  NoDup (keys acc) -> (forall k, In k (keys acc) -> ~ In k todo) ->
  NoDup (vals acc) -> (forall z, In z (vals acc) -> ~ In z all) ->
  NoDup (keys (map_go todo all acc)) /\ NoDup (vals (map_go todo all acc)).
Proof.
  assert (Hrev : forall acc, NoDup (keys acc) -> NoDup (vals acc) -> NoDup (keys (rev acc)) /\ NoDup (vals (rev acc))).
  { intros acc Hk Hv. unfold keys, vals. rewrite !map_rev. split; apply NoDup_rev; assumption. }
  induction all as [|full rest IH]; intros todo acc Hall Hk Hkd Hv Hvd; cbn [map_go].
  - apply Hrev; assumption.
  - destruct todo as [|t0 todo0] eqn:Etodo; [apply Hrev; assumption|]. rewrite <- Etodo in *. clear Etodo t0 todo0.
    inversion Hall as [|? ? Hnotin Hrest]; subst.
    assert (Hvd' : forall z, In z (vals acc) -> ~ In z rest) by (intros z Hz Hin; apply (Hvd z Hz); right; exact Hin).
    assert (Hfull : ~ In full (vals acc)) by (intro Hin; apply (Hvd full Hin); left; reflexivity).
    assert (Hadd : forall k, In k todo ->
              NoDup (keys (map_go (remove_str k todo) rest ((k, full) :: acc))) /\
              NoDup (vals (map_go (remove_str k todo) rest ((k, full) :: acc)))).
    { intros k Hin. apply IH; cbn [keys vals map fst snd]; try assumption.
      - constructor; [|exact Hk]. intro Hk'. exact (Hkd k Hk' Hin).
      - intros k' [E|Hk'] Hr; apply remove_str_In in Hr; destruct Hr as [Hr Hne]; [congruence|exact (Hkd k' Hk' Hr)].
      - constructor; assumption.
      - intros z [E|Hz]; [subst; exact Hnotin|apply Hvd'; exact Hz]. }
    destruct (mem_str full todo) eqn:Em.
    + apply Hadd. apply mem_str_In. exact Em.
    + destruct (split_slash full) as [[pre suffix]|]; [|apply IH; assumption].
      destruct (has_slash suffix); [apply IH; assumption|].
      destruct (mem_str suffix todo) eqn:Es; [|apply IH; assumption].
      apply Hadd. apply mem_str_In. exact Es.
Qed.

Theorem map_timezones_injective hay all : NoDup all ->
  NoDup (keys (map_timezones hay all)) /\ NoDup (vals (map_timezones hay all)).
Proof.
  intro H. unfold map_timezones. apply map_go_inv; cbn; try assumption; try constructor; intros ? [].
Qed.

(* ---- lookups in a map with unique keys and unique values are inverse to each other ---- *)
Lemma lookup_In n z m : NoDup (keys m) -> In (n, z) m -> lookup n m = Some z.
Proof.
  induction m as [|[k y] m IH]; cbn [keys map fst In lookup]; [tauto|]. intros Hnd [E|Hin].
  - inversion E; subst. rewrite str_eqb_refl. reflexivity.
  - inversion Hnd; subst. destruct (str_eqb_spec k n) as [E|E].
    + subst. exfalso. apply H1. change n with (fst (n, z)). apply in_map. exact Hin.
    + apply IH; assumption.
Qed.
Lemma rlookup_In n z m : NoDup (vals m) -> In (n, z) m -> rlookup z m = Some n.
Proof.
  induction m as [|[k y] m IH]; cbn [vals map snd In rlookup]; [tauto|]. intros Hnd [E|Hin].
  - inversion E; subst. rewrite str_eqb_refl. reflexivity.
  - inversion Hnd; subst. destruct (str_eqb_spec y z) as [E|E].
    + subst. exfalso. apply H1. change z with (snd (n, z)). apply in_map. exact Hin.
    + apply IH; assumption.
Qed.
Lemma lookup_Some_In n z m : lookup n m = Some z -> In (n, z) m.
Proof.
  induction m as [|[k y] m IH]; cbn [lookup In]; [discriminate|].
  destruct (str_eqb_spec k n) as [E|E]; [intro Q; inversion Q; subst; left; reflexivity|intro H; right; apply IH; exact H].
Qed.
Lemma rlookup_Some_In n z m : rlookup z m = Some n -> In (n, z) m.
Proof.
  induction m as [|[k y] m IH]; cbn [rlookup In]; [discriminate|].
  destruct (str_eqb_spec y z) as [E|E]; [intro Q; inversion Q; subst; left; reflexivity|intro H; right; apply IH; exact H].
Qed.

Section Oracle.
  Variable zoff : str -> Z -> option Z.
  Variable m : list (str * str).
  Hypothesis Hk : NoDup (keys m).
  Hypothesis Hv : NoDup (vals m).

  (* a date-time in a mapped zone, carrying that zone's offset at its instant *)
  Theorem roundtrip n z i o :
    In (n, z) m -> zoff z i = Some o ->
    let d := mkAdt i o (Some z) in
    exists t, write zoff m d = Ok t /\ tname t = Some n /\ read zoff m t = d.
  Proof.
    intros Hin Ho d. subst d. unfold write, tz_name, offset_matches. cbn [zone inst off].
    rewrite (rlookup_In n z m Hv Hin). rewrite Ho, Z.eqb_refl. cbn [bind].
    eexists. split; [reflexivity|]. split; [reflexivity|].
    unfold read. cbn [local toff tname]. rewrite (lookup_In n z m Hk Hin).
    replace (i + o * 1000000 - o * 1000000)%Z with i by lia. rewrite Ho. reflexivity.
  Qed.

  (* ANY tz-aware date-time: the writer names a zone whose offset at that instant is the value's offset
     (or UTC for a zero offset), or raises ValueError; nothing else *)
  Theorem foreign d :
    match tz_name zoff m d with
    | Ok n => (exists z, In (n, z) m /\ zoff z (inst d) = Some (off d)) \/ (n = UTC /\ off d = 0%Z)
    | Raise e => e = ValueError
    end.
  Proof.
    unfold tz_name.
    assert (Hm : forall z, offset_matches zoff z d = true -> zoff z (inst d) = Some (off d)).
    { intro z. unfold offset_matches. destruct (zoff z (inst d)) as [o|]; [|discriminate]. intro H. apply Z.eqb_eq in H. congruence. }
    destruct (zone d) as [z|].
    - destruct (rlookup z m) as [hay|] eqn:Er.
      + destruct (offset_matches zoff z d) eqn:Eo.
        * left. exists z. split; [apply rlookup_Some_In; exact Er|apply Hm; exact Eo].
        * destruct (Z.eqb_spec (off d) 0); [right; split; [reflexivity|assumption]|].
          destruct (find _ m) as [[hay' z']|] eqn:Ef; [|reflexivity].
          apply find_some in Ef. destruct Ef as [Hin Hmm]. left. exists z'. split; [exact Hin|apply Hm; exact Hmm].
      + destruct (Z.eqb_spec (off d) 0); [right; split; [reflexivity|assumption]|].
        destruct (find _ m) as [[hay' z']|] eqn:Ef; [|reflexivity].
        apply find_some in Ef. destruct Ef as [Hin Hmm]. left. exists z'. split; [exact Hin|apply Hm; exact Hmm].
    - destruct (Z.eqb_spec (off d) 0); [right; split; [reflexivity|assumption]|].
      destruct (find _ m) as [[hay' z']|] eqn:Ef; [|reflexivity].
      apply find_some in Ef. destruct Ef as [Hin Hmm]. left. exists z'. split; [exact Hin|apply Hm; exact Hmm].
  Qed.

  (* whatever is written denotes the instant and the offset of the value; reading never moves the instant *)
  Theorem instant_preserved d t : write zoff m d = Ok t ->
    (local t - toff t * 1000000)%Z = inst d /\ toff t = off d /\ inst (read zoff m t) = inst d.
  Proof.
    unfold write. destruct (tz_name zoff m d) as [n|e]; cbn [bind]; [|discriminate]. intro Q; inversion Q; subst. cbn [local toff].
    assert (E : (inst d + off d * 1000000 - off d * 1000000)%Z = inst d) by lia.
    split; [exact E|]. split; [reflexivity|]. unfold read. cbn [local toff tname]. rewrite E.
    destruct (lookup n m) as [z|]; [destruct (zoff z (inst d))|]; reflexivity.
  Qed.

  (* reading back a foreign value: same instant; the offset is the value's whenever the writer succeeded *)
  Theorem foreign_roundtrip d t : write zoff m d = Ok t -> off (read zoff m t) = off d \/ (tname t = Some UTC /\ off d = 0%Z).
  Proof.
    intro H. pose proof (foreign d) as F. unfold write in H. destruct (tz_name zoff m d) as [n|e]; cbn [bind] in H; [|discriminate].
    inversion H; subst. clear H. destruct F as [[z [Hin Hz]]|[Hn Ho]]; [left|right; split; [cbn; congruence|exact Ho]].
    unfold read. cbn [local toff tname]. rewrite (lookup_In n z m Hk Hin).
    replace (inst d + off d * 1000000 - off d * 1000000)%Z with (inst d) by lia. rewrite Hz. reflexivity.
  Qed.
End Oracle.

(* ---- on this host ---- *)
Lemma here_keys_vals : NoDup (keys tz_map) /\ NoDup (vals tz_map).
Proof.
  apply map_timezones_injective.
  (* pytz.all_timezones holds no duplicate: decided by computation *)
  assert (D : forall l, nodup_str l = l -> NoDup l).
  { induction l as [|x l IH]; cbn [nodup_str]; [constructor|]. destruct (mem_str x l) eqn:E.
    - intro H. exfalso. assert (L : (length (nodup_str l) <= length l)%nat).
      { clear. induction l as [|y l IH]; cbn [nodup_str length]; [lia|]. destruct (mem_str y l); cbn [length]; lia. }
      rewrite H in L. cbn [length] in L. lia.
    - intro H. injection H as H1. constructor; [|apply IH; exact H1].
      intro Hin. apply mem_str_In in Hin. congruence. }
  apply D. vm_compute. reflexivity.
Qed.
