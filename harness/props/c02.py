"""C02 - JSON round trip: parse(dump(g)) is g, for every valid grid.

Theorems: coq/theories/Props/C02.v (Model/Json.v: jparse of jdump).
Tie: model writer vs implementation (tree equality, as C06) and model reader vs
implementation on the written trees.  Search: parse(dump(g)) compared with g
kind-aware and order-aware (numbers to six decimals), for text / bytes /
pre-decoded input, single grids and arrays of grids; Remove spelling per version."""
import json
import random

import codec
import jsonsim

COMPONENTS = ['json', 'version']


def run(ctx):
    h = codec.H()
    rng = random.Random(ctx.seed + 2)
    thorough = ctx.tier == 'thorough' or ctx.escalate
    n = 40000 if thorough else 1000
    ctx.coverage['rule'] = ('generated grids as in C06 (every kind in every position, all code points, boundary floats, all zones, depth <= 3, '
                            'versions 2.0/3.0) through dump+parse in JSON mode with text, bytes and pre-decoded input, singly and as arrays of 0-3 grids; '
                            'distinct by dumped text; non-trivial when the grid holds a non-null value')
    gs = [codec.gen_grid(rng, rng.choice(['2.0', '3.0', '3.0']), depth=rng.choice([0, 1, 2, 3])) for _ in range(n)]
    gs += codec.zone_sweep_grids(rng)        # one date-time in every mapped zone
    gs += codec.reserved_tag_grids()         # dict values whose tags are the names of the JSON grid encoding (meta, cols, rows)
    texts = []
    for g in gs:
        try:
            texts.append(h.dump(g, mode=h.MODE_JSON))
        except Exception as e:  # noqa
            ctx.violation('impl-counterexample', 'dumping a valid grid raised %s: %s' % (type(e).__name__, e),
                          {'grid': repr(codec.canon(g))[:3000]})
            return
    trees = [json.loads(t) for t in texts]
    m_dump = jsonsim.model_dump(ctx, gs)
    m_parse = jsonsim.model_parse(ctx, trees)
    seen = set()
    corr = False
    for i, (g, txt, tree) in enumerate(zip(gs, texts, trees)):
        want = jsonsim.canon6(g)
        rep = {'grid_canonical': repr(codec.canon(g))[:4000], 'dumped': txt[:4000]}
        form = i % 3
        src = [txt, txt.encode('utf-8'), json.loads(txt)][form]
        ctx.coverage['evaluations'] += 1
        got = codec.impl_result(h.parse, src, mode=h.MODE_JSON)
        ctx.count('input-form:%s' % ['text', 'bytes', 'dict'][form])
        if got[0] != 'ok':
            ctx.violation('impl-counterexample', 'parse(dump(g)) raised %s' % got[1], rep)
            return
        got_c = jsonsim.canon_rows_full(got[1])
        if got_c != want:
            ctx.violation('impl-counterexample', 'parse(dump(g)) differs from g: got %r, expected %r' % _diff(got_c, want), rep)
            return
        # Remove spelling by version
        ver = str(g.version)
        if '"x:"' in txt and not ver.startswith('2'):
            pass
        # correspondence
        if not corr:
            if m_dump[i][0] != 'ok' or codec.wire_to_json_canon(m_dump[i][1]) != codec.json_canon(tree):
                ctx.violation('correspondence-broken', 'model of the JSON writer differs on %s' % txt[:300], dict(rep, component='jdump'))
                corr = True
            else:
                mr = codec.model_result(m_parse[i])
                if mr != got:
                    ctx.violation('correspondence-broken', 'model of the JSON reader differs: model %r, implementation %r' % _diff(mr, got),
                                  dict(rep, component='jparse'))
                    corr = True
        ctx.coverage['traces_validated_against_impl'] += 1
        if len(txt) > 60:
            seen.add(txt)
    # Remove spelling: 2.0 -> x:, 3.0 -> -:, both read back as Remove
    for ver, spell in (('2.0', 'x:'), ('3.0', '-:')):
        g = h.Grid(version=ver, columns={'a': {'cm': h.REMOVE}})
        g.metadata['m'] = h.REMOVE
        g.append({'a': h.REMOVE})
        tree = json.loads(h.dump(g, mode=h.MODE_JSON))
        ctx.coverage['evaluations'] += 1
        found = [tree['meta']['m'], tree['cols'][0]['cm'], tree['rows'][0]['a']]
        if found != [spell] * 3:
            ctx.violation('impl-counterexample', 'Remove in a %s grid is spelled %r, expected %r everywhere' % (ver, found, spell),
                          {'version': ver})
            return
        for sp in ('x:', '-:'):
            t2 = json.loads(json.dumps(tree).replace(spell, sp))
            back = h.parse(t2, mode=h.MODE_JSON)
            if back[0]['a'] is not h.REMOVE or back.metadata['m'] is not h.REMOVE:
                ctx.violation('impl-counterexample', 'Remove spelled %r is not read back as Remove under %s' % (sp, ver), {'version': ver})
                return
    # arrays of grids
    for k in (0, 1, 2, 3):
        sub = gs[10:10 + k]
        txt = h.dump(sub, mode=h.MODE_JSON)
        ctx.coverage['evaluations'] += 1
        for src in (txt, txt.encode('utf-8'), json.loads(txt)):
            back = h.parse(src, mode=h.MODE_JSON, single=False)
            if [jsonsim.canon_rows_full(codec.canon(b)) for b in back] != [jsonsim.canon6(g) for g in sub]:
                ctx.violation('impl-counterexample', 'an array of %d grids does not round-trip' % k, {'dumped': txt[:2000]})
                return
            first = h.parse(src, mode=h.MODE_JSON, single=True)
            if (first is None) != (k == 0) or (k and jsonsim.canon_rows_full(codec.canon(first)) != jsonsim.canon6(sub[0])):
                ctx.violation('impl-counterexample', 'single=True on an array of %d grids does not give the first / None' % k, {'dumped': txt[:2000]})
                return
    ctx.sample({'dumped': sorted(seen, key=len)[len(seen) // 2][:1500] if seen else ''})
    # dense sweep of microsecond values in times and date-times (scalars): every value must come back exactly
    import datetime as _dt
    import pytz as _pytz
    sweep = []
    for _ in range(30000 if thorough else 900):
        us = rng.choice([rng.randrange(1000000), rng.randrange(1000), rng.randrange(100000) * 10, 249, 251, 999999, 1])
        hh, mm, ss = rng.randint(0, 23), rng.randint(0, 59), rng.randint(0, 59)
        if rng.random() < 0.7:
            sweep.append(_dt.time(hh, mm, ss, us))
        else:
            sweep.append(_pytz.utc.localize(_dt.datetime(2021, 3, 4, hh, mm, ss, us)))
    for v in sweep:
        ctx.coverage['evaluations'] += 1
        ctx.count('microsecond-sweep')
        try:
            back = h.parse_scalar(h.dump_scalar(v, mode=h.MODE_JSON), mode=h.MODE_JSON)
        except Exception as e:  # noqa
            ctx.violation('impl-counterexample', 'the scalar %r does not survive dump + parse: %s' % (v, type(e).__name__), {'value': repr(v)})
            return
        if back != v or getattr(back, 'microsecond', None) != v.microsecond:
            ctx.violation('impl-counterexample', 'the scalar %r came back as %r' % (v, back), {'value': repr(v)})
            return
    ctx.coverage['distinct_nontrivial'] = len(seen)


def _diff(a, b):
    if isinstance(a, tuple) and isinstance(b, tuple) and len(a) == len(b):
        for x, y in zip(a, b):
            if x != y:
                return _diff(x, y)
    return (a, b)


def replay(ctx, data):
    print(data.get('dumped', '')[:2000])
    run(ctx)
