"""C05 - JSON reader decodes every well-formed Haystack-JSON grid correctly.

Theorems: coq/theories/Props/C05.v (Model/Json.v jparse: the cascade of
parse_embedded_scalar with one matcher per regex).
Tie: model reader vs implementation on documents written by an independent
grammar-directed writer (value x independently chosen legal spelling), plus a
malformed / odd-spelling stream.  Search: the implementation's result against
the value each document denotes; the caller's pre-decoded object is never
modified (deep snapshot) - checked on the implementation only, it cannot be
stated about a functional model."""
import copy
import datetime
import json
import random

import codec
import jsonsim
from codec import fbits

COMPONENTS = ['json', 'version']


def spell_number(rng, x, unit):
    """a legal spelling of the finite number x and the float it denotes"""
    style = rng.choice(['f', 'r', 'e', 'E', 'int', 'raw'])
    if style == 'raw' and unit is None:
        v = rng.choice([int(x) if abs(x) < 1e15 else x, float(x)])
        return v, float(v), None
    if style == 'int' and abs(x) < 1e15:
        txt = '%d' % int(x)
    elif style == 'r':
        txt = repr(float(x))
        if 'inf' in txt or 'nan' in txt:
            txt = '0'
    elif style == 'e':
        txt = '%.6e' % x
    elif style == 'E':
        txt = ('%.3E' % x).replace('E+', 'E')       # exponent without sign is legal too
    else:
        txt = '%f' % x
    s = 'n:' + txt + ((' ' + unit) if unit else '')
    return s, float(txt), unit


def spell_value(rng, pre3, depth):
    """(json encoding, canonical form it denotes)"""
    kinds = ['null', 'marker', 'remove', 'bool', 'num', 'qty', 'nonfinite', 'str', 'barestr', 'uri', 'bin', 'ref', 'refdis',
             'date', 'time', 'datetime', 'coord']
    if not pre3:
        kinds += ['na', 'xstr', 'xhex', 'list', 'dict', 'grid'] if depth > 0 else ['na', 'xstr', 'xhex']
    k = rng.choice(kinds)
    if k == 'null':
        return None, ('null',)
    if k == 'marker':
        return 'm:', ('marker',)
    if k == 'na':
        return 'z:', ('na',)
    if k == 'remove':
        return rng.choice(['x:', '-:']), ('remove',)
    if k == 'bool':
        b = rng.random() < 0.5
        return b, ('bool', b)
    if k == 'num':
        j, x, _ = spell_number(rng, codec.gen_number(rng, allow_nonfinite=False), None)
        return j, ('num', fbits(x), None)
    if k == 'qty':
        unit = rng.choice(codec.UNITS + ['a b', 'x\ny'])
        j, x, u = spell_number(rng, codec.gen_number(rng, allow_nonfinite=False), unit)
        return j, ('num', fbits(x), unit)
    if k == 'nonfinite':
        s, x = rng.choice([('n:INF', float('inf')), ('n:-INF', float('-inf')), ('n:NaN', float('nan'))])
        return s, ('num', fbits(x), None)
    if k == 'str':
        t = codec.gen_text(rng)
        return 's:' + t, ('str', t)
    if k == 'barestr':
        t = rng.choice(['hello', 'a', '', 'no prefix here', 'x', 'Ünïcode', '12', 'true', 'ab:cd', '[1]', '{"a":1}', '"q"', ' n:1'])
        return t, ('str', t)
    if k == 'uri':
        t = codec.gen_text(rng)
        return 'u:' + t, ('uri', t)
    if k == 'bin':
        t = rng.choice(['text/plain', '', 'a\nb', 'x:y'])
        return 'b:' + t, ('bin', t)
    if k == 'ref':
        n = rng.choice(['a', 'site-1', 'p:demo:r:1e85', 'A.b~c_d'])
        return 'r:' + n, ('ref', n, None)
    if k == 'refdis':
        n = rng.choice(['a', 'site-1', 'x:y'])
        d = codec.gen_text(rng)
        return 'r:%s %s' % (n, d), ('ref', n, d)
    if k == 'date':
        d = datetime.date(rng.randint(1, 9999), rng.randint(1, 12), rng.randint(1, 28))
        return 'd:' + d.isoformat(), ('date', d.year, d.month, d.day)
    if k == 'time':
        hh, mm = rng.randint(0, 23), rng.randint(0, 59)
        style = rng.choice(['hm', 'hms', 'frac'])
        if style == 'hm':
            return 'h:%02d:%02d' % (hh, mm), ('time', hh, mm, 0, 0, False)
        ss = rng.randint(0, 59)
        if style == 'hms':
            return 'h:%02d:%02d:%02d' % (hh, mm, ss), ('time', hh, mm, ss, 0, False)
        nd = rng.randint(1, 6)
        frac = ''.join(rng.choice('0123456789') for _ in range(nd))
        return 'h:%02d:%02d:%02d.%s' % (hh, mm, ss, frac), ('time', hh, mm, ss, int(frac.ljust(6, '0')), False)
    if k == 'datetime':
        dt = codec.gen_scalar(rng, pre3, kinds=['datetime'])
        from hszinc.zoneinfo import timezone_name
        name = timezone_name(dt)
        off = dt.utcoffset()
        iso = dt.isoformat()
        utc = dt.astimezone(datetime.timezone.utc).isoformat()
        style = rng.choice(['full', 'noname', 'zulu'])
        if style == 'full':
            return 't:%s %s' % (iso, name), ('dt-spec', utc, int(off.total_seconds()), name)
        if style == 'noname':
            if int(off.total_seconds()) % 60:
                return 't:%s %s' % (iso, name), ('dt-spec', utc, int(off.total_seconds()), name)
            return 't:%s' % iso, ('dt-spec', utc, int(off.total_seconds()), None)
        u = dt.astimezone(datetime.timezone.utc).replace(tzinfo=None)
        z = 'Z'
        return 't:%s%s UTC' % (u.isoformat(), z), ('dt-spec', utc, 0, 'UTC')
    if k == 'coord':
        la, lo = round(rng.uniform(-90, 90), rng.choice([0, 2, 6])), round(rng.uniform(-180, 180), rng.choice([0, 2, 6]))
        ta, to = rng.choice(['%f', '%r', '%.2f']) % la, rng.choice(['%f', '%r']) % lo
        if 'e' in ta or 'e' in to:
            ta, to = '%f' % la, '%f' % lo
        return 'c:%s,%s' % (ta, to), ('coord', fbits(float(ta)), fbits(float(to)))
    if k == 'xstr':
        enc = rng.choice(['Foo', 'text', 'a1'])
        t = codec.gen_text(rng)
        return 'x:%s:%s' % (enc, t), ('xstr', enc, ('text', t))
    if k == 'xhex':
        hx = ''.join(rng.choice('0123456789abcdefABCDEF') for _ in range(2 * rng.randint(0, 5)))
        return 'x:hex:' + hx, ('xstr', 'hex', hx.lower())
    if k == 'list':
        items = [spell_value(rng, pre3, depth - 1) for _ in range(rng.choice([0, 1, 2, 3]))]
        return [i[0] for i in items], ('list',) + tuple(i[1] for i in items)
    if k == 'dict':
        d, c = {}, []
        for _ in range(rng.choice([0, 1, 2])):
            n = codec.gen_name(rng)
            if n in d:
                continue
            j, cv = spell_value(rng, pre3, depth - 1)
            d[n] = j
            c.append((n, cv))
        return d, ('dict',) + tuple(c)
    if k == 'grid':
        return spell_grid(rng, '3.0', depth - 1, nested=True)
    raise AssertionError(k)


def spell_grid(rng, ver, depth, nested=False):
    pre3 = ver == '2.0'
    names = []
    while len(names) < rng.choice([1, 2, 3]):
        n = codec.gen_name(rng)
        if n not in names:
            names.append(n)
    meta, cmeta = {}, []
    for _ in range(rng.choice([0, 1, 2])):
        n = codec.gen_name(rng)
        if n in meta or n == 'ver':
            continue
        j, c = spell_value(rng, pre3, depth)
        meta[n] = j
        cmeta.append((n, c))
    jm = dict(meta)
    if rng.random() < 0.5:
        jm = dict([('ver', ver)] + list(meta.items()))     # position of ver is free
    else:
        jm['ver'] = ver
    cols, ccols = [], []
    for n in names:
        cm, cc = {}, []
        for _ in range(rng.choice([0, 0, 1])):
            k = codec.gen_name(rng)
            if k == 'name' or k in cm:
                continue
            j, c = spell_value(rng, pre3, depth)
            cm[k] = j
            cc.append((k, c))
        col = dict(cm)
        if rng.random() < 0.5:
            col = dict([('name', n)] + list(cm.items()))
        else:
            col['name'] = n
        cols.append(col)
        ccols.append((n, tuple(cc)))
    rows, crows = [], []
    for _ in range(rng.choice([0, 1, 2, 3])):
        r, cr = {}, []
        for n in names:
            if rng.random() < 0.75:
                j, c = spell_value(rng, pre3, depth)
                r[n] = j
                cr.append((n, c))
            else:
                cr.append((n, ('null',)))      # a row may omit a column
        rows.append(r)
        crows.append(tuple(cr))
    g = {'meta': jm, 'cols': cols}
    # (a nested object is a grid only when it has all of meta, cols, rows)
    style = rng.choice(['rows', 'rows', 'rows', 'null'] + ([] if nested else ['missing'])) if not rows else 'rows'
    if style == 'rows':
        g['rows'] = rows
    elif style == 'null':
        g['rows'] = None
    return g, ('grid', ver, tuple(cmeta), tuple(ccols), tuple(crows))


ODD = ['n:1:.5', 'n:1e', 'n:1.', 'n:', 'n:1 ', 'n:1\n', 'n:٣', 'n:1e5:e3', 'n:-', 'n:1  kg', 'n:1: kg', 'r:', 'r:a\n', 'r:a!b', 'r:a b\nc',
       'd:2020-13-01', 'd:2020-02-30', 'd:2020-01-01\nX', 'd:0000-01-01', 'h:24:00', 'h:12:30::45', 'h:12:30:45:.5', 'h:12:60:00', 'h:1:2',
       'h:12:30:45.1234567', 't:2020-01-01T00:00Z', 't:2020-01-01T00:00:00', 't:2020-01-01T00:00:00Z Nowhere', 't:2020-01-01T00:00:00:Z UTC',
       't:2020-01-01T00:00:00+1 X', 't:2020-01-01T00:00:00+01:00: Paris', 't:2020-01-01T25:00:00Z UTC', 't:2020-01-01T00:00:00Z\nfoo',
       'c:,', 'c:1,', 'c:.,.', 'c:-,-', 'c:1.5,2.5\nx', 'c:1,2,3', 'x:hex', 'x:hex:zz', 'x:b64:!!!', 'x:a:b:c', 'm:x', 'z:z', '-:-', 'q:1', ':',
       's:', 'u:', 'b:', 'n:INF kg', 'n:inf', 'n:1e400', 'n:0x10', 'h:12:30:45.', 'd:２０２０-01-01']


def run(ctx):
    h = codec.H()
    rng = random.Random(ctx.seed + 5)
    thorough = ctx.tier == 'thorough' or ctx.escalate
    n = 50000 if thorough else 1500
    ctx.coverage['rule'] = ('documents written by an independent writer: every value kind x an independently chosen legal spelling (numbers: fixed / repr / '
                            'exponent forms / raw JSON numbers, with and without unit; INF/-INF/NaN; raw booleans; both Remove spellings; times h:mm, '
                            'h:mm:ss, fractions of 1-6 digits; date-times with Z/z or offset, with or without zone name, around DST transitions; strings with and '
                            'without s:; nested lists/dicts/grids; rows missing, null, or omitting columns; ver anywhere in meta), given as text, bytes, dict, '
                            'list of dicts; plus %d odd / malformed scalar spellings for the model-implementation tie; distinct by document text' % len(ODD))
    docs = [spell_grid(rng, rng.choice(['2.0', '3.0', '3.0']), rng.choice([0, 1, 2])) for _ in range(n)]
    m_parse = jsonsim.model_parse(ctx, [d[0] for d in docs])
    seen = set()
    corr = False
    for i, ((tree, want), m) in enumerate(zip(docs, m_parse)):
        txt = json.dumps(tree)
        rep = {'document': txt[:4000], 'denotes': repr(want)[:3000]}
        form = i % 4
        snapshot = copy.deepcopy(tree)
        if form == 0:
            src, kw = txt, {}
        elif form == 1:
            src, kw = txt.encode('utf-8'), {}
        elif form == 2:
            src, kw = tree, {}
        else:
            src, kw = [tree], {'single': False}
        ctx.coverage['evaluations'] += 1
        ctx.count('input-form:%s' % ['text', 'bytes', 'dict', 'list-of-dicts'][form])
        got = codec.impl_result(lambda: h.parse(src, mode=h.MODE_JSON, **kw) if form != 3 else h.parse(src, mode=h.MODE_JSON, **kw)[0])
        if tree != snapshot:
            ctx.violation('impl-counterexample', 'parse modified the caller\'s pre-decoded object', rep)
            return
        if got[0] != 'ok':
            ctx.violation('impl-counterexample', 'a well-formed document was rejected with %s' % got[1], rep)
            return
        got_c = jsonsim.dt_to_spec(jsonsim.canon_rows_full(got[1]))
        if got_c != want:
            ctx.violation('impl-counterexample', 'decoded %r, the document denotes %r' % _diff(got_c, want), rep)
            return
        if not corr:
            mr = codec.model_result(m)
            if mr != got:
                ctx.violation('correspondence-broken', 'model of the JSON reader: %r, implementation %r' % _diff(mr, got),
                              dict(rep, component='jparse'))
                corr = True
        ctx.coverage['traces_validated_against_impl'] += 1
        seen.add(txt)
        # pre-decoded nested values handed to parse_scalar: decoded like the same cell of the grid, the caller's object untouched,
        # and a second call gives the same result
        if tree.get('meta', {}).get('ver') == '3.0':
            g = h.parse(txt, mode=h.MODE_JSON)
            for ri, jrow in enumerate(tree.get('rows') or []):
                for col, cell in jrow.items():
                    if not isinstance(cell, (list, dict)):
                        continue
                    ctx.count('parse_scalar:pre-decoded')
                    snap = copy.deepcopy(cell)
                    try:
                        r1 = h.parse_scalar(cell, mode=h.MODE_JSON, version='3.0')
                        r2 = h.parse_scalar(cell, mode=h.MODE_JSON, version='3.0')
                    except Exception as e:  # noqa
                        ctx.violation('impl-counterexample', 'parse_scalar on a pre-decoded %s raised %s' % (type(cell).__name__, type(e).__name__), {'scalar': json.dumps(snap)[:2000]})
                        return
                    if cell != snap:
                        ctx.violation('impl-counterexample', 'parse_scalar modified the caller\'s pre-decoded object', {'scalar': json.dumps(snap)[:2000], 'after': json.dumps(cell)[:500]})
                        return
                    if codec.canon(r1) != codec.canon(r2) or codec.canon(r1) != codec.canon(g[ri].get(col)):
                        ctx.violation('impl-counterexample', 'parse_scalar on a pre-decoded value differs from the same cell read through parse (or from its own second call)',
                                      {'scalar': json.dumps(snap)[:2000]})
                        return
    # odd spellings: model vs implementation only
    for pre3 in (False, True):
        answers = ctx.model.ask([[codec.Sym('jparse'), pre3, codec.json_to_wire(s)] for s in ODD])
        for s, m in zip(ODD, answers):
            ctx.coverage['evaluations'] += 1
            got = codec.impl_result(h.parse_scalar, json.dumps(s), mode=h.MODE_JSON, version='2.0' if pre3 else '3.0')
            mr = codec.model_result(m)
            ctx.count('odd:' + got[0])
            if mr != got and not corr:
                ctx.violation('correspondence-broken', 'scalar %r (pre3=%s): model %r, implementation %r' % (s, pre3, mr, got),
                              {'component': 'jparse_str', 'scalar': s})
                corr = True
    # JSON text handed to parse_scalar (str and bytes) denotes what its decoded form denotes - down to the shortest documents
    # (a str is taken for JSON text when it starts with " [ { and ends with " ] }; anything else is an already decoded string)
    for T in ('[]', '{}', '""', '[1]', '[[]]', '[{}]', '{"a":1}', '{"a":[]}', '"s:x"', '"x"', '"m:"', '[ ]', '{ }', '"n:1"', '"s:"', '["s:"]'):
        for ver in ('3.0', '2.0'):
            for form in ('str', 'bytes'):
                ctx.coverage['evaluations'] += 1
                ctx.count('parse_scalar:json-text')
                data = T if form == 'str' else T.encode('utf-8')
                got = codec.impl_result(h.parse_scalar, data, mode=h.MODE_JSON, version=ver)
                want = codec.impl_result(h.parse_scalar, json.loads(T), mode=h.MODE_JSON, version=ver)
                if got != want:
                    ctx.violation('impl-counterexample', 'parse_scalar(%r as %s, version %s) gives %r, the decoded document gives %r' % (T, form, ver, got, want),
                                  {'scalar_text': T, 'form': form, 'version': ver})
                    return
    # dense sweep of fractional seconds in times and date-times: every digit count, values at which binary floating
    # point would round differently from the decimal digits
    nfrac = 40000 if thorough else 900
    fr = []
    for _ in range(nfrac):
        nd = rng.choice([1, 2, 3, 4, 5, 6, 6, 6, 6])
        fr.append(''.join(rng.choice('0123456789') for _ in range(nd)))
    fr += ['000249', '000251', '999999', '000001', '100000', '5', '25', '125', '0001', '00001']
    scal = []
    for f in fr:
        hh, mm, ss = rng.randint(0, 23), rng.randint(0, 59), rng.randint(0, 59)
        us = int(f.ljust(6, '0'))
        scal.append(('h:%02d:%02d:%02d.%s' % (hh, mm, ss, f), ('time', hh, mm, ss, us, False)))
        if rng.random() < 0.3:
            scal.append(('t:2021-03-04T%02d:%02d:%02d.%sZ UTC' % (hh, mm, ss, f), ('dt-frac', hh, mm, ss, us)))
    answers = ctx.model.ask_parallel([[codec.Sym('jparse'), False, codec.json_to_wire(t)] for t, _ in scal])
    for (t, want), m in zip(scal, answers):
        ctx.coverage['evaluations'] += 1
        ctx.count('fractional-seconds')
        try:
            v = h.parse_scalar(json.dumps(t), mode=h.MODE_JSON)
        except Exception as e:  # noqa
            ctx.violation('impl-counterexample', 'the scalar %r was rejected with %s' % (t, type(e).__name__), {'scalar': t})
            return
        got = ('time', v.hour, v.minute, v.second, v.microsecond, False) if want[0] == 'time' else ('dt-frac', v.hour, v.minute, v.second, v.microsecond)
        if got != want:
            ctx.violation('impl-counterexample', 'the scalar %r was decoded as %r, it denotes %r' % (t, got, want), {'scalar': t})
            return
        if want[0] == 'time' and not corr:
            mr = codec.model_result(m)
            if mr != ('ok', codec.canon(v)):
                ctx.violation('correspondence-broken', 'scalar %r: model %r, implementation %r' % (t, mr, codec.canon(v)), {'component': 'jparse_str', 'scalar': t})
                corr = True
    # one date-time per mapped zone name: every label must be read back as that zone
    import datetime as _dt
    import pytz as _pytz
    from hszinc import zoneinfo as _zi
    for _zn, _olson in _zi.get_tz_map().items():
        _tz = _pytz.timezone(_olson)
        _v = _pytz.utc.localize(_dt.datetime(rng.choice([1999, 2012, 2024]), rng.randint(1, 12), rng.randint(1, 28), rng.randint(2, 21), rng.randint(0, 59), rng.randint(0, 59))).astimezone(_tz)
        _t = 't:%s %s' % (_v.isoformat(), _zn)
        ctx.coverage['evaluations'] += 1
        ctx.count('zone-label-sweep')
        try:
            _b = h.parse_scalar(json.dumps(_t), mode=h.MODE_JSON)
        except Exception as e:  # noqa
            ctx.violation('impl-counterexample', 'the scalar %r was rejected with %s' % (_t, type(e).__name__), {'scalar': _t})
            return
        if _b != _v or _b.utcoffset() != _v.utcoffset() or getattr(_b.tzinfo, 'zone', None) != _olson:
            ctx.violation('impl-counterexample', 'the scalar %r was decoded as %s in zone %s, it denotes %s in %s' % (_t, _b.isoformat(), getattr(_b.tzinfo, 'zone', None), _v.isoformat(), _olson), {'scalar': _t})
            return
    ctx.sample({'document': sorted(seen, key=len)[len(seen) // 2][:1500]})
    ctx.coverage['distinct_nontrivial'] = len(seen) + len(set(t for t, _ in scal))


def _diff(a, b):
    if isinstance(a, tuple) and isinstance(b, tuple) and len(a) == len(b):
        for x, y in zip(a, b):
            if x != y:
                return _diff(x, y)
    return (a, b)


def replay(ctx, data):
    print(data.get('document', '')[:2000])
    run(ctx)
