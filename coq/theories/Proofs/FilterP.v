(* Proofs about Model/Filter.v: the generated code computes the denotation; the row loop is filter + firstn. *)
From Coq Require Import List NArith ZArith Bool Lia.
From HS Require Import Base.Prelude Model.Value Model.Filter.
Import ListNotations.
Open Scope N_scope.

Section Correct.
  Variable cmp : cmpop -> fval -> hval -> bool.
  Variable rows : list frow.
  Variable row : frow.

  (* compiler correctness: the expression generated for e, evaluated with the literal tuple the generator
     built (extended by anything), is the boolean e denotes - for every filter, every row, every grid and
     every comparison oracle *)
  Lemma fgen_correct : forall e consts x c',
    fgen e consts = (x, c') ->
    (exists ext, c' = consts ++ ext)%list /\
    forall tail, eval cmp rows row (c' ++ tail)%list x = PVBool (denote cmp rows row e).
  Proof.
    induction e as [p|p|op p v|a IHa b IHb|a IHa b IHb]; intros consts x c'; cbn [fgen].
    - intro Q; inversion Q; subst. split; [exists []; rewrite app_nil_r; reflexivity|]. intro tail. cbn [eval denote].
      destruct (get_path rows (ORow row) p); reflexivity.
    - intro Q; inversion Q; subst. split; [exists []; rewrite app_nil_r; reflexivity|]. intro tail. cbn [eval denote].
      destruct (get_path rows (ORow row) p); reflexivity.
    - intro Q; inversion Q; subst. split; [exists [v]; reflexivity|]. intro tail. cbn [eval denote].
      rewrite <- app_assoc. rewrite nth_error_app2 by lia. rewrite Nat.sub_diag. cbn [List.app nth_error].
      destruct (get_path rows (ORow row) p); reflexivity.
    - destruct (fgen a consts) as [xa c1] eqn:Ea. destruct (fgen b c1) as [xb c2] eqn:Eb.
      intro Q; inversion Q; subst. destruct (IHa _ _ _ Ea) as [[e1 H1] Ha]. destruct (IHb _ _ _ Eb) as [[e2 H2] Hb].
      split; [exists (e1 ++ e2)%list; rewrite H2, H1, app_assoc; reflexivity|]. intro tail. cbn [eval denote].
      rewrite H2. rewrite <- app_assoc. rewrite Ha. rewrite app_assoc, <- H2. rewrite Hb.
      cbn [truthy]. destruct (denote cmp rows row a); reflexivity.
    - destruct (fgen a consts) as [xa c1] eqn:Ea. destruct (fgen b c1) as [xb c2] eqn:Eb.
      intro Q; inversion Q; subst. destruct (IHa _ _ _ Ea) as [[e1 H1] Ha]. destruct (IHb _ _ _ Eb) as [[e2 H2] Hb].
      split; [exists (e1 ++ e2)%list; rewrite H2, H1, app_assoc; reflexivity|]. intro tail. cbn [eval denote].
      rewrite H2. rewrite <- app_assoc. rewrite Ha. rewrite app_assoc, <- H2. rewrite Hb.
      cbn [truthy]. destruct (denote cmp rows row a); reflexivity.
  Qed.

  Theorem compile_correct e : let '(x, consts) := fgen e [] in
    truthy (eval cmp rows row consts x) = denote cmp rows row e.
  Proof.
    destruct (fgen e []) as [x consts] eqn:E. destruct (fgen_correct e [] x consts E) as [_ H].
    specialize (H []). rewrite app_nil_r in H. rewrite H. reflexivity.
  Qed.
End Correct.

(* the row loop with its early exit: the matching rows, in order, at most `limit` of them *)
Lemma filter_loop_spec {A} (f : A -> bool) (limit : nat) : forall rows taken,
  (limit = 0 \/ taken < limit)%nat ->
  filter_loop f limit taken rows = if Nat.eqb limit 0 then filter f rows else firstn (limit - taken) (filter f rows).
Proof.
  induction rows as [|r rows IH]; intros taken H; cbn [filter_loop filter].
  - destruct (Nat.eqb limit 0); [reflexivity|]. rewrite firstn_nil. reflexivity.
  - destruct (f r) eqn:Ef.
    + destruct (Nat.eqb_spec limit 0) as [E0|E0]; cbn [negb andb].
      * rewrite IH by (left; exact E0). subst. reflexivity.
      * destruct (Nat.eqb_spec (S taken) limit) as [E1|E1].
        -- subst limit. replace (S taken - taken)%nat with 1%nat by lia. cbn [firstn List.app]. reflexivity.
        -- rewrite IH by (right; lia). destruct (Nat.eqb_spec limit 0); [contradiction|].
           replace (limit - taken)%nat with (S (limit - S taken)) by lia. cbn [firstn List.app]. reflexivity.
    + destruct (Nat.eqb_spec limit 0) as [E0|E0]; cbn [negb andb List.app].
      * apply IH. left; exact E0.
      * destruct (Nat.eqb_spec taken limit) as [E1|E1]; [lia|]. apply IH. right. lia.
Qed.

Theorem run_filter_spec {A} (f : A -> bool) (limit : Z) (rows : list A) :
  run_filter (Some f) limit rows = if (limit <=? 0)%Z then filter f rows else firstn (Z.to_nat limit) (filter f rows).
Proof.
  unfold run_filter. rewrite filter_loop_spec.
  - destruct (Z.leb_spec limit 0) as [H|H].
    + replace (Z.to_nat limit) with 0%nat by lia. reflexivity.
    + destruct (Nat.eqb_spec (Z.to_nat limit) 0); [lia|]. rewrite Nat.sub_0_r. reflexivity.
  - destruct (Z.to_nat limit); [left; reflexivity|right; lia].
Qed.

(* ---- _get_path: a null cell, an absent tag and a dangling reference are all "not found" ---- *)
Lemma get_path_absent rows row t p : assoc t row = None -> get_path rows (ORow row) (t :: p) = None.
Proof. intro H. cbn [get_path]. rewrite H. reflexivity. Qed.
Lemma get_path_null rows row t : assoc t row = Some FNull -> get_path rows (ORow row) [t] = None.
Proof. intro H. cbn [get_path]. rewrite H. reflexivity. Qed.
Lemma get_path_dangling rows row t n sf i t' p :
  assoc t row = Some (FRef n sf i) -> follow_ref rows n = None -> get_path rows (ORow row) (t :: t' :: p) = None.
Proof. intros H F. cbn [get_path]. rewrite H, F. reflexivity. Qed.
Lemma get_path_deref rows row t n sf i t' p r :
  assoc t row = Some (FRef n sf i) -> follow_ref rows n = Some r ->
  get_path rows (ORow row) (t :: t' :: p) = get_path rows (ORow r) (t' :: p).
Proof. intros H F. cbn [get_path]. rewrite H, F. reflexivity. Qed.
Lemma get_path_through_scalar rows row t v t' p :
  assoc t row = Some v -> (forall n sf i, v <> FRef n sf i) -> (forall d, v <> FDict d) ->
  get_path rows (ORow row) (t :: t' :: p) = None.
Proof.
  intros H Hr Hd. cbn [get_path]. rewrite H. destruct v as [|s i|n sf i|d|i]; try reflexivity.
  - exfalso. exact (Hr n sf i eq_refl).
  - exfalso. exact (Hd d eq_refl).
Qed.
