"""C04 - the ZINC writer emits spec-conformant text that denotes the grid.

Theorems: coq/theories/Props/C04.v (Model/ZincDump.v, Model/Escape.v).
Tie: exact text equality of the writer model with hszinc.dump(g) on generated
grids.  Search: an independent, spec-derived reader (harness/zincspec.py, shares
no code with hszinc) must accept the text and recover the grid: header, one
column line, one line per row, every cell present, only legal escapes, INF/-INF/NaN."""
import random

import codec
import zincsim
import zincspec

COMPONENTS = ['escape', 'version']


def run(ctx):
    h = codec.H()
    rng = random.Random(ctx.seed + 4)
    thorough = ctx.tier == 'thorough' or ctx.escalate
    n = 40000 if thorough else 1200
    ctx.coverage['rule'] = ('grids generated over the Haystack value domain (every kind in metadata, column metadata, cells, lists, dicts, nested grids; '
                            'all code points in text; boundary floats and non-finite numbers; all mapped zones incl. transition instants; depth <= 3; '
                            'versions 2.0 / 3.0); distinct by dumped text; a grid is non-trivial when it holds a non-null value')
    gs = [codec.gen_grid(rng, rng.choice(['2.0', '3.0', '3.0']), depth=rng.choice([0, 1, 2, 3])) for _ in range(n)]
    gs += codec.zone_sweep_grids(rng)        # one date-time in every mapped zone
    answers = zincsim.model_zdump(ctx, gs)
    seen = set()
    corr = False
    for g, a in zip(gs, answers):
        ctx.coverage['evaluations'] += 1
        try:
            txt = h.dump(g)
        except Exception as e:  # noqa
            ctx.violation('impl-counterexample', 'dumping a valid grid raised %s: %s' % (type(e).__name__, e),
                          {'grid': repr(codec.canon(g))[:3000]})
            return
        rep = {'grid_canonical': repr(codec.canon(g))[:4000], 'dumped': txt[:4000]}
        if not txt.endswith('\n'):
            ctx.violation('impl-counterexample', 'the document does not end with a newline', rep)
            return
        try:
            back = zincspec.read_grid(txt)
        except (zincspec.ZincSpecError, ValueError) as e:
            ctx.violation('impl-counterexample', 'the independent reader rejects the output: %s' % e, rep)
            return
        want = zincsim.expected_z(g)
        if back != want:
            ctx.violation('impl-counterexample', 'the independent reader recovers another grid: %r, expected %r' % _diff(back, want), rep)
            return
        if not corr and a != ['ok', txt]:
            ctx.violation('correspondence-broken', 'model of the ZINC writer differs from the implementation: model %r' % (repr(a)[:400],),
                          dict(rep, component='zdump'))
            corr = True
        ctx.coverage['traces_validated_against_impl'] += 1
        if len(txt) > 30:
            seen.add(txt)
    ctx.sample({'dumped': sorted(seen, key=len)[len(seen) // 2][:1500] if seen else ''})
    ctx.coverage['distinct_nontrivial'] = len(seen)


def _diff(a, b):
    if isinstance(a, tuple) and isinstance(b, tuple) and len(a) == len(b):
        for x, y in zip(a, b):
            if x != y:
                return _diff(x, y)
    return (a, b)


def replay(ctx, data):
    print(data.get('dumped', '')[:2000])
    run(ctx)
