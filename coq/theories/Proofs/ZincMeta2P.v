(* Version 2.0 grids WITH grid and column metadata: the 2.0 scalar alternation, the reader's version gate over metadata,
   column metadata and cells, and the writer under the pre-3.0 rules.  The statements and proofs follow ZincMetaP.v. *)
From Coq Require Import String.
From Coq Require Import List NArith Bool Lia Arith Setoid.
From HS Require Import Base.Prelude Model.Value Model.Escape Model.Version Model.Json Model.ZincParse Model.ZincDump.
From HS Require Import Proofs.PreludeP Proofs.VersionP Proofs.EscapeP Proofs.JsonP Proofs.ZincParseP Proofs.ZincDumpP Proofs.ZincNumP Proofs.ZincDateP Proofs.ZincListP Proofs.ZincGridP Proofs.ZincDictP Proofs.ZincMetaP Proofs.ZincV2P.
Import ListNotations.
Open Scope N_scope.

(* a value text read back by the 2.0 alternation whenever ANY delimiter follows, a blank included *)
Definition readsd2 (g : nat) (v : hval) (t : str) : Prop := forall rest, delim rest -> p_scalar (S g) false (t ++ rest) = Some (Ok v, rest).
Lemma readsd2_reads2 g v t : readsd2 g v t -> reads2 g v t.
Proof. intros H rest Hd. apply H. apply delim_ns_delim. exact Hd. Qed.
Lemma readsd2_hd g v t : readsd2 g v t -> exists c t', t = c :: t' /\ ~ In c [44; 10; 13; 32; 93; 125; 62].
Proof. intro H. exact (reads2_hd g v t (readsd2_reads2 g v t H)). Qed.

Definition mitem_ok2 (g : nat) (p : str * hval * str) : Prop := let '(k, v, t) := p in colname k /\ (v = VMarker \/ readsd2 g v t).

Lemma mitem_reads2 g p rest : mitem_ok2 g p -> mfol rest ->
  g_meta_item (p_scalar (S g) false) (mtext p ++ rest) = Some (Ok (pkv p), rest).
Proof.
  destruct p as [[k v] t]. intros [Hk Hv] Hf. cbn [pkv].
  assert (Mk : forall r0, mfol r0 -> g_meta_item (p_scalar (S g) false) (k ++ r0) = Some (Ok (k, VMarker), r0)).
  { intros r0 Hr0. unfold g_meta_item, por.
    rewrite (por_pick_start _ _ _ _ _ (pmap_ok (fun k0 => (k0, VMarker)) p_id _ k _ (p_id_mfol k r0 Hk Hr0))).
    rewrite por_pick_skip; [reflexivity|]. unfold pand. rewrite (p_id_mfol k r0 Hk Hr0), (colon_none _ r0 Hr0). reflexivity. }
  assert (Pr : readsd2 g v t -> g_meta_item (p_scalar (S g) false) ((k ++ 58 :: t) ++ rest) = Some (Ok (k, v), rest)).
  { intro Hr. rewrite <- app_assoc. cbn [List.app].
    destruct (readsd2_hd g v t Hr) as [c [t' [E Hc]]]. destruct (nosp_hd c Hc) as [Hs _].
    assert (SP : spaces (t ++ rest) = Some (Ok tt, t ++ rest)).
    { subst t. unfold spaces, pmap, pspan. cbn [List.app span]. rewrite Hs. reflexivity. }
    assert (A1 : pmap (fun k0 => (k0, VMarker)) p_id (k ++ 58 :: t ++ rest) = Some (Ok (k, VMarker), 58 :: t ++ rest))
      by exact (pmap_ok (fun k0 => (k0, VMarker)) p_id _ k _ (p_id_colon k _ Hk)).
    assert (A2 : pand p_id (pthen spaces (pthen (plit [58]) (pthen spaces (p_scalar (S g) false)))) (k ++ 58 :: t ++ rest) = Some (Ok (k, v), rest)).
    { eapply pand_ok; [apply p_id_colon; exact Hk|].
      assert (I2 : pthen spaces (p_scalar (S g) false) (t ++ rest) = Some (Ok v, rest)).
      { unfold pthen, pmap, pand. rewrite SP, (Hr rest (mfol_delim rest Hf)). reflexivity. }
      assert (I3 : pthen (plit [58]) (pthen spaces (p_scalar (S g) false)) (58 :: t ++ rest) = Some (Ok v, rest)).
      { unfold pthen at 1. unfold pmap, pand. assert (L0 : plit [58] (58 :: t ++ rest) = Some (Ok tt, t ++ rest)) by reflexivity. rewrite L0, I2. reflexivity. }
      unfold pthen at 1. unfold pmap, pand. assert (S0 : spaces (58 :: t ++ rest) = Some (Ok tt, 58 :: t ++ rest)) by reflexivity. rewrite S0, I3. reflexivity. }
    unfold g_meta_item, por. rewrite (por_pick_start _ _ _ _ _ A1). cbn [por_pick]. rewrite A2.
    assert (L : Nat.ltb (length rest) (length (58 :: t ++ rest)) = true) by (apply Nat.ltb_lt; cbn [length]; rewrite app_length; lia).
    rewrite L. reflexivity. }
  destruct Hv as [E|Hr].
  - subst v. cbn [mtext]. apply Mk. exact Hf.
  - destruct v; try (cbn [mtext]; apply Pr; exact Hr).
    (* a marker that happens to be readable too is still written bare *)
    cbn [mtext]. apply Mk. exact Hf.
Qed.

(* ---------- a blank-separated run of items ---------- *)

Lemma mtext_hd2 g p : mitem_ok2 g p -> exists c r, mtext p = c :: r /\ lower c.
Proof.
  destruct p as [[k v] t]. intros [Hk _]. destruct (colname_hd k Hk) as [c [kr [E [_ Hl]]]]. subst k.
  destruct v; cbn [mtext List.app]; eexists; eexists; (split; [reflexivity|exact Hl]).
Qed.

Lemma mmore_fol2 g ps rest : Forall (mitem_ok2 g) ps -> delim_ns rest -> mfol (mmore ps ++ rest).
Proof.
  intros Hps Hd. destruct ps as [|p ps]; cbn [mmore map concat List.app]; [left; exact Hd|].
  inversion Hps as [|? ? Hp _]; subst. destruct (mtext_hd2 g p Hp) as [c [r [E Hl]]]. rewrite E. cbn [List.app].
  right. eexists. eexists. split; [reflexivity|exact Hl].
Qed.


Lemma mmany2 g rest : delim_ns rest -> forall ps, Forall (mitem_ok2 g) ps -> forall fuel, (length ps < fuel)%nat ->
  pmany_fuel fuel (pthen (plit [32]) (g_meta_item (p_scalar (S g) false))) (mmore ps ++ rest) = (Ok (map pkv ps), rest).
Proof.
  intros Hd. induction 1 as [|p ps Hp Hps IH]; intros fuel Hf.
  - cbn [mmore map concat List.app]. destruct fuel as [|f]; [cbn in Hf; lia|]. cbn [pmany_fuel]. rewrite (sep32_stop _ rest Hd). reflexivity.
  - destruct fuel as [|f]; [cbn in Hf; lia|]. cbn [mmore map concat]. fold (mmore ps). rewrite <- app_assoc. cbn [List.app pmany_fuel].
    assert (S1 : pthen (plit [32]) (g_meta_item (p_scalar (S g) false)) (32 :: mtext p ++ mmore ps ++ rest) = Some (Ok (pkv p), mmore ps ++ rest)).
    { unfold pthen, pmap, pand. assert (L0 : plit [32] (32 :: mtext p ++ mmore ps ++ rest) = Some (Ok tt, mtext p ++ mmore ps ++ rest)) by reflexivity.
      rewrite L0, (mitem_reads2 g p _ Hp (mmore_fol2 g ps rest Hps Hd)). reflexivity. }
    rewrite S1.
    assert (L : Nat.ltb (length (mmore ps ++ rest)) (length (32 :: mtext p ++ mmore ps ++ rest)) = true).
    { apply Nat.ltb_lt. cbn [length]. rewrite !app_length. lia. }
    rewrite L, (IH f) by (cbn in Hf; lia). reflexivity.
Qed.


Lemma meta_reads2 g p ps rest : Forall (mitem_ok2 g) (p :: ps) -> delim_ns rest ->
  g_meta (p_scalar (S g) false) (mbody (p :: ps) ++ rest) = Some (Ok (dict_of (map pkv (p :: ps))), rest).
Proof.
  intros H Hd. inversion H as [|? ? Hp Hps]; subst. cbn [mbody]. rewrite <- app_assoc.
  unfold g_meta, pmap, pdelimited, pmap, pand.
  rewrite (mitem_reads2 g p _ Hp (mmore_fol2 g ps rest Hps Hd)). unfold pmany.
  rewrite (mmany2 g rest Hd ps Hps) by (rewrite app_length; pose proof (mmore_len ps); lia). reflexivity.
Qed.

(* ---------- the header line with metadata ---------- *)
Definition htext2 (ps : list (str * hval * str)) : str := (s_ "ver:" ++ DQ :: V20 ++ DQ :: mpart ps ++ [10])%list.


Lemma opt_meta_reads2 g ps rest : Forall (mitem_ok2 g) ps -> delim_ns rest ->
  pmap (fun o : option (list (str * hval)) => match o with Some m => m | None => [] end) (popt (pthen (plit [32]) (g_meta (p_scalar (S g) false)))) (mpart ps ++ rest)
  = Some (Ok (dict_of (map pkv ps)), rest).
Proof.
  intros Hps Hd. destruct ps as [|p ps].
  - cbn [mpart List.app map]. unfold pmap, popt. rewrite (sep32_stop _ rest Hd). reflexivity.
  - cbn [mpart]. change ((32 :: mbody (p :: ps)) ++ rest)%list with (32 :: mbody (p :: ps) ++ rest)%list.
    assert (E : pthen (plit [32]) (g_meta (p_scalar (S g) false)) (32 :: mbody (p :: ps) ++ rest) = Some (Ok (dict_of (map pkv (p :: ps))), rest)).
    { unfold pthen, pmap, pand. assert (L0 : plit [32] (32 :: mbody (p :: ps) ++ rest) = Some (Ok tt, mbody (p :: ps) ++ rest)) by reflexivity.
      rewrite L0, (meta_reads2 g p ps rest Hps Hd). reflexivity. }
    unfold pmap, popt. rewrite E. reflexivity.
Qed.

Lemma header_meta_reads2 g ps r : Forall (mitem_ok2 g) ps ->
  g_grid_meta (p_scalar (S g) false) (htext2 ps ++ r) = Some (Ok (V20, dict_of (map pkv ps)), r).
Proof.
  intro Hps. unfold g_grid_meta, htext2.
  assert (E0 : ((s_ "ver:" ++ DQ :: V20 ++ DQ :: mpart ps ++ [10]) ++ r)%list = (118 :: 101 :: 114 :: 58 :: DQ :: V20 ++ DQ :: mpart ps ++ 10 :: r)%list).
  { change (s_ "ver:") with [118; 101; 114; 58]. unfold V20. cbn [List.app]. rewrite <- app_assoc. reflexivity. }
  assert (S1 : pthen (plit (s_ "ver:")) p_str ((s_ "ver:" ++ DQ :: V20 ++ DQ :: mpart ps ++ [10]) ++ r) = Some (Ok V20, mpart ps ++ 10 :: r)).
  { rewrite E0. unfold pthen, pmap, pand.
    assert (L : plit (s_ "ver:") (118 :: 101 :: 114 :: 58 :: DQ :: V20 ++ DQ :: mpart ps ++ 10 :: r) = Some (Ok tt, DQ :: V20 ++ DQ :: mpart ps ++ 10 :: r)) by reflexivity.
    rewrite L. unfold p_str, hs_str.
    rewrite (quoted_roundtrip DQ str_esc_letters false esc_str_char dq_ne dq_32 every_char_str V20 V20 (mpart ps ++ 10 :: r) eq_refl). reflexivity. }
  assert (S2 : pbefore (pmap (fun o : option (list (str * hval)) => match o with Some m => m | None => [] end) (popt (pthen (plit [32]) (g_meta (p_scalar (S g) false)))))
                       (pthen spaces nl) (mpart ps ++ 10 :: r) = Some (Ok (dict_of (map pkv ps)), r)).
  { unfold pbefore. unfold pmap at 1. unfold pand. rewrite (opt_meta_reads2 g ps (10 :: r) Hps (lf_ns r)).
    assert (E : pthen spaces nl (10 :: r) = Some (Ok tt, r)) by reflexivity. rewrite E. reflexivity. }
  unfold pand. rewrite S1, S2. reflexivity.
Qed.

(* ---------- columns with metadata ---------- *)
Definition col_ok2 (g : nat) (c : str * list (str * hval * str)) : Prop := colname (fst c) /\ Forall (mitem_ok2 g) (snd c).
Definition col_rel2 (g : nat) (x : str * list (str * hval)) (t : str) : Prop := exists c, col_ok2 g c /\ x = cval c /\ t = ctext c.

Lemma mpart_fol2 g ps rest : Forall (mitem_ok2 g) ps -> delim_ns rest -> mfol (mpart ps ++ rest).
Proof.
  intros Hps Hd. destruct ps as [|p ps]; cbn [mpart List.app]; [left; exact Hd|].
  inversion Hps as [|? ? Hp _]; subst. destruct (mtext_hd2 g p Hp) as [c [r [E Hl]]]. cbn [mbody]. rewrite E. cbn [List.app].
  right. eexists. eexists. split; [reflexivity|exact Hl].
Qed.

Lemma col_reads2 g x t : col_rel2 g x t -> forall rest, delim_ns rest -> g_col (p_scalar (S g) false) (t ++ rest) = Some (Ok x, rest).
Proof.
  intros [[name cps] [[Hn Hps] [Ex Et]]] rest Hd. subst x t. unfold ctext, cval. cbn [fst snd]. rewrite <- app_assoc.
  unfold g_col, pand. rewrite (p_id_mfol name _ Hn (mpart_fol2 g cps rest Hps Hd)), (opt_meta_reads2 g cps rest Hps Hd). reflexivity.
Qed.
Lemma col_hd2 g x t : col_rel2 g x t -> match t with c :: _ => is_sp c = false | [] => False end.
Proof.
  intros [[name cps] [[Hn _] [_ Et]]]. subst t. unfold ctext. cbn [fst snd]. destruct (colname_hd name Hn) as [c [r [E [Hs _]]]]. subst name. exact Hs.
Qed.

Lemma cols_meta_reads2 g x t xs ts r : col_rel2 g x t -> Forall2 (col_rel2 g) xs ts ->
  g_cols (p_scalar (S g) false) (join [44] (t :: ts) ++ 10 :: r) = Some (Ok (dict_of (x :: xs)), r).
Proof.
  intros Hx Hxs. unfold g_cols, pbefore, pmap, pand.
  rewrite (g_delimited (g_col (p_scalar (S g) false)) 10 (col_rel2 g) (col_reads2 g) (col_hd2 g) lf_ns (sep_stop_lf _) x t xs ts r Hx Hxs).
  assert (E : pthen spaces nl (10 :: r) = Some (Ok tt, r)) by reflexivity. rewrite E. reflexivity.
Qed.

(* ---------- whole grids with metadata: the reader ---------- *)
Definition cols_ok2 (g : nat) (cols : list (str * list (str * hval * str))) : Prop :=
  cols <> [] /\ Forall (col_ok2 g) cols /\ NoDup (map fst cols) /\ Forall (fun c => NoDup (mkeys (snd c))) cols.

(* no 3.0-only value among the values of a metadata list *)
Definition mfree (ps : list (str * hval * str)) : Prop := Forall (fun p => is_v3_only (snd (pkv p)) = false) ps.

Theorem grid_meta_reads2 g mps cols rows rts :
  Forall (mitem_ok2 g) mps -> NoDup (mkeys mps) -> ~ In VERK (mkeys mps) ->
  cols_ok2 g cols -> mfree mps -> Forall (fun c => mfree (snd c)) cols ->
  Forall2 (grid_row_ok2 g (map fst cols)) rows rts ->
  p_grid (S (S g)) false (htext2 mps ++ join [44] (map ctext cols) ++ 10 :: rows_text rts)
  = Some (Ok (VGrid V20 (map pkv mps) (map (fun c => (fst c, map pkv (snd c))) cols)
                    (map (fun cells => combine (map fst cols) cells) rows)), []).
Proof.
  intros Hm Hmn Hmv [Hne [Hco [Hcn Hcm]]] Hmf Hcf Hrows. rewrite p_grid_unfold.
  set (sc := p_scalar (S g) false).
  destruct cols as [|c cs]; [contradiction|].
  assert (CV : forall l, Forall (fun c0 : str * list (str * hval * str) => NoDup (mkeys (snd c0))) l -> map cval l = map (fun c0 => (fst c0, map pkv (snd c0))) l).
  { intros l Hl. induction Hl as [|c0 l Hc0 _ IH]; [reflexivity|]. cbn [map]. rewrite IH. unfold cval. rewrite (dict_of_nodup (map pkv (snd c0)) Hc0). reflexivity. }
  assert (HC : g_cols sc (join [44] (map ctext (c :: cs)) ++ 10 :: rows_text rts) = Some (Ok (dict_of (map cval (c :: cs))), rows_text rts)).
  { cbn [map]. inversion Hco as [|? ? Hc Hcs]; subst.
    apply (cols_meta_reads2 g (cval c) (ctext c) (map cval cs) (map ctext cs) (rows_text rts)); [exists c; split; [exact Hc|split; reflexivity]|].
    clear -Hcs. induction Hcs as [|x l Hx _ IH]; cbn [map]; constructor; [exists x; split; [exact Hx|split; reflexivity]|exact IH]. }
  assert (HR : pmany (hs_row sc) (rows_text rts) = Some (Ok rows, [])).
  { unfold pmany. rewrite (rows_many2 g rows rts); [reflexivity| |pose proof (rows_len rts); lia].
    clear -Hrows Hne. induction Hrows as [|cells ts rows rts [Hl [Hc _]] _ IH]; constructor; [|exact IH].
    split; [|exact Hc]. destruct cells; [cbn in Hl; discriminate|discriminate]. }
  unfold pact. unfold pand at 1. rewrite (header_meta_reads2 g mps _ Hm). unfold pand. rewrite HC, HR.
  destruct ver20_facts as [pv [PV [P3 VS]]].
  unfold g_action. rewrite PV, P3. cbn [bind]. rewrite VS.
  rewrite (dict_of_nodup (map pkv mps) Hmn).
  change (s_ "ver") with VERK. rewrite (remove_key_absent VERK (map pkv mps) Hmv).
  rewrite (CV (c :: cs) Hcm).
  assert (NK : map fst (map (fun c0 : str * list (str * hval * str) => (fst c0, map pkv (snd c0))) (c :: cs)) = map fst (c :: cs)) by (rewrite map_map; reflexivity).
  rewrite (dict_of_nodup (map (fun c0 : str * list (str * hval * str) => (fst c0, map pkv (snd c0))) (c :: cs))) by (rewrite NK; exact Hcn).
  rewrite NK.
  assert (RW : map (fun cells => dict_of (combine (map fst (c :: cs)) cells)) rows = map (fun cells => combine (map fst (c :: cs)) cells) rows).
  { clear -Hrows Hcn. induction Hrows as [|cells ts rows rts [Hl _] _ IH]; [reflexivity|]. cbn [map]. cbn [map] in IH. rewrite IH. f_equal.
    apply dict_of_nodup. rewrite map_fst_combine by (symmetry; exact Hl). exact Hcn. }
  rewrite RW.
  (* the version gate of the reader: no 3.0-only value in the metadata, the column metadata or the cells *)
  match goal with |- context [existsb is_v3_only ?l] => assert (GATE : existsb is_v3_only l = false) end.
  { apply existsb_false_forall. apply Forall_app. split; [|apply Forall_app; split].
    - clear -Hmf. unfold mfree in Hmf. induction Hmf as [|p ps Hp _ IH]; cbn [map]; constructor; assumption.
    - clear -Hcf. induction Hcf as [|c0 l Hc0 _ IH]; cbn [map flat_map]; [constructor|]. apply Forall_app. split; [|exact IH].
      cbn [snd]. clear -Hc0. unfold mfree in Hc0. induction Hc0 as [|p ps Hp _ IH]; cbn [map]; constructor; assumption.
    - clear -Hrows. induction Hrows as [|cells ts rows rts [Hl [_ Hv]] _ IH]; [constructor|]. cbn [map flat_map]. apply Forall_app. split; [|exact IH].
      apply row_vals_ok; assumption. }
  rewrite GATE. reflexivity.
Qed.


Definition mitem_dump2 (f : nat) (p : str * hval * str) : Prop := let '(k, v, t) := p in v = VMarker \/ zdump f true v = Ok t.

Definition dmeta2 (f : nat) : str * hval -> res str :=
  fun kv => match snd kv with VMarker => Ok (fst kv) | x => do t <- zdump f true x; Ok (fst kv ++ 58 :: t) end.

Lemma dmeta_item2 f p : mitem_dump2 f p -> dmeta2 f (pkv p) = Ok (mtext p).
Proof.
  destruct p as [[k v] t]. cbn [mitem_dump2 pkv]. unfold dmeta2. cbn [snd fst mtext].
  intros [E|E]; [subst v; reflexivity|]. destruct v; try (rewrite E; reflexivity). reflexivity.
Qed.

Lemma dmeta_all2 f ps : Forall (mitem_dump2 f) ps -> res_map (dmeta2 f) (map pkv ps) = Ok (map mtext ps).
Proof.
  intro H. rewrite res_map_map. apply res_map_gen. intros p Hp. apply dmeta_item2. rewrite Forall_forall in H. exact (H p Hp).
Qed.
Lemma dump_metaP_items2 f ps : ps <> [] -> Forall (mitem_dump2 f) ps -> dump_metaP f true (map pkv ps) = Ok (mbody ps).
Proof.
  intros Hne H. unfold dump_metaP. change (dmetaP f true) with (dmeta2 f). rewrite (dmeta_all2 f ps H). cbn [bind]. rewrite join_mtext. reflexivity.
Qed.

Definition col_dump_ok2 (f : nat) (c : str * list (str * hval * str)) : Prop := Forall (mitem_dump2 f) (snd c).

Lemma dcol_text2 f c : col_dump_ok2 f c -> dcol f true (fst c, map pkv (snd c)) = Ok (ctext c).
Proof.
  destruct c as [name cps]. unfold col_dump_ok2, dcol, ctext. cbn [fst snd]. intro H. destruct cps as [|p ps].
  - cbn [map mpart]. rewrite app_nil_r. reflexivity.
  - cbn [map]. change (pkv p :: map pkv ps) with (map pkv (p :: ps)). rewrite (dump_metaP_items2 f (p :: ps) ltac:(discriminate) H). reflexivity.
Qed.

Theorem grid_meta_dumps2 f mps cols rows rts :
  Forall (mitem_dump2 f) mps -> cols <> [] -> Forall (col_dump_ok2 f) cols -> NoDup (map fst cols) ->
  Forall2 (dump_row_ok2 f (map fst cols)) rows rts ->
  zdump_grid (S f) V20 (map pkv mps) (map (fun c => (fst c, map pkv (snd c))) cols) (map (fun cells => combine (map fst cols) cells) rows)
  = Ok (htext2 mps ++ join [44] (map ctext cols) ++ 10 :: rows_text rts).
Proof.
  intros Hm Hne Hc Hnd Hrows. rewrite zdump_grid_unfold.
  assert (P3 : pre3_of V20 = Ok true) by (vm_compute; reflexivity). rewrite P3. cbn [bind].
  assert (VS : zdump_str V20 = Ok (DQ :: V20 ++ [DQ])) by (vm_compute; reflexivity). rewrite VS. cbn [bind].
  set (cols' := map (fun c : str * list (str * hval * str) => (fst c, map pkv (snd c))) cols).
  assert (NK : map fst cols' = map fst cols) by (unfold cols'; rewrite map_map; reflexivity).
  assert (HD : match map pkv mps with
               | [] => Ok (s_ "ver:" ++ DQ :: V20 ++ [DQ])%list
               | _ :: _ => do mt <- dump_metaP f true (map pkv mps); Ok (s_ "ver:" ++ (DQ :: V20 ++ [DQ]) ++ 32 :: mt)%list
               end = Ok (s_ "ver:" ++ DQ :: V20 ++ DQ :: mpart mps)%list).
  { destruct mps as [|p ps]; [reflexivity|]. cbn [map]. change (pkv p :: map pkv ps) with (map pkv (p :: ps)).
    rewrite (dump_metaP_items2 f (p :: ps) ltac:(discriminate) Hm). cbn [bind mpart]. unfold V20. cbn [List.app]. reflexivity. }
  rewrite HD. cbn [bind].
  assert (Ne' : cols' <> []) by (unfold cols'; destruct cols; [contradiction|discriminate]).
  rewrite (match_ne' cols' _ _ Ne').
  assert (CS : res_map (dcol f true) cols' = Ok (map ctext cols)).
  { unfold cols'. rewrite res_map_map. apply res_map_gen. intros c Hin. apply dcol_text2. rewrite Forall_forall in Hc. exact (Hc c Hin). }
  rewrite CS. cbn [bind].
  assert (RS : res_map (drow f true cols') (map (fun cells => combine (map fst cols) cells) rows) = Ok (map (join [44]) rts)).
  { rewrite res_map_map. clear -Hrows Hnd NK. induction Hrows as [|cells ts rows rts [Hl Hcs] _ IH]; cbn [res_map map]; [reflexivity|].
    unfold drow at 1.
    assert (E : res_map (fun c : str * list (str * hval) => zdump f true (match assoc (fst c) (combine (map fst cols) cells) with Some x => x | None => VNull end)) cols' = Ok ts).
    { rewrite <- (res_map_map fst (fun n : str => zdump f true (match assoc n (combine (map fst cols) cells) with Some x => x | None => VNull end)) cols').
      rewrite NK.
      rewrite <- (res_map_map (fun n : str => match assoc n (combine (map fst cols) cells) with Some x => x | None => VNull end) (zdump f true)).
      rewrite (assoc_combine (map fst cols) cells Hnd Hl). apply res_map_forall2. exact Hcs. }
    rewrite E. cbn [bind]. rewrite IH. reflexivity. }
  rewrite RS. cbn [bind].
  unfold NL1. cbn [List.app]. rewrite join_lines. unfold htext2, rows_text. rewrite map_map.
  cbn [List.app]. repeat (rewrite <- app_assoc; cbn [List.app]). reflexivity.
Qed.

(* ---------- round trip of 2.0 grids with grid and column metadata ---------- *)
(* a 2.0 metadata value: not a 3.0-only kind, written the same at every fuel under the pre-3.0 rules, read back by the 2.0
   alternation whatever delimiter follows (a blank and the next tag included) *)
Definition val2 (v : hval) (t : str) : Prop :=
  is_v3_only v = false /\ (forall f, zdump (S f) true v = Ok t) /\ (forall g, readsd2 g v t).
Lemma val2_cell2 v t : val2 v t -> cell2 v t.
Proof. intros [A [B C]]. split; [exact A|]. split; [exact B|]. intro g. apply readsd2_reads2. apply C. Qed.

Lemma val2_str s e : escape_str s = Ok e -> val2 (VStr s) (DQ :: e ++ [DQ]).
Proof.
  intro He. split; [reflexivity|]. split.
  - intro f. cbn [zdump]. unfold zdump_str. rewrite He. reflexivity.
  - intros g rest _. cbn [List.app]. rewrite <- app_assoc. cbn [List.app]. apply scalar_str. exact He.
Qed.
Lemma val2_uri s e : escape_uri s = Ok e -> val2 (VUri s) (BQ :: e ++ [BQ]).
Proof.
  intro He. split; [reflexivity|]. split.
  - intro f. cbn [zdump]. unfold zdump_uri. rewrite He. reflexivity.
  - intros g rest _. cbn [List.app]. rewrite <- app_assoc. cbn [List.app]. apply scalar_uri. exact He.
Qed.
Lemma val2_number sg ip fp ex u : ntok_ok sg ip fp ex u -> val2 (nval sg ip fp ex u) (mant sg ip fp ex ++ upt u).
Proof.
  intro Hok. split; [reflexivity|]. split.
  - intro f. unfold nval. cbn [zdump znum_text]. destruct u as [[|c u']|]; cbn [upt]; [|reflexivity|rewrite app_nil_r; reflexivity].
    destruct Hok as [_ [_ [_ [[Hne _] _]]]]. contradiction.
  - intros g rest Hd. rewrite <- app_assoc. apply scalar_number; [exact Hok|exact Hd].
Qed.
Lemma val2_date y m d : valid_date y m d = true -> val2 (VDate y m d) (iso_date y m d).
Proof. intro Hv. split; [reflexivity|]. split; [intro f; reflexivity|]. intros g rest Hd. apply scalar_date; [exact Hv|exact Hd]. Qed.
Lemma val2_time h mi s us : time_ok h mi s us -> val2 (VTime h mi s us) (iso_time h mi s us).
Proof. intro Hv. split; [reflexivity|]. split; [intro f; reflexivity|]. intros g rest Hd. apply scalar_time; [exact Hv|exact Hd]. Qed.
Lemma val2_null : val2 VNull [78].
Proof. split; [reflexivity|]. split; [intro f; reflexivity|]. intros g rest Hd. apply scalar_null. exact Hd. Qed.
Lemma val2_remove : val2 VRemove [82].
Proof. split; [reflexivity|]. split; [intro f; reflexivity|]. intros g rest Hd. apply scalar_remove. exact Hd. Qed.
Lemma val2_bool b : val2 (VBool b) [if b then 84 else 70].
Proof. split; [reflexivity|]. split; [intro f; reflexivity|]. intros g rest Hd. destruct b; [apply scalar_true|apply scalar_false]; exact Hd. Qed.

Definition mval2 (p : str * hval * str) : Prop := let '(k, v, t) := p in colname k /\ (v = VMarker \/ val2 v t).
Definition mcol2 (c : str * list (str * hval * str)) : Prop := colname (fst c) /\ Forall mval2 (snd c) /\ NoDup (mkeys (snd c)).
Definition meta_grid2 (mps : list (str * hval * str)) (cols : list (str * list (str * hval * str))) (rows : list (list hval)) : hval :=
  VGrid V20 (map pkv mps) (map (fun c => (fst c, map pkv (snd c))) cols) (map (fun cells => combine (map fst cols) cells) rows).
Definition meta_text2 (mps : list (str * hval * str)) (cols : list (str * list (str * hval * str))) (rts : list (list str)) : str :=
  (htext2 mps ++ join [44] (map ctext cols) ++ 10 :: rows_text rts)%list.

Lemma mval2_ok g p : mval2 p -> mitem_ok2 g p.
Proof. destruct p as [[k0 v] t]. intros [Hk [E|Hz]]; (split; [exact Hk|]); [left; exact E|right; exact (proj2 (proj2 Hz) g)]. Qed.
Lemma mval2_dump f p : mval2 p -> mitem_dump2 (S f) p.
Proof. destruct p as [[k0 v] t]. intros [Hk [E|Hz]]; [left; exact E|right; exact (proj1 (proj2 Hz) f)]. Qed.
Lemma mval2_free ps : Forall mval2 ps -> mfree ps.
Proof.
  intro H. unfold mfree. eapply Forall_impl; [|exact H]. intros [[k v] t] [_ [E|Hz]]; cbn [pkv snd]; [subst v; reflexivity|exact (proj1 Hz)].
Qed.

Theorem grid2_meta_roundtrip mps cols rows rts :
  Forall mval2 mps -> NoDup (mkeys mps) -> ~ In VERK (mkeys mps) ->
  cols <> [] -> Forall mcol2 cols -> NoDup (map fst cols) ->
  Forall2 (grid2_cells_ok (map fst cols)) rows rts ->
  (forall f, zdump_grid (S (S f)) V20 (map pkv mps) (map (fun c => (fst c, map pkv (snd c))) cols)
                        (map (fun cells => combine (map fst cols) cells) rows) = Ok (meta_text2 mps cols rts)) /\
  zparse_grid (meta_text2 mps cols rts) = Ok (meta_grid2 mps cols rows).
Proof.
  intros Hm Hmn Hmv Hne Hc Hcn Hrows. split.
  - intro f. apply grid_meta_dumps2; [| exact Hne | | exact Hcn |].
    + eapply Forall_impl; [|exact Hm]. intros p Hp. apply mval2_dump. exact Hp.
    + eapply Forall_impl; [|exact Hc]. intros c [_ [B _]]. unfold col_dump_ok2. eapply Forall_impl; [|exact B]. intros p Hp. apply mval2_dump. exact Hp.
    + clear -Hrows. induction Hrows as [|cells ts rows rts [Hl Hcs] _ IH]; constructor; [|exact IH]. split; [exact Hl|].
      clear -Hcs. induction Hcs as [|v t vs ts [_ [D _]] _ IH]; constructor; [apply D|exact IH].
  - unfold zparse_grid.
    assert (SV : sniff_version (meta_text2 mps cols rts) = Some V20) by reflexivity. rewrite SV.
    assert (P3 : pre3_of V20 = Ok true) by (vm_compute; reflexivity). rewrite P3. cbn [negb].
    unfold meta_text2 at 2. rewrite (grid_meta_reads2 (length (meta_text2 mps cols rts)) mps cols rows rts); [reflexivity| |exact Hmn|exact Hmv| | | |].
    + eapply Forall_impl; [|exact Hm]. intros p Hp. apply mval2_ok. exact Hp.
    + split; [exact Hne|]. split; [|split; [exact Hcn|]].
      * eapply Forall_impl; [|exact Hc]. intros c [A [B _]]. split; [exact A|]. eapply Forall_impl; [|exact B]. intros p Hp. apply mval2_ok. exact Hp.
      * eapply Forall_impl; [|exact Hc]. intros c [_ [_ C]]. exact C.
    + apply mval2_free. exact Hm.
    + eapply Forall_impl; [|exact Hc]. intros c [_ [B _]]. apply mval2_free. exact B.
    + clear -Hrows. induction Hrows as [|cells ts rows rts [Hl Hcs] _ IH]; constructor; [|exact IH]. split; [exact Hl|]. split.
      * clear -Hcs. induction Hcs as [|v t vs ts [_ [_ R]] _ IH]; constructor; [apply R|exact IH].
      * clear -Hcs. induction Hcs as [|v t vs ts [V _] _ IH]; constructor; [exact V|exact IH].
Qed.
Print Assumptions grid2_meta_roundtrip.
