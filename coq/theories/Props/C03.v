(* C03 - the ZINC reader accepts every legal spelling.  Proved on the model of the reader: document framing (final
   newline optional, empty input, several grids), CRLF / LF line ends, whole documents of either version with rows in any
   spelling (blanks around commas and before the line end, empty cells), the spellings of numbers (digit separators,
   exponents, non-finite), dates, times and timestamps (T or t, Z or z or a numeric offset, with or without a zone name),
   string and URI literals followed by anything, lists and dicts with blanks and trailing commas, nested grids.
   The header and column lines with blanks around the colons of their tags, around the commas and before the line
   end are proved too.
   PARTIAL: bytes input / charsets and the single flag are decided on the implementation; the interpretation of
   timestamps (iso8601 / pytz) is covered by the model-implementation tie on the documents of the independent writer
   (harness/props/c03.py). *)
From Coq Require Import String.
From Coq Require Import List NArith Bool.
From HS Require Import Base.Prelude Model.Value Model.Escape Model.Version Model.Json Model.ZincParse.
From HS Require Import Proofs.EscapeP Proofs.ZincParseP Proofs.ZincNumP Proofs.ZincDateP Proofs.ZincListP Proofs.ZincGridP Proofs.ZincDictP Proofs.ZincMetaP Proofs.ZincDocP Proofs.ZincNestP Proofs.ZincMultiP Proofs.ZincV2P Proofs.ZincSpacedP Proofs.ZincListSpP Proofs.ZincNumSpP Proofs.ZincDateTimeP Proofs.ZincDateTimeSpP Proofs.ZincDictSpP Proofs.ZincHeaderSpP Proofs.ZincTimeSpP.
Import ListNotations.
Open Scope N_scope.

(* documents with or without a final newline denote the same grids; empty input gives no grid *)
Theorem C03_final_newline_optional : forall t, t <> [] -> zparse_doc (t ++ [10]) = zparse_doc t.
Proof. exact zparse_doc_final_newline. Qed.
Theorem C03_empty_input : zparse_doc [] = Ok [].
Proof. exact zparse_doc_empty. Qed.

(* LF and CRLF both end a line *)
Theorem C03_line_ends : forall t, nl (10 :: t) = Some (Ok tt, t) /\ nl (13 :: 10 :: t) = Some (Ok tt, t).
Proof. intro t. split; reflexivity. Qed.

(* z / Z, and the T / t separator, in time stamps *)
Theorem C03_zulu_case : forall t, p_offset (90 :: t) = Some (Ok [90], t) /\ p_offset (122 :: t) = Some (Ok [90], t).
Proof. intro t. split; reflexivity. Qed.

(* every escape the writer may produce - and the literal - is accepted whatever follows it (C08) *)
Theorem C03_string_literal : forall g ver3 s e rest, escape_str s = Ok e ->
  p_scalar (S g) ver3 (DQ :: e ++ DQ :: rest) = Some (Ok (VStr s), rest).
Proof. intros. apply scalar_str. assumption. Qed.
Theorem C03_uri_literal : forall g ver3 s e rest, escape_uri s = Ok e ->
  p_scalar (S g) ver3 (BQ :: e ++ BQ :: rest) = Some (Ok (VUri s), rest).
Proof. intros. apply scalar_uri. assumption. Qed.

(* `_` digit separators: ANY non-empty run of digits and underscores (single, doubled, trailing) is read as its digits *)
Theorem C03_digit_separators : forall u rest, u <> [] -> Forall (fun c => is_digit_us c = true) u ->
  (match rest with c :: _ => is_digit_us c = false | [] => True end) ->
  p_digits (u ++ rest) = Some (Ok (filter (fun c => negb (c =? 95)) u), rest).
Proof. exact digits_with_separators. Qed.
(* optional blanks around commas: any number of blanks before and after *)
Theorem C03_blanks_around_commas : forall a b rest, (match rest with c :: _ => is_sp c = false | [] => True end) ->
  value_sep (blanks a ++ 44 :: blanks b ++ rest) = Some (Ok tt, rest).
Proof. exact comma_with_blanks. Qed.

(* spellings, computed (tests of the model, not unbounded claims) *)
(* WHOLE DOCUMENTS: a 3.0 document made of the version line, a line of distinct column names and any number of rows of
   comma-separated cells is read as exactly the grid it denotes, WHATEVER spelling each cell uses - the only thing asked
   of a cell text t for a value v is that the scalar rule reads v from t when a comma, a line end, a closing bracket or
   the end of the text follows (reads g v t).  The spellings below meet it. *)
Theorem C03_whole_document : forall g names rows rts,
  names <> [] -> Forall colname names -> NoDup names -> Forall2 (grid_row_ok g names) rows rts ->
  p_grid (S (S g)) true (header30 ++ join [44] names ++ 10 :: rows_text rts)
  = Some (Ok (VGrid V30 [] (map (fun n => (n, [])) names) (map (fun cells => combine names cells) rows)), []).
Proof. exact grid_reads. Qed.
(* ... with grid and column metadata (bare marker tags, tags with values in any spelling the scalar rule reads), and with
   anything after the rows that is not a row (">>" of an enclosing cell, the end of the text) *)
Theorem C03_whole_document_with_metadata : forall g mps cols rows rts r,
  hs_row (p_scalar (S g) true) r = None ->
  Forall (mitem_ok g) mps -> NoDup (mkeys mps) -> ~ In VERK (mkeys mps) -> cols_ok g cols ->
  Forall2 (grid_row_ok g (map fst cols)) rows rts ->
  p_grid (S (S g)) true (meta_text mps cols rts ++ r) = Some (Ok (meta_grid mps cols rows), r).
Proof. exact grid_meta_reads_tail. Qed.
(* version 2.0 documents: the 2.0 alternation, and the reader's version gate lets every non-3.0 value through *)
Theorem C03_whole_document_2_0 : forall g names rows rts,
  names <> [] -> Forall colname names -> NoDup names -> Forall2 (grid_row_ok2 g names) rows rts ->
  p_grid (S (S g)) false (header20 ++ join [44] names ++ 10 :: rows_text rts)
  = Some (Ok (VGrid V20 [] (map (fun n => (n, [])) names) (map (fun cells => combine names cells) rows)), []).
Proof. exact grid_reads2. Qed.
(* one or several grids per document: parser.parse cuts at the empty lines and reads the grids in order *)
Theorem C03_documents : forall bodies gs, bodies <> [] -> Forall body_ok bodies -> Forall nonblank_hd bodies ->
  Forall2 (fun b g => zparse_grid (b ++ [10]) = Ok g) bodies gs ->
  zparse_doc (doc_text bodies) = Ok gs.
Proof. exact doc_multi. Qed.
(* dicts and nested grids in any spelling of their parts *)
Theorem C03_dicts : forall g ps rest, Forall (pair_ok g) ps -> NoDup (map fst (map pkv ps)) -> delim rest ->
  p_scalar (S (S g)) true (123 :: body_text ps ++ 125 :: rest) = Some (Ok (VDict (map pkv ps)), rest).
Proof. exact scalar_dict. Qed.
Theorem C03_nested_grids : forall g mps cols rows rts rest,
  Forall (mitem_ok g) mps -> NoDup (mkeys mps) -> ~ In VERK (mkeys mps) -> cols_ok g cols ->
  Forall2 (grid_row_ok g (map fst cols)) rows rts ->
  p_scalar (S (S (S g))) true (60 :: 60 :: meta_text mps cols rts ++ 62 :: 62 :: rest) = Some (Ok (meta_grid mps cols rows), rest).
Proof. exact scalar_inner_grid. Qed.

(* ROWS IN ANY SPELLING: the document theorem again, asking of each row text only that the row rule reads the row's cells
   from it (row_spelled) - and three families of such spellings: plain rows; rows whose commas carry any number of blanks on
   either side, with any number of blanks before the line end; rows with EMPTY CELLS, which are nulls; rows ended by CR LF *)
Theorem C03_whole_document_any_rows : forall g names rows rts,
  names <> [] -> Forall colname names -> NoDup names ->
  Forall2 (fun cells rt => length cells = length names /\ row_spelled g cells rt) rows rts ->
  p_grid (S (S g)) true (header30 ++ join [44] names ++ 10 :: concat rts)
  = Some (Ok (VGrid V30 [] (map (fun n => (n, [])) names) (map (fun cells => combine names cells) rows)), []).
Proof. exact grid_reads_any_rows. Qed.
Theorem C03_row_spellings : forall g,
  (forall v t vs ts, reads g v t -> Forall2 (reads g) vs ts -> row_spelled g (v :: vs) (join [44] (t :: ts) ++ [10])) /\
  (forall v t vs its k, readsd g v t -> Forall2 (sp_cell g) vs its -> row_spelled g (v :: vs) (sp_row_text t its k)) /\
  (forall v t vs ts, celle g v t -> Forall2 (celle g) vs ts -> join [44] (t :: ts) <> [] -> row_spelled g (v :: vs) (join [44] (t :: ts) ++ [10])) /\
  (forall v t vs ts, reads g v t -> Forall2 (reads g) vs ts -> row_spelled g (v :: vs) (join [44] (t :: ts) ++ [13; 10])).
Proof. intro g. split; [exact (row_spelled_plain g)|]. split; [exact (row_spelled_spaced g)|]. split; [exact (row_spelled_empty_cells g)|exact (row_spelled_crlf g)]. Qed.
Example C03_spaced_and_empty :
  sp_row_text (s_ "1") [(1%nat, 2%nat, s_ """x"""); (0%nat, 1%nat, s_ "T")] 2 = s_ "1 ,  ""x"", T  
" /\
  zparse_grid (s_ "ver:""3.0""
a,b,c
1 ,  ""x"", T  
,N,
") = Ok (VGrid (s_ "3.0") [] [(s_ "a", []); (s_ "b", []); (s_ "c", [])]
           [[(s_ "a", VNum NkFin (s_ "1") (s_ "1") None); (s_ "b", VStr (s_ "x")); (s_ "c", VBool true)];
            [(s_ "a", VNull); (s_ "b", VNull); (s_ "c", VNull)]]).
Proof. split; vm_compute; reflexivity. Qed.

(* number spellings: optional sign, digits, optional fraction, optional exponent e / e+ / e- and digits, optional unit *)
Theorem C03_number_spellings : forall g ver3 sg ip fp ex u rest, ntok_ok sg ip fp ex u -> delim rest ->
  p_scalar (S g) ver3 (mant sg ip fp ex ++ upt u ++ rest) = Some (Ok (nval sg ip fp ex u), rest).
Proof. exact scalar_number. Qed.
(* ... and the spellings the writer never uses: _ separators anywhere after the first digit of a digit run (integer
   part, fraction, exponent), upper-case E; the value is the text without separators and with a lower-case e *)
Theorem C03_number_spellings_general : forall g ver3 sg ip fp ex u rest, ntoku_ok sg ip fp ex u -> delim rest ->
  p_scalar (S g) ver3 (mantu sg ip fp ex ++ upt u ++ rest) = Some (Ok (nvalu sg ip fp ex u), rest).
Proof. exact scalar_number_u. Qed.
Example C03_number_spelling_nonvacuous :
  ntoku_ok true (s_ "1_000") (Some (s_ "5_0")) (Some (69, Some 43, s_ "0_3")) (Some (s_ "kW")) /\
  mantu true (s_ "1_000") (Some (s_ "5_0")) (Some (69, Some 43, s_ "0_3")) = s_ "-1_000.5_0E+0_3" /\
  mantn true (s_ "1_000") (Some (s_ "5_0")) (Some (69, Some 43, s_ "0_3")) = s_ "-1000.50e+03".
Proof.
  split; [|split; reflexivity].
  unfold ntoku_ok, udigs, fpu_ok, exu_ok, u_ok, unit_ok. cbn [s_].
  repeat split; try discriminate; try reflexivity; try (repeat constructor; fail); try (right; reflexivity); try (right; left; reflexivity); try (left; reflexivity).
Qed.

Theorem C03_date_time_spellings : forall g ver3 rest, delim rest ->
  (forall y m d, valid_date y m d = true -> p_scalar (S g) ver3 (iso_date y m d ++ rest) = Some (Ok (VDate y m d), rest)) /\
  (forall h mi s us, time_ok h mi s us -> p_scalar (S g) ver3 (iso_time h mi s us ++ rest) = Some (Ok (VTime h mi s us), rest)).
Proof. intros g ver3 rest Hd. split; intros; [apply scalar_date|apply scalar_time]; assumption. Qed.
(* times with a fraction of seconds of one to six digits (more digits are refused: ValueError) *)
Theorem C03_time_fraction : forall g ver3 h mi s fr rest, tfrac_ok h mi s fr -> delim rest ->
  p_scalar (S g) ver3 (tfrac_text h mi s fr ++ rest) = Some (Ok (VTime h mi s (usec_of fr)), rest).
Proof. exact scalar_time_frac. Qed.
(* timestamps: T or t, Z or z or a numeric offset, with or without a zone name - every spelling is read, and two spellings
   that differ only in the case of T and Z are read as the same value *)
Theorem C03_timestamp_spellings : forall g ver3 y m d sep h mi s us o zn rest, dts_ok y m d sep h mi s us o -> zone_ok zn rest ->
  p_scalar (S g) ver3 (dts_text y m d sep h mi s us o ++ ztext zn ++ rest) = Some (Ok (VDateTimeRaw (dts_val y m d h mi s us o) zn), rest).
Proof. exact scalar_datetime_spelled. Qed.
Theorem C03_timestamp_case_irrelevant : forall g ver3 y m d sep1 sep2 h mi s us o1 o2 zn rest,
  dts_ok y m d sep1 h mi s us o1 -> dts_ok y m d sep2 h mi s us o2 -> ospell_val o1 = ospell_val o2 -> zone_ok zn rest ->
  p_scalar (S g) ver3 (dts_text y m d sep1 h mi s us o1 ++ ztext zn ++ rest) = p_scalar (S g) ver3 (dts_text y m d sep2 h mi s us o2 ++ ztext zn ++ rest).
Proof.
  intros g ver3 y m d sep1 sep2 h mi s us o1 o2 zn rest H1 H2 E Hz.
  rewrite (scalar_datetime_spelled g ver3 y m d sep1 h mi s us o1 zn rest H1 Hz), (scalar_datetime_spelled g ver3 y m d sep2 h mi s us o2 zn rest H2 Hz).
  unfold dts_val. rewrite E. reflexivity.
Qed.
(* lists: elements in any spelling the scalar rule reads *)
Theorem C03_lists : forall g vs ts rest, Forall2 (reads g) vs ts -> delim rest ->
  p_scalar (S (S g)) true (91 :: join [44] ts ++ 93 :: rest) = Some (Ok (VList vs), rest).
Proof. exact scalar_list. Qed.

(* trailing commas and blanks in lists: [ blanks items (,)? blanks ] *)
Theorem C03_list_spellings : forall g a v t vs ts tc b rest, readsd g v t -> Forall2 (readsd g) vs ts -> delim rest ->
  p_scalar (S (S g)) true (91 :: blanks a ++ join [44] (t :: ts) ++ lclose tc b rest) = Some (Ok (VList (v :: vs)), rest).
Proof. exact scalar_list_spelled. Qed.

(* the header line in other spellings: blanks before and after the colon of each metadata tag, blanks before the line end *)
Theorem C03_header_spellings : forall g its e cols rows rts,
  Forall (smitem_ok g) its -> NoDup (map fst (map skv its)) -> ~ In VERK (map fst (map skv its)) ->
  cols_ok g cols ->
  Forall2 (grid_row_ok g (map fst cols)) rows rts ->
  p_grid (S (S g)) true (shtext its e ++ join [44] (map ctext cols) ++ 10 :: rows_text rts)
  = Some (Ok (VGrid V30 (map skv its) (map (fun c => (fst c, map pkv (snd c))) cols)
                    (map (fun cells => combine (map fst cols) cells) rows)), []).
Proof. exact grid_spelled_header_reads. Qed.

(* ... and the column line as well: column metadata spelled the same way, blanks around the commas between columns and
   before the line end *)
Theorem C03_header_and_column_spellings : forall g its e c (cs : list scitem) ce rows rts,
  Forall (smitem_ok g) its -> NoDup (map fst (map skv its)) -> ~ In VERK (map fst (map skv its)) ->
  Forall (scol_ok g) (allcols c cs) -> NoDup (map fst (allcols c cs)) ->
  Forall (fun c0 : scol => NoDup (map fst (map skv (snd c0)))) (allcols c cs) ->
  Forall2 (grid_row_ok g (map fst (allcols c cs))) rows rts ->
  p_grid (S (S g)) true (shtext its e ++ sctext_line c cs ce ++ rows_text rts)
  = Some (Ok (VGrid V30 (map skv its) (map (fun c0 : scol => (fst c0, map skv (snd c0))) (allcols c cs))
                    (map (fun cells => combine (map fst (allcols c cs)) cells) rows)), []).
Proof. exact grid_spelled_reads. Qed.

(* THE WHOLE SURFACE AT ONCE: header line, column line and every row in any of these spellings *)
Theorem C03_document_any_spelling : forall g its e c (cs : list scitem) ce rows rts,
  Forall (smitem_ok g) its -> NoDup (map fst (map skv its)) -> ~ In VERK (map fst (map skv its)) ->
  Forall (scol_ok g) (allcols c cs) -> NoDup (map fst (allcols c cs)) ->
  Forall (fun c0 : scol => NoDup (map fst (map skv (snd c0)))) (allcols c cs) ->
  Forall2 (fun cells rt => length cells = length (map fst (allcols c cs)) /\ row_spelled g cells rt) rows rts ->
  p_grid (S (S g)) true (shtext its e ++ sctext_line c cs ce ++ concat rts)
  = Some (Ok (VGrid V30 (map skv its) (map (fun c0 : scol => (fst c0, map skv (snd c0))) (allcols c cs))
                    (map (fun cells => combine (map fst (allcols c cs)) cells) rows)), []).
Proof. exact grid_spelled_reads_any_rows. Qed.

(* dicts: blanks after the opening brace, after the colons, in runs between the tags and before the closing brace *)
Theorem C03_dict_spellings : forall g a0 c0 p its b rest, pair_ok g p -> Forall (sitem_ok g) its ->
  NoDup (map fst (pkv p :: map (fun i => pkv (snd i)) its)) -> delim rest ->
  p_scalar (S (S g)) true (123 :: blanks a0 ++ sbody c0 p its b ++ 125 :: rest)
  = Some (Ok (VDict (pkv p :: map (fun i => pkv (snd i)) its)), rest).
Proof. exact scalar_dict_spelled. Qed.
Theorem C03_empty_dict_spellings : forall g a rest, delim rest -> p_scalar (S (S g)) true (123 :: blanks a ++ 125 :: rest) = Some (Ok (VDict []), rest).
Proof. exact scalar_dict_empty_spelled. Qed.

Example C03_spellings :
  zparse_scalar true (s_ "1_000") = Ok (VNum NkFin (s_ "1000") (s_ "1000") None) /\
  zparse_scalar true (s_ "-INF") = Ok (VNum NkNegInf [] [] None) /\
  zparse_scalar true (s_ "NaN") = Ok (VNum NkNaN [] [] None) /\
  zparse_scalar true (s_ "[ 1 , 2 , ]") = Ok (VList [VNum NkFin (s_ "1") (s_ "1") None; VNum NkFin (s_ "2") (s_ "2") None]) /\
  zparse_scalar true (s_ """e\$""") = Ok (VStr [101; 36]).
Proof. vm_compute. repeat split; reflexivity. Qed.

Print Assumptions C03_whole_document.
Print Assumptions C03_whole_document_any_rows.
Print Assumptions C03_row_spellings.
Print Assumptions C03_whole_document_with_metadata.
Print Assumptions C03_whole_document_2_0.
Print Assumptions C03_documents.
Print Assumptions C03_dicts.
Print Assumptions C03_nested_grids.
Print Assumptions C03_number_spellings.
Print Assumptions C03_number_spellings_general.
Print Assumptions C03_date_time_spellings.
Print Assumptions C03_time_fraction.
Print Assumptions C03_timestamp_spellings.
Print Assumptions C03_timestamp_case_irrelevant.
Print Assumptions C03_header_spellings.
Print Assumptions C03_header_and_column_spellings.
Print Assumptions C03_document_any_spelling.
Print Assumptions C03_dict_spellings.
Print Assumptions C03_empty_dict_spellings.
Print Assumptions C03_lists.
Print Assumptions C03_list_spellings.
Print Assumptions C03_digit_separators.
Print Assumptions C03_blanks_around_commas.
Print Assumptions C03_final_newline_optional.
Print Assumptions C03_empty_input.
Print Assumptions C03_line_ends.
Print Assumptions C03_zulu_case.
Print Assumptions C03_string_literal.
Print Assumptions C03_uri_literal.
