(* Model of the version gate (C10): hszinc/grid.py (_detect_or_validate, _assert_version, the validators the
   constructor wires into metadata / column metadata / rows) as a state machine over real values, with the
   kind tests REGENERATED from the source (Gen/GateData.v): the isinstance list of Grid._detect_or_validate
   and the if/elif ladders of both dumpers are data, interpreted here.
   Executable definitions only; proofs in Proofs/GateP.v. *)
From Coq Require Import String.
From Coq Require Import List NArith ZArith Bool.
From HS Require Import Base.Prelude Gen.GateData Model.Value Model.Version Model.PyList Model.Json.
Import ListNotations.
Open Scope N_scope.

Inductive kind := KNull | KNA | KMarker | KRemove | KList | KDict | KBool | KRef | KBin | KXStr | KUri | KStr
                | KDateTime | KTime | KDate | KCoord | KQty | KNum | KGrid.
Definition kind_eqb (a b : kind) : bool :=
  match a, b with
  | KNull, KNull | KNA, KNA | KMarker, KMarker | KRemove, KRemove | KList, KList | KDict, KDict | KBool, KBool
  | KRef, KRef | KBin, KBin | KXStr, KXStr | KUri, KUri | KStr, KStr | KDateTime, KDateTime | KTime, KTime
  | KDate, KDate | KCoord, KCoord | KQty, KQty | KNum, KNum | KGrid, KGrid => true
  | _, _ => false
  end.
Definition all_kinds : list kind :=
  [KNull; KNA; KMarker; KRemove; KList; KDict; KBool; KRef; KBin; KXStr; KUri; KStr; KDateTime; KTime; KDate; KCoord; KQty; KNum; KGrid].

Definition kind_of (v : hval) : kind :=
  match v with
  | VNull => KNull | VNA => KNA | VMarker => KMarker | VRemove => KRemove
  | VBool _ => KBool
  | VNum _ _ _ (Some (_ :: _)) => KQty
  | VNum _ _ _ _ => KNum
  | VStr _ => KStr | VUri _ => KUri | VBin _ => KBin | VRef _ _ => KRef | VXStr _ _ => KXStr
  | VDate _ _ _ => KDate | VTime _ _ _ _ => KTime | VDateTime _ _ _ _ _ _ _ _ _ => KDateTime | VDateTimeRaw _ _ => KDateTime
  | VCoord _ _ => KCoord | VList _ => KList | VDict _ => KDict | VGrid _ _ _ _ => KGrid
  end.

(* a test of the source, by its text (the variable is `val` in grid.py and `scalar` in the dumpers):
   the kinds of value for which it is true.  Python facts used: bool is a subclass of int; Uri and Bin are
   subclasses of str; datetime is a subclass of date; a SortableDict is stored / encoded as a dict. *)
Local Open Scope string_scope.
Definition strip_var (t : string) : string :=
  (* "isinstance(val, X)" / "isinstance(scalar, X)" -> "X";  "val is X" / "scalar is X" -> "is X" *)
  match index 0 "isinstance(val, " t, index 0 "isinstance(scalar, " t with
  | Some O, _ => substring 16 (String.length t - 17) t
  | _, Some O => substring 19 (String.length t - 20) t
  | _, _ => match index 0 "val is " t, index 0 "scalar is " t with
            | Some O, _ => "is " ++ substring 7 (String.length t - 7) t
            | _, Some O => "is " ++ substring 10 (String.length t - 10) t
            | _, _ => t
            end
  end.
Definition test_true_for (t : string) : list kind :=
  let c := strip_var t in
  if String.eqb c "is None" then [KNull]
  else if String.eqb c "is NA" then [KNA]
  else if String.eqb c "is MARKER" then [KMarker]
  else if String.eqb c "is REMOVE" then [KRemove]
  else if String.eqb c "list" then [KList]
  else if String.eqb c "dict" then [KDict]
  else if String.eqb c "SortableDict" then [KDict]
  else if String.eqb c "bool" then [KBool]
  else if String.eqb c "Ref" then [KRef]
  else if String.eqb c "Bin" then [KBin]
  else if String.eqb c "XStr" then [KXStr]
  else if String.eqb c "Uri" then [KUri]
  else if String.eqb c "six.string_types" then [KStr; KUri; KBin]
  else if String.eqb c "datetime.datetime" then [KDateTime]
  else if String.eqb c "datetime.time" then [KTime]
  else if String.eqb c "datetime.date" then [KDate; KDateTime]
  else if String.eqb c "Coordinate" then [KCoord]
  else if String.eqb c "Quantity" then [KQty]
  else if String.eqb t "isinstance(scalar, float) or isinstance(scalar, int) or isinstance(scalar, int)" then [KNum; KBool]
  else if String.eqb c "Grid" then [KGrid]
  else [].
Local Close Scope string_scope.

Definition test_holds (t : string) (k : kind) : bool := existsb (kind_eqb k) (test_true_for t).
(* the branch of an if/elif ladder a value of kind k takes *)
Fixpoint first_branch (ladder : list string) (k : kind) : option string :=
  match ladder with
  | [] => None
  | t :: l => if test_holds t k then Some t else first_branch l k
  end.
Definition mem_string (t : string) (l : list string) : bool := existsb (String.eqb t) l.
(* does the writer refuse a value of kind k under a pre-3.0 version ? *)
Definition ladder_refuses (ladder gated : list string) (k : kind) : bool :=
  match first_branch ladder k with Some t => mem_string t gated | None => false end.

(* Grid._detect_or_validate *)
Definition grid_detects (v : hval) : bool := existsb (fun t => test_holds t (kind_of v)) grid_v3_tests.

(* ---- the grid as far as the gate is concerned ---- *)
Definition tags := list (str * hval).
Record gate := mkGate {
  gver : str ;            (* str(grid.version) *)
  ggiven : bool ;
  gmeta : tags ;
  gcols : list (str * tags) ;
  grows : list tags
}.
Definition V30 : str := [51; 46; 48].

(* _assert_version(VER_3_0) *)
Definition assert_v3 (g : gate) : res gate :=
  do p3 <- pre3_of (gver g);
  if p3 then
    if ggiven g then Raise ValueError
    else Ok (mkGate V30 (ggiven g) (gmeta g) (gcols g) (grows g))
  else Ok g.
Definition detect (g : gate) (v : hval) : res gate := if grid_detects v then assert_v3 g else Ok g.
Fixpoint detect_all (g : gate) (vs : list hval) : res gate :=
  match vs with
  | [] => Ok g
  | v :: vs' => do g' <- detect g v; detect_all g' vs'
  end.

Inductive gate_op :=
| OMetaSet (k : str) (v : hval)                    (* grid.metadata[k] = v *)
| OColMetaSet (c k : str) (v : hval)               (* grid.column[c][k] = v *)
| OColSet (c : str) (m : tags)                     (* grid.column[c] = {raw dict} *)
| OColAdd (c : str) (m : tags)                     (* grid.column.add_item(c, m) - same validator *)
| OAppend (r : tags)
| OInsert (i : Z) (r : tags)
| OSetItem (i : Z) (r : tags)
| OExtend (rs : list tags).

Definition with_state (g : gate) (r : res gate) : gate * res unit :=
  match r with Ok g' => (g', Ok tt) | Raise e => (g, Raise e) end.

Fixpoint append_all (g : gate) (rs : list tags) : gate * res unit :=
  match rs with
  | [] => (g, Ok tt)
  | r :: rs' =>
      match detect_all g (map snd r) with
      | Ok g' => append_all (mkGate (gver g') (ggiven g') (gmeta g') (gcols g') (grows g' ++ [r])) rs'
      | Raise e => (g, Raise e)
      end
  end.

Definition gate_step (g : gate) (o : gate_op) : gate * res unit :=
  match o with
  | OMetaSet k v =>
      with_state g (do g' <- detect g v; Ok (mkGate (gver g') (ggiven g') (dict_set k v (gmeta g')) (gcols g') (grows g')))
  | OColMetaSet c k v =>
      match assoc c (gcols g) with
      | None => (g, Raise KeyError)
      | Some m => with_state g (do g' <- detect g v;
                                Ok (mkGate (gver g') (ggiven g') (gmeta g') (dict_set c (dict_set k v m) (gcols g')) (grows g')))
      end
  | OColSet c m | OColAdd c m =>
      with_state g (do g' <- detect_all g (map snd m);
                    Ok (mkGate (gver g') (ggiven g') (gmeta g') (dict_set c m (gcols g')) (grows g')))
  | OAppend r => append_all g [r]
  | OInsert i r =>
      with_state g (do g' <- detect_all g (map snd r);
                    Ok (mkGate (gver g') (ggiven g') (gmeta g') (gcols g') (py_ins i r (grows g'))))
  | OSetItem i r =>
      (* the values are validated (the version may rise) before the index is looked at *)
      match detect_all g (map snd r) with
      | Raise e => (g, Raise e)
      | Ok g' => match py_set i r (grows g') with
                 | Some l => (mkGate (gver g') (ggiven g') (gmeta g') (gcols g') l, Ok tt)
                 | None => (g', Raise IndexError)
                 end
      end
  | OExtend rs => append_all g rs
  end.

(* Grid(version=..., metadata=..., columns=...) *)
Definition gate_new (ver : option str) : res gate :=
  match ver with
  | None => Ok (mkGate [50; 46; 48] false [] [] [])
  | Some t => do v <- parse_ver t; Ok (mkGate (vstr v) true [] [] [])
  end.

Fixpoint gate_run (g : gate) (ops : list gate_op) : gate :=
  match ops with
  | [] => g
  | o :: ops' => gate_run (fst (gate_step g o)) ops'
  end.

(* every value the grid holds *)
Definition gate_values (g : gate) : list hval :=
  map snd (gmeta g) ++ flat_map (fun c => map snd (snd c)) (gcols g) ++ flat_map (fun r => map snd r) (grows g).

(* ---- wire ---- *)
Definition dec_tags (e : sexp) : option tags :=
  match e with
  | SList l => (fix go (l : list sexp) : option tags :=
                  match l with
                  | [] => Some []
                  | SList [SStr k; v] :: l' => match dec_hval 12 v, go l' with
                                               | Some x, Some r => Some ((k, x) :: r)
                                               | _, _ => None
                                               end
                  | _ => None
                  end) l
  | _ => None
  end.
Local Open Scope string_scope.
Definition dec_gate_op (e : sexp) : option gate_op :=
  match e with
  | SList [h; SStr k; v] =>
      if is_sym "meta" h then match dec_hval 12 v with Some x => Some (OMetaSet k x) | None => None end
      else if is_sym "colset" h then match dec_tags v with Some m => Some (OColSet k m) | None => None end
      else if is_sym "coladd" h then match dec_tags v with Some m => Some (OColAdd k m) | None => None end
      else None
  | SList [h; SStr c; SStr k; v] =>
      if is_sym "colmeta" h then match dec_hval 12 v with Some x => Some (OColMetaSet c k x) | None => None end else None
  | SList [h; r] =>
      if is_sym "append" h then match dec_tags r with Some x => Some (OAppend x) | None => None end
      else if is_sym "extend" h then
        match r with
        | SList l => (fix go (l : list sexp) (acc : list tags) : option gate_op :=
                        match l with
                        | [] => Some (OExtend (rev acc))
                        | x :: l' => match dec_tags x with Some t => go l' (t :: acc) | None => None end
                        end) l []
        | _ => None
        end
      else None
  | SList [h; SInt i; r] =>
      if is_sym "insert" h then match dec_tags r with Some x => Some (OInsert i x) | None => None end
      else if is_sym "setitem" h then match dec_tags r with Some x => Some (OSetItem i x) | None => None end
      else None
  | _ => None
  end.

Definition sgate_obs (g : gate) (r : res unit) : sexp :=
  SList [SStr (gver g); sres (fun _ => sym "none") r;
         SInt (Z.of_nat (List.length (grows g))); sbool (existsb grid_detects (gate_values g))].

(* (gate-run ver-or-none op ...): per step (version, outcome, number of rows, holds a 3.0-only value) *)
Fixpoint gate_trace (g : gate) (ops : list sexp) : list sexp :=
  match ops with
  | [] => []
  | e :: ops' =>
      match dec_gate_op e with
      | None => [bad_request]
      | Some o => let '(g', r) := gate_step g o in sgate_obs g' r :: gate_trace g' ops'
      end
  end.
Definition cmd_gate_run (args : list sexp) : sexp :=
  match args with
  | v :: ops =>
      let ver := if is_sym "none" v then None else match v with SStr t => Some t | _ => None end in
      match gate_new ver with
      | Raise e => sres (fun _ : unit => sym "none") (Raise e)
      | Ok g => SList (gate_trace g ops)
      end
  | _ => bad_request
  end.

(* (gate-kinds): what Grid detects and what each writer refuses, per kind, from the regenerated tables *)
Definition cmd_gate_kinds (_ : list sexp) : sexp :=
  SList (map (fun k => SList [sbool (existsb (fun t => test_holds t k) grid_v3_tests);
                              sbool (ladder_refuses zdump_ladder zdump_gated k);
                              sbool (ladder_refuses jdump_ladder jdump_gated k)]) all_kinds).
