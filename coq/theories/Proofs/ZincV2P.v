(* Version 2.0 grids: the same theorem for the 2.0 scalar alternation and the version gate of the reader *)
From Coq Require Import String.
From Coq Require Import List NArith Bool Lia Arith.
From HS Require Import Base.Prelude Model.Value Model.Escape Model.Version Model.Json Model.ZincParse Model.ZincDump.
From HS Require Import Proofs.PreludeP Proofs.VersionP Proofs.EscapeP Proofs.JsonP Proofs.ZincParseP Proofs.ZincDumpP Proofs.ZincNumP Proofs.ZincDateP Proofs.ZincListP Proofs.ZincGridP.
Import ListNotations.
Open Scope N_scope.

Definition reads2 (g : nat) (v : hval) (txt : str) : Prop :=
  forall rest, delim_ns rest -> p_scalar (S g) false (txt ++ rest) = Some (Ok v, rest).

Lemma reads2_hd g v txt : reads2 g v txt -> exists c t, txt = c :: t /\ ~ In c [44; 10; 13; 32; 93; 125; 62].
Proof.
  intro H. specialize (H [] (or_introl eq_refl)). rewrite app_nil_r in H. destruct txt as [|c t].
  - rewrite scalar_none_nil in H. discriminate.
  - exists c, t. split; [reflexivity|]. intro Hc. rewrite (scalar_none_delim g false c t Hc) in H. discriminate.
Qed.

Lemma cell_reads2 g v t : reads2 g v t -> forall rest, delim_ns rest -> hs_cell (p_scalar (S g) false) (t ++ rest) = Some (Ok v, rest).
Proof.
  intros Hr rest Hd. destruct (reads2_hd g v t Hr) as [c [t' [E _]]]. unfold hs_cell, por. cbn [por_pick].
  rewrite (Hr rest Hd).
  assert (L : Nat.ltb (length rest) (length (t ++ rest)) = true) by (apply Nat.ltb_lt; subst t; rewrite app_length; cbn [length]; lia).
  rewrite L. reflexivity.
Qed.
Lemma cell_hd2 g v t : reads2 g v t -> match t with c :: _ => is_sp c = false | [] => False end.
Proof. intro Hr. destruct (reads2_hd g v t Hr) as [c [t' [E Hc]]]. subst t. exact (proj1 (nosp_hd c Hc)). Qed.

Lemma row_reads2 g v t vs ts r : reads2 g v t -> Forall2 (reads2 g) vs ts ->
  hs_row (p_scalar (S g) false) (join [44] (t :: ts) ++ 10 :: r) = Some (Ok (v :: vs), r).
Proof.
  intros Hv Hvs. unfold hs_row, pbefore, pmap, pand.
  rewrite (g_delimited (hs_cell (p_scalar (S g) false)) 10 (reads2 g) (cell_reads2 g) (cell_hd2 g) lf_ns (sep_stop_lf _) v t vs ts r Hv Hvs).
  assert (E : pthen spaces nl (10 :: r) = Some (Ok tt, r)) by reflexivity. rewrite E. reflexivity.
Qed.
Lemma row_none_nil2 g : hs_row (p_scalar (S g) false) [] = None.
Proof. unfold hs_row, pbefore, pmap, pand, pdelimited, pmap, pand, hs_cell, por. cbn [por_pick]. rewrite scalar_none_nil. reflexivity. Qed.

Definition row_ok2 (g : nat) (cells : list hval) (ts : list str) : Prop := cells <> [] /\ Forall2 (reads2 g) cells ts.
Lemma rows_many2 g : forall rows rts, Forall2 (row_ok2 g) rows rts -> forall fuel, (length rts < fuel)%nat ->
  pmany_fuel fuel (hs_row (p_scalar (S g) false)) (rows_text rts) = (Ok rows, []).
Proof.
  induction 1 as [|cells ts rows rts Hrow Hrest IH]; intros fuel Hf.
  - destruct fuel as [|f]; [cbn in Hf; lia|]. cbn [rows_text map concat pmany_fuel]. rewrite row_none_nil2. reflexivity.
  - destruct fuel as [|f]; [cbn in Hf; lia|]. cbn [rows_text map concat]. fold (rows_text rts).
    destruct Hrow as [Hne Hall]. destruct Hall as [|v t vs ts' Hv Hvs]; [contradiction|].
    rewrite <- app_assoc. cbn [List.app pmany_fuel]. rewrite (row_reads2 g v t vs ts' (rows_text rts) Hv Hvs).
    assert (L : Nat.ltb (length (rows_text rts)) (length (join [44] (t :: ts') ++ 10 :: rows_text rts)) = true).
    { apply Nat.ltb_lt. rewrite app_length. cbn [length]. lia. }
    rewrite L, (IH f) by (cbn in Hf; lia). reflexivity.
Qed.

Definition V20 : str := [50; 46; 48].
Definition header20 : str := (s_ "ver:" ++ DQ :: V20 ++ [DQ; 10])%list.

Lemma header20_reads scalar r : g_grid_meta scalar (header20 ++ r) = Some (Ok (V20, []), r).
Proof.
  unfold g_grid_meta, header20.
  assert (S1 : pthen (plit (s_ "ver:")) p_str ((s_ "ver:" ++ DQ :: V20 ++ [DQ; 10]) ++ r) = Some (Ok V20, 10 :: r)).
  { unfold pthen, pmap, pand.
    assert (L : plit (s_ "ver:") ((s_ "ver:" ++ DQ :: V20 ++ [DQ; 10]) ++ r) = Some (Ok tt, DQ :: V20 ++ DQ :: 10 :: r)) by reflexivity.
    rewrite L. unfold p_str, hs_str.
    rewrite (quoted_roundtrip DQ str_esc_letters false esc_str_char dq_ne dq_32 every_char_str V20 V20 (10 :: r) eq_refl). reflexivity. }
  assert (S2 : pbefore (pmap (fun o : option (list (str * hval)) => match o with Some m => m | None => [] end) (popt (pthen (plit [32]) (g_meta scalar))))
                       (pthen spaces nl) (10 :: r) = Some (Ok [], r)) by reflexivity.
  unfold pand. rewrite S1, S2. reflexivity.
Qed.

Lemma ver20_facts : exists pv, parse_ver V20 = Ok pv /\ pre3_of V20 = Ok true /\ vstr pv = V20.
Proof. eexists. split; [vm_compute; reflexivity|]. split; vm_compute; reflexivity. Qed.

Definition grid_row_ok2 (g : nat) (names : list str) (cells : list hval) (ts : list str) : Prop :=
  length cells = length names /\ Forall2 (reads2 g) cells ts /\ Forall (fun v => is_v3_only v = false) cells.

Lemma existsb_false_forall {A} (f : A -> bool) l : Forall (fun x => f x = false) l -> existsb f l = false.
Proof. induction 1 as [|x l Hx _ IH]; [reflexivity|]. cbn [existsb]. rewrite Hx, IH. reflexivity. Qed.

Lemma no_colmeta_vals (l : list str) : flat_map (fun c : str * list (str * hval) => map snd (snd c)) (map (fun x : str => (x, @nil (str * hval))) l) = [].
Proof. induction l as [|x l IH]; [reflexivity|]. cbn [map flat_map snd List.app]. exact IH. Qed.
Lemma row_vals_ok (names : list str) : forall cells : list hval, length cells = length names -> Forall (fun v => is_v3_only v = false) cells ->
  Forall (fun v => is_v3_only v = false) (map snd (combine names cells)).
Proof.
  induction names as [|x l IH]; intros [|c cells] Hl Hv; cbn in Hl; try discriminate; [constructor|].
  inversion Hv; subst. cbn [combine map snd]. constructor; [assumption|]. apply IH; [lia|assumption].
Qed.

Theorem grid_reads2 g names rows rts :
  names <> [] -> Forall colname names -> NoDup names -> Forall2 (grid_row_ok2 g names) rows rts ->
  p_grid (S (S g)) false (header20 ++ join [44] names ++ 10 :: rows_text rts)
  = Some (Ok (VGrid V20 [] (map (fun n => (n, [])) names) (map (fun cells => combine names cells) rows)), []).
Proof.
  intros Hne Hnames Hnd Hrows. rewrite p_grid_unfold.
  set (sc := p_scalar (S g) false).
  destruct names as [|n ns]; [contradiction|]. inversion Hnames as [|? ? Hn Hns]; subst.
  assert (HC : g_cols sc (join [44] (n :: ns) ++ 10 :: rows_text rts) = Some (Ok (dict_of (map (fun x => (x, [])) (n :: ns))), rows_text rts)).
  { unfold g_cols. cbn [map].
    apply (cols_read (g_meta sc) (n, []) n (map (fun x => (x, [])) ns) ns (rows_text rts)); [split; [exact Hn|reflexivity]|].
    clear -Hns. induction Hns as [|x l Hx _ IH]; cbn [map]; constructor; [split; [exact Hx|reflexivity]|exact IH]. }
  assert (HR : pmany (hs_row sc) (rows_text rts) = Some (Ok rows, [])).
  { unfold pmany. rewrite (rows_many2 g rows rts); [reflexivity| |pose proof (rows_len rts); lia].
    clear -Hrows Hne. induction Hrows as [|cells ts rows rts [Hl [Hc _]] _ IH]; constructor; [|exact IH].
    split; [|exact Hc]. destruct cells; [cbn in Hl; discriminate|discriminate]. }
  unfold pact. unfold pand at 1. rewrite header20_reads. unfold pand. rewrite HC, HR.
  destruct ver20_facts as [pv [PV [P3 VS]]].
  unfold g_action. rewrite PV, P3. cbn [bind]. rewrite VS.
  assert (DC : dict_of (map (fun x : str => (x, @nil (str * hval))) (n :: ns)) = map (fun x => (x, [])) (n :: ns)).
  { apply dict_of_nodup. rewrite map_map. cbn [fst]. rewrite map_id. exact Hnd. }
  rewrite DC.
  assert (MF : map fst (map (fun x : str => (x, @nil (str * hval))) (n :: ns)) = n :: ns) by (rewrite map_map; cbn [fst]; apply map_id).
  rewrite MF.
  assert (RW : map (fun cells => dict_of (combine (n :: ns) cells)) rows = map (fun cells => combine (n :: ns) cells) rows).
  { clear -Hrows Hnd. induction Hrows as [|cells ts rows rts [Hl _] _ IH]; [reflexivity|]. cbn [map]. rewrite IH. f_equal.
    apply dict_of_nodup. rewrite map_fst_combine by (symmetry; exact Hl). exact Hnd. }
  rewrite RW.
  (* the version gate of the reader: no 3.0-only value anywhere *)
  assert (GATE : existsb is_v3_only (map snd (remove_key (s_ "ver") []) ++
                   flat_map (fun c : str * list (str * hval) => map snd (snd c)) (map (fun x : str => (x, [])) (n :: ns)) ++
                   flat_map (fun r : list (str * hval) => map snd r) (map (fun cells => combine (n :: ns) cells) rows)) = false).
  { apply existsb_false_forall. rewrite no_colmeta_vals. cbn [remove_key map List.app].
    clear -Hrows. induction Hrows as [|cells ts rows rts [Hl [_ Hv]] _ IH]; [constructor|]. cbn [map flat_map]. apply Forall_app. split; [|exact IH].
    apply row_vals_ok; assumption. }
  rewrite GATE. reflexivity.
Qed.

(* ---------- the writer, version 2.0 ---------- *)
From HS Require Import Proofs.ZincDictP Proofs.ZincMetaP.

Definition dump_row_ok2 (f : nat) (names : list str) (cells : list hval) (ts : list str) : Prop :=
  length cells = length names /\ Forall2 (fun v t => zdump f true v = Ok t) cells ts.

Theorem grid_dumps2 f names rows rts :
  names <> [] -> NoDup names -> Forall2 (dump_row_ok2 f names) rows rts ->
  zdump_grid (S f) V20 [] (map (fun n => (n, [])) names) (map (fun cells => combine names cells) rows)
  = Ok (header20 ++ join [44] names ++ 10 :: rows_text rts).
Proof.
  intros Hne Hnd Hrows. rewrite zdump_grid_unfold.
  assert (P3 : pre3_of V20 = Ok true) by (vm_compute; reflexivity). rewrite P3. cbn [bind].
  assert (VS : zdump_str V20 = Ok (DQ :: V20 ++ [DQ])) by (vm_compute; reflexivity). rewrite VS. cbn [bind].
  set (cols' := map (fun n : str => (n, @nil (str * hval))) names).
  assert (NK : map fst cols' = names) by (unfold cols'; rewrite map_map; cbn [fst]; apply map_id).
  assert (Ne' : cols' <> []) by (unfold cols'; destruct names; [contradiction|discriminate]).
  rewrite (match_ne' cols' _ _ Ne').
  assert (CS : res_map (dcol f true) cols' = Ok names).
  { unfold cols'. rewrite res_map_map. rewrite <- (map_id names) at 2. apply res_map_gen. intros x _. reflexivity. }
  rewrite CS. cbn [bind].
  assert (RS : res_map (drow f true cols') (map (fun cells => combine names cells) rows) = Ok (map (join [44]) rts)).
  { rewrite res_map_map. clear -Hrows Hnd NK. induction Hrows as [|cells ts rows rts [Hl Hcs] _ IH]; cbn [res_map map]; [reflexivity|].
    unfold drow at 1.
    assert (E : res_map (fun c : str * list (str * hval) => zdump f true (match assoc (fst c) (combine names cells) with Some x => x | None => VNull end)) cols' = Ok ts).
    { rewrite <- (res_map_map fst (fun n : str => zdump f true (match assoc n (combine names cells) with Some x => x | None => VNull end)) cols').
      rewrite NK.
      rewrite <- (res_map_map (fun n : str => match assoc n (combine names cells) with Some x => x | None => VNull end) (zdump f true)).
      rewrite (assoc_combine names cells Hnd Hl). apply res_map_forall2. exact Hcs. }
    rewrite E. cbn [bind]. rewrite IH. reflexivity. }
  rewrite RS. cbn [bind].
  unfold NL1. cbn [List.app]. rewrite join_lines. unfold header20, rows_text. rewrite map_map.
  cbn [List.app]. repeat (rewrite <- app_assoc; cbn [List.app]). reflexivity.
Qed.

(* ---------- round trip of 2.0 grids ---------- *)
(* a 2.0 cell: not a 3.0-only kind, written the same at every fuel under the pre-3.0 rules, read back by the 2.0 alternation *)
Definition cell2 (v : hval) (t : str) : Prop :=
  is_v3_only v = false /\ (forall f, zdump (S f) true v = Ok t) /\ (forall g, reads2 g v t).
Definition grid2_cells_ok (names : list str) (cells : list hval) (ts : list str) : Prop :=
  length cells = length names /\ Forall2 cell2 cells ts.
Definition plain_grid2 (names : list str) (rows : list (list hval)) : hval :=
  VGrid V20 [] (map (fun x => (x, [])) names) (map (fun cells => combine names cells) rows).
Definition plain_text2 (names : list str) (rts : list (list str)) : str := (header20 ++ join [44] names ++ 10 :: rows_text rts)%list.

Theorem grid2_roundtrip names rows rts :
  names <> [] -> Forall colname names -> NoDup names -> Forall2 (grid2_cells_ok names) rows rts ->
  (forall f, zdump_grid (S (S f)) V20 [] (map (fun x => (x, [])) names) (map (fun cells => combine names cells) rows) = Ok (plain_text2 names rts)) /\
  zparse_grid (plain_text2 names rts) = Ok (plain_grid2 names rows).
Proof.
  intros Hne Hcn Hnd Hrows. split.
  - intro f. apply grid_dumps2; [exact Hne|exact Hnd|].
    clear -Hrows. induction Hrows as [|cells ts rows rts [Hl Hc] _ IH]; constructor; [|exact IH]. split; [exact Hl|].
    clear -Hc. induction Hc as [|v t vs ts [_ [D _]] _ IH]; constructor; [apply D|exact IH].
  - unfold zparse_grid.
    assert (SV : sniff_version (plain_text2 names rts) = Some V20) by reflexivity. rewrite SV.
    assert (P3 : pre3_of V20 = Ok true) by (vm_compute; reflexivity). rewrite P3. cbn [negb].
    unfold plain_text2. rewrite (grid_reads2 (length (header20 ++ join [44] names ++ 10 :: rows_text rts)) names rows rts Hne Hcn Hnd); [reflexivity|].
    clear -Hrows. induction Hrows as [|cells ts rows rts [Hl Hc] _ IH]; constructor; [|exact IH]. split; [exact Hl|]. split.
    + clear -Hc. induction Hc as [|v t vs ts [_ [_ R]] _ IH]; constructor; [apply R|exact IH].
    + clear -Hc. induction Hc as [|v t vs ts [V _] _ IH]; constructor; [exact V|exact IH].
Qed.

(* the 2.0 leaves *)
Lemma cell2_str s e : escape_str s = Ok e -> cell2 (VStr s) (DQ :: e ++ [DQ]).
Proof.
  intro He. split; [reflexivity|]. split.
  - intro f. cbn [zdump]. unfold zdump_str. rewrite He. reflexivity.
  - intros g rest _. cbn [List.app]. rewrite <- app_assoc. cbn [List.app]. apply scalar_str. exact He.
Qed.
Lemma cell2_uri s e : escape_uri s = Ok e -> cell2 (VUri s) (BQ :: e ++ [BQ]).
Proof.
  intro He. split; [reflexivity|]. split.
  - intro f. cbn [zdump]. unfold zdump_uri. rewrite He. reflexivity.
  - intros g rest _. cbn [List.app]. rewrite <- app_assoc. cbn [List.app]. apply scalar_uri. exact He.
Qed.
Lemma cell2_number sg ip fp ex u : ntok_ok sg ip fp ex u -> cell2 (nval sg ip fp ex u) (mant sg ip fp ex ++ upt u).
Proof.
  intro Hok. split; [reflexivity|]. split.
  - intro f. unfold nval. cbn [zdump znum_text]. destruct u as [[|c u']|]; cbn [upt]; [|reflexivity|rewrite app_nil_r; reflexivity].
    destruct Hok as [_ [_ [_ [[Hne _] _]]]]. contradiction.
  - intros g rest Hd. rewrite <- app_assoc. apply scalar_number; [exact Hok|apply delim_ns_delim; exact Hd].
Qed.
Lemma cell2_date y m d : valid_date y m d = true -> cell2 (VDate y m d) (iso_date y m d).
Proof. intro Hv. split; [reflexivity|]. split; [intro f; reflexivity|]. intros g rest Hd. apply scalar_date; [exact Hv|apply delim_ns_delim; exact Hd]. Qed.
Lemma cell2_time h mi s us : time_ok h mi s us -> cell2 (VTime h mi s us) (iso_time h mi s us).
Proof. intro Hv. split; [reflexivity|]. split; [intro f; reflexivity|]. intros g rest Hd. apply scalar_time; [exact Hv|apply delim_ns_delim; exact Hd]. Qed.
Lemma cell2_null : cell2 VNull [78].
Proof. split; [reflexivity|]. split; [intro f; reflexivity|]. intros g rest Hd. apply scalar_null. apply delim_ns_delim; exact Hd. Qed.
Lemma cell2_marker : cell2 VMarker [77].
Proof. split; [reflexivity|]. split; [intro f; reflexivity|]. intros g rest Hd. apply scalar_marker. apply delim_ns_delim; exact Hd. Qed.
Lemma cell2_remove : cell2 VRemove [82].
Proof. split; [reflexivity|]. split; [intro f; reflexivity|]. intros g rest Hd. apply scalar_remove. apply delim_ns_delim; exact Hd. Qed.
Lemma cell2_bool b : cell2 (VBool b) [if b then 84 else 70].
Proof. split; [reflexivity|]. split; [intro f; reflexivity|]. intros g rest Hd. destruct b; [apply scalar_true|apply scalar_false]; apply delim_ns_delim; exact Hd. Qed.
Lemma cell2_ref name : Forall (fun c => is_zref_char c = true) name -> cell2 (VRef name None) (64 :: name).
Proof. intro Hn. split; [reflexivity|]. split; [intro f; reflexivity|]. intros g rest Hd. cbn [List.app]. apply scalar_ref_plain; assumption. Qed.
