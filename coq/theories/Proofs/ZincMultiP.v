(* Documents of several grids through parser.parse of the ZINC reader model *)
From Coq Require Import String.
From Coq Require Import List NArith Bool Lia Arith.
From HS Require Import Base.Prelude Model.Value Model.Escape Model.Version Model.Json Model.ZincParse.
From HS Require Import Proofs.ZincParseP Proofs.ZincDocP.
Import ListNotations.
Open Scope N_scope.

(* a chunk body: non-empty, not ending in a line feed, no empty line once its final line feed is added *)
Definition body_ok (s : str) : Prop := s <> [] /\ (last s 0 =? 10) = false /\ no_adj (s ++ [10]) = true /\ (match s with c :: _ => (c =? 10) = false | [] => True end).

Lemma no_adj_tail c t : no_adj (c :: t) = true -> no_adj t = true.
Proof. destruct t as [|b t']; [reflexivity|]. cbn [no_adj]. intro H. apply andb_true_iff in H. exact (proj2 H). Qed.

(* reading a body and the blank line after it closes a chunk *)
Lemma split_body : forall s cur a rest, s <> [] -> (last s 0 =? 10) = false -> no_adj (s ++ [10]) = true ->
  (a = true -> match s with c :: _ => (c =? 10) = false | [] => True end) ->
  split_grids_from cur a false (s ++ 10 :: 10 :: rest) = (rev cur ++ s ++ [10])%list :: split_grids_from [] true true rest.
Proof.
  induction s as [|c s IH]; intros cur a rest Hne Hl Hn Ha; [contradiction|].
  cbn [List.app split_grids_from].
  destruct s as [|d s'].
  - (* the last character of the body *)
    cbn [last] in Hl. rewrite Hl. cbn [List.app split_grids_from N.eqb Pos.eqb]. cbn [rev]. rewrite <- app_assoc. reflexivity.
  - assert (Hn' : no_adj ((d :: s') ++ [10]) = true) by (apply (no_adj_tail c); exact Hn).
    assert (Hl' : (last (d :: s') 0 =? 10) = false) by exact Hl.
    destruct (c =? 10) eqn:Ec.
    + destruct a; [specialize (Ha eq_refl); cbn in Ha; congruence|].
      rewrite (IH (c :: cur) true rest ltac:(discriminate) Hl' Hn').
      * cbn [rev]. rewrite <- !app_assoc. reflexivity.
      * intros _. cbn [List.app no_adj] in Hn. apply andb_true_iff in Hn. destruct Hn as [Hn _]. rewrite Ec in Hn. cbn [andb] in Hn.
        destruct (d =? 10); [discriminate|reflexivity].
    + rewrite (IH (c :: cur) false rest ltac:(discriminate) Hl' Hn'); [|discriminate]. cbn [rev]. rewrite <- !app_assoc. reflexivity.
Qed.

Lemma skip_start c t : (c =? 10) = false -> split_grids_from [] true true (c :: t) = split_grids_from [c] false false t.
Proof. intro H. cbn [split_grids_from]. rewrite H. reflexivity. Qed.

Fixpoint doc_text (bodies : list str) : str :=
  match bodies with
  | [] => []
  | [s] => (s ++ [10])%list
  | s :: rest => (s ++ 10 :: 10 :: doc_text rest)%list
  end.

Lemma split_doc : forall bodies, bodies <> [] -> Forall body_ok bodies ->
  forall cur a, (a = true -> match bodies with (c :: _) :: _ => (c =? 10) = false | _ => True end) ->
  split_grids_from cur a false (doc_text bodies) = match bodies with
                                                    | s :: rest => (rev cur ++ s ++ [10])%list :: map (fun b => b ++ [10])%list rest
                                                    | [] => []
                                                    end.
Proof.
  induction bodies as [|s rest IH]; intros Hne Hall cur a Ha; [contradiction|].
  inversion Hall as [|? ? [Hs1 [Hs2 [Hs3 Hs4]]] Hrest]; subst. destruct rest as [|s2 rest'].
  - cbn [doc_text map]. rewrite (split_one (s ++ [10]) cur a Hs3).
    + reflexivity.
    + intro E. specialize (Ha E). destruct s; [contradiction|exact Ha].
  - change (doc_text (s :: s2 :: rest')) with (s ++ 10 :: 10 :: doc_text (s2 :: rest'))%list.
    rewrite (split_body s cur a (doc_text (s2 :: rest')) Hs1 Hs2 Hs3).
    + f_equal. inversion Hrest as [|? ? [H21 [H22 [H23 H24]]] _]; subst. destruct s2 as [|c s2']; [contradiction|].
      assert (Ex : exists t', doc_text ((c :: s2') :: rest') = c :: t') by (destruct rest'; eexists; reflexivity).
      destruct Ex as [t' Et].
      transitivity (split_grids_from [] false false (doc_text ((c :: s2') :: rest'))).
      * unfold str in *. rewrite !Et. rewrite (skip_start c t' H24). cbn [split_grids_from]. rewrite H24. reflexivity.
      * exact (IH ltac:(discriminate) Hrest [] false ltac:(discriminate)).
    + intro E. specialize (Ha E). destruct s; [contradiction|exact Ha].
Qed.

Definition nonblank_hd (s : str) : Prop :=
  match s with c :: _ => negb ((c =? 32) || ((9 <=? c) && (c <=? 13)) || ((28 <=? c) && (c <=? 31)) || (c =? 133) || (c =? 160)
                    || (c =? 5760) || ((8192 <=? c) && (c <=? 8202)) || (c =? 8232) || (c =? 8233) || (c =? 8239)
                    || (c =? 8287) || (c =? 12288)) = true | [] => False end.

Lemma last_cons_ne {A} (x : A) l d : l <> [] -> last (x :: l) d = last l d.
Proof. destruct l; [contradiction|reflexivity]. Qed.
Lemma last_app_ne {A} (a b : list A) d : b <> [] -> last (a ++ b) d = last b d.
Proof.
  intro H. induction a as [|x a IH]; [reflexivity|]. cbn [List.app]. rewrite last_cons_ne; [exact IH|].
  destruct a; [exact H|discriminate].
Qed.

Lemma doc_text_norm : forall bodies, bodies <> [] -> Forall body_ok bodies -> norm_trailing (doc_text bodies) = doc_text bodies.
Proof.
  intros bodies Hne Hall.
  assert (E : exists t, doc_text bodies = (t ++ [10])%list /\ t <> [] /\ (last t 0 =? 10) = false).
  { induction bodies as [|s rest IH]; [contradiction|]. inversion Hall as [|? ? [Hs1 [Hs2 _]] Hrest]; subst.
    destruct rest as [|s2 rest'].
    - exists s. cbn [doc_text]. repeat split; assumption.
    - destruct (IH ltac:(discriminate) Hrest) as [t [Et [Hn Hl]]].
      exists (s ++ 10 :: 10 :: t)%list. change (doc_text (s :: s2 :: rest')) with (s ++ 10 :: 10 :: doc_text (s2 :: rest'))%list.
      rewrite Et. split; [rewrite <- app_assoc; reflexivity|]. split; [destruct s; discriminate|].
      change (s ++ 10 :: 10 :: t)%list with (s ++ (10 :: 10 :: t))%list. rewrite (last_app_ne s (10 :: 10 :: t) 0 ltac:(discriminate)).
      cbn [last]. destruct t; [contradiction|exact Hl]. }
  destruct E as [t [Et [Hn Hl]]]. rewrite Et. unfold norm_trailing.
  rewrite strip_trailing_nls_app_nl, (strip_keep t Hn Hl). destruct t; [contradiction|reflexivity].
Qed.

(* a document of several grids: the chunks are the grid texts, in order *)
Theorem doc_multi : forall bodies gs, bodies <> [] -> Forall body_ok bodies -> Forall nonblank_hd bodies ->
  Forall2 (fun b g => zparse_grid (b ++ [10]) = Ok g) bodies gs ->
  zparse_doc (doc_text bodies) = Ok gs.
Proof.
  intros bodies gs Hne Hall Hnb Hg. unfold zparse_doc. rewrite (doc_text_norm bodies Hne Hall). unfold split_grids.
  rewrite (split_doc bodies Hne Hall [] false ltac:(discriminate)).
  assert (G : forall l, Forall nonblank_hd l -> forall gl, Forall2 (fun b g => zparse_grid (b ++ [10]) = Ok g) l gl ->
              (fix go (l0 : list str) : res (list hval) := match l0 with [] => Ok [] | c :: l' => do g <- zparse_grid c; do r <- go l'; Ok (g :: r) end)
                (filter (fun c => negb (is_blank_chunk c)) (map (fun b : str => (b ++ [10])%list) l)) = Ok gl).
  { clear. intros l Hnb gl Hg. induction Hg as [|b g bodies gs Hbg _ IH]; [reflexivity|].
    inversion Hnb as [|? ? Hb Hnb']; subst. cbn [map filter].
    assert (B : is_blank_chunk (b ++ [10]) = false).
    { destruct b as [|c b']; [contradiction|]. cbn [List.app is_blank_chunk forallb]. unfold nonblank_hd in Hb. apply negb_true_iff in Hb. rewrite Hb. reflexivity. }
    rewrite B. cbn [negb]. rewrite Hbg. cbn [bind]. rewrite (IH Hnb'). reflexivity. }
  destruct bodies as [|s rest]; [contradiction|]. exact (G (s :: rest) Hnb gs Hg).
Qed.

(* the writer joins the grid texts with a line feed: that is doc_text *)
From HS Require Import Model.ZincDump Proofs.ZincDumpP.
Lemma join_doc_text : forall bodies, join NL1 (map (fun b : str => (b ++ [10])%list) bodies) = doc_text bodies.
Proof.
  induction bodies as [|s rest IH]; [reflexivity|]. destruct rest as [|s2 rest'].
  - reflexivity.
  - change (map (fun b : str => (b ++ [10])%list) (s :: s2 :: rest')) with ((s ++ [10])%list :: (s2 ++ [10])%list :: map (fun b : str => (b ++ [10])%list) rest').
    rewrite join_cons_cons.
    change ((s2 ++ [10])%list :: map (fun b : str => (b ++ [10])%list) rest') with (map (fun b : str => (b ++ [10])%list) (s2 :: rest')).
    rewrite IH. unfold NL1.
    change (doc_text (s :: s2 :: rest')) with (s ++ 10 :: 10 :: doc_text (s2 :: rest'))%list.
    rewrite <- app_assoc. reflexivity.
Qed.

Theorem doc_roundtrip : forall gs bodies, bodies <> [] -> Forall body_ok bodies -> Forall nonblank_hd bodies ->
  Forall2 (fun g b => zdump_top g = Ok (b ++ [10])%list) gs bodies ->
  Forall2 (fun b g => zparse_grid (b ++ [10]) = Ok g) bodies gs ->
  exists t, zdump_doc gs = Ok t /\ zparse_doc t = Ok gs.
Proof.
  intros gs bodies Hne Hall Hnb Hd Hp. exists (doc_text bodies). split; [|apply doc_multi; assumption].
  unfold zdump_doc.
  assert (E : res_map zdump_top gs = Ok (map (fun b : str => (b ++ [10])%list) bodies)).
  { clear -Hd. induction Hd as [|g b gs bodies Hgb _ IH]; [reflexivity|]. cbn [res_map map]. rewrite Hgb. cbn [bind]. rewrite IH. reflexivity. }
  rewrite E. cbn [bind]. rewrite join_doc_text. reflexivity.
Qed.
