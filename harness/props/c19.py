"""C19 - equality of Haystack values and grids is a lawful, kind-aware relation.

Theorems: coq/theories/Props/C19.v (Model/Eq.v: per-class __eq__/__ne__/__hash__
under Python's rich-comparison protocol, Grid._approx_check, Grid.__eq__).
Tie: all ordered pairs of a catalogue covering every value kind x boundary
payloads: model vs the real objects for ==, !=, _approx_check, hash; and the
property itself on the implementation (reflexive, symmetric, complementary,
never raising except for Quantities of different units, kind-aware, hash law,
singletons under copy/deepcopy, grid copies equal, materially different grids
unequal and never an exception)."""
import copy
import datetime
import math
import random

from common import Sym

COMPONENTS = []


def enc_num(x):
    if isinstance(x, bool):
        raise AssertionError
    if isinstance(x, int):
        return [Sym('fin'), x, 0, False]
    if math.isnan(x):
        return Sym('nan')
    if math.isinf(x):
        return [Sym('inf'), x < 0]
    m, e = math.frexp(x)
    return [Sym('fin'), int(m * (1 << 53)), e - 53, True]


class Enc:
    def __init__(self, hszinc):
        self.h = hszinc
        self.tzs = []

    def tzid(self, tz):
        for i, t in enumerate(self.tzs):
            if t == tz:
                return i
        self.tzs.append(tz)
        return len(self.tzs) - 1

    def opt(self, s):
        return Sym('none') if s is None else [s]

    def enc(self, v):
        h = self.h
        if v is None:
            return Sym('none')
        if v is h.MARKER:
            return Sym('marker')
        if v is h.NA:
            return Sym('na')
        if v is h.REMOVE:
            return Sym('remove')
        if isinstance(v, bool):
            return [Sym('bool'), v]
        if isinstance(v, (int, float)):
            return [Sym('num'), enc_num(v)]
        if isinstance(v, h.Uri):
            return [Sym('uri'), str(v)]
        if isinstance(v, h.Bin):
            return [Sym('bin'), str(v)]
        if isinstance(v, str):
            return [Sym('str'), v]
        if isinstance(v, h.Ref):
            return [Sym('ref'), v.name, self.opt(v.value), bool(v.has_value)]
        if isinstance(v, h.XStr):
            if isinstance(v.data, (bytes, bytearray)):
                return [Sym('xbytes'), v.encoding, list(v.data)]
            return [Sym('xtext'), v.encoding, v.data]
        if isinstance(v, h.Quantity):
            return [Sym('qty'), enc_num(v.value), self.opt(v.unit)]
        if isinstance(v, h.Coordinate):
            return [Sym('coord'), enc_num(v.latitude), enc_num(v.longitude)]
        if isinstance(v, datetime.datetime):
            off = v.utcoffset()
            us = ((v.hour * 60 + v.minute) * 60 + v.second) * 1000000 + v.microsecond
            return [Sym('dt'), v.toordinal(), us, Sym('none') if off is None else int(off.total_seconds()),
                    self.tzid(v.tzinfo)]
        if isinstance(v, datetime.date):
            return [Sym('date'), v.toordinal()]
        if isinstance(v, datetime.time):
            us = ((v.hour * 60 + v.minute) * 60 + v.second) * 1000000 + v.microsecond
            off = v.utcoffset()
            if off is not None:
                us -= int(off.total_seconds()) * 1000000
            return [Sym('time'), us, off is not None]
        if isinstance(v, list):
            return [Sym('list')] + [self.enc(x) for x in v]
        if isinstance(v, dict):
            return [Sym('dict')] + [[k, self.enc(x)] for k, x in v.items()]
        raise AssertionError('cannot encode %r' % (v,))

    def enc_grid(self, g):
        return [[[k, self.enc(v)] for k, v in g.metadata.items()],
                [[c, [[k, self.enc(v)] for k, v in m.items()]] for c, m in g.column.items()],
                [[[k, self.enc(v)] for k, v in row.items()] for row in g]]


def catalogue(h):
    import pytz
    Q, C, R, X = h.Quantity, h.Coordinate, h.Ref, h.XStr
    paris = pytz.timezone('Europe/Paris')
    ny = pytz.timezone('America/New_York')
    utc = pytz.utc
    t0 = datetime.datetime(2020, 6, 1, 12, 0, 0)
    vals = [
        None, h.MARKER, h.NA, h.REMOVE, True, False,
        0, 1, -1, 2, 2 ** 70, 0.0, -0.0, 1.0, 0.5, 1.0000004, 1.000002, 1e308, float('inf'), float('-inf'), float('nan'),
        # large numbers: the tolerance is absolute (1e-6), never relative
        4096.0, 4096.000002, 4096.0000004, 1234567.0, 1234567.001, 1e15, 1e15 + 1, 1592000000000, 1592000000001.0, -1e9, -1e9 - 0.5,
        Q(4096.0, 'kW'), Q(4096.000002, 'kW'), C(1234.0, 2.0), C(1234.000002, 2.0),
        's', '', 'n:1', 'S', h.Uri('s'), h.Uri(''), h.Uri('t'), h.Bin('s'), h.Bin(''), h.Bin('text/plain'),
        R('s'), R('s', 'Dis'), R('s', ''), R('s', None, True), R('t'), R('s', 's'),
        X('hex', 'deadbeef'), X('b64', '3q2+7w=='), X('hex', ''), X('foo', 'deadbeef'), X('foo', 's'), X('bar', 's'),
        Q(1, 'kg'), Q(1.0, 'kg'), Q(1, 'm'), Q(1, None), Q(1, ''), Q(2, 'kg'), Q(float('nan'), 'kg'), Q(1.0000004, 'kg'), Q(0, 'kg'),
        C(1.0, 2.0), C(1, 2), C(2.0, 1.0), C(1.0000004, 2.0), C(0.0, 0.0),
        datetime.date(2020, 6, 1), datetime.date(2020, 6, 2),
        datetime.time(12, 0, 0), datetime.time(12, 0, 0, 500000), datetime.time(12, 0, 1),
        datetime.time(12, 0, 0, tzinfo=datetime.timezone.utc),
        paris.localize(t0), utc.localize(t0 - datetime.timedelta(hours=2)), ny.localize(t0 - datetime.timedelta(hours=6)),
        paris.localize(t0 + datetime.timedelta(microseconds=400000)), paris.localize(datetime.datetime(2020, 1, 1, 12)),
        t0, datetime.datetime(2020, 6, 1, 12, 0, 0, tzinfo=datetime.timezone(datetime.timedelta(hours=2))),
        [], [1], [1.0], [1, 's'], ['s', h.Uri('s')], [[1], []], [Q(1, 'kg')], [Q(1, 'm')], [None, h.MARKER],
        {}, {'a': 1}, {'a': 1.0}, {'a': 1, 'b': 's'}, {'b': 's', 'a': 1}, {'a': [1]}, {'a': h.Uri('s')},
    ]
    return vals


def attempt(f, *a):
    try:
        return ['ok', bool(f(*a))]
    except Exception as e:  # noqa
        return ['raise', type(e).__name__]


def nan_inside(v, h):
    if isinstance(v, float):
        return math.isnan(v)
    if isinstance(v, h.Quantity):
        return nan_inside(v.value, h)
    if isinstance(v, h.Coordinate):
        return nan_inside(v.latitude, h) or nan_inside(v.longitude, h)
    if isinstance(v, list):
        return any(nan_inside(x, h) for x in v)
    if isinstance(v, dict):
        return any(nan_inside(x, h) for x in v.values())
    return False


def kind(v, h):
    for name, t in (('uri', h.Uri), ('bin', h.Bin), ('str', str), ('bool', bool), ('num', (int, float)),
                    ('ref', h.Ref), ('xstr', h.XStr), ('qty', h.Quantity), ('coord', h.Coordinate),
                    ('datetime', datetime.datetime), ('date', datetime.date), ('time', datetime.time),
                    ('list', list), ('dict', dict)):
        if isinstance(v, t):
            return name
    return repr(v)


def mres(m):
    if m[0] == 'raise':
        return ['raise', m[1]]
    return ['ok', m[1] == 'true']


def run(ctx):
    import hszinc as h
    import operator
    from hszinc.grid import Grid
    rng = random.Random(ctx.seed)
    enc = Enc(h)
    vals = catalogue(h)
    # plus random scalars of every kind (payloads from the codec generators: all code points, boundary floats, zones)
    import codec
    thorough = ctx.tier == 'thorough' or ctx.escalate
    vals = vals + [codec.gen_scalar(rng, False) for _ in range(160 if thorough else 30)]
    n = len(vals)
    ctx.coverage['rule'] = ('all ordered pairs of %d values: a catalogue covering every kind x boundary payloads and random scalars of every kind (30 quick / 160 thorough); (equal text across str/Uri/Bin, '
                            'int/float/bool payloads, NaN, +-0.0, units None/""/kg/m, Ref with/without/empty display, XStr hex/b64 of the same bytes, '
                            'dates/times/date-times in three zones with equal instants, nested lists/dicts), for ==, !=, _approx_check and hash; '
                            'all pairs of small grids differing in exactly one position; a pair is non-trivial when the operands are different objects' % n)
    answers = ctx.model.ask([[Sym('eq-pairs')] + [enc.enc(v) for v in vals], [Sym('eq-hash')] + [enc.enc(v) for v in vals]])
    pairs, hkeys = answers
    corr = False
    nontriv = 0
    for i, a in enumerate(vals):
        for j, b in enumerate(vals):
            ctx.coverage['evaluations'] += 1
            if i != j:
                nontriv += 1
            eq, ne = attempt(operator.eq, a, b), attempt(operator.ne, a, b)
            ap = attempt(Grid._approx_check, a, b)
            desc = '%r vs %r' % (a, b)
            rep = {'a': repr(a), 'b': repr(b), 'i': i, 'j': j}
            # ---- the property on the implementation
            prob = None
            both_qty_diff = isinstance(a, h.Quantity) and isinstance(b, h.Quantity) and a.unit != b.unit
            if eq[0] == 'raise' or ne[0] == 'raise':
                nested_units = ('Quantity' in repr(a) and 'Quantity' in repr(b))
                if not ((both_qty_diff or nested_units) and eq == ['raise', 'TypeError'] and ne == ['raise', 'TypeError']):
                    prob = '== / != raised: %r / %r' % (eq, ne)
            else:
                if both_qty_diff:
                    prob = 'Quantities with different units compared without TypeError'
                elif eq[1] == ne[1]:
                    prob = '== is %s and != is %s' % (eq[1], ne[1])
                elif i == j and not nan_inside(a, h) and not eq[1]:
                    prob = 'a value is not equal to itself'
            if prob is None:
                rev = attempt(operator.eq, b, a)
                if rev != eq:
                    prob = '== is not symmetric: %r one way, %r the other' % (eq, rev)
            ka, kb = kind(a, h), kind(b, h)
            if prob is None and {ka, kb} <= {'str', 'uri', 'bin'} and ka != kb and str(a) == str(b) and eq != ['ok', False]:
                prob = 'text-like values of different kinds compare equal'
            if prob is None and ka == kb and eq == ['ok', True]:
                try:
                    ha, hb = hash(a), hash(b)
                    if ha != hb:
                        prob = 'equal values of one kind hash differently'
                except TypeError:
                    pass
            if prob:
                ctx.violation('impl-counterexample', '%s: %s' % (desc, prob), rep)
                return
            # ---- correspondence
            m_eq, m_ne, m_ap = (mres(x) for x in pairs[i][j])
            if i == j and nan_inside(a, h):
                continue      # an object compared with itself: identity shortcuts inside containers are not modelled
            if (m_eq, m_ne, m_ap) != (eq, ne, ap) and not corr:
                ctx.violation('correspondence-broken', '%s: model ==,!=,approx = %r %r %r, implementation %r %r %r'
                              % (desc, m_eq, m_ne, m_ap, eq, ne, ap), dict(rep, component='Eq model'))
                corr = True
    # hash keys: equal model keys <=> equal hashes (same kind), unhashable <=> TypeError
    for i, a in enumerate(vals):
        try:
            hash(a)
            hashable = True
        except TypeError:
            hashable = False
        if (hkeys[i] == 'unhashable') == hashable and not corr:
            ctx.violation('correspondence-broken', 'hash(%r): model %r, implementation hashable=%s' % (a, hkeys[i], hashable),
                          {'component': 'hash_key', 'a': repr(a)})
            corr = True
    for i, a in enumerate(vals):
        for j, b in enumerate(vals):
            # (CPython >= 3.10 hashes a NaN by identity: two NaN objects are unequal and may hash differently)
            if i != j and (nan_inside(a, h) or nan_inside(b, h)):
                continue
            if hkeys[i] != 'unhashable' and hkeys[j] != 'unhashable' and hkeys[i] == hkeys[j] and hash(a) != hash(b) and not corr:
                ctx.violation('correspondence-broken', 'hash keys of %r and %r are equal in the model, hashes differ' % (a, b),
                              {'component': 'hash_key'})
                corr = True
    # singletons
    for s in (h.MARKER, h.NA, h.REMOVE):
        ctx.coverage['evaluations'] += 1
        if copy.copy(s) is not s or copy.deepcopy(s) is not s or copy.deepcopy([s])[0] is not s or copy.deepcopy({'a': s})['a'] is not s:
            ctx.violation('impl-counterexample', 'singleton %r is duplicated by copy/deepcopy' % s, {'a': repr(s)})
            return
    ctx.coverage['distinct_nontrivial'] = nontriv
    ctx.sample({'values': [repr(v) for v in vals[20:32]]})
    # ------------------------------------------------------------------ grids
    if not grids(ctx, h, enc, rng, corr):
        return
    ctx.coverage['traces_validated_against_impl'] = ctx.coverage['evaluations']
    ctx.coverage['exhaustive'] = True


def build_grid(h, meta, cols, rows, version='3.0'):
    g = h.Grid(version=version, metadata=meta, columns=cols)
    for r in rows:
        g.append(dict(r))
    return g


def grids(ctx, h, enc, rng, corr):
    import pytz
    Q, C = h.Quantity, h.Coordinate
    cells = [1, 1.0, 1.0000004, 1.5, 4096.0, 4096.000002, 1234567.0, 1234567.001, 1e15, 1e15 + 1, True, 's', h.Uri('s'), h.Bin('s'), h.Ref('s'), h.Ref('s', 'd'), Q(1, 'kg'), Q(1.0000004, 'kg'), Q(1, 'm'),
             C(1.0, 2.0), C(1.0000004, 2.0), C(1.1, 2.0), datetime.date(2020, 1, 1), datetime.time(1, 2, 3), datetime.time(1, 2, 3, 400000),
             pytz.utc.localize(datetime.datetime(2020, 1, 1)), None, h.MARKER, h.NA, [1], {'a': 1}, h.XStr('hex', '00'), float('inf')]
    base_meta = {'m': 's'}
    base_cols = [('a', {'cm': 1}), ('b', {})]
    variants = []
    for v in cells:
        variants.append(('cell', base_meta, base_cols, [{'a': v, 'b': 2}, {'a': 3}]))
        variants.append(('meta', {'m': v}, base_cols, [{'a': 1, 'b': 2}]))
        variants.append(('colmeta', base_meta, [('a', {'cm': v}), ('b', {})], [{'a': 1, 'b': 2}]))
    variants.append(('rowcount', base_meta, base_cols, [{'a': 1, 'b': 2}]))
    variants.append(('rowcount', base_meta, base_cols, [{'a': 1, 'b': 2}, {'a': 1, 'b': 2}]))
    variants.append(('colname', base_meta, [('a', {'cm': 1}), ('c', {})], [{'a': 1, 'b': 2}]))
    variants.append(('metaname', {'n': 's'}, base_cols, [{'a': 1, 'b': 2}]))
    variants.append(('colmetaname', base_meta, [('a', {'cn': 1}), ('b', {})], [{'a': 1, 'b': 2}]))
    variants.append(('colmetaname', base_meta, [('a', {'cm': 1, 'cn': 1}), ('b', {})], [{'a': 1, 'b': 2}]))
    variants.append(('empty', {}, [('a', {})], []))
    gs = [(tag, build_grid(h, m, c, r)) for tag, m, c, r in variants]
    cmds = []
    index = []
    for i, (ta, ga) in enumerate(gs):
        for j, (tb, gb) in enumerate(gs):
            cmds.append([Sym('grid-eq'), enc.enc_grid(ga), enc.enc_grid(gb)])
            index.append((i, j))
    answers = ctx.model.ask_parallel(cmds)
    import operator
    for (i, j), m in zip(index, answers):
        ga, gb = gs[i][1], gs[j][1]
        ctx.coverage['evaluations'] += 1
        eq, ne = attempt(operator.eq, ga, gb), attempt(operator.ne, ga, gb)
        desc = 'grid %d (%s) vs grid %d (%s)' % (i, gs[i][0], j, gs[j][0])
        rep = {'grid_a': repr(variants[i][1:]), 'grid_b': repr(variants[j][1:])}
        if eq[0] == 'raise' or ne[0] == 'raise':
            ctx.violation('impl-counterexample', '%s: comparing grids raised %r / %r' % (desc, eq, ne), rep)
            return False
        if eq[1] == ne[1]:
            ctx.violation('impl-counterexample', '%s: == is %s and != is %s' % (desc, eq[1], ne[1]), rep)
            return False
        if i == j and not eq[1] and 'nan' not in repr(variants[i]):
            ctx.violation('impl-counterexample', '%s: a grid is not equal to itself' % desc, rep)
            return False
        cp = copy.deepcopy(ga)
        if i == j and not (ga == cp):
            ctx.violation('impl-counterexample', '%s: a grid is not equal to its deep copy' % desc, rep)
            return False
        if mres(m) != eq and not corr:
            ctx.violation('correspondence-broken', '%s: model grid_eq %r, implementation %r' % (desc, mres(m), eq),
                          dict(rep, component='grid_eq'))
            corr = True
    # materially different grids must be unequal: kinds differ or content differs beyond the tolerance
    def material(a, b):
        ka, kb = kind(a, h), kind(b, h)
        return ka != kb and not ({ka, kb} <= {'num'})
    byslot = {}
    for idx, (tag, m, c, r) in enumerate(variants[:3 * len(cells)]):
        byslot.setdefault(tag, []).append((cells[idx // 3], gs[idx][1]))
    for tag, lst in byslot.items():
        for (va, ga) in lst:
            for (vb, gb) in lst:
                ctx.coverage['evaluations'] += 1
                if material(va, vb) and ga == gb:
                    ctx.violation('impl-counterexample', 'grids whose %s holds %r vs %r (different kinds) compare equal' % (tag, va, vb),
                                  {'slot': tag, 'a': repr(va), 'b': repr(vb)})
                    return False
    # a grid equals its own round trip
    for mode in (h.MODE_ZINC, h.MODE_JSON):
        for tag, g in gs[::5]:
            try:
                back = h.parse(h.dump(g, mode=mode), mode=mode)
            except Exception:
                continue      # not dumpable (C01/C02 domain), not this property
            ctx.coverage['evaluations'] += 1
            r = attempt(operator.eq, g, back)
            if r != ['ok', True] and 'inf' not in repr(g) :
                ctx.violation('impl-counterexample', 'a grid (%s) is not equal to its own %s round trip: %r' % (tag, mode, r),
                              {'mode': mode, 'grid': tag})
                return False
    return True


def replay(ctx, data):
    import hszinc as h
    vals = catalogue(h)
    if 'i' in data:
        a, b = vals[data['i']], vals[data['j']]
        print('a == b:', attempt(lambda: a == b), ' a != b:', attempt(lambda: a != b), ' b == a:', attempt(lambda: b == a))
    run(ctx)
