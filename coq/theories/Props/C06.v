From HS Require Import Base.Prelude Model.Json.
Theorem C06_placeholder : True. Proof. exact I. Qed.
