#!/venv/bin/python
"""Regenerates /verif/MANIFEST.json from the table below (kept in one place so
that it is always schema-valid)."""
import json, os
V = os.path.dirname(os.path.dirname(os.path.abspath(__file__)))
CHECKS = {
 'C18': dict(
   text='Machine-checked proof (Coq) that the model of hszinc.version.Version is a total order consistent with == and with the hash key, '
        'that all six operators agree, and that nearest() over ANY non-empty official list returns an official version, an equal one when one exists, '
        'and is monotone; the model is tied to the source by regenerated literal data and by an all-pairs correspondence run against the implementation.',
   note='Model/Version.v is hand-written; VERSION_RE is pinned by the translator (fails closed), OFFICIAL_VERSIONS and the Unicode digit table are regenerated. '
        'Builtin hash() itself and int() size limits (>4300 digits) are not modelled. Print Assumptions: closed under the global context.',
   technique='Coq proof (induction, total-order lemmas) + extracted-model correspondence on all ordered pairs',
   design='DESIGN.md §3 C18'),
 'C16': dict(
   text='Machine-checked proof (Coq) that the model of SortableDict/MetadataObject (two-field state _values/_order, add_item with its index arithmetic, '
        'the MutableMapping mixins in terms of the primitives) refines a reference ordered map of the documented semantics for EVERY operation history: '
        'same items in the same order and the same result/exception class for every operation; keys unique; a rejected single-item operation changes nothing. '
        'Tied to the code by lock-step correspondence (model vs MetadataObject) over an exhaustive operation alphabet from every ordered subset of the keys.',
   note='Model/SortableDict.v hand-written (no literal data to regenerate). Values are integers, validate_fn refuses negatives; CPython list/dict primitives '
        '(index, insert clamp, remove, sort, reverse) are modelled, tied by the correspondence. extend/update are non-atomic in code and spec alike. '
        'Print Assumptions: closed under the global context.',
   technique='Coq refinement proof (one-step simulation lifted by induction over the history) + lock-step correspondence',
   design='DESIGN.md §3 C16'),
 'C14': dict(
   text='Machine-checked proof (Coq) that the model of Grid (the five primitives of grid.py, extend, reindex, and every MutableSequence/Sequence mixin written '
        'in terms of those primitives as CPython does: reverse by swaps through __setitem__, clear by pops, pop, remove, index, count, contains) refines Python list '
        'semantics for every operation history: same rows, same results, same exception classes; non-dict rows are refused with TypeError and change nothing; slices carry the version. '
        'Tied to the code by a lock-step triple (extracted model / hszinc.Grid / a real Python list).',
   note='Hypotheses of the refinement theorem: offered rows hold no 3.0-only value (version refusals are C10), operations are sequence operations (lookups are C15). '
        'Slice assignment g[a:b]=... is not claimed (MutableSequence does not define it; Grid refuses non-dict values). CPython list primitives (index normalisation, insert clamping, '
        'extended slices) are modelled in Model/PyList.v and tied by the correspondence. Print Assumptions: closed under the global context.',
   technique='Coq refinement proof (swap-loop = rev, pop-loop = clear, one-step simulation lifted by induction) + lock-step correspondence',
   design='DESIGN.md §3 C14'),
 'C15': dict(
   text='Machine-checked proof (Coq) of the index invariant of Grid - whenever the id index exists it is sound and complete for the current rows - in every reachable state '
        '(all interleavings of mutations and lookups, on the grid, on slices and on filtered grids), hence get()/[] return a row that is in the grid now with that str(id), '
        'and the default/KeyError exactly when there is none, and raise nothing else. Tied to the code by the lock-step triple with ids of kinds str/int/Ref and colliding string forms.',
   note='With duplicate ids any current row carrying the id is accepted (the property text does not single one out; after reindex() it is the last, C15_reindex_is_scan). '
        'str(Ref) with a display name is modelled for display names without quotes/escapes. Rows mutated in place by the caller are out of scope (reindex() is documented for that). '
        'Print Assumptions: closed under the global context.',
   technique='Coq invariant proof by induction over the operation history + lock-step correspondence',
   design='DESIGN.md §3 C15'),
 'C20': dict(
   text='Machine-checked proof (Coq), over the method table of class Qty REGENERATED from hszinc/datatypes.py on every run, that under Python\'s operator dispatch '
        'every binary operator (incl. divmod, pow, reflected forms, Quantity on either or both sides), the unary operators and conversions, 3-argument pow and the six '
        'comparisons evaluate exactly the plain operation on the value (expressions are free syntax, so results, types and exceptions coincide for all numbers); '
        'Quantity-vs-Quantity comparisons raise TypeError iff the units differ. A wrong operator, swapped operands, a missing unwrap or a missing method changes the table and breaks the proofs.',
   note='Translator (harness/srcdata.py gen_qty) classifies every method body of Qty and fails closed; Qty._cmp_op is pinned textually. Modelled, tied by the correspondence on a catalogue of 29+ numbers: '
        'CPython binary_op1/rich-compare dispatch, builtin numbers returning NotImplemented for a Quantity operand, pow(v, x, None) == v ** x, a < b == b > a for numbers. '
        '__index__ is outside the property (conversions int/float/complex). Pint mode out of scope. Print Assumptions: closed under the global context.',
   technique='translator-regenerated model + Coq proof by computation over the operator enumeration + correspondence on all operator x operand combinations',
   design='DESIGN.md §3 C20'),
 'C19': dict(
   text='Machine-checked proof (Coq) over a model of == / != / hash for every Haystack value kind under Python\'s rich-comparison protocol (each class\'s __eq__/__ne__, NotImplemented, '
        'reflected operand, subclass-first rule, identity fall-back): on all scalar kinds == is symmetric, != is its exact complement, == is reflexive for NaN-free values, the only exception is '
        'TypeError for two Quantities of different units, Uri/Bin/str with equal text are pairwise unequal and != says so, a Ref with and without display name differ, equal values of one kind have '
        'equal hash keys; FOR ALL VALUES, lists and dicts nested to any depth included (C19_containers_*): != is the exact complement of ==, == raises nothing but TypeError and never runs out of fuel, == is reflexive (NaN-free values with unique dict keys), exactly symmetric on nested lists, and symmetric on every value whenever neither order raises (a dict is compared in the order of the left operand\'s keys, so with two mismatches one of which raises the two orders differ: C19_containers_dict_order is that witness and Python does the same). Grid.__eq__ never raises, a grid equals a faithful copy, grids with different row counts / names are unequal, and equality implies every pair of cells is of one kind and within tolerance. '
        'Tied to the code by all ordered pairs of an 86-value catalogue (==, !=, _approx_check, hash) and 7000+ grid pairs.',
   note='PARTIAL: the identity shortcut of container comparison (x is y before x == y) is not modelled, so NaN inside containers is excluded from reflexivity; the grid theorems are about grids of flat values. Numbers are exact (m*2^e); _approx_check tolerance is modelled with the exact difference (no rounding of v1 - v2). '
        'Builtin equality of str/int/float/datetime, tzinfo equality, hash() of builtins are CPython oracles. copy/deepcopy of the singletons is checked on the implementation only. '
        'Print Assumptions: closed under the global context.',
   technique='Coq proof by case analysis over the kind lattice + correspondence on all ordered pairs of a catalogue',
   design='DESIGN.md §3 C19'),
 'C02': dict(
   text='Machine-checked proof (Coq): WHOLE GRIDS - for every grid of a 3.0-family version with distinct metadata tags, distinct column names, per-column distinct metadata tags and rows holding one cell per column in column order, '
        'if every metadata value and every cell round-trips on its own then the JSON object the writer model emits is read back by the reader model as exactly that grid (C02_grid; induction over metadata, columns, rows, cells), '
        'in particular for all grids over values that are leaves of any kind, lists, dicts or NESTED GRIDS (with metadata) of such values to any depth (C02_full_grid, C02_values: the relation jv). Per kind: for every scalar kind the text the JSON writer model emits is read back by the JSON reader model (the cascade of parse_embedded_scalar, '
        'one hand-written matcher per regex with the typos and flags of the source) as the same kind with the same content - for ANY string/URI/Bin/display-name/XStr/unit payload, '
        'for every valid date and time, for every date-time text isoformat() can produce with a whole-minute offset, and for numbers as the exact %f token; Remove is spelled x: under pre-3.0 and -: otherwise and both read back. '
        'Tied by tree-equality of the writer model with json.loads(hszinc.dump()) and value-equality of the reader model with hszinc.parse on the same documents.',
   note='Nesting is proved for lists and dicts to any depth over leaves that round-trip (C02_nested; dicts with distinct keys that are not grid-like). The whole-grid theorem holds for either version family (C02_grid_any_version; under 2.0 over strings, URIs, Bins, markers, nulls, booleans, Remove: C02_grid_2_0). PARTIAL: rows that leave cells out come back with those cells as nulls (the writer writes every cell), so the round-trip theorem asks for full rows; C05_whole_object covers reading rows that omit columns. Numbers never enter Coq as floats: %f formatting and float() are CPython oracles '
        '(hypothesis f6_shape on the token, sampled on every run). json.dumps/json.loads, iso8601, pytz, XStr decoding are outside the model. A dict with keys meta, cols and rows is read as a grid (format ambiguity, excluded from the domain). '
        'Print Assumptions: closed under the global context.',
   technique='Coq proofs about regex-matcher models + extracted-model correspondence (writer trees, reader values) + round-trip search',
   design='DESIGN.md §3 C02'),
 'C05': dict(
   text='Machine-checked proof (Coq): WHOLE OBJECTS - a grid object {meta, cols, rows} (meta with a string ver member anywhere, column objects with a string name member anywhere, row objects with any members - rows may leave columns out -, rows possibly missing or null) '
        'is read by the reader model as the grid it denotes, a member denoting the value its scalar / nested reading returns (C05_whole_object; induction over metadata members, columns, rows; nested lists / dicts / grids by C02_values). Per spelling: the JSON reader model decodes the legal spellings beyond the writer\'s own: both Remove spellings, raw JSON numbers/booleans/null, strings without s: (second character not a colon), '
        'times without seconds, with seconds and with a fraction of any length (C05_time_fraction: the first six digits count), n:INF/-INF/NaN, numbers in any spelling - sign, digits, optional fraction of any length, optional exponent e / E with optional sign, optional unit (C05_number_spellings), the prefixed text kinds, references with or without display name, dates, coordinates, extended strings, date-times with Z or a numeric offset, with or without a zone name, with or without a fraction of any length (C05_datetime_spellings); further clauses as evaluated examples. Tied by the reader model vs hszinc.parse on documents of an independent grammar-directed writer '
        '(value x independently chosen spelling, 4 input forms) and on 56 odd/malformed spellings.',
   note='Missing and null `rows` are proved to denote no rows (C05_rows_missing, C05_rows_null). PARTIAL: what a date-time text denotes (iso8601 / pytz) is the oracle of the tie. '
        '"The caller\'s object is never modified" is vacuous in a functional model: checked on the implementation by deep snapshot only. '
        'Lower-case z in JSON date-times and nested grids without a rows key are outside the property\'s list and are not generated. Print Assumptions: closed under the global context.',
   technique='Coq proofs about regex-matcher models + correspondence on independently written documents',
   design='DESIGN.md §3 C05'),
 'C06': dict(
   text='Machine-checked proof (Coq) about the JSON writer model: a dumped grid is {meta:{..,ver}, cols:[..], rows:[..]} in that order with ver present, one column object per column in order each carrying its name, one row object per row each with exactly one member per column in column order (C06_object_pieces, induction over columns and rows), every scalar kind carries its type prefix and its payload verbatim / in isoformat, '
        'non-finite numbers are n:INF, n:-INF, n:NaN, 3.0-only kinds are refused under a pre-3.0 version. Tied by exact tree equality with json.loads(hszinc.dump()); the search checks JSON validity, shape, per-kind lexical form and an independent spec-derived reader.',
   note='PARTIAL: conformance against a grammar relation is not proved in Coq; the independent reader (harness/jsonsim.spec_read, written from the Haystack JSON description, shares no code with hszinc) is harness code. '
        'Print Assumptions: closed under the global context.',
   technique='Coq proofs about the writer model + tree-equality correspondence + independent reader',
   design='DESIGN.md §3 C06'),
 'C01': dict(
   text='Machine-checked proof (Coq): THE GENERAL THEOREM for version 3.0 (C01_full_grid, C01_value_relation) - for every grid with or without grid and column metadata (marker tags and tags with values; distinct tag names), any non-empty list of distinct column names, '
        'any number of rows, every cell and metadata value a string, URI, finite number / quantity of the written shape, valid date, time, null, marker, Remove, NA, boolean, reference with or without display name, Bin, coordinate, extended string (type names not starting with T F N M R I B C), or a list, dict or NESTED GRID (itself with metadata) of such values, '
        'nested to any depth, the text the model of the ZINC dumper writes is read back by the model of the reader\'s grid rule, of parse_grid (version sniffing included) and of parser.parse (C01_document: trailing-newline normalisation, grid splitting) as exactly that grid. '
        'By induction over metadata items, columns, rows, cells and nesting depth; every kind goes through the WHOLE per-version scalar alternation (pyparsing Or = longest match over 13 / 18 alternatives: the date, time, date-time and extended-string rules that also start with digits never win over a number, '
        'the number rule reading leading digits loses to a date or time, NA wins over N). Date-times are proved per kind (C01_datetime: the written text is read back, through the whole alternation, as the raw ISO text and zone name; their interpretation is the iso8601 / pytz oracle); multi-grid documents are proved at the level of parser.parse / dumper.dump (C01_multi_grid); version 2.0 grids over the 2.0 kinds are proved too, without metadata (C01_grid_2_0) and WITH grid and column metadata (C01_grid_2_0_with_metadata: the 2.0 alternation, the reader\'s version gate over metadata, column metadata and cells, the writer under the pre-3.0 rules); whole 3.0 grids with DATE-TIMES ANYWHERE - as cells, inside lists, dicts and nested grids to any depth, as grid and column metadata values - are proved in two-sided form (C01_full_grid_two_sided, C01_two_sided_values, C01_two_sided_relation: written value / value read - the value itself for every other kind, the raw ISO text and zone name for a date-time), as are 2.0 grids with date-time cells and metadata values (C01_grid_2_0_with_datetimes, C01_grid_2_0_two_sided). The tie (writer model = hszinc.dump text, reader model = hszinc.parse value, on generated grids) '
        'and the round-trip search on the implementation with a kind-strict comparator decide the rest.',
   note='PARTIAL: what a date-time text denotes is the iso8601 / pytz oracle (the theorems carry the raw ISO text and zone name). Number texts are CPython tokens (str(float) / float() are oracles), date-times are compared by instant, offset and zone name through pytz as oracle. '
        'pyparsing itself is modelled by typed combinators (Or = longest match, first on ties; parse actions; no implicit whitespace skipping as hszinc configures it). Print Assumptions: closed under the global context.',
   technique='Coq proof about combinator model of the pyparsing grammar + extracted-model correspondence (dump text, parse value) + round-trip search',
   design='DESIGN.md §3 C01'),
 'C03': dict(
   text='Machine-checked proof (Coq): WHOLE DOCUMENTS - a 3.0 document of version line, column line (distinct names) and any number of rows of comma-separated cells is read by the model of the grid rule as exactly the grid it denotes, '
        'whatever spelling each cell uses, provided the scalar rule reads the cell\'s value from its text before a comma / line end / bracket (C03_whole_document; with grid and column metadata: C03_whole_document_with_metadata; version 2.0 with the reader\'s version gate: C03_whole_document_2_0; one or several grids per document through parser.parse: C03_documents; rows in any spelling the row rule reads - plain, with blanks around the commas and before the line end, with empty cells as nulls, ended by CR LF: C03_whole_document_any_rows, C03_row_spellings); that proviso is proved for every string and URI with every legal escape, every number spelling '
        '(sign, digits, fraction, exponent e / e+ / e-, unit), every date and time, the letter scalars, plain references, lists, dicts and nested grids of such elements to any depth. The header line and the column line in other spellings - blanks before and after the colon of each metadata tag, blanks around the commas between columns, blanks before the line ends - are proved for whole grids (C03_header_spellings, C03_header_and_column_spellings), and all of it at once - header line, column line and every row in any of the spellings the row rule reads - in C03_document_any_spelling; dicts with blanks inside the braces, after the colons and in runs between the tags (C03_dict_spellings); times with a fraction of one to six digits (C03_time_fraction); timestamps with T or t, Z or z or a numeric offset, with or without a zone name (C03_timestamp_spellings, C03_timestamp_case_irrelevant). Also: final newline optional for every document, empty input gives no grid, LF and CRLF line ends, z/Z, '
        '_ digit separators, blanks around commas (per rule); further spellings as evaluated examples. Decided otherwise by the reader model vs hszinc.parse on documents of an independent grammar-directed ZINC writer (value x independently chosen spelling: blanks around commas, '
        'empty cells, _ separators, exponents, INF/-INF/NaN, every escape form, CRLF, trailing commas, T/t, Z/z, with / without zone name and final newline), str and bytes in several charsets, single flag.',
   note='Number spellings with _ separators and upper-case E (C03_number_spellings_general) and lists with inner blanks / a trailing comma (C03_list_spellings) are proved through the whole alternation. PARTIAL: CRLF after the version and column lines is proved per rule only; inside whole documents it rests on the tie + search; what a timestamp text denotes is the iso8601 / pytz oracle. The independent writer is harness code (harness/props/c03.py). Charset decoding is CPython\'s. Print Assumptions: closed under the global context.',
   technique='Coq lemmas about the reader model + correspondence and search on independently written documents',
   design='DESIGN.md §3 C03'),
 'C04': dict(
   text='Machine-checked proof (Coq) about the ZINC writer model: a dumped grid is header line, column line, one line per row and a final newline; every row line holds exactly one cell per column; no line and no cell holds a character below U+0020 '
        '(for every grid without nested grids whose verbatim tokens - names, units, number tokens - are clean); the header is ver:"X" (X the escaped version text); a written string holds only escapes the grammar accepts and is accepted '
        'by the literal rule exactly up to its own closing quote; non-finite numbers are INF, -INF, NaN; 3.0-only kinds are refused under a pre-3.0 version. For every metadata-free 3.0 grid over strings, URIs, numbers, dates, times, letter scalars, plain references and nested lists the emitted text '
        'is accepted by the model of the grid rule and denotes exactly the grid written (C04_grid_conforms; in general, with metadata, every kind but date-times, dicts and nested grids: C04_grid_conforms_general; version 2.0 grids with metadata: C04_grid_conforms_2_0; 3.0 grids with date-time cells, read as date-time tokens carrying exactly the written ISO text and zone name: C04_grid_conforms_datetimes). Conformance to the grammar ITSELF is proved for literals: the string / URI production of the Haystack grammar is written as an inductive relation independent of the reader (plain characters from U+0020 other than quote and backslash, the listed backslash escapes, backslash-u with four hexadecimal digits) and every string and URI the writer emits is in it (C04_string_in_grammar, C04_uri_in_grammar). Conformance to the Haystack grammar itself '
        'is judged on every dumped grid by an independent recursive-descent ZINC reader written from the Haystack grammar (harness/zincspec.py, shares no code with hszinc), which must recover the same grid.',
   note='PARTIAL: conformance to a grammar relation is not proved in Coq (the independent reader is harness code); nested grids are excluded from the layout theorem (their text spans lines by design). Print Assumptions: closed under the global context.',
   technique='Coq proofs about the writer model (layout by induction over rows / cells, control-character freedom by induction over values) + text-equality correspondence + independent reader',
   design='DESIGN.md §3 C04'),
 'C07': dict(
   text='Machine-checked proof (Coq): WHOLE GRIDS IN BOTH FORMATS - a metadata-free 3.0 grid whose cells are strings, URIs, markers, nulls, booleans, NA, Remove or lists / dicts of those comes back as the same grid from the ZINC text and from the JSON object '
        '(C07_grid_both_formats; in general, with grid and column metadata, nested lists / dicts / grids and every kind both value relations cover: C07_grid_both_formats_general; version 2.0 grids with grid and column metadata: C07_grid_both_formats_2_0; a date-time in a named zone is read as the same raw ISO text and zone name from both formats: C07_datetime_both_formats - reader model after writer model is the identity in either format, so parsing one format and dumping the other loses nothing on such grids). PARTIAL beyond that: on text (every code-point list as Str and Uri) each format\'s reader after its writer is the identity, both writers are total, hence any chain of transcodings is lossless '
        'and parse-then-dump is idempotent character for character. All other kinds, parser-made objects (fixed-offset tzinfo, non-official versions), purity and determinism of dump are decided by the search on the implementation: '
        'documents of the independent ZINC and JSON writers pushed through parse -> dump (both formats) -> parse -> dump, ZINC->JSON->ZINC and JSON->ZINC->JSON, deep snapshot before / after, two dumps compared.',
   note='PARTIAL (see text). Values a JSON document can carry but ZINC cannot spell (Bin payload / unit / Ref name outside the ZINC alphabets) are outside the shared Haystack value domain and are skipped (counted in the evidence). '
        'One known finding: a zone-less date-time whose offset no mapped zone has cannot be re-dumped (KNOWN_FINDINGS.json). Print Assumptions: closed under the global context.',
   technique='Coq composition of the codec lemmas + search over independently written documents',
   design='DESIGN.md §3 C07'),
 'C08': dict(
   text='Machine-checked proof (Coq) for EVERY code-point list, in the string and the URI alphabet: the writer\'s escaping is total; its output holds no character below U+0020 and no unescaped quote; the reader\'s literal rule '
        'consumes exactly the written literal whatever follows and returns the original text; escaping is injective. What is written between the quotes is in the literal production of the Haystack grammar, stated as an inductive relation independent of the reader (C08_written_string_in_grammar, C08_written_uri_in_grammar). Proved by a computation inside Coq over all 65536 code points below 2^16 lifted by a bound lemma above, over the '
        'escape tables REGENERATED from hszinc/zincdumper.py on every run. Tied by the extracted escaper / literal reader vs zincdumper.dump_str / dump_uri / zincparser.hs_str / hs_uri on every payload; the search puts every payload '
        'in 9 text-carrying positions x both formats of a two-grid document and compares grids, rows, cells, neighbours and payload.',
   note='JSON positions: containment is json.dumps / json.loads (CPython, outside the model) plus the prefix lemmas of C02 (payload verbatim after the prefix). thorough is exhaustive over U+0000..U+10FFFF in the tie and the str-cell '
        'position and over all strings up to length 3 of a 28-character metacharacter alphabet. A high surrogate directly followed by a low one is not a code-point sequence and is not generated. Print Assumptions: closed under the global context.',
   technique='Coq proof (finite sweep by vm_compute lifted by forallb/bound lemmas, induction over the string) over regenerated tables + exhaustive correspondence',
   design='DESIGN.md §3 C08'),
 'C09': dict(
   text='Machine-checked proof (Coq) about the model of the ZINC reader (every pyparsing rule with its parse action, parse_grid / parse_scalar / parser.parse exception handling): for EVERY text grid / document parsing '
        'returns grids or raises ZincParseException; every parse action at every nesting depth raises ValueError only, so scalar parsing raises only ValueError-family exceptions; the un-escaping of string / URI literals never raises; '
        'a missing or malformed version header, an unterminated string / URI, and [ { < under version 2.0 are always rejected. Termination is Coq\'s totality of the model, and the fuel of the recursive rules is proved adequate '
        '(C09_fuel_adequate: every nesting level consumes a character, so the OutOfFuel marker never comes out for any text). Tied by the reader model vs the implementation on seeds, '
        'byte-level mutations at every position, 42 structurally broken documents and arbitrary strings; the search checks exception class, line / column bounds and rejection on the implementation.',
   note='Line / column of the exception are checked on the implementation only. RecursionError for very deep nesting is outside the quantifier (depth <= 3). Print Assumptions: closed under the global context.',
   technique='Coq proof (exception-safety predicate closed under the parser combinators, induction on nesting fuel) + mutation-based correspondence',
   design='DESIGN.md §3 C09'),
 'C10': dict(
   text='Machine-checked proof (Coq) over a state-machine model of Grid\'s validators on real values, whose kind tests (the isinstance list of Grid._detect_or_validate, the if/elif ladders of both dumpers, '
        'the gated branches of the JSON reader) are REGENERATED from the source on every run: after ANY history of stores (grid metadata, column metadata through the bound MetadataObject or as a raw mapping, add_item, append, insert, '
        'setitem, extend) a grid whose version is judged pre-3.0 holds no 3.0-only value anywhere; an unversioned grid reports 3.0 as soon as one is stored; a grid with an explicit pre-3.0 version refuses it with ValueError and is unchanged; '
        'Grid, both writers (per kind, from their ladders) and the writer / JSON reader models refuse exactly NA, list, dict, nested grid, XStr; each kind of value takes its own branch of both ladders. '
        'All five decisions are the one function pre_3_0 = nearest(version) < 3.0 (pinned by the translator). Tied by the regenerated tables vs the implementation per kind, lock-step histories vs hszinc.Grid, and the writer / reader models on gated grids and documents.',
   note='Stores into caller-owned objects the grid does not know about are outside the model (after fix c61c600 Grid binds column metadata to its validator on store). The ZINC reader\'s gate is its 2.0 grammar (no 3.0 alternatives; C09_v3_brackets_rejected_under_2_0) - '
        'its agreement with the others on non-official versions is checked on the implementation (17 version strings x 5 deciders). extend() is non-atomic in code and model alike. Print Assumptions: closed under the global context.',
   technique='translator-regenerated kind tables + Coq invariant proof by induction over the store history + lock-step correspondence',
   design='DESIGN.md §3 C10'),
 'C17': dict(
   text='Machine-checked proof (Coq) over a model of zoneinfo.py in which pytz is an ORACLE (zoff z i = the UTC offset zone z has at instant i) and every theorem holds for an arbitrary oracle, hence at every transition of every zone, '
        'ambiguous and skipped local times included: _map_timezones yields a one-to-one map for ANY Haystack list and ANY duplicate-free host list, and on the lists REGENERATED on every run (HAYSTACK_TIMEZONES of the source, pytz.all_timezones of this host); '
        'a date-time in a mapped zone carrying that zone\'s offset is written with that zone\'s Haystack name and read back with the same instant, offset and zone; for any other tz-aware date-time the writer names a zone whose offset at that instant '
        'equals the value\'s (UTC for a zero offset) or raises ValueError, nothing else; the written text denotes the value\'s instant and offset and reading never moves the instant. '
        'Tied by the model map vs get_tz_map(), and the model\'s timezone_name / write / read with the oracle\'s answers materialised per case vs the implementation.',
   note='Calendar arithmetic is not modelled: isoformat() / iso8601.parse_date are taken as a bijection between (local time, offset) and text (the search exercises it on every case, microseconds included; C02_datetime proves the JSON matcher on the text). '
        'pytz (offsets, astimezone) is the oracle; function bodies of zoneinfo.py and of the readers\' date-time branches are pinned by the translator (fails closed). A zone-less date-time whose offset no zone has is refused with ValueError '
        '(allowed by this property; a known finding of C07). thorough: all mapped zones x all tabulated transitions 1902..2037 x 5 deltas, all 1681 whole-minute fixed offsets. Print Assumptions: closed under the global context.',
   technique='Coq proof parametric in the zone oracle (NoDup invariants of the map construction, lookup inversion) over regenerated lists + correspondence with materialised oracle answers + exhaustive transition search',
   design='DESIGN.md §3 C17'),
 'C11': dict(
   text='Machine-checked proof (Coq) of compiler correctness for filters: for EVERY filter AST, grid, row and comparison oracle, the expression the model of _generate_filter_in_python builds (over _get_path, _compare, and / or, '
        'id(..) ==/!= id(NOT_FOUND), _c[i]) evaluated with the literal tuple it built is the boolean the filter denotes (a 15-line denotation: has / missing / comparison through get_path, conjunction, disjunction); '
        'Grid.filter\'s loop returns precisely the rows for which the filter is true, in the original order, truncated to limit; a comparison on an absent tag is false for all six operators; missing is the complement of has; '
        'absent tag, null cell, dangling reference and a step through a plain value are all "not found", a valid reference continues in the row whose id matches. '
        'Tied by (a) AST, generated Python source (character for character) and literal tuple of the model of the pyparsing grammar vs parse_filter / _generate_filter_in_python on every generated and on malformed texts, '
        '(b) the rows the extracted model selects vs grid.filter on grids of abstract valuations, with Python\'s comparison as the oracle. The search compares grid.filter with an independent evaluator over the generator\'s own AST.',
   note='The grammar clause is proved too (C11_grammar): for every filter over presence atoms and comparison atoms on PATHS tag->tag->... of any length (any of the six operators; literal a boolean, an unsigned digit run or ANY string in its escaped spelling), of any size and nesting, the parser model inverts the printer - and binds tighter than or, both fold to the left over any number of operands, parentheses override, keywords only at word boundaries. '
        'PARTIAL: that theorem covers single-blank spacing and lower-case tag names; other literal kinds and spacing variation rest on the tie (exhaustive ASTs with <= 2 connectives + random, each rendered with spacing / parenthesis variation). '
        'The parser model covers numbers, quantities, strings, URIs, references, booleans, N, M, NA, INF, NaN; dates, times, coordinates, Bin, XStr, lists are exercised by the search only. CPython executing the generated source is trusted (the source text is compared). '
        'Python\'s comparison of two values is an oracle (C19 / C20 model parts of it). Null cells count as absent (fix 30fb0ca). Print Assumptions: closed under the global context.',
   technique='Coq compiler-correctness proof (induction over the AST, literal-tuple threading) + loop = filter/firstn lemma + source-text and row-selection correspondence + independent evaluator',
   design='DESIGN.md §3 C11'),
 'C12': dict(
   text='Machine-checked proof (Coq) about the model of the filter compiler: the Python source handed to exec() is a function of the SHAPE of the filter and of its tag names only (two filters differing only in literal values generate the same source, character for character); '
        'every tag name the parser model lets through is made of letters, digits and underscores; hence the source of ANY accepted filter is written over letters, digits, _ and \' [ ] ( ) , blank ! = < > - no double quote, backslash, dot, colon, semicolon, newline, #, @, braces; '
        'names hold no quote; evaluation returns rows of the source grid. Literal values travel only in the tuple bound as the generated function\'s default argument. '
        'Tied by the model\'s source vs the text the implementation really compiles (from the `compile` audit event) and by the alphabet of the theorem checked on every compiled source. '
        'The search evaluates canary payloads in every literal and identifier position x enclosing shapes in a child process under sys.addaudithook.',
   note='CPython executing the generated source (names resolve in hszinc.grid_filter\'s globals) and sys.addaudithook\'s coverage are trusted. The implementation\'s own compile / exec of its template, id(), the __defaults__ binding and pyparsing\'s traceback / frame inspection are the only events allowed; '
        'hszinc.grid_filter gains one _gen_hsfilter_N global per compiled filter by design (not counted as visible state). A token float() / strptime() / iso8601 refuses surfaces as ValueError rather than ParseException (counted as rejection; 44 of 1804 quick cases). '
        'The parser model covers the literal subset of C11; other literal kinds are covered by the audit search and the alphabet check only. Print Assumptions: closed under the global context.',
   technique='Coq proof (shape-invariance of the code generator, identifier invariant through the parser combinators, alphabet of the renderer) + audit-hook search in a child process + source-text correspondence',
   design='DESIGN.md §3 C12'),
 'C13': dict(
   text='Machine-checked proof (Coq) over a model of the compiled-filter cache (lru_cache, the itertools.count name counter, exec defining a module global, __del__ removing it, get() reading it back): for ANY capacity and ANY sequential history '
        '(first filter, thousandth, repeated, any order, across evictions) every call hands back the code of its own filter; cached wrappers keep pairwise distinct names and their module global stays their own code (still-cached filters keep working); '
        'after any such history, any number of threads under ANY schedule (interleaving the steps ask-cache / take-name / exec-definition / store / get-and-release), WITH eviction while they run (a dropped wrapper is finalised as soon as no thread holds it; capacity 0 and 1 included), each work on and end with their own filter\'s code. '
        'Tied by the extracted cache model (capacity regenerated from FILTER_CACHE_LRU_SIZE; grid_filter\'s functions pinned) vs the implementation on histories around the capacity: results and the exact set of _gen_hsfilter_N globals left. '
        'The search runs histories of up to ~1500 distinct filters and enumerates interleavings of 2-3 threads at source-line granularity inside hszinc with a deterministic turn-passing scheduler (threading.settrace).',
   note='PARTIAL: the concurrent theorems step at the granularity named above (lru_cache operations, next() on the counter, exec of the definition and the global read are atomic steps); real preemption is per bytecode; '
        'free-threaded builds are out of scope; __del__ is modelled as immediate (the harness runs the cyclic collector before comparing the globals). What the handed-back code computes is C11. '
        'quick: all one-preemption schedules + 260 two-preemption + 60 three-thread schedules; thorough: all two-preemption schedules (~120^2). Print Assumptions: closed under the global context.',
   technique='Coq invariant proofs (sequential LRU state machine with eviction; small-step interleaving over a thread list, permutation-based freshness) + cache-state correspondence + deterministic schedule enumeration',
   design='DESIGN.md §3 C13'),
}
PENDING = {}
for i in range(1, 21):
    pid = 'C%02d' % i
    if pid not in CHECKS:
        PENDING[pid] = 'check under construction in this session (see DESIGN.md §7 order of work); not claimed until its model, theorems and correspondence run'
m = {
 'version': 1,
 'setup_cmd': 'make -C /verif setup',
 'hooks': {'guard': 'HSZINC_VERIF', 'enable': 'none needed: the checks instrument hszinc from outside (in-process import of /repo, sys.settrace scheduler, audit hooks)',
           'baseline_off_cmd': 'cd /repo && /venv/bin/python -m pytest -ra -q -p no:cacheprovider --timeout=900 --continue-on-collection-errors',
           'source_commits': [], 'add_only': True},
 'engines': [{'name': 'coq-model', 'path': 'coq/', 'serves_properties': sorted(CHECKS), 'kind_free_text': 'Coq 8.16.1 development: executable Gallina models, proofs, one Props/Cxx.v per property'},
             {'name': 'hsmodel', 'path': 'ocaml/', 'serves_properties': sorted(CHECKS), 'kind_free_text': 'extracted model (ExtrOcamlBasic) + S-expression driver, run against /repo by harness/'}],
 'checks': [],
 'notes': 'Every check regenerates coq/theories/Gen/*.v from /repo, rebuilds the Coq development incrementally (full .vo), re-loads Props/<id>.vo with Print Assumptions, rebuilds the extracted model, then runs correspondence and search against /repo.',
 'not_applicable': [{'property_id': k, 'reason': v} for k, v in sorted(PENDING.items())],
}
for pid in sorted(CHECKS):
    c = CHECKS[pid]
    m['checks'].append({
        'property_id': pid,
        'quick_cmd': './check %s --tier quick' % pid,
        'thorough_cmd': './check %s --tier thorough' % pid,
        'evidence_file': '/verif/evidence/%s.json' % pid,
        'replay_cmd_template': './check %s --replay {path}' % pid,
        'engine': 'coq-model',
        'level_claimed': {'category': 'proof', 'text': c['text'], 'design_ref': c['design']},
        'level_note': c['note'],
        'technique': c['technique'],
    })
json.dump(m, open(os.path.join(V, 'MANIFEST.json'), 'w'), indent=1)
print('MANIFEST.json written: %d checks, %d not_applicable' % (len(m['checks']), len(m['not_applicable'])))
