
val negb : bool -> bool

type nat =
| O
| S of nat

val option_map : ('a1 -> 'a2) -> 'a1 option -> 'a2 option

val fst : ('a1 * 'a2) -> 'a1

val snd : ('a1 * 'a2) -> 'a2

val length : 'a1 list -> nat

val app : 'a1 list -> 'a1 list -> 'a1 list

type comparison =
| Eq
| Lt
| Gt

val compOpp : comparison -> comparison

val add : nat -> nat -> nat

val sub : nat -> nat -> nat

val bool_dec : bool -> bool -> bool

val eqb : bool -> bool -> bool

module Nat :
 sig
  val eqb : nat -> nat -> bool

  val leb : nat -> nat -> bool

  val ltb : nat -> nat -> bool

  val max : nat -> nat -> nat

  val div2 : nat -> nat
 end

val nth : nat -> 'a1 list -> 'a1 -> 'a1

val nth_error : 'a1 list -> nat -> 'a1 option

val last : 'a1 list -> 'a1 -> 'a1

val removelast : 'a1 list -> 'a1 list

val rev : 'a1 list -> 'a1 list

val map : ('a1 -> 'a2) -> 'a1 list -> 'a2 list

val flat_map : ('a1 -> 'a2 list) -> 'a1 list -> 'a2 list

val fold_left : ('a1 -> 'a2 -> 'a1) -> 'a2 list -> 'a1 -> 'a1

val fold_right : ('a2 -> 'a1 -> 'a1) -> 'a1 -> 'a2 list -> 'a1

val existsb : ('a1 -> bool) -> 'a1 list -> bool

val forallb : ('a1 -> bool) -> 'a1 list -> bool

val filter : ('a1 -> bool) -> 'a1 list -> 'a1 list

val find : ('a1 -> bool) -> 'a1 list -> 'a1 option

val combine : 'a1 list -> 'a2 list -> ('a1 * 'a2) list

val firstn : nat -> 'a1 list -> 'a1 list

val seq : nat -> nat -> nat list

val repeat : 'a1 -> nat -> 'a1 list

type positive =
| XI of positive
| XO of positive
| XH

type n =
| N0
| Npos of positive

type z =
| Z0
| Zpos of positive
| Zneg of positive

module Pos :
 sig
  type mask =
  | IsNul
  | IsPos of positive
  | IsNeg
 end

module Coq_Pos :
 sig
  val succ : positive -> positive

  val add : positive -> positive -> positive

  val add_carry : positive -> positive -> positive

  val pred_double : positive -> positive

  type mask = Pos.mask =
  | IsNul
  | IsPos of positive
  | IsNeg

  val succ_double_mask : mask -> mask

  val double_mask : mask -> mask

  val double_pred_mask : positive -> mask

  val sub_mask : positive -> positive -> mask

  val sub_mask_carry : positive -> positive -> mask

  val mul : positive -> positive -> positive

  val iter : ('a1 -> 'a1) -> 'a1 -> positive -> 'a1

  val pow : positive -> positive -> positive

  val size_nat : positive -> nat

  val size : positive -> positive

  val compare_cont : comparison -> positive -> positive -> comparison

  val compare : positive -> positive -> comparison

  val eqb : positive -> positive -> bool

  val iter_op : ('a1 -> 'a1 -> 'a1) -> positive -> 'a1 -> 'a1

  val to_nat : positive -> nat

  val of_succ_nat : nat -> positive
 end

module N :
 sig
  val succ_double : n -> n

  val double : n -> n

  val add : n -> n -> n

  val sub : n -> n -> n

  val mul : n -> n -> n

  val compare : n -> n -> comparison

  val eqb : n -> n -> bool

  val leb : n -> n -> bool

  val ltb : n -> n -> bool

  val pow : n -> n -> n

  val size_nat : n -> nat

  val pos_div_eucl : positive -> n -> n * n

  val div_eucl : n -> n -> n * n

  val div : n -> n -> n

  val modulo : n -> n -> n

  val to_nat : n -> nat

  val of_nat : nat -> n
 end

type ascii =
| Ascii of bool * bool * bool * bool * bool * bool * bool * bool

val ascii_dec : ascii -> ascii -> bool

val eqb0 : ascii -> ascii -> bool

val n_of_digits : bool list -> n

val n_of_ascii : ascii -> n

module Z :
 sig
  val double : z -> z

  val succ_double : z -> z

  val pred_double : z -> z

  val pos_sub : positive -> positive -> z

  val add : z -> z -> z

  val opp : z -> z

  val sub : z -> z -> z

  val mul : z -> z -> z

  val pow_pos : z -> positive -> z

  val pow : z -> z -> z

  val compare : z -> z -> comparison

  val leb : z -> z -> bool

  val ltb : z -> z -> bool

  val eqb : z -> z -> bool

  val min : z -> z -> z

  val abs : z -> z

  val to_nat : z -> nat

  val to_N : z -> n

  val of_nat : nat -> z

  val of_N : n -> z

  val pos_div_eucl : positive -> z -> z * z

  val div_eucl : z -> z -> z * z

  val div : z -> z -> z

  val even : z -> bool

  val log2 : z -> z
 end

type string =
| EmptyString
| String of ascii * string

val eqb1 : string -> string -> bool

val append : string -> string -> string

val length0 : string -> nat

val substring : nat -> nat -> string -> string

val prefix : string -> string -> bool

val index : nat -> string -> string -> nat option

val list_ascii_of_string : string -> ascii list

type str = n list

val s_ : string -> str

type exn =
| TypeError
| ValueError
| KeyError
| IndexError
| AttributeError
| ZincParseException
| ParseException
| NameError
| SyntaxError
| AmbiguousTimeError
| NonExistentTimeError
| UnicodeEncodeError
| NotImplementedError
| RecursionError
| ZeroDivisionError
| OverflowError
| AssertionError
| JSONDecodeError
| OutOfFuel

type 'a res =
| Ok of 'a
| Raise of exn

val bind : 'a1 res -> ('a1 -> 'a2 res) -> 'a2 res

val exn_name : exn -> str

val str_eqb : str -> str -> bool

val str_compare : str -> str -> comparison

val opt_str_eqb : str option -> str option -> bool

val list_eqb : ('a1 -> 'a1 -> bool) -> 'a1 list -> 'a1 list -> bool

val memN : n -> n list -> bool

val in_ranges : n -> (n * n) list -> bool

val join : str -> str list -> str

val digits_fuel : nat -> n -> str -> str

val str_of_N : n -> str

val str_of_Z : z -> str

type sexp =
| SInt of z
| SStr of str
| SList of sexp list

val sym : string -> sexp

val sbool : bool -> sexp

val sexn : exn -> sexp

val sres : ('a1 -> sexp) -> 'a1 res -> sexp

val sopt : ('a1 -> sexp) -> 'a1 option -> sexp

val scmp : comparison -> sexp

val sN : n -> sexp

val is_sym : string -> sexp -> bool

val bad_request : sexp

val official_version_strs : str list

val nd_zeros : n list

type ver = { nums : n list; extra : str option }

val digit_val_in : n list -> n -> n option

val digit_val : n -> n option

val is_digit : n -> bool

val dOT : n

val nL : n

val span_numdots : str -> str * str

val last_iter : str -> str -> str

val extra_of : str -> str option

val split_dot : str -> str -> str list

val int_of_digits : str -> n

val parse_ver : str -> ver res

val vstr : ver -> str

val pad : nat -> n list -> n list

val cmp_zip : n list -> n list -> comparison

val cmp_extra : str option -> str option -> comparison

val vcmp : ver -> ver -> comparison

val cmp_int : comparison -> z

val vlt : ver -> ver -> bool

val vle : ver -> ver -> bool

val veq : ver -> ver -> bool

val vne : ver -> ver -> bool

val vge : ver -> ver -> bool

val vgt : ver -> ver -> bool

val strip0_rev : n list -> n list

val strip0 : n list -> n list

val hash_key : ver -> n list * str option

val hash_key_eqb : (n list * str option) -> (n list * str option) -> bool

val in_officials : ver list -> ver -> bool

val insert_desc : ver -> ver list -> ver list

val sort_desc : ver list -> ver list

val nearest_scan : ver option -> ver list -> ver -> ver option

val nearest : ver list -> ver -> ver res

val officials : ver list

val sver : ver -> sexp

val cmd_ver_parse : str -> sexp

val cmd_ver_info : str -> sexp

val cmd_ver_cmp : str -> str -> sexp

val cmd_ver_matrix : str list -> sexp

type key = str

type val0 = z

val index_of : key -> key list -> nat option

val remove_first : key -> key list -> key list

val insert_nat : nat -> key -> key list -> key list

val py_insert_pos : z -> nat -> nat

val py_insert : z -> key -> key list -> key list

val py_nth : z -> key list -> key option

val insert_sorted : key -> key list -> key list

val sort_keys : key list -> key list

val lookup : key -> (key * val0) list -> val0 option

val set_assoc : key -> val0 -> (key * val0) list -> (key * val0) list

val del_assoc : key -> (key * val0) list -> (key * val0) list

val has_key : key -> (key * val0) list -> bool

type sd = { vals : (key * val0) list; order : key list }

val sd_empty : sd

val validate : val0 -> bool

val delitem : sd -> key -> sd * unit res

val add_item :
  sd -> key -> val0 -> bool -> z option -> key option -> bool -> sd * unit res

val setitem : sd -> key -> val0 -> sd * unit res

val getitem : sd -> key -> val0 res

val pop : sd -> key -> sd * val0 res

val pop_at : sd -> z -> sd * val0 res

val popitem : sd -> sd * (key * val0) res

val clear_fuel : nat -> sd -> sd

val clear : sd -> sd

val store_all :
  (sd -> key -> val0 -> sd * unit res) -> sd -> (key * val0) list ->
  sd * unit res

val setdefault : sd -> key -> val0 -> sd * val0 res

type sdop =
| OSet of key * val0
| OAdd of key * val0 * bool * z option * key option * bool
| ODel of key
| OPop of key
| OPopAt of z
| OPopItem
| OSort of bool
| OReverse
| OClear
| OAppend of key * val0 * bool
| OExtend of (key * val0) list * bool
| OUpdate of (key * val0) list
| OSetDefault of key * val0

type sdout =
| RNone
| RVal of val0
| RItem of key * val0

val lift_unit : ('a1 * unit res) -> 'a1 * sdout res

val lift_val : ('a1 * val0 res) -> 'a1 * sdout res

val step : sd -> sdop -> sd * sdout res

val items : sd -> (key * val0) list

type omap = (key * val0) list

val om_remove : key -> omap -> omap

val om_replace : key -> val0 -> omap -> omap

val om_ins_before : key -> (key * val0) -> omap -> omap

val om_ins_after : key -> (key * val0) -> omap -> omap

val om_insert_nat : nat -> (key * val0) -> omap -> omap

val om_has : key -> omap -> bool

val om_add :
  omap -> key -> val0 -> bool -> z option -> key option -> bool ->
  omap * unit res

val om_del : omap -> key -> omap * unit res

val om_sort : omap -> omap

val om_nth : z -> omap -> key option

val om_step : omap -> sdop -> omap * sdout res

val sitem : (key * val0) -> sexp

val sout : sdout -> sexp

val dec_bool : sexp -> bool option

val dec_optZ : sexp -> z option option

val dec_optkey : sexp -> key option option

val dec_items : sexp list -> (key * val0) list option

val dec_op : sexp -> sdop option

val sd_trace : sd -> omap -> sexp list -> sexp list

val cmd_sd_run : sexp list -> sexp

val ins_nat : nat -> 'a1 -> 'a1 list -> 'a1 list

val ins_pos : z -> nat -> nat

val py_ins : z -> 'a1 -> 'a1 list -> 'a1 list

val norm_index : z -> nat -> nat option

val py_get : z -> 'a1 list -> 'a1 option

val set_nat : nat -> 'a1 -> 'a1 list -> 'a1 list

val py_set : z -> 'a1 -> 'a1 list -> 'a1 list option

val del_nat : nat -> 'a1 list -> 'a1 list

val py_del : z -> 'a1 list -> 'a1 list option

type slice = (z option * z option) * z option

val slice_indices : slice -> nat -> ((z * z) * z) option

val range_fuel : nat -> z -> z -> z -> nat list

val slice_positions : slice -> nat -> nat list option

val py_get_slice : slice -> 'a1 list -> 'a1 list option

val memnat : nat -> nat list -> bool

val drop_positions : nat list -> nat -> 'a1 list -> 'a1 list

val py_del_slice : slice -> 'a1 list -> 'a1 list option

type idval =
| IdStr of str
| IdInt of z
| IdRef of str * str option

type row = { tag : n; rid : idval option; payload : z; v3 : bool }

type pyval =
| VRow of row
| VNotDict of n

val idval_eqb : idval -> idval -> bool

val row_eqb : row -> row -> bool

val val_matches : pyval -> row -> bool

val pystr : idval -> str

type gindex = (str * row) list

val idx_lookup : str -> gindex -> row option

val idx_set : str -> row -> gindex -> gindex

val build_index : row list -> gindex

type grid = { rows : row list; idx : gindex option; pre3 : bool; given : bool }

val grid_new : bool -> bool -> grid

val index_falsy : grid -> bool

val ensure_index : grid -> grid

val cur_index : grid -> gindex

val reindex : grid -> grid

val validate_row : grid -> row -> grid res

val g_insert : grid -> z -> pyval -> grid * unit res

val g_setitem : grid -> z -> pyval -> grid * unit res

val g_delitem : grid -> z -> grid * unit res

val g_delslice : grid -> slice -> grid * unit res

val g_getitem : grid -> z -> row res

val g_getslice : grid -> slice -> grid res

val g_lookup : grid -> str -> grid * row res

val g_get : grid -> str -> grid * row option

val g_len : grid -> z

val g_append : grid -> pyval -> grid * unit res

val g_append_all : grid -> pyval list -> grid * unit res

val g_extend : grid -> pyval list -> grid * unit res

val g_pop : grid -> z -> grid * row res

val find_row : pyval -> row list -> nat -> nat option

val g_index : grid -> pyval -> z res

val g_remove : grid -> pyval -> grid * unit res

val g_reverse_loop : nat -> z -> z -> grid -> grid * unit res

val g_reverse : grid -> grid * unit res

val g_clear_fuel : nat -> grid -> grid * unit res

val g_clear : grid -> grid * unit res

val g_contains : grid -> pyval -> bool

val g_count : grid -> pyval -> z

type gop =
| GAppend of pyval
| GInsert of z * pyval
| GExtend of pyval list
| GIAdd of pyval list
| GSetItem of z * pyval
| GDelItem of z
| GDelSlice of slice
| GPop of z option
| GRemove of pyval
| GReverse
| GClear
| GLen
| GGetItem of z
| GGetSlice of slice
| GContains of pyval
| GIndex of pyval
| GCount of pyval
| GLookup of str
| GGet of str
| GReindex
| GSliceSelf of slice
| GRebuild

type gout =
| ONone
| OInt of z
| ORow of row
| ORows of row list * bool * bool
| OBool of bool
| OOptRow of row option

val lift_u : (grid * unit res) -> grid * gout res

val lift_r : (grid * row res) -> grid * gout res

val gstep : grid -> gop -> grid * gout res

val scan_lookup : row list -> str -> row option

val lst_step : row list -> gop -> row list * gout res

val srow : row -> sexp

val sgout : gout -> sexp

val dec_optz : sexp -> z option option

val dec_id : sexp -> idval option option

val dec_val : sexp -> pyval option

val dec_vals : sexp list -> pyval list option

val dec_slice : sexp -> slice option

val dec_gop : sexp -> gop option

val g_trace : grid -> row list -> sexp list -> sexp list

val cmd_grid_run : sexp list -> sexp

type binop =
| Add
| Sub
| Mul
| TrueDiv
| FloorDiv
| Mod
| DivMod
| Pow
| LShift
| RShift
| BAnd
| BXor
| BOr

type unop =
| Neg
| Pos
| Abs
| Invert
| ToInt
| ToFloat
| ToComplex
| Index
| Oct
| Hex

type cmpop =
| Lt0
| Le
| Eq0
| Ne
| Ge
| Gt0

type qshape =
| QBin of binop * bool
| QRBin of binop * bool
| QPow3 of bool
| QUn of unop
| QCmp of cmpop
| QHash

val qty_methods : (str * qshape) list

type nexpr =
| NV of n
| NBin of binop * nexpr * nexpr
| NPow3 of nexpr * nexpr * nexpr
| NUn of unop * nexpr
| NCmp of cmpop * nexpr * nexpr
| NNone
| NHash of nexpr * str option

type operand =
| PNum of nexpr
| PQ of nexpr * str option

val dunder : binop -> str

val rdunder : binop -> str

val cmp_dunder : cmpop -> str

val un_dunder : unop -> str

val swap_cmp : cmpop -> cmpop

val find_method : str -> (str * qshape) list -> qshape option

val py_binop : (str * qshape) list -> binop -> operand -> operand -> nexpr res

val py_pow3 : (str * qshape) list -> operand -> nexpr -> nexpr -> nexpr res

val py_unop : (str * qshape) list -> unop -> operand -> nexpr res

val cmp_op_body : cmpop -> nexpr -> str option -> operand -> nexpr res

val py_cmp : (str * qshape) list -> cmpop -> operand -> operand -> nexpr res

val py_hash : (str * qshape) list -> operand -> nexpr res

val all_binops : binop list

val all_unops : unop list

val all_cmpops : cmpop list

val binop_name : binop -> string

val unop_name : unop -> string

val cmpop_name : cmpop -> string

val snexpr : nexpr -> sexp

val dec_unit : sexp -> str option

val cmd_qty_table : sexp list -> sexp

type num =
| NFin of z * z * bool
| NInf of bool
| NNan

val fin_cmp : z -> z -> z -> z -> comparison

val num_eqb : num -> num -> bool

val num_isfloat : num -> bool

val num_close : num -> num -> bool

type xdata =
| XBytes of n list
| XText of str

type hv =
| HNone
| HBool of bool
| HNum of num
| HStr of str
| HUri of str
| HBin of str
| HRef of str * str option * bool
| HXStr of str * xdata
| HQty of num * str option
| HCoord of num * num
| HMarker
| HNA
| HRemove
| HDate of z
| HTime of z * bool
| HDateTime of z * z * z option * z
| HList of hv list
| HDict of (str * hv) list

type cmpres =
| CTrue
| CFalse
| CNotImpl
| CRaise of exn

val of_bool : bool -> cmpres

val cneg : cmpres -> cmpres

val xdata_eqb : xdata -> xdata -> bool

val is_strlike : hv -> bool

val str_of : hv -> str

val as_num : hv -> num option

val dt_eqb : z -> z -> z option -> z -> z -> z option -> bool

val same_object : hv -> hv -> bool

val list_eq : (hv -> hv -> bool res) -> hv list -> hv list -> bool res

val dict_get : str -> (str * hv) list -> hv option

val dict_eq_items :
  (hv -> hv -> bool res) -> (str * hv) list -> (str * hv) list -> bool res

val method_eq : (hv -> hv -> bool res) -> hv -> hv -> cmpres

val method_ne : (hv -> hv -> bool res) -> hv -> hv -> cmpres

val subclass_first : hv -> hv -> bool

val pyeq : (hv -> hv -> bool res) -> hv -> hv -> bool res

val pyne : (hv -> hv -> bool res) -> hv -> hv -> bool res

val pyeq_fuel : nat -> hv -> hv -> bool res

val pyne_fuel : nat -> hv -> hv -> bool res

val depth : hv -> nat

val py_eq : hv -> hv -> bool res

val py_ne : hv -> hv -> bool res

type hkey =
| KNone
| KNum of num
| KStr of str
| KRef of str * str option * bool
| KQty of num * str option
| KCoord of num * num
| KSingleton of n
| KDate of z
| KTime of z * bool
| KDateTime of z * bool

val strip_twos : nat -> z -> z -> z * z

val canon_num : num -> num

val hash_key0 : hv -> hkey option

val is_kind_time : hv -> bool

val is_kind_dt : hv -> bool

val is_kind_qty : hv -> bool

val is_kind_coord : hv -> bool

val is_kind_bool : hv -> bool

val is_float : hv -> bool

val approx_num : num -> num -> bool

val approx_check : hv -> hv -> bool res

type ggrid = { gmeta : (str * hv) list; gcols : (str * (str * hv) list) list;
               grows : (str * hv) list list }

val keys_subset : (str * 'a1) list -> (str * 'a1) list -> bool

val same_keys : (str * 'a1) list -> (str * 'a1) list -> bool

val lookup_any : str -> (str * 'a1) list -> 'a1 option

val approx_items : (str * hv) list -> (str * hv) list -> bool res

val row_get : (str * hv) list -> str -> hv

val approx_cols :
  (str * (str * hv) list) list -> (str * (str * hv) list) list -> bool res

val approx_row : str list -> (str * hv) list -> (str * hv) list -> bool res

val approx_rows :
  str list -> (str * hv) list list -> (str * hv) list list -> bool res

val grid_eq : ggrid -> ggrid -> bool res

val dec_b : sexp -> bool

val dec_ostr : sexp -> str option

val dec_num : sexp -> num option

val dec_hv : nat -> sexp -> hv option

val snumk : num -> sexp

val shk : hkey option -> sexp

val sresb : bool res -> sexp

val cmd_eq_pairs : sexp list -> sexp

val cmd_eq_hash : sexp list -> sexp

val dec_items_hv : sexp -> (str * hv) list option

val dec_ggrid : sexp -> ggrid option

val cmd_grid_eq : sexp list -> sexp

val str_sub_table : (n * str) list

val str_meta : (n * n) list

val uri_meta : (n * n) list

val str_sub_hi : n

val str_sub_lo : n

val str_sub_lits : n list

val uri_sub_hi : n

val uri_sub_lo : n

val uri_sub_lits : n list

val bSL : n

val dQ : n

val bQ : n

val hexdigit : n -> n

val hex_fuel : nat -> n -> str -> str

val hex_lower : n -> str

val pad4 : str -> str

val hex04 : n -> str

val sub_fun : n -> n -> n list -> n -> str res

val table_lookup : n -> (n * str) list -> str option

val esc_char : (n * n) list -> n -> n -> n list -> n -> str res

val esc_all : (n -> str res) -> str -> str res

val esc_str_char : n -> str res

val esc_uri_char : n -> str res

val escape_str : str -> str res

val escape_uri : str -> str res

val zdump_str : str -> str res

val zdump_uri : str -> str res

val is_hex : n -> bool

val hexval : n -> n

val str_esc_letters : n list

val uri_esc_letters : n list

val esc_char_match : n -> n list -> str -> (str * str) option

val chars_loop : nat -> n -> n list -> str -> str * str

val match_chars : n -> n list -> str -> str * str

val unesc_letter : bool -> n -> str

val unescape : bool -> str -> str res

val quoted : n -> n list -> bool -> str -> (str res * str) option

val hs_str : str -> (str res * str) option

val hs_uri : str -> (str res * str) option

val sresstr : str res -> sexp

val cmd_esc : sexp list -> sexp

val cmd_read_quoted : bool -> sexp list -> sexp

type numkind =
| NkFin
| NkInf
| NkNegInf
| NkNaN

type zone =
| ZName of str
| ZError of exn

type hval =
| VNull
| VMarker
| VNA
| VRemove
| VBool of bool
| VNum of numkind * str * str * str option
| VStr of str
| VUri of str
| VBin of str
| VRef of str * str option
| VXStr of str * str
| VDate of n * n * n
| VTime of n * n * n * n
| VDateTime of n * n * n * n * n * n * n * z * zone
| VDateTimeRaw of str * str option
| VCoord of str * str
| VList of hval list
| VDict of (str * hval) list
| VGrid of str * (str * hval) list * (str * (str * hval) list) list
   * (str * hval) list list

type json =
| JNull
| JBool of bool
| JNum of str
| JStr of str
| JArr of json list
| JObj of (str * json) list

val assoc : str -> (str * 'a1) list -> 'a1 option

val remove_key : str -> (str * 'a1) list -> (str * 'a1) list

val dict_set : str -> 'a1 -> (str * 'a1) list -> (str * 'a1) list

val dict_of : (str * 'a1) list -> (str * 'a1) list

val d2 : n -> str

val d4 : n -> str

val d6 : n -> str

val iso_date : n -> n -> n -> str

val iso_time : n -> n -> n -> n -> str

val iso_offset : z -> str

val iso_datetime : n -> n -> n -> n -> n -> n -> n -> z -> str

val dec_opt_str : sexp -> str option

val dec_N : sexp -> n

val dec_numkind : sexp -> numkind

val dec_exn : sexp -> exn

val dec_hval : nat -> sexp -> hval option

val sopts : str option -> sexp

val snumkind : numkind -> sexp

val shval : nat -> hval -> sexp

val sjson : nat -> json -> sexp

val dec_json : nat -> sexp -> json option

val marker_str : str

val na_str : str

val remove2_str : str

val remove3_str : str

val cOLON : n

val sP : n

val is_v3_only : hval -> bool

val pre3_of : str -> bool res

val jnum_text : numkind -> str -> str

val jdump : nat -> bool -> hval -> json res

val jdump_grid :
  nat -> str -> (str * hval) list -> (str * (str * hval) list) list ->
  (str * hval) list list -> json res

val vdepth : hval -> nat

val jdump_scalar : bool -> hval -> json res

val jdump_top : hval -> json res

val strip_prefix : str -> str -> str option

val span : (n -> bool) -> str -> str * str

val nLc : n

val at_end : str -> bool

val at_eol : str -> bool

val two_digits : str -> (str * str) option

val four_digits : str -> (str * str) option

val hd_is : n -> str -> str option

val dot_digits : str -> (str * str) option

val opt_frac : str -> str * str

val exp_part : str -> (str * str) option

val opt_exp : str -> str * str

val number_body : str -> str -> (str * str option) option

val match_number : str -> (str * str option) option

val is_ref_char : n -> bool

val match_ref : str -> (str * str option) option

val days_in_month : n -> n -> n

val valid_date : n -> n -> n -> bool

val match_date : str -> hval res option

val split_dot1 : str -> str * str option

val all_digits : str -> bool

val usec_of : str -> n

val secs_part : str -> ((str * str) * str) option

val match_time : str -> hval res option

val is_tzname_char : n -> bool

val tz_part : str -> (str * str) option

val match_datetime : str -> (str * str option) option

val coord_part : str -> str * str

val has_digit : str -> bool

val match_coord : str -> hval res option

val split_colon1 : str -> str * str option

val mem_colon : str -> bool

val jparse_str : bool -> str -> hval res

val is_grid_obj : (str * json) list -> bool

val jparse : nat -> bool -> json -> hval res

val jparse_grid : nat -> (str * json) list -> hval res

val jdepth : json -> nat

val jparse_scalar : bool -> json -> hval res

val jparse_top : json -> hval res

val cmd_jdump : sexp list -> sexp

val cmd_jparse : sexp list -> sexp

val nL1 : str

val znum_text : numkind -> str -> str

val res_map : ('a1 -> 'a2 res) -> 'a1 list -> 'a2 list res

val zdump : nat -> bool -> hval -> str res

val zdump_grid :
  nat -> str -> (str * hval) list -> (str * (str * hval) list) list ->
  (str * hval) list list -> str res

val zdump_scalar : bool -> hval -> str res

val zdump_top : hval -> str res

val cmd_zdump : sexp list -> sexp

type 'a parser0 = str -> ('a res * str) option

val pmap : ('a1 -> 'a2) -> 'a1 parser0 -> 'a2 parser0

val pact : ('a1 -> 'a2 res) -> 'a1 parser0 -> 'a2 parser0

val pand : 'a1 parser0 -> 'a2 parser0 -> ('a1 * 'a2) parser0

val pthen : 'a1 parser0 -> 'a2 parser0 -> 'a2 parser0

val pbefore : 'a1 parser0 -> 'a2 parser0 -> 'a1 parser0

val popt : 'a1 parser0 -> 'a1 option parser0

val por_pick :
  ('a1 res * str) option -> 'a1 parser0 list -> str -> ('a1 res * str) option

val por : 'a1 parser0 list -> 'a1 parser0

val pmany_fuel : nat -> 'a1 parser0 -> str -> 'a1 list res * str

val pmany : 'a1 parser0 -> 'a1 list parser0

val pdelimited : 'a1 parser0 -> 'a2 parser0 -> 'a1 list parser0

val plit : str -> unit parser0

val pchar : (n -> bool) -> n parser0

val pspan : (n -> bool) -> str parser0

val pspan1 : (n -> bool) -> str parser0

val is_sp : n -> bool

val spaces : unit parser0

val value_sep : unit parser0

val nl : unit parser0

val is_alpha : n -> bool

val is_ascii_digit : n -> bool

val is_upper : n -> bool

val is_id_rest : n -> bool

val p_id : str parser0

val p_str : str parser0

val p_uri : str parser0

val is_zref_char : n -> bool

val p_ref : hval parser0

val is_bin_char : n -> bool

val p_bin : hval parser0

val is_xname_char : n -> bool

val p_xstr : hval parser0

val p_date_str : ((str * str) * str) parser0

val p_time_str : (((str * str) * str) * str option) parser0

val time_text : (((str * str) * str) * str option) -> str

val date_text : ((str * str) * str) -> str

val p_date : hval parser0

val p_time : hval parser0

val p_offset : str parser0

val p_iso_datetime : str parser0

val is_tzname_rest : n -> bool

val p_tz_utc_offset : str parser0

val p_tz_name : str parser0

val p_timezone_name : str parser0

val p_datetime : hval parser0

val is_digit_us : n -> bool

val p_digits : str parser0

val has_any : str option -> bool

val p_coord_deg : str parser0

val p_coord : hval parser0

val p_exp : (str * bool) parser0

val p_decimal : str parser0

val is_unit_char : n -> bool

val p_unit : str parser0

val p_number : hval parser0

val p_null : hval parser0

val p_marker : hval parser0

val p_remove : hval parser0

val p_na : hval parser0

val p_bool : hval parser0

val scalars_2_0 : hval parser0 list

val p_scalar : nat -> bool -> str -> (hval res * str) option

val p_grid : nat -> bool -> str -> (hval res * str) option

val is_pp_ws : n -> bool

val only_ws : str -> bool

val ver_chars : str -> str * str

val sniff_version : str -> str option

val zparse_grid : str -> hval res

val zparse_scalar : bool -> str -> hval res

val strip_trailing_nls : str -> str

val norm_trailing : str -> str

val split_grids_from : str -> bool -> bool -> str -> str list

val split_grids : str -> str list

val is_blank_chunk : str -> bool

val zparse_doc : str -> hval list res

val cmd_zparse : sexp list -> sexp

val grid_v3_tests : string list

val zdump_gated : string list

val zdump_ladder : string list

val jdump_gated : string list

val jdump_ladder : string list

type kind =
| KNull
| KNA
| KMarker
| KRemove
| KList
| KDict
| KBool
| KRef0
| KBin
| KXStr
| KUri
| KStr0
| KDateTime0
| KTime0
| KDate0
| KCoord0
| KQty0
| KNum0
| KGrid

val kind_eqb : kind -> kind -> bool

val all_kinds : kind list

val kind_of : hval -> kind

val strip_var : string -> string

val test_true_for : string -> kind list

val test_holds : string -> kind -> bool

val first_branch : string list -> kind -> string option

val mem_string : string -> string list -> bool

val ladder_refuses : string list -> string list -> kind -> bool

val grid_detects : hval -> bool

type tags = (str * hval) list

type gate = { gver : str; ggiven : bool; gmeta0 : tags;
              gcols0 : (str * tags) list; grows0 : tags list }

val v30 : str

val assert_v3 : gate -> gate res

val detect : gate -> hval -> gate res

val detect_all : gate -> hval list -> gate res

type gate_op =
| OMetaSet of str * hval
| OColMetaSet of str * str * hval
| OColSet of str * tags
| OColAdd of str * tags
| OAppend0 of tags
| OInsert of z * tags
| OSetItem of z * tags
| OExtend0 of tags list

val with_state : gate -> gate res -> gate * unit res

val append_all : gate -> tags list -> gate * unit res

val gate_step : gate -> gate_op -> gate * unit res

val gate_new : str option -> gate res

val gate_values : gate -> hval list

val dec_tags : sexp -> tags option

val dec_gate_op : sexp -> gate_op option

val sgate_obs : gate -> unit res -> sexp

val gate_trace : gate -> sexp list -> sexp list

val cmd_gate_run : sexp list -> sexp

val cmd_gate_kinds : sexp list -> sexp

val haystack_timezones : str list

val pytz_all_timezones : str list

val mem_str : str -> str list -> bool

val remove_str : str -> str list -> str list

val nodup_str : str list -> str list

val sLASH : n

val split_slash : str -> (str * str) option

val has_slash : str -> bool

val map_go : str list -> str list -> (str * str) list -> (str * str) list

val map_timezones : str list -> str list -> (str * str) list

val tz_map : (str * str) list

val lookup0 : str -> (str * str) list -> str option

val rlookup : str -> (str * str) list -> str option

type adt = { inst : z; off : z; zone0 : str option }

val uTC : str

val offset_matches : (str -> z -> z option) -> str -> adt -> bool

val tz_name : (str -> z -> z option) -> (str * str) list -> adt -> str res

type dttext = { local : z; toff : z; tname : str option }

val write : (str -> z -> z option) -> (str * str) list -> adt -> dttext res

val read : (str -> z -> z option) -> (str * str) list -> dttext -> adt

val cmd_tz_map : sexp list -> sexp

val cmd_tz_name : sexp list -> sexp

type cmpop0 =
| CEq
| CNe
| CLe
| CGe
| CLt
| CGt

type path = str list

type fexpr =
| FHas of path
| FMissing of path
| FCmp of cmpop0 * path * hval
| FAnd of fexpr * fexpr
| FOr of fexpr * fexpr

type inp = { prev : n; rest : str }

type 'a fparser = inp -> ('a * inp) option

val is_ws : n -> bool

val skip_ws : inp -> nat -> inp

val ws : inp -> inp

val eat : str -> inp -> inp option

val lit : str -> unit fparser

val run : (n -> bool) -> inp -> nat -> str * inp

val span_of : (n -> bool) -> inp -> str * inp

val is_lower : n -> bool

val is_alpha0 : n -> bool

val is_dig : n -> bool

val is_id_rest0 : n -> bool

val is_kw_char : n -> bool

val keyword : str -> unit fparser

val p_name : str fparser

val p_path_rest : nat -> inp -> str list * inp

val p_path : path fparser

val p_cmpop : cmpop0 fparser

val to_inp_result : (str -> ('a1 * str) option) -> inp -> ('a1 * inp) option

val p_qstr : str fparser

val p_quri : str fparser

val is_ref_char0 : n -> bool

val p_ref0 : hval fparser

val is_dig_us : n -> bool

val p_decimal_text : str -> (str * str) option

val is_unit_char0 : n -> bool

val p_number0 : hval fparser

val p_val : hval fparser

val kW_NOT : str

val kW_AND : str

val kW_OR : str

val fold_more :
  nat -> str -> (fexpr -> fexpr -> fexpr) -> fexpr fparser -> fexpr -> inp ->
  fexpr * inp

val p_term_with : fexpr fparser -> fexpr fparser

val p_and_with : fexpr fparser -> fexpr fparser

val p_or_with : fexpr fparser -> fexpr fparser

val p_filter : nat -> inp -> (fexpr * inp) option

val fparse : str -> fexpr option

type pyexpr =
| PGetPath of path
| PConst of nat
| PCompare of cmpop0 * pyexpr * pyexpr
| PAnd of pyexpr * pyexpr
| POr of pyexpr * pyexpr
| PIdNe of pyexpr
| PIdEq of pyexpr

val fgen : fexpr -> hval list -> pyexpr * hval list

val op_text : cmpop0 -> str

val py_list_repr : path -> str

val render : pyexpr -> str

type fval =
| FNull
| FStr of str * n
| FRef of str * str * n
| FDict of (str * fval) list * n
| FOther of n

type frow = (str * fval) list

val iD : str

val id_key : frow -> str option

val grid_get : frow list -> str -> frow option

val follow_ref : frow list -> str -> frow option

type fobj =
| ORow0 of frow
| OVal of fval

val get_path : frow list -> fobj -> path -> fval option

type pyv =
| PVBool of bool
| PVVal of fval option
| PVLit of hval
| PVBad

val truthy : pyv -> bool

val eval :
  (cmpop0 -> fval -> hval -> bool) -> frow list -> frow -> hval list ->
  pyexpr -> pyv

val filter_loop : ('a1 -> bool) -> nat -> nat -> 'a1 list -> 'a1 list

val is_blank_text : str -> bool

val run_filter : ('a1 -> bool) option -> z -> 'a1 list -> 'a1 list

val scmp0 : cmpop0 -> sexp

val spath : path -> sexp

val sfexpr : fexpr -> sexp

val cmd_fparse : sexp list -> sexp

val dec_fval : nat -> sexp -> fval option

val dec_frow : sexp -> frow option

val vid_of : fval -> n option

val cmd_frun : sexp list -> sexp

type key0 = n

type name = nat

val glookup : name -> (name * key0) list -> key0 option

val gdel : name -> (name * key0) list -> (name * key0) list

val cfind : key0 -> (key0 * name) list -> name option

val cdel : key0 -> (key0 * name) list -> (key0 * name) list

type cstate = { ctr : name; globals : (name * key0) list;
                cache : (key0 * name) list }

val cinit : cstate

val call : nat -> cstate -> key0 -> cstate * key0 option

val run_calls : nat -> cstate -> key0 list -> cstate * key0 option list

val cmd_cache_run : sexp list -> sexp

val run_command : sexp -> sexp
