(* Proofs about Model/ZincParse.v: which exceptions the grammar can raise. *)
From Coq Require Import List NArith Bool Lia.
From HS Require Import Base.Prelude Model.Value Model.Escape Model.Version Model.Json Model.ZincParse.
From HS Require Import Proofs.VersionP Proofs.EscapeP.
Import ListNotations.
Open Scope N_scope.

(* the only exceptions a parse action of the grammar raises *)
Definition okexn (e : exn) : Prop := e = ValueError \/ e = OutOfFuel.
Definition safe {A} (p : parser A) : Prop := forall t e r, p t = Some (Raise e, r) -> okexn e.
Definition noraise {A} (p : parser A) : Prop := forall t e r, p t <> Some (Raise e, r).

Lemma noraise_safe {A} (p : parser A) : noraise p -> safe p.
Proof. intros H t e r E. exfalso. exact (H t e r E). Qed.

Lemma safe_pmap {A B} (f : A -> B) p : safe p -> safe (pmap f p).
Proof.
  intros H t e r. unfold pmap. destruct (p t) as [[[a|e'] r']|] eqn:E; intro Q; inversion Q; subst. eapply H; eauto.
Qed.
Lemma noraise_pmap {A B} (f : A -> B) p : noraise p -> noraise (pmap f p).
Proof.
  intros H t e r. unfold pmap. destruct (p t) as [[[a|e'] r']|] eqn:E; intro Q; inversion Q; subst. eapply H; eauto.
Qed.
Lemma safe_pact {A B} (f : A -> res B) p : safe p -> (forall a e, f a = Raise e -> okexn e) -> safe (pact f p).
Proof.
  intros H Hf t e r. unfold pact. destruct (p t) as [[[a|e'] r']|] eqn:E; intro Q; inversion Q; subst.
  - eapply Hf; eauto.
  - eapply H; eauto.
Qed.
Lemma safe_pand {A B} (p : parser A) (q : parser B) : safe p -> safe q -> safe (pand p q).
Proof.
  intros Hp Hq t e r. unfold pand. destruct (p t) as [[ra t1]|] eqn:E1; [|discriminate].
  destruct (q t1) as [[rb t2]|] eqn:E2; [|discriminate].
  intro Q. inversion Q; subst. destruct ra as [a|ea]; destruct rb as [b|eb]; try discriminate;
    match goal with H : Raise _ = Raise _ |- _ => inversion H; subst end; eauto.
Qed.
Lemma noraise_pand {A B} (p : parser A) (q : parser B) : noraise p -> noraise q -> noraise (pand p q).
Proof.
  intros Hp Hq t e r. unfold pand. destruct (p t) as [[ra t1]|] eqn:E1; [|discriminate].
  destruct (q t1) as [[rb t2]|] eqn:E2; [|discriminate].
  intro Q. inversion Q; subst. destruct ra as [a|ea]; destruct rb as [b|eb]; try discriminate.
  - eapply Hq; eauto. - eapply Hp; eauto. - eapply Hp; eauto.
Qed.
Lemma safe_pthen {A B} (p : parser A) (q : parser B) : safe p -> safe q -> safe (pthen p q).
Proof. intros. apply safe_pmap, safe_pand; assumption. Qed.
Lemma safe_pbefore {A B} (p : parser A) (q : parser B) : safe p -> safe q -> safe (pbefore p q).
Proof. intros. apply safe_pmap, safe_pand; assumption. Qed.
Lemma noraise_pthen {A B} (p : parser A) (q : parser B) : noraise p -> noraise q -> noraise (pthen p q).
Proof. intros. apply noraise_pmap, noraise_pand; assumption. Qed.
Lemma noraise_pbefore {A B} (p : parser A) (q : parser B) : noraise p -> noraise q -> noraise (pbefore p q).
Proof. intros. apply noraise_pmap, noraise_pand; assumption. Qed.
Lemma safe_popt {A} (p : parser A) : safe p -> safe (popt p).
Proof.
  intros H t e r. unfold popt. destruct (p t) as [[[a|e'] r']|] eqn:E; intro Q; inversion Q; subst. eapply H; eauto.
Qed.
Lemma noraise_popt {A} (p : parser A) : noraise p -> noraise (popt p).
Proof.
  intros H t e r. unfold popt. destruct (p t) as [[[a|e'] r']|] eqn:E; intro Q; inversion Q; subst. eapply H; eauto.
Qed.

Lemma safe_por_pick {A} (ps : list (parser A)) : Forall safe ps ->
  forall best t e r, (forall e' r', best = Some (Raise e', r') -> okexn e') ->
  por_pick best ps t = Some (Raise e, r) -> okexn e.
Proof.
  induction 1 as [|p ps Hp Hps IH]; intros best t e r Hb; cbn [por_pick].
  - intro Q. eapply Hb; eauto.
  - destruct (p t) as [[rr rest]|] eqn:E.
    + assert (Hnew : forall e' r', Some (rr, rest) = Some (Raise e', r') -> okexn e').
      { intros e' r' Q. inversion Q; subst. eapply Hp; eauto. }
      destruct best as [[br brest]|].
      * destruct (Nat.ltb (length rest) (length brest)); apply IH; assumption.
      * apply IH; assumption.
    + apply IH; assumption.
Qed.
Lemma safe_por {A} (ps : list (parser A)) : Forall safe ps -> safe (por ps).
Proof. intros H t e r. unfold por. eapply safe_por_pick; eauto. intros; discriminate. Qed.
Lemma noraise_por {A} (ps : list (parser A)) : Forall noraise ps -> noraise (por ps).
Proof.
  intros H t e r Q.
  assert (G : forall best, (forall e' r', best <> Some (Raise e', r')) -> por_pick best ps t <> Some (Raise e, r)).
  { clear Q. induction H as [|p ps Hp Hps IH]; intros best Hb; cbn [por_pick].
    - apply Hb.
    - destruct (p t) as [[rr rest]|] eqn:E.
      + assert (Hnew : forall e' r', Some (rr, rest) <> Some (Raise e', r')).
        { intros e' r' Q. inversion Q; subst. eapply Hp; eauto. }
        destruct best as [[br brest]|].
        * destruct (Nat.ltb (length rest) (length brest)); apply IH; assumption.
        * apply IH; assumption.
      + apply IH; assumption. }
  eapply G; eauto. intros; discriminate.
Qed.

Lemma safe_pmany_fuel {A} (p : parser A) : safe p -> forall fuel t e r, pmany_fuel fuel p t = (Raise e, r) -> okexn e.
Proof.
  intros H. induction fuel as [|f IH]; intros t e r; cbn [pmany_fuel]; [discriminate|].
  destruct (p t) as [[rr t1]|] eqn:E; [|discriminate].
  destruct (Nat.ltb (length t1) (length t)); [|discriminate].
  destruct (pmany_fuel f p t1) as [rs t2] eqn:E2.
  intro Q. inversion Q; subst. destruct rr as [a|ea]; destruct rs as [l|el]; try discriminate;
    match goal with H0 : Raise _ = Raise _ |- _ => inversion H0; subst end; eauto.
Qed.
Lemma safe_pmany {A} (p : parser A) : safe p -> safe (pmany p).
Proof. intros H t e r. unfold pmany. intro Q. assert (Q' : pmany_fuel (S (length t)) p t = (Raise e, r)) by (inversion Q; reflexivity). exact (safe_pmany_fuel p H _ _ _ _ Q'). Qed.
Lemma safe_pdelimited {A B} (p : parser A) (d : parser B) : safe p -> safe d -> safe (pdelimited p d).
Proof. intros. apply safe_pmap, safe_pand; [assumption|]. apply safe_pmany, safe_pthen; assumption. Qed.

Lemma noraise_plit s : noraise (plit s).
Proof. intros t e r. unfold plit. destruct (strip_prefix s t); discriminate. Qed.
Lemma noraise_pchar f : noraise (pchar f).
Proof. intros t e r. unfold pchar. destruct t as [|c t']; [discriminate|]. destruct (f c); discriminate. Qed.
Lemma noraise_pspan f : noraise (pspan f).
Proof. intros t e r. unfold pspan. destruct (span f t). discriminate. Qed.
Lemma noraise_pspan1 f : noraise (pspan1 f).
Proof. intros t e r. unfold pspan1. destruct (span f t) as [a b]. destruct a; discriminate. Qed.

(* ---- the quoted literals never raise: what the character regex matched always decodes ---- *)
Lemma letters_not_u (uri : bool) (e : N) :
  memN e (if uri then uri_esc_letters else str_esc_letters) = true -> (e =? 117) || (e =? 85) = false.
Proof.
  intro H. destruct (e =? 117) eqn:E1; [apply N.eqb_eq in E1; subst; destruct uri; vm_compute in H; discriminate|].
  destruct (e =? 85) eqn:E2; [apply N.eqb_eq in E2; subst; destruct uri; vm_compute in H; discriminate|]. reflexivity.
Qed.

Lemma unescape_app_plain (uri : bool) (c : N) (b : str) : (c =? BSL) = false -> unescape uri (c :: b) = (do r <- unescape uri b; Ok (c :: r)).
Proof. intro H. cbn [unescape]. rewrite H. reflexivity. Qed.

Lemma matched_decodes (uri : bool) (quote : N) : forall fuel t body rest,
  chars_loop fuel quote (if uri then uri_esc_letters else str_esc_letters) t = (body, rest) ->
  exists s, unescape uri body = Ok s.
Proof.
  induction fuel as [|f IH]; intros t body rest; cbn [chars_loop].
  - intro Q; inversion Q; subst. exists []. reflexivity.
  - destruct (esc_char_match quote _ t) as [[m r]|] eqn:Em.
    + destruct (chars_loop f quote _ r) as [b r'] eqn:El. intro Q; inversion Q; subst. clear Q.
      destruct (IH _ _ _ El) as [s Hs].
      unfold esc_char_match in Em. destruct t as [|c t']; [discriminate|].
      destruct (negb ((c <? 32) || (c =? BSL) || (c =? quote))) eqn:Eplain.
      * inversion Em; subst. apply negb_true_iff in Eplain. apply orb_false_iff in Eplain as [Ep _].
        apply orb_false_iff in Ep as [_ Ebs]. cbn [List.app]. rewrite unescape_app_plain by exact Ebs. rewrite Hs. eexists; reflexivity.
      * destruct (c =? BSL) eqn:Ebs; [|discriminate].
        destruct t' as [|e t'']; [discriminate|].
        destruct (memN e _) eqn:Eletter.
        -- inversion Em; subst. cbn [List.app unescape]. rewrite Ebs. rewrite (letters_not_u uri e Eletter). rewrite Hs. eexists; reflexivity.
        -- destruct ((e =? 117) || (e =? 85)) eqn:Eu; [|discriminate].
           destruct t'' as [|a [|b0 [|x [|d t3]]]]; try discriminate.
           destruct (is_hex a && is_hex b0 && is_hex x && is_hex d) eqn:Ehex; [|discriminate].
           inversion Em; subst. cbn [List.app unescape]. rewrite Ebs, Eu, Ehex, Hs. eexists; reflexivity.
    + intro Q; inversion Q; subst. exists []. reflexivity.
Qed.

Lemma noraise_quoted (uri : bool) (quote : N) : noraise (quoted quote (if uri then uri_esc_letters else str_esc_letters) uri).
Proof.
  intros t e r. unfold quoted. destruct t as [|q t1]; [discriminate|]. destruct (q =? quote); [|discriminate].
  destruct (match_chars quote _ t1) as [body t2] eqn:E. destruct t2 as [|q2 rest]; [discriminate|].
  destruct (q2 =? quote); [|discriminate]. unfold match_chars in E. destruct (matched_decodes uri quote _ _ _ _ E) as [s Hs].
  rewrite Hs. discriminate.
Qed.
Lemma noraise_hs_str : noraise hs_str.
Proof. exact (noraise_quoted false DQ). Qed.
Lemma noraise_hs_uri : noraise hs_uri.
Proof. exact (noraise_quoted true BQ). Qed.

(* ---- the grammar rules ---- *)
Ltac crack := repeat match goal with
  | |- context [match ?x with _ => _ end] => destruct x
  end; try discriminate.
Ltac direct_noraise := let t := fresh "t" in let e := fresh "e" in let r := fresh "r" in intros t e r; crack.

Lemma noraise_p_id : noraise p_id. Proof. unfold p_id. direct_noraise. Qed.
Lemma noraise_p_date_str : noraise p_date_str. Proof. unfold p_date_str. direct_noraise. Qed.
Lemma noraise_p_time_str : noraise p_time_str. Proof. unfold p_time_str. direct_noraise. Qed.
Lemma noraise_p_tz_name : noraise p_tz_name. Proof. unfold p_tz_name. direct_noraise. Qed.
Lemma noraise_spaces : noraise spaces. Proof. apply noraise_pmap, noraise_pspan. Qed.

Ltac nr := repeat first
  [ apply noraise_p_id | apply noraise_p_date_str | apply noraise_p_time_str | apply noraise_p_tz_name | apply noraise_spaces
  | apply noraise_hs_str | apply noraise_hs_uri
  | apply noraise_plit | apply noraise_pchar | apply noraise_pspan | apply noraise_pspan1
  | apply noraise_pthen | apply noraise_pbefore | apply noraise_pmap | apply noraise_pand | apply noraise_popt
  | apply noraise_por; repeat apply Forall_cons; try apply Forall_nil ].

Lemma noraise_value_sep : noraise value_sep. Proof. unfold value_sep. nr. Qed.
Lemma noraise_nl : noraise nl. Proof. unfold nl. direct_noraise. Qed.
Lemma noraise_p_ref : noraise p_ref. Proof. unfold p_ref, p_str. nr. Qed.
Lemma noraise_p_bin : noraise p_bin. Proof. unfold p_bin. nr. Qed.
Lemma noraise_p_xstr : noraise p_xstr. Proof. unfold p_xstr, p_str. nr. Qed.
Lemma noraise_p_offset : noraise p_offset. Proof. unfold p_offset. nr. direct_noraise. Qed.
Lemma noraise_p_timezone_name : noraise p_timezone_name. Proof. unfold p_timezone_name, p_tz_utc_offset. nr. Qed.
Lemma noraise_p_digits : noraise p_digits. Proof. unfold p_digits. nr. Qed.
Lemma noraise_p_exp : noraise p_exp. Proof. unfold p_exp. nr; apply noraise_p_digits. Qed.
Lemma noraise_p_unit : noraise p_unit. Proof. unfold p_unit. nr. Qed.
Lemma noraise_consts : noraise p_null /\ noraise p_marker /\ noraise p_remove /\ noraise p_na /\ noraise p_bool.
Proof. unfold p_null, p_marker, p_remove, p_na, p_bool. repeat split; nr. Qed.

Ltac nr2 := repeat first
  [ apply noraise_p_offset | apply noraise_p_timezone_name | apply noraise_p_digits | apply noraise_p_exp | apply noraise_p_unit
  | apply noraise_value_sep | apply noraise_nl | apply noraise_p_ref | apply noraise_p_bin | apply noraise_p_xstr
  | apply noraise_p_id | apply noraise_p_date_str | apply noraise_p_time_str | apply noraise_p_tz_name | apply noraise_spaces
  | apply noraise_hs_str | apply noraise_hs_uri
  | apply noraise_plit | apply noraise_pchar | apply noraise_pspan | apply noraise_pspan1
  | apply noraise_pthen | apply noraise_pbefore | apply noraise_pmap | apply noraise_pand | apply noraise_popt
  | apply noraise_por; repeat apply Forall_cons; try apply Forall_nil ].

Ltac act := let a := fresh "a" in let e := fresh "e" in let Q := fresh "Q" in
  intros a e; repeat match goal with x : (_ * _)%type |- _ => destruct x end; cbn beta iota;
  intro Q; repeat match type of Q with context [match ?x with _ => _ end] => destruct x end;
  try discriminate; inversion Q; left; reflexivity.

Lemma safe_p_date : safe p_date.
Proof. unfold p_date. apply safe_pact; [apply noraise_safe, noraise_p_date_str|]. act. Qed.
Lemma safe_p_time : safe p_time.
Proof. unfold p_time. apply safe_pact; [apply noraise_safe, noraise_p_time_str|]. act. Qed.
Lemma safe_p_iso_datetime : safe p_iso_datetime.
Proof.
  unfold p_iso_datetime. apply safe_pact.
  - apply noraise_safe. nr2.
  - act.
Qed.
Lemma safe_p_datetime : safe p_datetime.
Proof.
  unfold p_datetime. apply safe_pmap, safe_pand; [apply safe_p_iso_datetime|].
  apply noraise_safe. nr2.
Qed.
Lemma safe_p_coord_deg : safe p_coord_deg.
Proof.
  unfold p_coord_deg. apply safe_pact.
  - apply noraise_safe. nr2.
  - act.
Qed.
Lemma safe_p_coord : safe p_coord.
Proof.
  unfold p_coord. apply safe_pmap, safe_pthen; [apply noraise_safe, noraise_plit|].
  apply safe_pand; [apply safe_p_coord_deg|]. apply safe_pthen; [apply noraise_safe, noraise_value_sep|].
  apply safe_pbefore; [apply safe_p_coord_deg|apply noraise_safe, noraise_plit].
Qed.
Lemma safe_p_decimal : safe p_decimal.
Proof.
  unfold p_decimal. apply safe_pact.
  - apply noraise_safe. nr2.
  - act.
Qed.
Lemma safe_p_number : safe p_number.
Proof.
  unfold p_number. apply safe_por. repeat apply Forall_cons; try apply Forall_nil.
  - apply safe_pmap, safe_pand; [apply safe_p_decimal|apply noraise_safe, noraise_p_unit].
  - apply safe_pmap, safe_p_decimal.
  - apply noraise_safe. nr2.
Qed.

(* ---- the recursive rules ---- *)
Lemma parse_ver_raises t e : parse_ver t = Raise e -> e = ValueError.
Proof.
  unfold parse_ver. destruct t as [|c t']; [intro Q; inversion Q; reflexivity|].
  destruct (is_digit c); [destruct (span_numdots (c :: t')); discriminate|intro Q; inversion Q; reflexivity].
Qed.
Lemma officials_nonempty : officials <> [].
Proof. vm_compute. discriminate. Qed.
Lemma pre3_of_ok ver pv : parse_ver ver = Ok pv -> exists b, pre3_of ver = Ok b.
Proof.
  intro H. unfold pre3_of. rewrite H. cbn [bind].
  destruct (nearest_spec officials pv officials_nonempty) as [r [Hr _]]. rewrite Hr. cbn [bind]. eexists; reflexivity.
Qed.

Ltac sf := repeat first
  [ assumption
  | apply safe_p_date | apply safe_p_time | apply safe_p_datetime | apply safe_p_coord | apply safe_p_number
  | solve [intros ? ? ? Q; discriminate Q]
  | apply noraise_safe; solve [nr2 | apply noraise_consts]
  | apply safe_pmap | apply safe_pthen | apply safe_pbefore | apply safe_pand | apply safe_popt
  | apply safe_pdelimited | apply safe_pmany
  | apply safe_por; repeat apply Forall_cons; try apply Forall_nil ].

Lemma safe_scalar_grid : forall f v, safe (p_scalar f v) /\ safe (p_grid f v).
Proof.
  induction f as [|f IH]; intro v.
  - split; intros t e r Q; cbn in Q; inversion Q; right; reflexivity.
  - split.
    + intros t e r. cbn [p_scalar]. destruct v.
      * cbv zeta. pose proof (proj1 (IH true)) as IHs. pose proof (proj2 (IH true)) as IHg.
        apply safe_por. repeat apply Forall_cons; try apply Forall_nil; sf.
      * unfold scalars_2_0. apply safe_por. repeat apply Forall_cons; try apply Forall_nil; sf.
    + intros t e r. cbn [p_grid]. cbv zeta. pose proof (proj1 (IH v)) as IHs.
      apply safe_pact.
      * sf.
      * intros a e0. destruct a as [[ver meta] [cols rows]]. cbn beta iota.
        destruct (parse_ver ver) as [pv|e1] eqn:Epv; cbn [bind].
        -- destruct (pre3_of_ok ver pv Epv) as [b Hb]. rewrite Hb. cbn [bind].
           match goal with |- context [if ?c then _ else _] => destruct c end; intro Q; inversion Q; left; reflexivity.
        -- intro Q; inversion Q; subst. left. eapply parse_ver_raises; eauto.
Qed.

(* ---- top level ---- *)
Lemma zparse_grid_total t : (exists g, zparse_grid t = Ok g) \/ zparse_grid t = Raise ZincParseException.
Proof.
  unfold zparse_grid. destruct (sniff_version t); [|right; reflexivity].
  destruct (pre3_of s); [|right; reflexivity].
  destruct (p_grid _ _ t) as [[[g|e] rest]|]; [|right; reflexivity|right; reflexivity].
  destruct (only_ws rest); [left; eexists; reflexivity|right; reflexivity].
Qed.

Lemma zparse_doc_total t : (exists gs, zparse_doc t = Ok gs) \/ zparse_doc t = Raise ZincParseException.
Proof.
  unfold zparse_doc. generalize (filter (fun c => negb (is_blank_chunk c)) (split_grids (norm_trailing t))).
  induction l as [|c l IH].
  - left. eexists; reflexivity.
  - destruct (zparse_grid_total c) as [[g Hg]|Hg]; rewrite Hg; cbn [bind].
    + destruct IH as [[gs Hgs]|Hgs]; rewrite Hgs; cbn [bind]; [left; eexists; reflexivity|right; reflexivity].
    + right; reflexivity.
Qed.

Lemma zparse_scalar_exn v t e : zparse_scalar v t = Raise e -> e = ZincParseException \/ e = ValueError \/ e = OutOfFuel.
Proof.
  unfold zparse_scalar. destruct (p_scalar _ v t) as [[[x|e'] rest]|] eqn:E.
  - destruct (only_ws rest); [discriminate|]. intro Q; inversion Q; auto.
  - intro Q; inversion Q; subst. destruct (proj1 (safe_scalar_grid _ v) _ _ _ E); auto.
  - intro Q; inversion Q; auto.
Qed.

Lemma no_header_rejected t : sniff_version t = None -> zparse_grid t = Raise ZincParseException.
Proof. intro H. unfold zparse_grid. rewrite H. reflexivity. Qed.

(* what the character loop leaves is a suffix of its input *)
Lemma esc_char_match_split quote letters t m r : esc_char_match quote letters t = Some (m, r) -> t = (m ++ r)%list.
Proof.
  unfold esc_char_match. destruct t as [|c t']; [discriminate|].
  destruct (negb _); [intro Q; inversion Q; reflexivity|].
  destruct (c =? BSL) eqn:Ec; [|discriminate]. apply N.eqb_eq in Ec. subst c.
  destruct t' as [|e t'']; [discriminate|]. destruct (memN e letters); [intro Q; inversion Q; reflexivity|].
  destruct ((e =? 117) || (e =? 85)); [|discriminate].
  destruct t'' as [|a [|b0 [|x [|d t3]]]]; try discriminate.
  destruct (is_hex a && is_hex b0 && is_hex x && is_hex d); [|discriminate]. intro Q; inversion Q; reflexivity.
Qed.
Lemma chars_loop_split quote letters : forall fuel t body rest,
  chars_loop fuel quote letters t = (body, rest) -> t = (body ++ rest)%list.
Proof.
  induction fuel as [|f IH]; intros t body rest; cbn [chars_loop].
  - intro Q; inversion Q; reflexivity.
  - destruct (esc_char_match quote letters t) as [[m r]|] eqn:Em; [|intro Q; inversion Q; reflexivity].
    destruct (chars_loop f quote letters r) as [b r'] eqn:El. intro Q; inversion Q; subst.
    apply esc_char_match_split in Em. apply IH in El. subst. rewrite <- app_assoc. reflexivity.
Qed.
Lemma unterminated_rejected quote letters uri t : ~ In quote t -> quoted quote letters uri (quote :: t) = None.
Proof.
  intro H. unfold quoted. rewrite N.eqb_refl. destruct (match_chars quote letters t) as [body t2] eqn:E.
  destruct t2 as [|q2 rest]; [reflexivity|]. destruct (q2 =? quote) eqn:Eq; [|reflexivity].
  exfalso. apply H. apply N.eqb_eq in Eq. subst q2. unfold match_chars in E. apply chars_loop_split in E. rewrite E.
  apply in_or_app. right. left. reflexivity.
Qed.
Lemma por_none {A} (ps : list (parser A)) t : Forall (fun p => p t = None) ps -> por ps t = None.
Proof. unfold por. induction 1 as [|p ps Hp _ IH]; cbn [por_pick]; [reflexivity|]. rewrite Hp. exact IH. Qed.
Definition opener (c : N) : bool := (c =? 91) || (c =? 123) || (c =? 60).
Lemma four_digits_opener c t : opener c = true -> four_digits (c :: t) = None.
Proof. unfold opener. rewrite !orb_true_iff, !N.eqb_eq. intros [[H|H]|H]; subst; destruct t as [|b [|c0 [|d r]]]; reflexivity. Qed.
Lemma two_digits_opener c t : opener c = true -> two_digits (c :: t) = None.
Proof. unfold opener. rewrite !orb_true_iff, !N.eqb_eq. intros [[H|H]|H]; subst; destruct t as [|b r]; reflexivity. Qed.
Lemma scalar_2_0_opener f c t : opener c = true -> p_scalar (S f) false (c :: t) = None.
Proof.
  intro H. cbn [p_scalar]. unfold scalars_2_0. apply por_none.
  assert (Hd : p_date_str (c :: t) = None) by (unfold p_date_str; rewrite four_digits_opener by exact H; reflexivity).
  assert (Ht : p_time_str (c :: t) = None) by (unfold p_time_str; rewrite two_digits_opener by exact H; reflexivity).
  unfold opener in H. rewrite !orb_true_iff, !N.eqb_eq in H.
  repeat apply Forall_cons; try apply Forall_nil.
  - destruct H as [[H|H]|H]; subst; reflexivity.
  - destruct H as [[H|H]|H]; subst; reflexivity.
  - destruct H as [[H|H]|H]; subst; reflexivity.
  - destruct H as [[H|H]|H]; subst; reflexivity.
  - unfold p_datetime, p_iso_datetime, pmap, pact, pand. rewrite Hd. reflexivity.
  - unfold p_date, pact. rewrite Hd. reflexivity.
  - unfold p_time, pact. rewrite Ht. reflexivity.
  - destruct H as [[H|H]|H]; subst; reflexivity.
  - unfold p_number. apply por_none. repeat apply Forall_cons; try apply Forall_nil.
    + destruct H as [[H|H]|H]; subst; reflexivity.
    + destruct H as [[H|H]|H]; subst; reflexivity.
    + apply por_none. repeat apply Forall_cons; try apply Forall_nil; destruct H as [[H|H]|H]; subst; reflexivity.
  - destruct H as [[H|H]|H]; subst; reflexivity.
  - destruct H as [[H|H]|H]; subst; reflexivity.
  - destruct H as [[H|H]|H]; subst; reflexivity.
  - destruct H as [[H|H]|H]; subst; reflexivity.
Qed.

(* ---- the final newline is optional; runs of trailing newlines collapse ---- *)
Lemma strip_trailing_nls_app_nl t : strip_trailing_nls (t ++ [10]) = strip_trailing_nls t.
Proof.
  induction t as [|c t IH].
  - reflexivity.
  - cbn [List.app strip_trailing_nls]. rewrite IH. reflexivity.
Qed.
Lemma norm_trailing_app_nl t : t <> [] -> norm_trailing (t ++ [10]) = norm_trailing t.
Proof.
  intro H. unfold norm_trailing. rewrite strip_trailing_nls_app_nl.
  destruct (strip_trailing_nls t); [|reflexivity].
  destruct t as [|c t']; [contradiction|]. cbn [List.app length Nat.eqb]. reflexivity.
Qed.
Lemma zparse_doc_final_newline t : t <> [] -> zparse_doc (t ++ [10]) = zparse_doc t.
Proof. intro H. unfold zparse_doc. rewrite norm_trailing_app_nl by exact H. reflexivity. Qed.
Lemma zparse_doc_empty : zparse_doc [] = Ok [].
Proof. reflexivity. Qed.

(* ---- a written string / URI literal is read back by the whole scalar alternation ---- *)
Definition quote_c (c : N) : bool := (c =? 34) || (c =? 96).
Lemma four_digits_q c t : quote_c c = true -> four_digits (c :: t) = None.
Proof. unfold quote_c. rewrite !orb_true_iff, !N.eqb_eq. intros [H|H]; subst; destruct t as [|b [|c0 [|d r]]]; reflexivity. Qed.
Lemma two_digits_q c t : quote_c c = true -> two_digits (c :: t) = None.
Proof. unfold quote_c. rewrite !orb_true_iff, !N.eqb_eq. intros [H|H]; subst; destruct t as [|b r]; reflexivity. Qed.

Lemma por_pick_skip {A} (p : parser A) ps best t : p t = None -> por_pick best (p :: ps) t = por_pick best ps t.
Proof. intro H. cbn [por_pick]. rewrite H. reflexivity. Qed.
Lemma por_pick_rest_none {A} (ps : list (parser A)) best t : Forall (fun p => p t = None) ps -> por_pick best ps t = best.
Proof. induction 1 as [|p ps Hp _ IH]; [reflexivity|]. cbn [por_pick]. rewrite Hp. exact IH. Qed.
Lemma por_pick_take {A} (p : parser A) ps t x : p t = Some x -> Forall (fun q => q t = None) ps -> por_pick None (p :: ps) t = Some x.
Proof. intros H F. cbn [por_pick]. rewrite H. destruct x as [r rest]. apply por_pick_rest_none. exact F. Qed.

Ltac headfail H :=
  first [ reflexivity
        | destruct H as [H|H]; subst; reflexivity ].

Lemma scalar_str : forall f v3 s e rest, escape_str s = Ok e ->
  p_scalar (S f) v3 (DQ :: e ++ DQ :: rest) = Some (Ok (VStr s), rest).
Proof.
  intros f v3 s e rest He.
  assert (Hs : pmap VStr p_str (DQ :: e ++ DQ :: rest) = Some (Ok (VStr s), rest)).
  { unfold pmap, p_str, hs_str. rewrite (quoted_roundtrip DQ str_esc_letters false esc_str_char dq_ne dq_32 every_char_str s e rest He). reflexivity. }
  assert (Hd : forall t, p_date_str (DQ :: t) = None) by (intro t; unfold p_date_str; rewrite four_digits_q by reflexivity; reflexivity).
  assert (Ht : forall t, p_time_str (DQ :: t) = None) by (intro t; unfold p_time_str; rewrite two_digits_q by reflexivity; reflexivity).
  assert (Hdt : forall t, p_datetime (DQ :: t) = None) by (intro t; unfold p_datetime, p_iso_datetime, pmap, pact, pand; rewrite Hd; reflexivity).
  assert (Hda : forall t, p_date (DQ :: t) = None) by (intro t; unfold p_date, pact; rewrite Hd; reflexivity).
  assert (Hti : forall t, p_time (DQ :: t) = None) by (intro t; unfold p_time, pact; rewrite Ht; reflexivity).
  assert (Hn : forall t, p_number (DQ :: t) = None).
  { intro t. unfold p_number. apply por_none. repeat apply Forall_cons; try apply Forall_nil; reflexivity. }
  cbn [p_scalar]. destruct v3; cbv zeta; unfold por, scalars_2_0.
  - rewrite por_pick_skip by reflexivity. rewrite por_pick_skip by reflexivity. rewrite por_pick_skip by reflexivity.
    apply por_pick_take; [exact Hs|].
    repeat apply Forall_cons; try apply Forall_nil; try reflexivity; auto.
  - rewrite por_pick_skip by reflexivity. rewrite por_pick_skip by reflexivity.
    apply por_pick_take; [exact Hs|].
    repeat apply Forall_cons; try apply Forall_nil; try reflexivity; auto.
Qed.

Lemma scalar_uri : forall f v3 s e rest, escape_uri s = Ok e ->
  p_scalar (S f) v3 (BQ :: e ++ BQ :: rest) = Some (Ok (VUri s), rest).
Proof.
  intros f v3 s e rest He.
  assert (Hs : pmap VUri p_uri (BQ :: e ++ BQ :: rest) = Some (Ok (VUri s), rest)).
  { unfold pmap, p_uri, hs_uri. rewrite (quoted_roundtrip BQ uri_esc_letters true esc_uri_char bq_ne bq_32 every_char_uri s e rest He). reflexivity. }
  assert (Hd : forall t, p_date_str (BQ :: t) = None) by (intro t; unfold p_date_str; rewrite four_digits_q by reflexivity; reflexivity).
  assert (Ht : forall t, p_time_str (BQ :: t) = None) by (intro t; unfold p_time_str; rewrite two_digits_q by reflexivity; reflexivity).
  assert (Hdt : forall t, p_datetime (BQ :: t) = None) by (intro t; unfold p_datetime, p_iso_datetime, pmap, pact, pand; rewrite Hd; reflexivity).
  assert (Hda : forall t, p_date (BQ :: t) = None) by (intro t; unfold p_date, pact; rewrite Hd; reflexivity).
  assert (Hti : forall t, p_time (BQ :: t) = None) by (intro t; unfold p_time, pact; rewrite Ht; reflexivity).
  assert (Hn : forall t, p_number (BQ :: t) = None).
  { intro t. unfold p_number. apply por_none. repeat apply Forall_cons; try apply Forall_nil; reflexivity. }
  cbn [p_scalar]. destruct v3; cbv zeta; unfold por, scalars_2_0.
  - rewrite por_pick_skip by reflexivity. rewrite por_pick_skip by reflexivity. rewrite por_pick_skip by reflexivity. rewrite por_pick_skip by reflexivity.
    apply por_pick_take; [exact Hs|].
    repeat apply Forall_cons; try apply Forall_nil; try reflexivity; auto.
  - rewrite por_pick_skip by reflexivity. rewrite por_pick_skip by reflexivity. rewrite por_pick_skip by reflexivity.
    apply por_pick_take; [exact Hs|].
    repeat apply Forall_cons; try apply Forall_nil; try reflexivity; auto.
Qed.

(* ---- the one- and two-letter scalars through the whole alternation ---- *)
(* what may follow a cell / element / tag value in a document *)
Definition delim (r : str) : Prop := r = [] \/ exists c r', r = c :: r' /\ In c [44; 10; 13; 32; 93; 125; 62].

Lemma four_digits_letter c t : is_digit c = false -> four_digits (c :: t) = None.
Proof. intro H. destruct t as [|b [|c0 [|d r]]]; cbn [four_digits]; try reflexivity. rewrite H. reflexivity. Qed.
Lemma two_digits_letter c t : is_digit c = false -> two_digits (c :: t) = None.
Proof. intro H. destruct t as [|b r]; cbn [two_digits]; try reflexivity. rewrite H. reflexivity. Qed.

Ltac delim_cases H :=
  destruct H as [H|[c [r' [H Hc]]]]; [subst|subst; cbn [In] in Hc; repeat (destruct Hc as [Hc|Hc]; [subst c|]); [..|contradiction]].

Lemma date_letters c t : is_digit c = false -> p_datetime (c :: t) = None /\ p_date (c :: t) = None /\ p_time (c :: t) = None.
Proof.
  intro H. assert (Hd : p_date_str (c :: t) = None) by (unfold p_date_str; rewrite four_digits_letter by exact H; reflexivity).
  assert (Ht : p_time_str (c :: t) = None) by (unfold p_time_str; rewrite two_digits_letter by exact H; reflexivity).
  repeat split.
  - unfold p_datetime, p_iso_datetime, pmap, pact, pand. rewrite Hd. reflexivity.
  - unfold p_date, pact. rewrite Hd. reflexivity.
  - unfold p_time, pact. rewrite Ht. reflexivity.
Qed.

(* N, M, R, NA, T, F written by the dumper are read back by the whole alternation when a delimiter follows *)
Ltac pick D1 D2 D3 :=
  unfold por;
  repeat first [ rewrite por_pick_skip by exact D1 | rewrite por_pick_skip by exact D2 | rewrite por_pick_skip by exact D3
               | rewrite por_pick_skip by reflexivity ];
  apply por_pick_take; [reflexivity|];
  repeat (apply Forall_cons; [first [exact D1 | exact D2 | exact D3 | reflexivity]|]); apply Forall_nil.

Lemma scalar_null f v3 rest : delim rest -> p_scalar (S f) v3 (78 :: rest) = Some (Ok VNull, rest).
Proof.
  intro H. destruct (date_letters 78 rest eq_refl) as [D1 [D2 D3]].
  cbn [p_scalar]. destruct v3; cbv zeta; unfold scalars_2_0; delim_cases H; pick D1 D2 D3.
Qed.

Lemma scalar_marker f v3 rest : delim rest -> p_scalar (S f) v3 (77 :: rest) = Some (Ok VMarker, rest).
Proof.
  intro H. destruct (date_letters 77 rest eq_refl) as [D1 [D2 D3]].
  cbn [p_scalar]. destruct v3; cbv zeta; unfold scalars_2_0; delim_cases H; pick D1 D2 D3.
Qed.
Lemma scalar_remove f v3 rest : delim rest -> p_scalar (S f) v3 (82 :: rest) = Some (Ok VRemove, rest).
Proof.
  intro H. destruct (date_letters 82 rest eq_refl) as [D1 [D2 D3]].
  cbn [p_scalar]. destruct v3; cbv zeta; unfold scalars_2_0; delim_cases H; pick D1 D2 D3.
Qed.
Lemma scalar_true f v3 rest : delim rest -> p_scalar (S f) v3 (84 :: rest) = Some (Ok (VBool true), rest).
Proof.
  intro H. destruct (date_letters 84 rest eq_refl) as [D1 [D2 D3]].
  cbn [p_scalar]. destruct v3; cbv zeta; unfold scalars_2_0; delim_cases H; pick D1 D2 D3.
Qed.
Lemma scalar_false f v3 rest : delim rest -> p_scalar (S f) v3 (70 :: rest) = Some (Ok (VBool false), rest).
Proof.
  intro H. destruct (date_letters 70 rest eq_refl) as [D1 [D2 D3]].
  cbn [p_scalar]. destruct v3; cbv zeta; unfold scalars_2_0; delim_cases H; pick D1 D2 D3.
Qed.

Lemma por_pick_keep {A} (p : parser A) ps b brest t r rest' :
  p t = Some (r, rest') -> (length brest <= length rest')%nat ->
  por_pick (Some (b, brest)) (p :: ps) t = por_pick (Some (b, brest)) ps t.
Proof. intros H L. cbn [por_pick]. rewrite H. destruct (Nat.ltb_spec (length rest') (length brest)); [lia|reflexivity]. Qed.

Lemma por_pick_start {A} (p : parser A) ps t r rest' :
  p t = Some (r, rest') -> por_pick None (p :: ps) t = por_pick (Some (r, rest')) ps t.
Proof. intro H. cbn [por_pick]. rewrite H. reflexivity. Qed.

(* NA (3.0 only): the longest match wins over N *)
Lemma scalar_na f rest : delim rest -> p_scalar (S f) true (78 :: 65 :: rest) = Some (Ok VNA, rest).
Proof.
  intro H. destruct (date_letters 78 (65 :: rest) eq_refl) as [D1 [D2 D3]].
  cbn [p_scalar]. cbv zeta. unfold por.
  delim_cases H;
    (repeat first [ rewrite por_pick_skip by exact D1 | rewrite por_pick_skip by exact D2 | rewrite por_pick_skip by exact D3
                  | rewrite por_pick_skip by reflexivity ];
     erewrite por_pick_start by reflexivity;
     erewrite por_pick_keep by (first [reflexivity | cbn [length]; lia]);
     apply por_pick_rest_none;
     repeat (apply Forall_cons; [reflexivity|]); apply Forall_nil).
Qed.

(* ---- spellings: digit separators, blanks around commas ---- *)
Lemma span_all f : forall u rest, Forall (fun c => f c = true) u ->
  (match rest with c :: _ => f c = false | [] => True end) -> span f (u ++ rest) = (u, rest).
Proof.
  induction u as [|c u IH]; intros rest Hu Hr; cbn [List.app].
  - destruct rest as [|c r]; cbn [span]; [reflexivity|]. rewrite Hr. reflexivity.
  - inversion Hu; subst. cbn [span]. rewrite H1. rewrite (IH rest H2 Hr). reflexivity.
Qed.

(* `_` digit separators: any non-empty run of digits and underscores is read as its digits *)
Theorem digits_with_separators u rest : u <> [] -> Forall (fun c => is_digit_us c = true) u ->
  (match rest with c :: _ => is_digit_us c = false | [] => True end) ->
  p_digits (u ++ rest) = Some (Ok (filter (fun c => negb (c =? 95)) u), rest).
Proof.
  intros Hne Hu Hr. unfold p_digits, pmap, pspan1. rewrite (span_all is_digit_us u rest Hu Hr).
  destruct u; [contradiction|reflexivity].
Qed.

(* optional blanks around commas *)
Definition blanks (n : nat) : str := repeat 32 n.
Lemma blanks_sp n : Forall (fun c => is_sp c = true) (blanks n).
Proof. induction n; cbn [blanks repeat]; constructor; [reflexivity|exact IHn]. Qed.
Theorem comma_with_blanks a b rest : (match rest with c :: _ => is_sp c = false | [] => True end) ->
  value_sep (blanks a ++ 44 :: blanks b ++ rest) = Some (Ok tt, rest).
Proof.
  intro Hr.
  assert (S1 : spaces (blanks a ++ 44 :: blanks b ++ rest) = Some (Ok tt, 44 :: blanks b ++ rest)).
  { unfold spaces, pmap, pspan. rewrite (span_all is_sp (blanks a) (44 :: blanks b ++ rest) (blanks_sp a) eq_refl). reflexivity. }
  assert (S2 : spaces (blanks b ++ rest) = Some (Ok tt, rest)).
  { unfold spaces, pmap, pspan. rewrite (span_all is_sp (blanks b) rest (blanks_sp b) Hr). reflexivity. }
  unfold value_sep, pthen, pmap, pand. rewrite S1.
  assert (L : plit [44] (44 :: blanks b ++ rest) = Some (Ok tt, blanks b ++ rest)) by reflexivity.
  rewrite L, S2. reflexivity.
Qed.

(* ---- references without display name ---- *)
(* delimiters other than the blank (a blank followed by a quoted string would be read as the display name) *)
Definition delim_ns (r : str) : Prop := r = [] \/ exists c r', r = c :: r' /\ In c [44; 10; 13; 93; 125; 62].

Lemma p_ref_plain name rest : Forall (fun c => is_zref_char c = true) name -> delim_ns rest ->
  p_ref (64 :: name ++ rest) = Some (Ok (VRef name None), rest).
Proof.
  intros Hn Hd. unfold p_ref, pthen, pmap, pand. 
  assert (L : plit [64] (64 :: name ++ rest) = Some (Ok tt, name ++ rest)) by reflexivity. rewrite L.
  unfold pspan. rewrite (span_all is_zref_char name rest Hn).
  - unfold popt, pthen, pmap, pand.
    assert (P : plit [32] rest = None).
    { destruct Hd as [E|[c [r' [E Hc]]]]; subst; [reflexivity|]. cbn [In] in Hc. repeat (destruct Hc as [Hc|Hc]; [subst c; reflexivity|]). contradiction. }
    rewrite P. reflexivity.
  - destruct Hd as [E|[c [r' [E Hc]]]]; subst; [exact I|]. cbn [In] in Hc. repeat (destruct Hc as [Hc|Hc]; [subst c; reflexivity|]). contradiction.
Qed.

Lemma scalar_ref_plain f v3 name rest : Forall (fun c => is_zref_char c = true) name -> delim_ns rest ->
  p_scalar (S f) v3 (64 :: name ++ rest) = Some (Ok (VRef name None), rest).
Proof.
  intros Hn Hd. pose proof (p_ref_plain name rest Hn Hd) as R.
  destruct (date_letters 64 (name ++ rest) eq_refl) as [D1 [D2 D3]].
  cbn [p_scalar]. destruct v3; cbv zeta; unfold scalars_2_0, por.
  - apply por_pick_take; [exact R|]. repeat (apply Forall_cons; [first [exact D1 | exact D2 | exact D3 | reflexivity]|]). apply Forall_nil.
  - apply por_pick_take; [exact R|]. repeat (apply Forall_cons; [first [exact D1 | exact D2 | exact D3 | reflexivity]|]). apply Forall_nil.
Qed.
