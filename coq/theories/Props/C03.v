From HS Require Import Base.Prelude Model.ZincParse.
Theorem C03_placeholder : True. Proof. exact I. Qed.
