(* The header line in other spellings: blanks before and after the colon of a metadata tag, blanks before the line end *)
From Coq Require Import String.
From Coq Require Import List NArith Bool Lia Arith Setoid.
From HS Require Import Base.Prelude Model.Value Model.Escape Model.Version Model.Json Model.ZincParse Model.ZincDump.
From HS Require Import Proofs.PreludeP Proofs.VersionP Proofs.EscapeP Proofs.JsonP Proofs.ZincParseP Proofs.ZincDumpP Proofs.ZincNumP Proofs.ZincListP Proofs.ZincGridP Proofs.ZincDictP Proofs.ZincMetaP Proofs.ZincSpacedP Proofs.ZincListSpP.
Import ListNotations.
Open Scope N_scope.

(* a metadata item: a blanks before the colon, b blanks after it *)
Definition smitem := (nat * nat * (str * hval * str))%type.
Definition smtext (i : smitem) : str :=
  let '(a, b, (k, v, t)) := i in match v with VMarker => k | _ => (k ++ blanks a ++ 58 :: blanks b ++ t)%list end.
Definition smitem_ok (g : nat) (i : smitem) : Prop := mitem_ok g (snd i).
Definition skv (i : smitem) : str * hval := pkv (snd i).

(* what may follow an item: as before, or blanks and the line feed *)
Definition term_ok (tc : N) : Prop := tc = 10 \/ tc = 44.
Definition mfol' (r : str) : Prop := mfol r \/ exists e tc r', term_ok tc /\ r = (blanks e ++ tc :: r')%list.
Lemma blanks_term_delim e tc r : term_ok tc -> delim (blanks e ++ tc :: r).
Proof. intros [E|E]; subst tc; destruct e; cbn [blanks repeat List.app]; right; eexists; eexists; (split; [reflexivity|cbn; tauto]). Qed.

Lemma mfol'_delim r : mfol' r -> delim r.
Proof. intros [H|[e [tc [r' [T E]]]]]; [apply mfol_delim; exact H|subst; apply blanks_term_delim; exact T]. Qed.
Lemma mfol'_noid r : mfol' r -> match r with c :: _ => is_id_rest c = false | [] => True end.
Proof. intros [H|[e [tc [r' [T E]]]]]; [apply mfol_noid; exact H|subst; destruct T; subst tc; destruct e; reflexivity]. Qed.
Lemma p_id_mfol' k rest : colname k -> mfol' rest -> p_id (k ++ rest) = Some (Ok k, rest).
Proof.
  intros Hn Hd. destruct k as [|c r]; [contradiction|]. destruct Hn as [Hc Hr]. cbn [List.app]. unfold p_id. rewrite Hc.
  rewrite (span_all is_id_rest r rest Hr); [reflexivity|]. exact (mfol'_noid rest Hd).
Qed.
Lemma p_id_stop k rest : colname k -> (match rest with c :: _ => is_id_rest c = false | [] => True end) -> p_id (k ++ rest) = Some (Ok k, rest).
Proof.
  intros Hn Hd. destruct k as [|c r]; [contradiction|]. destruct Hn as [Hc Hr]. cbn [List.app]. unfold p_id. rewrite Hc.
  rewrite (span_all is_id_rest r rest Hr); [reflexivity|]. exact Hd.
Qed.
Lemma colon_none' (q : parser hval) rest : mfol' rest -> pthen spaces (pthen (plit [58]) (pthen spaces q)) rest = None.
Proof.
  intros [H|[e [tc [r' [T E]]]]]; [apply colon_none; exact H|]. subst rest.
  assert (S1 : spaces (blanks e ++ tc :: r') = Some (Ok tt, tc :: r')) by (apply spaces_blanks; destruct T; subst tc; reflexivity).
  unfold pthen at 1. unfold pmap, pand. rewrite S1. destruct T; subst tc; reflexivity.
Qed.

Lemma smitem_reads g i rest : smitem_ok g i -> mfol' rest ->
  g_meta_item (p_scalar (S g) true) (smtext i ++ rest) = Some (Ok (skv i), rest).
Proof.
  destruct i as [[a b] [[k v] t]]. unfold smitem_ok, skv. cbn [snd]. intros [Hk Hv] Hf. cbn [pkv].
  assert (Mk : g_meta_item (p_scalar (S g) true) (k ++ rest) = Some (Ok (k, VMarker), rest)).
  { unfold g_meta_item, por.
    rewrite (por_pick_start _ _ _ _ _ (pmap_ok (fun k0 => (k0, VMarker)) p_id _ k _ (p_id_mfol' k rest Hk Hf))).
    rewrite por_pick_skip; [reflexivity|]. unfold pand. rewrite (p_id_mfol' k rest Hk Hf), (colon_none' _ rest Hf). reflexivity. }
  assert (Pr : readsd g v t -> g_meta_item (p_scalar (S g) true) ((k ++ blanks a ++ 58 :: blanks b ++ t) ++ rest) = Some (Ok (k, v), rest)).
  { intro Hr. rewrite <- app_assoc. rewrite <- app_assoc. cbn [List.app]. rewrite <- app_assoc.
    destruct (reads_hd g v t (readsd_reads g v t Hr)) as [c [t' [E Hc]]]. destruct (nosp_hd c Hc) as [Hs _].
    assert (SP : spaces (blanks b ++ t ++ rest) = Some (Ok tt, t ++ rest)).
    { subst t. cbn [List.app]. apply spaces_blanks. exact Hs. }
    assert (ST : match (blanks a ++ 58 :: blanks b ++ t ++ rest)%list with c0 :: _ => is_id_rest c0 = false | [] => True end) by (destruct a; reflexivity).
    assert (PI : p_id (k ++ blanks a ++ 58 :: blanks b ++ t ++ rest) = Some (Ok k, (blanks a ++ 58 :: blanks b ++ t ++ rest)%list)) by (apply p_id_stop; assumption).
    assert (A1 : pmap (fun k0 => (k0, VMarker)) p_id (k ++ blanks a ++ 58 :: blanks b ++ t ++ rest) = Some (Ok (k, VMarker), (blanks a ++ 58 :: blanks b ++ t ++ rest)%list))
      by exact (pmap_ok (fun k0 => (k0, VMarker)) p_id _ k _ PI).
    assert (A2 : pand p_id (pthen spaces (pthen (plit [58]) (pthen spaces (p_scalar (S g) true)))) (k ++ blanks a ++ 58 :: blanks b ++ t ++ rest) = Some (Ok (k, v), rest)).
    { eapply pand_ok; [exact PI|].
      assert (I2 : pthen spaces (p_scalar (S g) true) (blanks b ++ t ++ rest) = Some (Ok v, rest)).
      { unfold pthen, pmap, pand. rewrite SP, (Hr rest (mfol'_delim rest Hf)). reflexivity. }
      assert (I3 : pthen (plit [58]) (pthen spaces (p_scalar (S g) true)) (58 :: blanks b ++ t ++ rest) = Some (Ok v, rest)).
      { unfold pthen at 1. unfold pmap, pand. assert (L0 : plit [58] (58 :: blanks b ++ t ++ rest) = Some (Ok tt, blanks b ++ t ++ rest)) by reflexivity. rewrite L0, I2. reflexivity. }
      unfold pthen at 1. unfold pmap, pand.
      assert (S0 : spaces (blanks a ++ 58 :: blanks b ++ t ++ rest) = Some (Ok tt, 58 :: blanks b ++ t ++ rest)) by (apply spaces_blanks; reflexivity).
      rewrite S0, I3. reflexivity. }
    unfold g_meta_item, por. rewrite (por_pick_start _ _ _ _ _ A1). cbn [por_pick]. rewrite A2.
    assert (L : Nat.ltb (length rest) (length (blanks a ++ 58 :: blanks b ++ t ++ rest)) = true).
    { apply Nat.ltb_lt. rewrite app_length. cbn [length]. rewrite !app_length. lia. }
    rewrite L. reflexivity. }
  destruct Hv as [E|Hr].
  - subst v. cbn [smtext]. exact Mk.
  - destruct v; try (cbn [smtext]; apply Pr; exact Hr).
    cbn [smtext]. exact Mk.
Qed.

(* ---------- a blank-separated run of items, then blanks and the line feed ---------- *)
Definition smmore (its : list smitem) : str := concat (map (fun i => 32 :: smtext i) its).
Definition smbody (its : list smitem) : str := match its with [] => [] | i :: its' => (smtext i ++ smmore its')%list end.
Definition smpart (its : list smitem) : str := match its with [] => [] | _ => 32 :: smbody its end.

Lemma smtext_hd g i : smitem_ok g i -> exists c r, smtext i = c :: r /\ lower c.
Proof.
  destruct i as [[a b] [[k v] t]]. unfold smitem_ok. cbn [snd]. intros [Hk _]. destruct (colname_hd k Hk) as [c [kr [E [_ Hl]]]]. subst k.
  destruct v; cbn [smtext List.app]; eexists; eexists; (split; [reflexivity|exact Hl]).
Qed.

Lemma smmore_fol g its e tc r : term_ok tc -> Forall (smitem_ok g) its -> mfol' (smmore its ++ blanks e ++ tc :: r).
Proof.
  intros T Hps. destruct its as [|p ps]; cbn [smmore map concat List.app]; [right; exists e, tc, r; split; [exact T|reflexivity]|].
  inversion Hps as [|? ? Hp _]; subst. destruct (smtext_hd g p Hp) as [c [r0 [E Hl]]]. rewrite E. cbn [List.app].
  left. right. eexists. eexists. split; [reflexivity|exact Hl].
Qed.

Lemma item_none_nonlower scalar c x : (97 <=? c) && (c <=? 122) = false -> g_meta_item scalar (c :: x) = None.
Proof.
  intro H. assert (P : p_id (c :: x) = None) by (unfold p_id; rewrite H; reflexivity).
  unfold g_meta_item. apply por_none. repeat apply Forall_cons; try apply Forall_nil; [unfold pmap; rewrite P; reflexivity|unfold pand; rewrite P; reflexivity].
Qed.

Lemma sep32_stop' scalar e tc r : term_ok tc -> pthen (plit [32]) (g_meta_item scalar) (blanks e ++ tc :: r) = None.
Proof.
  intro T. destruct e as [|e]; [destruct T; subst tc; reflexivity|]. cbn [blanks repeat List.app]. unfold pthen, pmap, pand.
  assert (L0 : plit [32] (32 :: repeat 32 e ++ tc :: r) = Some (Ok tt, (repeat 32 e ++ tc :: r)%list)) by reflexivity. rewrite L0.
  destruct e as [|e]; cbn [repeat List.app]; rewrite item_none_nonlower by (destruct T; subst tc; reflexivity); reflexivity.
Qed.

Lemma smmany g e tc r : term_ok tc -> forall its, Forall (smitem_ok g) its -> forall fuel, (length its < fuel)%nat ->
  pmany_fuel fuel (pthen (plit [32]) (g_meta_item (p_scalar (S g) true))) (smmore its ++ blanks e ++ tc :: r) = (Ok (map skv its), (blanks e ++ tc :: r)%list).
Proof.
  intro T. induction 1 as [|p ps Hp Hps IH]; intros fuel Hf.
  - cbn [smmore map concat List.app]. destruct fuel as [|f]; [cbn in Hf; lia|]. cbn [pmany_fuel]. rewrite (sep32_stop' _ e tc r T). reflexivity.
  - destruct fuel as [|f]; [cbn in Hf; lia|]. cbn [smmore map concat]. fold (smmore ps). rewrite <- app_assoc. cbn [List.app pmany_fuel].
    assert (S1 : pthen (plit [32]) (g_meta_item (p_scalar (S g) true)) (32 :: smtext p ++ smmore ps ++ blanks e ++ tc :: r) = Some (Ok (skv p), (smmore ps ++ blanks e ++ tc :: r)%list)).
    { unfold pthen, pmap, pand. assert (L0 : plit [32] (32 :: smtext p ++ smmore ps ++ blanks e ++ tc :: r) = Some (Ok tt, (smtext p ++ smmore ps ++ blanks e ++ tc :: r)%list)) by reflexivity.
      rewrite L0, (smitem_reads g p _ Hp (smmore_fol g ps e tc r T Hps)). reflexivity. }
    rewrite S1.
    assert (L : Nat.ltb (length (smmore ps ++ blanks e ++ tc :: r)) (length (32 :: smtext p ++ smmore ps ++ blanks e ++ tc :: r)) = true).
    { apply Nat.ltb_lt. cbn [length]. rewrite (app_length (smtext p)). lia. }
    rewrite L, (IH f) by (cbn in Hf; lia). reflexivity.
Qed.

Lemma smmore_len its : (length its <= length (smmore its))%nat.
Proof. induction its as [|p ps IH]; cbn [smmore map concat length]; [lia|]. fold (smmore ps). rewrite app_length. cbn [length]. lia. Qed.

Lemma smeta_reads g p ps e tc r : term_ok tc -> Forall (smitem_ok g) (p :: ps) ->
  g_meta (p_scalar (S g) true) (smbody (p :: ps) ++ blanks e ++ tc :: r) = Some (Ok (dict_of (map skv (p :: ps))), (blanks e ++ tc :: r)%list).
Proof.
  intros T H. inversion H as [|? ? Hp Hps]; subst. cbn [smbody]. rewrite <- app_assoc.
  unfold g_meta, pmap, pdelimited, pmap, pand.
  rewrite (smitem_reads g p _ Hp (smmore_fol g ps e tc r T Hps)). unfold pmany.
  rewrite (smmany g e tc r T ps Hps) by (rewrite app_length; pose proof (smmore_len ps); lia). reflexivity.
Qed.

Lemma sopt_meta_reads g ps e tc r : term_ok tc -> Forall (smitem_ok g) ps ->
  pmap (fun o : option (list (str * hval)) => match o with Some m => m | None => [] end) (popt (pthen (plit [32]) (g_meta (p_scalar (S g) true)))) (smpart ps ++ blanks e ++ tc :: r)
  = Some (Ok (dict_of (map skv ps)), (blanks e ++ tc :: r)%list).
Proof.
  intros T Hps. destruct ps as [|p ps].
  - cbn [smpart List.app map]. unfold pmap, popt.
    assert (N : pthen (plit [32]) (g_meta (p_scalar (S g) true)) (blanks e ++ tc :: r) = None).
    { destruct e as [|e]; [destruct T; subst tc; reflexivity|]. cbn [blanks repeat List.app]. unfold pthen, pmap, pand.
      assert (L0 : plit [32] (32 :: repeat 32 e ++ tc :: r) = Some (Ok tt, (repeat 32 e ++ tc :: r)%list)) by reflexivity. rewrite L0.
      unfold g_meta, pmap, pdelimited, pmap, pand. destruct e as [|e]; cbn [repeat List.app]; rewrite item_none_nonlower by (destruct T; subst tc; reflexivity); reflexivity. }
    rewrite N. reflexivity.
  - cbn [smpart]. change ((32 :: smbody (p :: ps)) ++ blanks e ++ tc :: r)%list with (32 :: smbody (p :: ps) ++ blanks e ++ tc :: r)%list.
    assert (E : pthen (plit [32]) (g_meta (p_scalar (S g) true)) (32 :: smbody (p :: ps) ++ blanks e ++ tc :: r) = Some (Ok (dict_of (map skv (p :: ps))), (blanks e ++ tc :: r)%list)).
    { unfold pthen, pmap, pand. assert (L0 : plit [32] (32 :: smbody (p :: ps) ++ blanks e ++ tc :: r) = Some (Ok tt, (smbody (p :: ps) ++ blanks e ++ tc :: r)%list)) by reflexivity.
      rewrite L0, (smeta_reads g p ps e tc r T Hps). reflexivity. }
    unfold pmap, popt. rewrite E. reflexivity.
Qed.

(* ---------- the header line ---------- *)
Definition shtext (its : list smitem) (e : nat) : str := (s_ "ver:" ++ DQ :: V30 ++ DQ :: smpart its ++ blanks e ++ [10])%list.

Lemma spaces_nl_blanks e r : pthen spaces nl (blanks e ++ 10 :: r) = Some (Ok tt, r).
Proof.
  unfold pthen, pmap, pand.
  assert (S1 : spaces (blanks e ++ 10 :: r) = Some (Ok tt, 10 :: r)) by (apply spaces_blanks; reflexivity).
  rewrite S1. reflexivity.
Qed.

Lemma sheader_reads g its e r : Forall (smitem_ok g) its ->
  g_grid_meta (p_scalar (S g) true) (shtext its e ++ r) = Some (Ok (V30, dict_of (map skv its)), r).
Proof.
  intro Hps. unfold g_grid_meta, shtext.
  assert (E0 : ((s_ "ver:" ++ DQ :: V30 ++ DQ :: smpart its ++ blanks e ++ [10]) ++ r)%list = (118 :: 101 :: 114 :: 58 :: DQ :: V30 ++ DQ :: smpart its ++ blanks e ++ 10 :: r)%list).
  { change (s_ "ver:") with [118; 101; 114; 58]. unfold V30. cbn [List.app]. rewrite <- !app_assoc. reflexivity. }
  assert (S1 : pthen (plit (s_ "ver:")) p_str ((s_ "ver:" ++ DQ :: V30 ++ DQ :: smpart its ++ blanks e ++ [10]) ++ r) = Some (Ok V30, (smpart its ++ blanks e ++ 10 :: r)%list)).
  { rewrite E0. unfold pthen, pmap, pand.
    assert (L : plit (s_ "ver:") (118 :: 101 :: 114 :: 58 :: DQ :: V30 ++ DQ :: smpart its ++ blanks e ++ 10 :: r) = Some (Ok tt, (DQ :: V30 ++ DQ :: smpart its ++ blanks e ++ 10 :: r)%list)) by reflexivity.
    rewrite L. unfold p_str, hs_str.
    rewrite (quoted_roundtrip DQ str_esc_letters false esc_str_char dq_ne dq_32 every_char_str V30 V30 (smpart its ++ blanks e ++ 10 :: r) eq_refl). reflexivity. }
  assert (S2 : pbefore (pmap (fun o : option (list (str * hval)) => match o with Some m => m | None => [] end) (popt (pthen (plit [32]) (g_meta (p_scalar (S g) true)))))
                       (pthen spaces nl) (smpart its ++ blanks e ++ 10 :: r) = Some (Ok (dict_of (map skv its)), r)).
  { unfold pbefore. unfold pmap at 1. unfold pand. rewrite (sopt_meta_reads g its e 10 r (or_introl eq_refl) Hps). rewrite spaces_nl_blanks. reflexivity. }
  unfold pand. rewrite S1, S2. reflexivity.
Qed.

(* ---------- whole grids under a spelled header ---------- *)
Theorem grid_spelled_header_reads g its e cols rows rts :
  Forall (smitem_ok g) its -> NoDup (map fst (map skv its)) -> ~ In VERK (map fst (map skv its)) ->
  cols_ok g cols ->
  Forall2 (grid_row_ok g (map fst cols)) rows rts ->
  p_grid (S (S g)) true (shtext its e ++ join [44] (map ctext cols) ++ 10 :: rows_text rts)
  = Some (Ok (VGrid V30 (map skv its) (map (fun c => (fst c, map pkv (snd c))) cols)
                    (map (fun cells => combine (map fst cols) cells) rows)), []).
Proof.
  intros Hm Hmn Hmv [Hne [Hco [Hcn Hcm]]] Hrows. rewrite p_grid_unfold.
  set (sc := p_scalar (S g) true).
  destruct cols as [|c cs]; [contradiction|].
  assert (CV : forall l, Forall (fun c0 : str * list (str * hval * str) => NoDup (mkeys (snd c0))) l -> map cval l = map (fun c0 => (fst c0, map pkv (snd c0))) l).
  { intros l Hl. induction Hl as [|c0 l Hc0 _ IH]; [reflexivity|]. cbn [map]. rewrite IH. unfold cval. rewrite (dict_of_nodup (map pkv (snd c0)) Hc0). reflexivity. }
  assert (HC : g_cols sc (join [44] (map ctext (c :: cs)) ++ 10 :: rows_text rts) = Some (Ok (dict_of (map cval (c :: cs))), rows_text rts)).
  { cbn [map]. inversion Hco as [|? ? Hc Hcs]; subst.
    apply (cols_meta_reads g (cval c) (ctext c) (map cval cs) (map ctext cs) (rows_text rts)); [exists c; split; [exact Hc|split; reflexivity]|].
    clear -Hcs. induction Hcs as [|x l Hx _ IH]; cbn [map]; constructor; [exists x; split; [exact Hx|split; reflexivity]|exact IH]. }
  assert (HR : pmany (hs_row sc) (rows_text rts) = Some (Ok rows, [])).
  { unfold pmany. rewrite (rows_many g rows rts); [reflexivity| |pose proof (rows_len rts); lia].
    clear -Hrows Hne. induction Hrows as [|cells ts rows rts [Hl Hc] _ IH]; constructor; [|exact IH].
    split; [|exact Hc]. destruct cells; [cbn in Hl; discriminate|discriminate]. }
  unfold pact. unfold pand at 1. rewrite (sheader_reads g its e _ Hm). unfold pand. rewrite HC, HR.
  destruct ver30_facts as [pv [PV [P3 VS]]].
  unfold g_action. rewrite PV, P3. cbn [bind andb]. rewrite VS.
  rewrite (dict_of_nodup (map skv its) Hmn).
  change (s_ "ver") with VERK. rewrite (remove_key_absent VERK (map skv its) Hmv).
  rewrite (CV (c :: cs) Hcm).
  assert (NK : map fst (map (fun c0 : str * list (str * hval * str) => (fst c0, map pkv (snd c0))) (c :: cs)) = map fst (c :: cs)) by (rewrite map_map; reflexivity).
  rewrite (dict_of_nodup (map (fun c0 : str * list (str * hval * str) => (fst c0, map pkv (snd c0))) (c :: cs))) by (rewrite NK; exact Hcn).
  rewrite NK.
  assert (RW : map (fun cells => dict_of (combine (map fst (c :: cs)) cells)) rows = map (fun cells => combine (map fst (c :: cs)) cells) rows).
  { clear -Hrows Hcn. induction Hrows as [|cells ts rows rts [Hl _] _ IH]; [reflexivity|]. cbn [map]. cbn [map] in IH. rewrite IH. f_equal.
    apply dict_of_nodup. rewrite map_fst_combine by (symmetry; exact Hl). exact Hcn. }
  rewrite RW. reflexivity.
Qed.

(* ---------- the column line: column metadata spelled the same way, blanks around the commas and before the line end ---------- *)
Definition scol := (str * list smitem)%type.
Definition sctext (c : scol) : str := (fst c ++ smpart (snd c))%list.
Definition scval (c : scol) : str * list (str * hval) := (fst c, dict_of (map skv (snd c))).
Definition scol_ok (g : nat) (c : scol) : Prop := colname (fst c) /\ Forall (smitem_ok g) (snd c).

Lemma smpart_noid g its e tc r : term_ok tc -> Forall (smitem_ok g) its ->
  match (smpart its ++ blanks e ++ tc :: r)%list with c :: _ => is_id_rest c = false | [] => True end.
Proof. intros T _. destruct its as [|i its]; cbn [smpart List.app]; [destruct T; subst tc; destruct e; reflexivity|reflexivity]. Qed.

Lemma scol_reads g c e tc r : term_ok tc -> scol_ok g c ->
  g_col (p_scalar (S g) true) (sctext c ++ blanks e ++ tc :: r) = Some (Ok (scval c), (blanks e ++ tc :: r)%list).
Proof.
  intros T [Hn Hps]. destruct c as [name its]. unfold sctext, scval. cbn [fst snd] in *. rewrite <- app_assoc.
  unfold g_col, pand. rewrite (p_id_stop name _ Hn (smpart_noid g its e tc r T Hps)), (sopt_meta_reads g its e tc r T Hps). reflexivity.
Qed.

Definition scitem := (nat * nat * scol)%type.
Definition scitem_text (i : scitem) : str := let '(a, b, c) := i in (blanks a ++ 44 :: blanks b ++ sctext c)%list.
Definition scmore (cs : list scitem) : str := concat (map scitem_text cs).

Lemma sctext_hd g c : scol_ok g c -> exists c0 r0, sctext c = c0 :: r0 /\ is_sp c0 = false.
Proof. intros [Hn _]. destruct c as [name its]. cbn [fst] in Hn. destruct (colname_hd name Hn) as [c0 [kr [E [Hs _]]]]. subst name. unfold sctext. cbn [fst List.app]. eexists. eexists. split; [reflexivity|exact Hs]. Qed.

Lemma scmore_form cs e r : exists e' tc' r', term_ok tc' /\ (scmore cs ++ blanks e ++ 10 :: r)%list = (blanks e' ++ tc' :: r')%list.
Proof.
  destruct cs as [|[[a b] c] cs]; cbn [scmore map concat List.app].
  - exists e, 10, r. split; [left; reflexivity|reflexivity].
  - fold (scmore cs). exists a, 44, (blanks b ++ sctext c ++ scmore cs ++ blanks e ++ 10 :: r)%list. split; [right; reflexivity|].
    cbn [scitem_text]. rewrite <- !app_assoc. cbn [List.app]. rewrite <- !app_assoc. reflexivity.
Qed.

Lemma scmany g e r : forall cs, Forall (fun i => scol_ok g (snd i)) cs -> forall fuel, (length cs < fuel)%nat ->
  pmany_fuel fuel (pthen value_sep (g_col (p_scalar (S g) true))) (scmore cs ++ blanks e ++ 10 :: r)
  = (Ok (map (fun i => scval (snd i)) cs), (blanks e ++ 10 :: r)%list).
Proof.
  induction 1 as [|[[a b] c] cs Hc Hcs IH]; intros fuel Hf.
  - cbn [scmore map concat List.app]. destruct fuel as [|f]; [cbn in Hf; lia|]. cbn [pmany_fuel]. rewrite sp_stop. reflexivity.
  - destruct fuel as [|f]; [cbn in Hf; lia|]. cbn [scmore map concat scitem_text snd] in *. fold (scmore cs).
    rewrite <- !app_assoc. cbn [List.app]. rewrite <- !app_assoc. cbn [pmany_fuel].
    destruct (sctext_hd g c Hc) as [c0 [r0 [E0 Hs0]]].
    destruct (scmore_form cs e r) as [e' [tc' [r' [T' EF]]]].
    assert (S1 : pthen value_sep (g_col (p_scalar (S g) true)) (blanks a ++ 44 :: blanks b ++ sctext c ++ scmore cs ++ blanks e ++ 10 :: r)
                 = Some (Ok (scval c), (scmore cs ++ blanks e ++ 10 :: r)%list)).
    { unfold pthen, pmap, pand. rewrite (comma_with_blanks a b (sctext c ++ scmore cs ++ blanks e ++ 10 :: r)) by (rewrite E0; exact Hs0).
      rewrite EF. rewrite (scol_reads g c e' tc' r' T' Hc). reflexivity. }
    rewrite S1.
    assert (L : Nat.ltb (length (scmore cs ++ blanks e ++ 10 :: r)) (length (blanks a ++ 44 :: blanks b ++ sctext c ++ scmore cs ++ blanks e ++ 10 :: r)) = true).
    { apply Nat.ltb_lt. rewrite (app_length (blanks a)). cbn [length]. rewrite (app_length (blanks b)), (app_length (sctext c)). lia. }
    rewrite L, (IH f) by (cbn in Hf; lia). reflexivity.
Qed.

Lemma scmore_len cs : (length cs <= length (scmore cs))%nat.
Proof. induction cs as [|[[a b] c] cs IH]; cbn [scmore map concat length]; [lia|]. fold (scmore cs). rewrite app_length. cbn [scitem_text]. rewrite app_length. cbn [length]. lia. Qed.

Definition sctext_line (c : scol) (cs : list scitem) (e : nat) : str := (sctext c ++ scmore cs ++ blanks e ++ [10])%list.

Lemma scols_reads g c (cs : list scitem) e r : scol_ok g c -> Forall (fun i => scol_ok g (snd i)) cs ->
  g_cols (p_scalar (S g) true) (sctext_line c cs e ++ r) = Some (Ok (dict_of (scval c :: map (fun i => scval (snd i)) cs)), r).
Proof.
  intros Hc Hcs. unfold sctext_line. rewrite <- !app_assoc. cbn [List.app].
  destruct (scmore_form cs e r) as [e' [tc' [r' [T' EF]]]].
  assert (C1 : g_col (p_scalar (S g) true) (sctext c ++ scmore cs ++ blanks e ++ 10 :: r) = Some (Ok (scval c), (scmore cs ++ blanks e ++ 10 :: r)%list))
    by (rewrite EF; apply scol_reads; assumption).
  clear EF.
  unfold g_cols, pbefore. unfold pmap at 1. unfold pand at 1. unfold pmap at 1. unfold pdelimited, pmap, pand.
  rewrite C1. unfold pmany.
  assert (F : Nat.lt (length cs) (S (length (scmore cs ++ blanks e ++ 10 :: r)))) by (unfold Nat.lt; rewrite app_length; pose proof (scmore_len cs) as QQ; unfold scitem in *; lia).
  rewrite (scmany g e r cs Hcs _ F).
  rewrite spaces_nl_blanks. reflexivity.
Qed.

(* ---------- whole grids with a spelled header line and a spelled column line ---------- *)
Definition allcols (c : scol) (cs : list scitem) : list scol := c :: map snd cs.

Theorem grid_spelled_reads g its e c (cs : list scitem) ce rows rts :
  Forall (smitem_ok g) its -> NoDup (map fst (map skv its)) -> ~ In VERK (map fst (map skv its)) ->
  Forall (scol_ok g) (allcols c cs) -> NoDup (map fst (allcols c cs)) ->
  Forall (fun c0 : scol => NoDup (map fst (map skv (snd c0)))) (allcols c cs) ->
  Forall2 (grid_row_ok g (map fst (allcols c cs))) rows rts ->
  p_grid (S (S g)) true (shtext its e ++ sctext_line c cs ce ++ rows_text rts)
  = Some (Ok (VGrid V30 (map skv its) (map (fun c0 : scol => (fst c0, map skv (snd c0))) (allcols c cs))
                    (map (fun cells => combine (map fst (allcols c cs)) cells) rows)), []).
Proof.
  intros Hm Hmn Hmv Hco Hcn Hcm Hrows. rewrite p_grid_unfold.
  set (sc := p_scalar (S g) true).
  assert (CV : forall l : list scol, Forall (fun c0 : scol => NoDup (map fst (map skv (snd c0)))) l -> map scval l = map (fun c0 : scol => (fst c0, map skv (snd c0))) l).
  { intros l Hl. induction Hl as [|c0 l Hc0 _ IH]; [reflexivity|]. cbn [map]. rewrite IH. unfold scval. rewrite (dict_of_nodup (map skv (snd c0)) Hc0). reflexivity. }
  assert (HC : g_cols sc (sctext_line c cs ce ++ rows_text rts) = Some (Ok (dict_of (map scval (allcols c cs))), rows_text rts)).
  { unfold allcols. cbn [map]. rewrite map_map. inversion Hco as [|? ? Hc Hcs]; subst.
    apply scols_reads; [exact Hc|]. clear -Hcs. induction cs as [|i cs IH]; cbn [map] in *; constructor; inversion Hcs; subst; [assumption|apply IH; assumption]. }
  assert (HR : pmany (hs_row sc) (rows_text rts) = Some (Ok rows, [])).
  { unfold pmany. rewrite (rows_many g rows rts); [reflexivity| |pose proof (rows_len rts); lia].
    clear -Hrows. induction Hrows as [|cells ts rows rts [Hl Hc] _ IH]; constructor; [|exact IH].
    split; [|exact Hc]. destruct cells; [cbn in Hl; discriminate|discriminate]. }
  unfold pact. unfold pand at 1. rewrite (sheader_reads g its e _ Hm). unfold pand. rewrite HC, HR.
  destruct ver30_facts as [pv [PV [P3 VS]]].
  unfold g_action. rewrite PV, P3. cbn [bind andb]. rewrite VS.
  rewrite (dict_of_nodup (map skv its) Hmn).
  change (s_ "ver") with VERK. rewrite (remove_key_absent VERK (map skv its) Hmv).
  rewrite (CV (allcols c cs) Hcm).
  assert (NK : map fst (map (fun c0 : scol => (fst c0, map skv (snd c0))) (allcols c cs)) = map fst (allcols c cs)) by (rewrite map_map; reflexivity).
  rewrite (dict_of_nodup (map (fun c0 : scol => (fst c0, map skv (snd c0))) (allcols c cs))) by (rewrite NK; exact Hcn).
  rewrite NK.
  assert (RW : map (fun cells => dict_of (combine (map fst (allcols c cs)) cells)) rows = map (fun cells => combine (map fst (allcols c cs)) cells) rows).
  { clear -Hrows Hcn. induction Hrows as [|cells ts rows rts [Hl _] _ IH]; [reflexivity|]. cbn [map]. cbn [map] in IH. rewrite IH. f_equal.
    apply dict_of_nodup. rewrite map_fst_combine by (symmetry; exact Hl). exact Hcn. }
  rewrite RW. reflexivity.
Qed.

(* ... and the rows in any spelling the row rule reads (plain, blanks around commas and before the line end, empty cells, CR LF) *)
Theorem grid_spelled_reads_any_rows g its e c (cs : list scitem) ce rows rts :
  Forall (smitem_ok g) its -> NoDup (map fst (map skv its)) -> ~ In VERK (map fst (map skv its)) ->
  Forall (scol_ok g) (allcols c cs) -> NoDup (map fst (allcols c cs)) ->
  Forall (fun c0 : scol => NoDup (map fst (map skv (snd c0)))) (allcols c cs) ->
  Forall2 (fun cells rt => length cells = length (map fst (allcols c cs)) /\ row_spelled g cells rt) rows rts ->
  p_grid (S (S g)) true (shtext its e ++ sctext_line c cs ce ++ concat rts)
  = Some (Ok (VGrid V30 (map skv its) (map (fun c0 : scol => (fst c0, map skv (snd c0))) (allcols c cs))
                    (map (fun cells => combine (map fst (allcols c cs)) cells) rows)), []).
Proof.
  intros Hm Hmn Hmv Hco Hcn Hcm Hrows. rewrite p_grid_unfold.
  set (sc := p_scalar (S g) true).
  assert (CV : forall l : list scol, Forall (fun c0 : scol => NoDup (map fst (map skv (snd c0)))) l -> map scval l = map (fun c0 : scol => (fst c0, map skv (snd c0))) l).
  { intros l Hl. induction Hl as [|c0 l Hc0 _ IH]; [reflexivity|]. cbn [map]. rewrite IH. unfold scval. rewrite (dict_of_nodup (map skv (snd c0)) Hc0). reflexivity. }
  assert (HC : g_cols sc (sctext_line c cs ce ++ concat rts) = Some (Ok (dict_of (map scval (allcols c cs))), concat rts)).
  { unfold allcols. cbn [map]. rewrite map_map. inversion Hco as [|? ? Hc Hcs]; subst.
    apply scols_reads; [exact Hc|]. clear -Hcs. induction cs as [|i cs IH]; cbn [map] in *; constructor; inversion Hcs; subst; [assumption|apply IH; assumption]. }
  assert (HR : pmany (hs_row sc) (concat rts) = Some (Ok rows, [])).
  { unfold pmany. rewrite (rows_any g rows rts); [reflexivity| |].
    - clear -Hrows. induction Hrows as [|cells rt rows rts [_ Hs] _ IH]; constructor; [exact Hs|exact IH].
    - assert (NE : Forall (fun t : str => t <> []) rts) by (clear -Hrows; induction Hrows as [|cells rt rows rts [_ [Hn _]] _ IH]; constructor; assumption).
      pose proof (concat_len rts NE). lia. }
  unfold pact. unfold pand at 1. rewrite (sheader_reads g its e _ Hm). unfold pand. rewrite HC, HR.
  destruct ver30_facts as [pv [PV [P3 VS]]].
  unfold g_action. rewrite PV, P3. cbn [bind andb]. rewrite VS.
  rewrite (dict_of_nodup (map skv its) Hmn).
  change (s_ "ver") with VERK. rewrite (remove_key_absent VERK (map skv its) Hmv).
  rewrite (CV (allcols c cs) Hcm).
  assert (NK : map fst (map (fun c0 : scol => (fst c0, map skv (snd c0))) (allcols c cs)) = map fst (allcols c cs)) by (rewrite map_map; reflexivity).
  rewrite (dict_of_nodup (map (fun c0 : scol => (fst c0, map skv (snd c0))) (allcols c cs))) by (rewrite NK; exact Hcn).
  rewrite NK.
  assert (RW : map (fun cells => dict_of (combine (map fst (allcols c cs)) cells)) rows = map (fun cells => combine (map fst (allcols c cs)) cells) rows).
  { clear -Hrows Hcn. induction Hrows as [|cells ts rows rts [Hl _] _ IH]; [reflexivity|]. cbn [map]. cbn [map] in IH. rewrite IH. f_equal.
    apply dict_of_nodup. rewrite map_fst_combine by (symmetry; exact Hl). exact Hcn. }
  rewrite RW. reflexivity.
Qed.

Example spelled_header_example :
  zparse_grid (s_ "ver:""3.0"" a : 1 b  
x c :""y"" , z  
1,2
") = Ok (VGrid V30 [(s_ "a", VNum NkFin (s_ "1") (s_ "1") None); (s_ "b", VMarker)] [(s_ "x", [(s_ "c", VStr (s_ "y"))]); (s_ "z", [])]
              [[(s_ "x", VNum NkFin (s_ "1") (s_ "1") None); (s_ "z", VNum NkFin (s_ "2") (s_ "2") None)]]).
Proof. vm_compute. reflexivity. Qed.
Print Assumptions grid_spelled_header_reads.
Print Assumptions grid_spelled_reads.
Print Assumptions grid_spelled_reads_any_rows.
