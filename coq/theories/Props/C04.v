From HS Require Import Base.Prelude Model.ZincDump.
Theorem C04_placeholder : True. Proof. exact I. Qed.
