(* C18 - Version numbers form a total order consistent with equality and hashing.
   Statements only; proofs are in Proofs/VersionP.v.  Model: Model/Version.v,
   tied to hszinc/version.py by Gen/VersionData.v (regenerated) and the
   correspondence check harness/props/c18.py. *)
From HS Require Import Base.Prelude Gen.VersionData Model.Version Proofs.VersionP.
Open Scope N_scope.

(* exactly one of <, ==, > holds *)
Theorem C18_trichotomy : forall a b,
  (vlt a b = true /\ veq a b = false /\ vgt a b = false) \/
  (vlt a b = false /\ veq a b = true /\ vgt a b = false) \/
  (vlt a b = false /\ veq a b = false /\ vgt a b = true).
Proof. exact trichotomy. Qed.

(* the six operators agree with each other, in both operand orders *)
Theorem C18_ops_agree : forall a b,
  vle a b = (vlt a b || veq a b) /\ vge a b = (vgt a b || veq a b) /\
  vne a b = negb (veq a b) /\ vlt a b = vgt b a /\ vle a b = vge b a /\
  veq a b = veq b a /\ vne a b = vne b a.
Proof. exact ops_agree. Qed.

Theorem C18_refl : forall a, veq a a = true.
Proof. exact veq_refl. Qed.

Theorem C18_trans_le : forall a b c, vle a b = true -> vle b c = true -> vle a c = true.
Proof. exact le_trans. Qed.
Theorem C18_trans_lt : forall a b c, vlt a b = true -> vlt b c = true -> vlt a c = true.
Proof. exact lt_trans. Qed.
Theorem C18_trans_le_lt : forall a b c, vle a b = true -> vlt b c = true -> vlt a c = true.
Proof. exact le_lt_trans. Qed.
Theorem C18_trans_lt_le : forall a b c, vlt a b = true -> vle b c = true -> vlt a c = true.
Proof. exact lt_le_trans. Qed.
Theorem C18_trans_eq : forall a b c, veq a b = true -> veq b c = true -> veq a c = true.
Proof. exact veq_trans. Qed.

(* numeric padding *)
Theorem C18_padding : forall v k, vcmp v (mkVer (nums v ++ repeat 0 k) (extra v)) = Eq.
Proof. exact padding. Qed.

(* 2 == 2.0 == 2.0.0 < 2.0a < 2.0b < 2.0.1 < 10.0, through the string parser *)
Definition cmp_strs (a b : str) : res comparison :=
  do va <- parse_ver a; do vb <- parse_ver b; Ok (vcmp va vb).
Example C18_chain :
  cmp_strs [50] [50;46;48] = Ok Eq /\ cmp_strs [50;46;48] [50;46;48;46;48] = Ok Eq /\
  cmp_strs [50;46;48;46;48] [50;46;48;97] = Ok Lt /\ cmp_strs [50;46;48;97] [50;46;48;98] = Ok Lt /\
  cmp_strs [50;46;48;98] [50;46;48;46;49] = Ok Lt /\ cmp_strs [50;46;48;46;49] [49;48;46;48] = Ok Lt.
Proof. vm_compute. repeat split. Qed.

(* equal versions hash equally: hash_key is the object given to hash() *)
Theorem C18_eq_hash : forall a b, veq a b = true -> hash_key a = hash_key b.
Proof. exact eq_hash. Qed.

(* strings compare like the versions they spell (both operand orders go
   through Version._cmp, the reflected one by Python's operator protocol) *)
Inductive operand := OVer (v : ver) | OStr (s : str).
Definition to_ver (o : operand) : res ver :=
  match o with OVer v => Ok v | OStr s => parse_ver s end.
Definition op_cmp (w : ver) (o : operand) : res comparison :=
  do v <- to_ver o; Ok (vcmp w v).
Theorem C18_strings : forall w s v, parse_ver s = Ok v -> op_cmp w (OStr s) = op_cmp w (OVer v).
Proof. intros w s v H. unfold op_cmp. simpl. now rewrite H. Qed.

(* nearest-official lookup, for ANY non-empty list of official versions *)
Theorem C18_nearest_official : forall offs v, offs <> [] ->
  exists r, nearest offs v = Ok r /\ exists o, In o offs /\ veq o r = true.
Proof.
  intros offs v H. destruct (nearest_spec offs v H) as [r [H1 [H2 _]]]. eauto.
Qed.

Theorem C18_nearest_exact : forall offs v r,
  nearest offs v = Ok r -> (exists o, In o offs /\ veq o v = true) -> veq r v = true.
Proof. exact nearest_exact. Qed.

Theorem C18_nearest_monotone : forall offs a b ra rb,
  nearest offs a = Ok ra -> nearest offs b = Ok rb -> vle a b = true -> vle ra rb = true.
Proof. exact nearest_monotone. Qed.

(* ... and the list of this source tree is non-empty and parses *)
Theorem C18_officials_here :
  officials <> [] /\ length officials = length official_version_strs.
Proof. vm_compute. split; [discriminate | reflexivity]. Qed.

(* non-vacuity of the hypotheses used above *)
Example C18_nonvacuous :
  exists a b c, vle a b = true /\ vlt b c = true /\ veq a b = false /\
                nearest officials a = Ok b.
Proof.
  exists (mkVer [1] None), (mkVer [2;0] None), (mkVer [2;0] (Some [97])).
  vm_compute. repeat split.
Qed.
