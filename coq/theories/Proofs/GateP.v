(* Proofs about Model/Gate.v: the version gate of Grid as an invariant over all operation histories. *)
From Coq Require Import String.
From Coq Require Import List NArith ZArith Bool Lia.
From HS Require Import Base.Prelude Gen.GateData Model.Value Model.Version Model.PyList Model.Json Model.Gate.
From HS Require Import Proofs.PyListP.
Import ListNotations.
Open Scope N_scope.

Definition okv (v : hval) : Prop := grid_detects v = false.
Definition data_ok (g : gate) : Prop :=
  Forall okv (map snd (gmeta g)) /\
  Forall (fun c => Forall okv (map snd (snd c))) (gcols g) /\
  Forall (fun r => Forall okv (map snd r)) (grows g).
(* the invariant: a grid whose version is judged pre-3.0 holds no 3.0-only value anywhere *)
Definition Inv (g : gate) : Prop := pre3_of (gver g) = Ok true -> data_ok g.
Definition same_data (g g' : gate) : Prop :=
  gmeta g' = gmeta g /\ gcols g' = gcols g /\ grows g' = grows g /\ ggiven g' = ggiven g.

Lemma pre3_V30 : pre3_of V30 = Ok false.
Proof. vm_compute. reflexivity. Qed.

Lemma assert_v3_spec g g' : assert_v3 g = Ok g' ->
  same_data g g' /\ pre3_of (gver g') = Ok false.
Proof.
  unfold assert_v3. destruct (pre3_of (gver g)) as [p3|e] eqn:E; cbn [bind]; [|discriminate].
  destruct p3.
  - destruct (ggiven g) eqn:Eg; [discriminate|]. intro Q; inversion Q; subst. split; [repeat split; cbn; congruence|exact pre3_V30].
  - intro Q; inversion Q; subst. split; [repeat split|exact E].
Qed.

Lemma detect_spec g v g' : detect g v = Ok g' ->
  same_data g g' /\
  (grid_detects v = true -> pre3_of (gver g') = Ok false) /\
  (pre3_of (gver g') = Ok true -> gver g' = gver g /\ okv v).
Proof.
  unfold detect, okv. destruct (grid_detects v) eqn:Ed.
  - intro H. destruct (assert_v3_spec g g' H) as [Hs Hp]. split; [exact Hs|]. split; [intros _; exact Hp|].
    intro Q. rewrite Hp in Q. discriminate.
  - intro Q; inversion Q; subst. split; [repeat split|]. split; [discriminate|]. intros _. split; reflexivity.
Qed.

Lemma same_data_trans a b c : same_data a b -> same_data b c -> same_data a c.
Proof. unfold same_data. intros [A1 [A2 [A3 A4]]] [B1 [B2 [B3 B4]]]. repeat split; congruence. Qed.

(* once a version is not pre-3.0 it stays so *)
Lemma detect_keeps_v3 g v g' : detect g v = Ok g' -> pre3_of (gver g) = Ok false -> pre3_of (gver g') = Ok false.
Proof.
  unfold detect. destruct (grid_detects v); [|intro Q; inversion Q; subst; auto].
  unfold assert_v3. intros H E. rewrite E in H. cbn [bind] in H. inversion H; subst. exact E.
Qed.

Lemma detect_all_spec : forall vs g g', detect_all g vs = Ok g' ->
  same_data g g' /\
  (pre3_of (gver g') = Ok true -> gver g' = gver g /\ Forall okv vs).
Proof.
  induction vs as [|v vs IH]; intros g g'; cbn [detect_all].
  - intro Q; inversion Q; subst. split; [repeat split|]. intros _. split; [reflexivity|constructor].
  - destruct (detect g v) as [g1|e] eqn:Ed; cbn [bind]; [|discriminate]. intro H.
    destruct (detect_spec g v g1 Ed) as [S1 [_ P1]]. destruct (IH g1 g' H) as [S2 P2].
    split; [eapply same_data_trans; eauto|]. intro Q. destruct (P2 Q) as [Hv Hvs].
    assert (Q1 : pre3_of (gver g1) = Ok true) by (rewrite <- Hv; exact Q).
    destruct (P1 Q1) as [Hv1 Hok]. split; [congruence|constructor; assumption].
Qed.

(* ---- stores preserve cleanliness ---- *)
Lemma dict_set_forall {A} (P : A -> Prop) k v (m : list (str * A)) :
  Forall P (map snd m) -> P v -> Forall P (map snd (dict_set k v m)).
Proof.
  induction m as [|[y w] m IH]; cbn [dict_set map snd]; intros H Hv.
  - constructor; [exact Hv|constructor].
  - inversion H; subst. destruct (str_eqb y k); cbn [map snd]; constructor; auto.
Qed.
Lemma dict_set_forall_pair {A} (P : str * A -> Prop) k v (m : list (str * A)) :
  (forall y, P (y, v)) -> Forall P m -> Forall P (dict_set k v m).
Proof.
  intros Hv. induction m as [|[y w] m IH]; cbn [dict_set]; intro H.
  - constructor; [apply Hv|constructor].
  - inversion H; subst. destruct (str_eqb y k); constructor; auto.
Qed.
Lemma assoc_forall {A} (P : str * A -> Prop) c (m : list (str * A)) x : Forall P m -> assoc c m = Some x -> exists y, P (y, x).
Proof.
  induction m as [|[y w] m IH]; cbn [assoc]; [discriminate|]. intros H. inversion H; subst.
  destruct (str_eqb y c); [intro Q; inversion Q; subst; eauto|auto].
Qed.
Lemma set_nat_forall {A} (P : A -> Prop) x : forall n l, Forall P l -> P x -> Forall P (set_nat n x l).
Proof.
  induction n as [|n IH]; intros [|y l] H Hx; cbn [set_nat]; try constructor; inversion H; subst; auto.
Qed.
Lemma py_ins_forall {A} (P : A -> Prop) i x (l : list A) : Forall P l -> P x -> Forall P (py_ins i x l).
Proof.
  intros H Hx. apply Forall_forall. intros y Hy. apply in_py_ins in Hy. destruct Hy as [Hy|Hy]; [subst; exact Hx|].
  rewrite Forall_forall in H. auto.
Qed.

Lemma Inv_of_data g g' : same_data g g' -> Inv g -> (pre3_of (gver g') = Ok true -> gver g' = gver g) -> Inv g'.
Proof.
  intros [S1 [S2 [S3 _]]] HI Hv Q. unfold data_ok. rewrite S1, S2, S3. apply HI. rewrite <- (Hv Q). exact Q.
Qed.

Lemma append_all_inv : forall rs g g' r, Inv g -> append_all g rs = (g', r) -> Inv g'.
Proof.
  induction rs as [|row rs IH]; intros g g' r HI; cbn [append_all].
  - intro Q; inversion Q; subst. exact HI.
  - destruct (detect_all g (map snd row)) as [g1|e] eqn:Ed.
    + destruct (detect_all_spec _ _ _ Ed) as [[S1 [S2 [S3 S4]]] P]. apply IH.
      intro Q. cbn [gver] in Q. destruct (P Q) as [Hv Hrow]. cbn [gmeta gcols grows]. rewrite Hv in Q.
      destruct (HI Q) as [D1 [D2 D3]]. rewrite S1, S2, S3. split; [exact D1|]. split; [exact D2|].
      apply Forall_app. split; [exact D3|]. constructor; [exact Hrow|constructor].
    + intro Q; inversion Q; subst. exact HI.
Qed.

Theorem gate_step_inv g o g' r : Inv g -> gate_step g o = (g', r) -> Inv g'.
Proof.
  intros HI. destruct o as [k v|c k v|c m|c m|row|i row|i row|rs]; cbn [gate_step].
  - (* metadata store *)
    destruct (detect g v) as [g1|e] eqn:Ed; cbn [bind with_state]; [|intro Q; inversion Q; subst; exact HI].
    intro Q; inversion Q; subst. clear Q. destruct (detect_spec _ _ _ Ed) as [[S1 [S2 [S3 S4]]] [_ P]].
    intro Q. cbn [gver] in Q. destruct (P Q) as [Hv Hok]. rewrite Hv in Q. destruct (HI Q) as [D1 [D2 D3]].
    unfold data_ok. cbn [gmeta gcols grows]. rewrite S1, S2, S3. split; [apply dict_set_forall; assumption|]. split; assumption.
  - (* column metadata store *)
    destruct (assoc c (gcols g)) as [m|] eqn:Ea; [|intro Q; inversion Q; subst; exact HI].
    destruct (detect g v) as [g1|e] eqn:Ed; cbn [bind with_state]; [|intro Q; inversion Q; subst; exact HI].
    intro Q; inversion Q; subst. clear Q. destruct (detect_spec _ _ _ Ed) as [[S1 [S2 [S3 S4]]] [_ P]].
    intro Q. cbn [gver] in Q. destruct (P Q) as [Hv Hok]. rewrite Hv in Q. destruct (HI Q) as [D1 [D2 D3]].
    unfold data_ok. cbn [gmeta gcols grows]. rewrite S1, S2, S3. split; [exact D1|]. split; [|exact D3].
    apply dict_set_forall_pair; [|exact D2]. intro y. cbn [snd].
    destruct (assoc_forall _ _ _ _ D2 Ea) as [y' Hm]. cbn [snd] in Hm. apply dict_set_forall; assumption.
  - (* raw column store *)
    destruct (detect_all g (map snd m)) as [g1|e] eqn:Ed; cbn [bind with_state]; [|intro Q; inversion Q; subst; exact HI].
    intro Q; inversion Q; subst. clear Q. destruct (detect_all_spec _ _ _ Ed) as [[S1 [S2 [S3 S4]]] P].
    intro Q. cbn [gver] in Q. destruct (P Q) as [Hv Hok]. rewrite Hv in Q. destruct (HI Q) as [D1 [D2 D3]].
    unfold data_ok. cbn [gmeta gcols grows]. rewrite S1, S2, S3. split; [exact D1|]. split; [|exact D3].
    apply dict_set_forall_pair; [|exact D2]. intro y. exact Hok.
  - destruct (detect_all g (map snd m)) as [g1|e] eqn:Ed; cbn [bind with_state]; [|intro Q; inversion Q; subst; exact HI].
    intro Q; inversion Q; subst. clear Q. destruct (detect_all_spec _ _ _ Ed) as [[S1 [S2 [S3 S4]]] P].
    intro Q. cbn [gver] in Q. destruct (P Q) as [Hv Hok]. rewrite Hv in Q. destruct (HI Q) as [D1 [D2 D3]].
    unfold data_ok. cbn [gmeta gcols grows]. rewrite S1, S2, S3. split; [exact D1|]. split; [|exact D3].
    apply dict_set_forall_pair; [|exact D2]. intro y. exact Hok.
  - apply append_all_inv. exact HI.
  - (* insert *)
    destruct (detect_all g (map snd row)) as [g1|e] eqn:Ed; cbn [bind with_state]; [|intro Q; inversion Q; subst; exact HI].
    intro Q; inversion Q; subst. clear Q. destruct (detect_all_spec _ _ _ Ed) as [[S1 [S2 [S3 S4]]] P].
    intro Q. cbn [gver] in Q. destruct (P Q) as [Hv Hok]. rewrite Hv in Q. destruct (HI Q) as [D1 [D2 D3]].
    unfold data_ok. cbn [gmeta gcols grows]. rewrite S1, S2, S3. split; [exact D1|]. split; [exact D2|].
    apply py_ins_forall; assumption.
  - (* setitem *)
    destruct (detect_all g (map snd row)) as [g1|e] eqn:Ed; [|intro Q; inversion Q; subst; exact HI].
    destruct (detect_all_spec _ _ _ Ed) as [[S1 [S2 [S3 S4]]] P].
    destruct (py_set i row (grows g1)) as [l|] eqn:Es; intro Q; inversion Q; subst; clear Q.
    + intro Q. cbn [gver] in Q. destruct (P Q) as [Hv Hok]. rewrite Hv in Q. destruct (HI Q) as [D1 [D2 D3]].
      unfold data_ok. cbn [gmeta gcols grows]. rewrite S1, S2. split; [exact D1|]. split; [exact D2|].
      unfold py_set in Es. destruct (norm_index i (length (grows g1))); [|discriminate]. inversion Es; subst.
      apply set_nat_forall; [rewrite S3; exact D3|exact Hok].
    + intro Q. destruct (P Q) as [Hv Hok]. rewrite Hv in Q. destruct (HI Q) as [D1 [D2 D3]].
      unfold data_ok. rewrite S1, S2, S3. repeat split; assumption.
  - apply append_all_inv. exact HI.
Qed.

Theorem gate_run_inv : forall ops g, Inv g -> Inv (gate_run g ops).
Proof.
  induction ops as [|o ops IH]; intros g HI; cbn [gate_run]; [exact HI|].
  apply IH. destruct (gate_step g o) as [g' r] eqn:E. cbn [fst]. eapply gate_step_inv; eauto.
Qed.

Lemma gate_new_inv ver g : gate_new ver = Ok g -> Inv g.
Proof.
  unfold gate_new. destruct ver as [t|].
  - destruct (parse_ver t); cbn [bind]; [|discriminate]. intro Q; inversion Q; subst. intros _. repeat split; constructor.
  - intro Q; inversion Q; subst. intros _. repeat split; constructor.
Qed.

(* ---- upgrade and refusal ---- *)
Lemma detect_upgrades g v : ggiven g = false -> pre3_of (gver g) = Ok true -> grid_detects v = true ->
  detect g v = Ok (mkGate V30 false (gmeta g) (gcols g) (grows g)).
Proof. intros Hg Hp Hd. unfold detect, assert_v3. rewrite Hd, Hp, Hg. reflexivity. Qed.
Lemma detect_refuses g v : ggiven g = true -> pre3_of (gver g) = Ok true -> grid_detects v = true ->
  detect g v = Raise ValueError.
Proof. intros Hg Hp Hd. unfold detect, assert_v3. rewrite Hd, Hp, Hg. reflexivity. Qed.
Lemma detect_all_refuses : forall vs g, ggiven g = true -> pre3_of (gver g) = Ok true -> existsb grid_detects vs = true ->
  detect_all g vs = Raise ValueError.
Proof.
  induction vs as [|v vs IH]; intros g Hg Hp; cbn [existsb detect_all]; [discriminate|].
  destruct (grid_detects v) eqn:Ed.
  - intros _. rewrite detect_refuses by assumption. reflexivity.
  - cbn [orb]. intro H. unfold detect. rewrite Ed. cbn [bind]. apply IH; assumption.
Qed.
Lemma detect_passes g v : grid_detects v = false -> detect g v = Ok g.
Proof. intro H. unfold detect. rewrite H. reflexivity. Qed.
Lemma detect_nonpre3 g v : pre3_of (gver g) = Ok false -> detect g v = Ok g.
Proof. intro H. unfold detect, assert_v3. rewrite H. destruct (grid_detects v); reflexivity. Qed.
