"""JSON codec checks shared by C02 (round trip), C05 (reader completeness),
C06 (writer conformance), C08 (string payloads, JSON half)."""
import copy
import datetime
import json
import math
import re

import codec
from codec import canon, fbits
from common import Sym


def H():
    return codec.H()


# ---------------------------------------------------------------- six decimals
def six(x):
    """what a number becomes after the format's documented six decimal places"""
    if isinstance(x, float) and (math.isnan(x) or math.isinf(x)):
        return x
    return float('%f' % x)


def canon6(v):
    """canonical form of a value after the JSON six-decimal rule"""
    h = H()
    if isinstance(v, bool) or v is None:
        return canon(v)
    if isinstance(v, (int, float)):
        return ('num', fbits(six(v)), None)
    if isinstance(v, h.Quantity):
        unit = v.unit if v.unit else None
        return ('num', fbits(six(v.value)), unit)
    if isinstance(v, h.Coordinate):
        return ('coord', fbits(six(v.latitude)), fbits(six(v.longitude)))
    if isinstance(v, list):
        return ('list',) + tuple(canon6(x) for x in v)
    if isinstance(v, h.Grid):
        cols = list(v.column.keys())
        return ('grid', str(v.version), tuple((k, canon6(x)) for k, x in v.metadata.items()),
                tuple((c, tuple((k, canon6(x)) for k, x in m.items())) for c, m in v.column.items()),
                tuple(tuple((c, canon6(row.get(c))) for c in cols) for row in v))
    if isinstance(v, dict) or (hasattr(v, 'items') and not isinstance(v, str)):
        return ('dict',) + tuple((k, canon6(x)) for k, x in v.items())
    return canon(v)


def canon_rows_full(c):
    """a parsed grid's canonical form with every row listing every column (missing -> null)"""
    if not (isinstance(c, tuple) and c and c[0] == 'grid'):
        if isinstance(c, tuple) and c and c[0] == 'list':
            return ('list',) + tuple(canon_rows_full(x) for x in c[1:])
        if isinstance(c, tuple) and c and c[0] == 'dict':
            return ('dict',) + tuple((k, canon_rows_full(x)) for k, x in c[1:])
        return c
    _, ver, meta, cols, rows = c
    names = [n for n, _ in cols]
    out = []
    for r in rows:
        d = dict(r)
        out.append(tuple((n, canon_rows_full(d.get(n, ('null',)))) for n in names))
    return ('grid', ver, tuple((k, canon_rows_full(x)) for k, x in meta),
            tuple((n, tuple((k, canon_rows_full(x)) for k, x in m)) for n, m in cols), tuple(out))


# ------------------------------------------------- independent (spec) reader
NUM_RE = re.compile(r'^n:(-?[0-9]+(?:\.[0-9]+)?(?:[eE][+-]?[0-9]+)?)(?: (.+))?$', re.S)
DATE_RE = re.compile(r'^d:([0-9]{4})-([0-9]{2})-([0-9]{2})$')
TIME_RE = re.compile(r'^h:([0-9]{2}):([0-9]{2})(?::([0-9]{2})(?:\.([0-9]+))?)?$')
DT_RE = re.compile(r'^t:([0-9]{4})-([0-9]{2})-([0-9]{2})T([0-9]{2}):([0-9]{2}):([0-9]{2})(?:\.([0-9]+))?(Z|[+-][0-9]{2}:[0-9]{2})(?: ([A-Za-z0-9_+\-]+))?$')
COORD_RE = re.compile(r'^c:(-?[0-9]+(?:\.[0-9]+)?),(-?[0-9]+(?:\.[0-9]+)?)$')
REF_RE = re.compile(r'^r:([a-zA-Z0-9_:\-.~]+)(?: (.*))?$', re.S)
XSTR_RE = re.compile(r'^x:([A-Za-z][A-Za-z0-9_]*):(.*)$', re.S)


class NotConformant(Exception):
    pass


def spec_read(j, ver):
    """Independent reader written from the Project Haystack JSON description; returns the
    canonical form.  Raises NotConformant for anything that is not well-formed Haystack JSON."""
    pre3 = ver == '2.0'
    if j is None:
        return ('null',)
    if isinstance(j, bool):
        return ('bool', j)
    if isinstance(j, (int, float)):
        return ('num', fbits(j), None)
    if isinstance(j, list):
        if pre3:
            raise NotConformant('list under 2.0')
        return ('list',) + tuple(spec_read(x, ver) for x in j)
    if isinstance(j, dict):
        if pre3:
            raise NotConformant('dict under 2.0')
        if {'meta', 'cols', 'rows'} <= set(j.keys()):
            return spec_read_grid(j)
        return ('dict',) + tuple((k, spec_read(x, ver)) for k, x in j.items())
    if not isinstance(j, str):
        raise NotConformant(repr(j))
    s = j
    if s == 'm:':
        return ('marker',)
    if s == 'z:':
        if pre3:
            raise NotConformant('NA under 2.0')
        return ('na',)
    if s == '-:' or s == 'x:':
        return ('remove',)
    if s in ('n:INF', 'n:-INF', 'n:NaN'):
        return ('num', fbits(float(s[2:].replace('INF', 'inf').replace('NaN', 'nan'))), None)
    m = NUM_RE.match(s)
    if m:
        return ('num', fbits(float(m.group(1))), m.group(2))
    if s.startswith('n:'):
        raise NotConformant('bad number %r' % s)
    if s.startswith('s:'):
        return ('str', s[2:])
    if s.startswith('u:'):
        return ('uri', s[2:])
    if s.startswith('b:'):
        return ('bin', s[2:])
    if s.startswith('r:'):
        m = REF_RE.match(s)
        if not m:
            raise NotConformant('bad ref %r' % s)
        return ('ref', m.group(1), m.group(2))
    if s.startswith('d:'):
        m = DATE_RE.match(s)
        if not m:
            raise NotConformant('bad date %r' % s)
        d = datetime.date(*map(int, m.groups()))
        return ('date', d.year, d.month, d.day)
    if s.startswith('h:'):
        m = TIME_RE.match(s)
        if not m:
            raise NotConformant('bad time %r' % s)
        hh, mm, ss, fr = m.groups()
        us = int((fr or '')[:6].ljust(6, '0')) if fr else 0
        t = datetime.time(int(hh), int(mm), int(ss or 0), us)
        return ('time', t.hour, t.minute, t.second, t.microsecond, False)
    if s.startswith('t:'):
        m = DT_RE.match(s)
        if not m:
            raise NotConformant('bad date-time %r' % s)
        y, mo, d, hh, mi, ss, fr, off, zone = m.groups()
        us = int((fr or '')[:6].ljust(6, '0')) if fr else 0
        if off == 'Z':
            offs = 0
        else:
            offs = (1 if off[0] == '+' else -1) * (int(off[1:3]) * 3600 + int(off[4:6]) * 60)
        local = datetime.datetime(int(y), int(mo), int(d), int(hh), int(mi), int(ss), us)
        utc = (local - datetime.timedelta(seconds=offs)).replace(tzinfo=datetime.timezone.utc)
        return ('dt-spec', utc.isoformat(), offs, zone)
    if s.startswith('c:'):
        m = COORD_RE.match(s)
        if not m:
            raise NotConformant('bad coordinate %r' % s)
        return ('coord', fbits(float(m.group(1))), fbits(float(m.group(2))))
    if s.startswith('x:'):
        if pre3:
            raise NotConformant('XStr under 2.0')
        m = XSTR_RE.match(s)
        if not m:
            raise NotConformant('bad xstr %r' % s)
        enc, data = m.groups()
        if enc == 'hex':
            if not re.match(r'^([0-9a-fA-F]{2})*$', data):
                raise NotConformant('bad hex')
            return ('xstr', enc, data.lower())
        if enc == 'b64':
            import base64
            try:
                return ('xstr', enc, base64.b64decode(data, validate=True).hex())
            except Exception:
                raise NotConformant('bad base64')
        return ('xstr', enc, ('text', data))
    if len(s) >= 2 and s[1] == ':':
        raise NotConformant('unknown type prefix %r' % s)
    return ('str', s)


def spec_read_grid(j):
    if not isinstance(j, dict) or not isinstance(j.get('meta'), dict) or not isinstance(j.get('cols'), list):
        raise NotConformant('grid shape')
    meta = dict(j['meta'])
    ver = meta.pop('ver', None)
    if not isinstance(ver, str):
        raise NotConformant('no ver')
    v = '2.0' if ver.startswith('2') or ver.startswith('1') else '3.0'
    cols = []
    for c in j['cols']:
        if not isinstance(c, dict) or not isinstance(c.get('name'), str):
            raise NotConformant('column without name')
        cm = dict(c)
        name = cm.pop('name')
        if not re.match(r'^[a-z][a-zA-Z0-9_]*$', name):
            raise NotConformant('bad column name %r' % name)
        cols.append((name, tuple((k, spec_read(x, v)) for k, x in cm.items())))
    if not cols:
        raise NotConformant('no columns')
    names = [n for n, _ in cols]
    rows = []
    for r in (j.get('rows') or []):
        if not isinstance(r, dict):
            raise NotConformant('row is not an object')
        for k in r:
            if k not in names:
                raise NotConformant('cell %r without column' % k)
        rows.append(tuple((n, spec_read(r.get(n), v)) for n in names))
    return ('grid', ver, tuple((k, spec_read(x, v)) for k, x in meta.items()), tuple(cols), tuple(rows))


def dt_to_spec(c):
    """canonical forms of implementation values, with date-times in the spec reader's form"""
    if isinstance(c, tuple):
        if c and c[0] == 'dt':
            from hszinc.zoneinfo import get_tz_rmap
            zone = c[3]
            hz = get_tz_rmap().get(zone, None) if zone else None
            return ('dt-spec', c[1], c[2], hz)
        return tuple(dt_to_spec(x) for x in c)
    return c


def expected6(g):
    """what a faithful reader must recover from the JSON of g"""
    return dt_to_spec(canon6(g))


# ----------------------------------------------------------- lexical forms
LEX = {
    'marker': re.compile(r'^m:$'), 'na': re.compile(r'^z:$'), 'remove': re.compile(r'^(-:|x:)$'),
    'num': re.compile(r'^n:(-?[0-9]+(\.[0-9]+)?([eE][+-]?[0-9]+)?( .+)?|INF|-INF|NaN)$', re.S),
    'str': re.compile(r'^s:', re.S), 'uri': re.compile(r'^u:', re.S), 'bin': re.compile(r'^b:', re.S),
    'ref': re.compile(r'^r:[a-zA-Z0-9_:\-.~]+( .*)?$', re.S),
    'xstr': re.compile(r'^x:[A-Za-z][A-Za-z0-9_]*:', re.S),
    'date': re.compile(r'^d:[0-9]{4}-[0-9]{2}-[0-9]{2}$'),
    'time': re.compile(r'^h:[0-9]{2}:[0-9]{2}:[0-9]{2}(\.[0-9]+)?$'),
    'dt': re.compile(r'^t:[0-9]{4}-[0-9]{2}-[0-9]{2}T[0-9]{2}:[0-9]{2}:[0-9]{2}(\.[0-9]+)?(Z|[+-][0-9]{2}:[0-9]{2}) [A-Za-z0-9_+\-]+$'),
    'coord': re.compile(r'^c:-?[0-9]+(\.[0-9]+)?,-?[0-9]+(\.[0-9]+)?$'),
}


def lexical_problem(v, j, ver):
    """None if the JSON encoding j of value v carries the prefix of its kind and the kind's lexical form"""
    k = canon(v)[0]
    if k == 'null':
        return None if j is None else 'null encoded as %r' % (j,)
    if k == 'bool':
        return None if isinstance(j, bool) else 'bool encoded as %r' % (j,)
    if k == 'list':
        if not isinstance(j, list) or len(j) != len(v):
            return 'list encoded as %r' % (j,)
        for x, y in zip(v, j):
            p = lexical_problem(x, y, ver)
            if p:
                return p
        return None
    if k == 'dict':
        if not isinstance(j, dict) or list(j.keys()) != list(v.keys()):
            return 'dict encoded as %r' % (j,)
        for kk in v:
            p = lexical_problem(v[kk], j[kk], ver)
            if p:
                return p
        return None
    if k == 'grid':
        return grid_shape_problem(v, j)
    if not isinstance(j, str):
        return '%s encoded as %r' % (k, j)
    if k == 'remove' and j != ('x:' if ver == '2.0' else '-:'):
        return 'Remove spelled %r under version %s' % (j, ver)
    if not LEX[k].match(j):
        return '%s encoded as %r, not the lexical form of that kind' % (k, j)
    return None


def grid_shape_problem(g, j):
    ver = str(g.version)
    v = '2.0' if ver.startswith('2') or ver.startswith('1') else '3.0'
    if not isinstance(j, dict) or list(j.keys()) != ['meta', 'cols', 'rows']:
        return 'top-level keys are %r' % (list(j.keys()) if isinstance(j, dict) else j,)
    if not isinstance(j['meta'], dict) or j['meta'].get('ver') != ver:
        return 'meta.ver is %r' % (j['meta'].get('ver') if isinstance(j['meta'], dict) else j['meta'],)
    if [k for k in j['meta'] if k != 'ver'] != list(g.metadata.keys()):
        return 'metadata names %r' % list(j['meta'].keys())
    for k in g.metadata:
        p = lexical_problem(g.metadata[k], j['meta'][k], v)
        if p:
            return 'metadata %s: %s' % (k, p)
    if not isinstance(j['cols'], list) or [c.get('name') for c in j['cols']] != list(g.column.keys()):
        return 'column names %r' % (j['cols'],)
    for c, cm in zip(j['cols'], g.column.values()):
        if [k for k in c if k != 'name'] != list(cm.keys()):
            return 'column metadata names %r' % list(c.keys())
        for k in cm:
            p = lexical_problem(cm[k], c[k], v)
            if p:
                return 'column metadata %s: %s' % (k, p)
    if not isinstance(j['rows'], list) or len(j['rows']) != len(g):
        return 'row count'
    for row, jr in zip(g, j['rows']):
        if list(jr.keys()) != list(g.column.keys()):
            return 'row cells %r' % list(jr.keys())
        for c in g.column.keys():
            p = lexical_problem(row.get(c), jr[c], v)
            if p:
                return 'cell %s: %s' % (c, p)
    return None


# ------------------------------------------------------------------ drivers
def model_dump(ctx, grids):
    return ctx.model.ask_parallel([[Sym('jdump'), codec.enc_grid(g)] for g in grids])


def model_parse(ctx, trees):
    return ctx.model.ask_parallel([[Sym('jparse'), codec.json_to_wire(t)] for t in trees])
