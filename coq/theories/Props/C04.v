(* C04 - the ZINC writer emits well-formed ZINC.  Proved: the document is header line, column line, one line
   per row and a final newline; every row line holds exactly one cell per column; no line and no cell holds
   a character below U+0020 (so no newline inside a line), for every grid without nested grids whose
   verbatim tokens (names, units, number tokens) are clean; the header is ver:"X" with X the escaped version
   text; string and URI literals hold only escapes the grammar's character rule accepts and end at their own
   closing quote; non-finite numbers are spelled INF, -INF, NaN; 3.0-only kinds are refused under 2.0.
   Whole grids: what the writer emits is accepted by the model of hszinc's own grid rule and denotes the grid written
   (C04_grid_conforms, _general, _2_0, _datetimes).
   String and URI literals are in the grammar's literal production, stated as an inductive relation (C04_string_in_grammar).
   PARTIAL: conformance of whole documents to the Haystack grammar itself is judged by the independent reader
   (harness/zincspec.py) on every dumped grid, not proved against a grammar relation. *)
From Coq Require Import String.
From Coq Require Import List NArith ZArith Bool.
From HS Require Import Base.Prelude Model.Value Model.Escape Model.Version Model.Json Model.ZincDump Model.ZincParse.
From HS Require Import Proofs.EscapeP Proofs.ZincParseP Proofs.ZincDumpP Proofs.ZincNumP Proofs.ZincDateP Proofs.ZincListP Proofs.ZincGridP Proofs.ZincDictP Proofs.ZincMetaP Proofs.ZincNestP.
From HS Require Import Proofs.ZincDateTimeP Proofs.ZincV2P Proofs.ZincMeta2P Proofs.ZincRawP Proofs.EscapeGrammarP.
Import ListNotations.
Open Scope N_scope.

Theorem C04_header : forall f ver meta cols rows t,
  zdump_grid (S f) ver meta cols rows = Ok t ->
  exists e rest, escape_str ver = Ok e /\ t = s_ "ver:" ++ DQ :: e ++ DQ :: rest.
Proof. exact zdump_grid_header. Qed.

Theorem C04_nonfinite : forall f pre3 zt jt,
  zdump (S f) pre3 (VNum NkInf zt jt None) = Ok (s_ "INF") /\
  zdump (S f) pre3 (VNum NkNegInf zt jt None) = Ok (s_ "-INF") /\
  zdump (S f) pre3 (VNum NkNaN zt jt None) = Ok (s_ "NaN").
Proof. exact zdump_nonfinite. Qed.

(* a written string: quote, characters >= U+0020 none of which is an unescaped quote, quote;
   the reader's literal rule accepts exactly it *)
Theorem C04_string_literal : forall f pre3 s t,
  zdump (S f) pre3 (VStr s) = Ok t ->
  exists e, t = DQ :: e ++ [DQ] /\ (forall x, In x e -> 32 <= x) /\ hs_str t = Some (Ok s, []).
Proof.
  intros f pre3 s t H. cbn [zdump] in H. destruct (zdump_str_shape s t H) as [e [He Ht]]. exists e.
  split; [exact Ht|]. split.
  - exact (all_ge32 DQ str_esc_letters false esc_str_char dq_ne dq_32 every_char_str s e He).
  - subst t. exact (quoted_roundtrip DQ str_esc_letters false esc_str_char dq_ne dq_32 every_char_str s e [] He).
Qed.

(* 3.0-only kinds under a pre-3.0 version are refused, not written *)
Theorem C04_version_gate : forall f l d en tx,
  zdump (S f) true (VList l) = Raise ValueError /\ zdump (S f) true (VDict d) = Raise ValueError /\
  zdump (S f) true VNA = Raise ValueError /\ zdump (S f) true (VXStr en tx) = Raise ValueError.
Proof. intros. repeat split; reflexivity. Qed.

(* layout: t = header NL columns NL row1 NL ... rowN NL; one cell per column in every row line; nothing
   below U+0020 inside a line *)
Theorem C04_layout : forall f ver meta cols rows t,
  zdump_grid (S f) ver meta cols rows = Ok t ->
  wf_tags f meta ->
  Forall (fun c => clean (fst c) /\ wf_tags f (snd c)) cols ->
  Forall (fun row => Forall (fun c => wfv f (cell_of c row)) cols) rows ->
  exists header colline rowlines,
    t = join NL1 ([header; colline] ++ rowlines ++ [[]]) /\
    clean header /\ clean colline /\
    Forall2 (fun row line => exists cells, line = join [44] cells /\ length cells = length cols /\ Forall clean cells) rows rowlines.
Proof. exact zdump_grid_layout. Qed.
(* every scalar the writer emits for a clean value is free of control characters *)
Theorem C04_scalar_clean : forall f p v t, wfv f v -> zdump f p v = Ok t -> clean t.
Proof. exact zdump_clean. Qed.
(* non-vacuity: a grid with strings full of metacharacters, a list, a reference with display name satisfies the hypotheses *)
(* CONFORMANCE AND DENOTATION for whole grids: for every metadata-free 3.0 grid over strings, URIs, numbers, dates,
   times, letter scalars, plain references and lists of those (zcell n), what the writer emits is accepted by the grid
   rule of the grammar and denotes exactly the grid that was written (the grammar here is the model of hszinc's own
   reader; conformance to the Haystack description is judged by the independent reader of the harness) *)
Theorem C04_grid_conforms : forall n names rows rts,
  names <> [] -> Forall colname names -> NoDup names -> Forall2 (grid_cells_ok n names) rows rts ->
  exists txt, (forall f, zdump_grid (S (S (n + f))) V30 [] (map (fun x => (x, [])) names) (map (fun cells => combine names cells) rows) = Ok txt) /\
              (forall k, p_grid (S (S (n + k))) true txt = Some (Ok (plain_grid names rows), [])).
Proof.
  intros n names rows rts H1 H2 H3 H4. exists (plain_text names rts). exact (grid_roundtrip n names rows rts H1 H2 H3 H4).
Qed.

(* ... and in general: with grid and column metadata, over every kind but date-times, with lists, dicts and nested grids
   to any depth (full_grid_ok), what the writer emits is accepted by the grid rule and by parse_grid and denotes the grid *)
Theorem C04_grid_conforms_general : forall n mps cols rows rts, full_grid_ok n mps cols rows rts ->
  (forall f, zdump_grid (S (S (2 * n + f))) V30 (map pkv mps) (map (fun c => (fst c, map pkv (snd c))) cols)
                        (map (fun cells => combine (map fst cols) cells) rows) = Ok (meta_text mps cols rts)) /\
  (forall k, p_grid (S (S (2 * n + k))) true (meta_text mps cols rts) = Some (Ok (meta_grid mps cols rows), [])) /\
  ((2 * n <= length (meta_text mps cols rts))%nat -> zparse_grid (meta_text mps cols rts) = Ok (meta_grid mps cols rows)).
Proof. exact full_grid_roundtrip. Qed.

(* ... for version 2.0 grids with grid and column metadata: the text written under the pre-3.0 rules is accepted by the 2.0
   grammar (version gate included) and denotes the grid that was written *)
Theorem C04_grid_conforms_2_0 : forall mps cols rows rts,
  Forall mval2 mps -> NoDup (mkeys mps) -> ~ In VERK (mkeys mps) ->
  cols <> [] -> Forall mcol2 cols -> NoDup (map fst cols) ->
  Forall2 (grid2_cells_ok (map fst cols)) rows rts ->
  (forall f, zdump_grid (S (S f)) V20 (map pkv mps) (map (fun c => (fst c, map pkv (snd c))) cols)
                        (map (fun cells => combine (map fst cols) cells) rows) = Ok (meta_text2 mps cols rts)) /\
  zparse_grid (meta_text2 mps cols rts) = Ok (meta_grid2 mps cols rows).
Proof. exact grid2_meta_roundtrip. Qed.

(* ... and with date-time cells: what is written for a date-time in a named zone is accepted as a date-time token carrying
   exactly the written ISO text and zone name *)
Theorem C04_grid_conforms_datetimes : forall n mps cols (rows : list (list (hval * hval))) rts,
  Forall (mv (zv n)) mps -> NoDup (mkeys mps) -> ~ In VERK (mkeys mps) ->
  cols <> [] -> Forall (mc (zv n)) cols -> NoDup (map fst cols) ->
  Forall2 (fun cells ts => length cells = length (map fst cols) /\ Forall2 (cellwr n) cells ts) rows rts ->
  (forall f, zdump_grid (S (S (2 * n + f))) V30 (map pkv mps) (map (fun c => (fst c, map pkv (snd c))) cols)
                        (map (fun cells => combine (map fst cols) (map fst cells)) rows) = Ok (meta_text mps cols rts)) /\
  ((2 * n <= length (meta_text mps cols rts))%nat ->
   zparse_grid (meta_text mps cols rts) = Ok (meta_grid mps cols (map (map snd) rows))).
Proof. exact full_grid_datetimes. Qed.

(* CONFORMANCE TO THE GRAMMAR ITSELF, for literals: `literal` / `lit_body` (Proofs/EscapeGrammarP.v) is the string / URI
   production of the Haystack grammar written as an inductive relation - plain characters from U+0020 other than the quote
   and the backslash, the listed backslash escapes, backslash-u with four hexadecimal digits - independent of hszinc's
   reader; every string and URI the writer emits is in it *)
Theorem C04_string_in_grammar : forall f pre3 s t, zdump (S f) pre3 (VStr s) = Ok t -> literal DQ str_esc_letters t.
Proof. intros f pre3 s t H. cbn [zdump] in H. exact (written_string_in_grammar s t H). Qed.
Theorem C04_uri_in_grammar : forall f pre3 s t, zdump (S f) pre3 (VUri s) = Ok t -> literal BQ uri_esc_letters t.
Proof. intros f pre3 s t H. cbn [zdump] in H. exact (written_uri_in_grammar s t H). Qed.

Example C04_layout_applies :
  let rows := [[(s_ "a", VStr [34; 10; 44]); (s_ "b", VRef (s_ "r-1") (Some [36; 10]))]; [(s_ "b", VList [VMarker; VUri [96; 10]])]] in
  let cols := [(s_ "a", []); (s_ "b", [(s_ "dis", VStr [10])])] in
  wf_tags 3 [(s_ "m", VMarker)] /\
  Forall (fun c => clean (fst c) /\ wf_tags 3 (snd c)) cols /\
  Forall (fun row => Forall (fun c => wfv 3 (cell_of c row)) cols) rows /\
  exists t, zdump_grid 4 (s_ "3.0") [(s_ "m", VMarker)] cols rows = Ok t.
Proof.
  cbv zeta. split; [|split; [|split]].
  - repeat constructor; cbv; discriminate.
  - repeat constructor; cbv; discriminate.
  - repeat constructor; cbv; discriminate.
  - eexists. vm_compute. reflexivity.
Qed.

Print Assumptions C04_grid_conforms.
Print Assumptions C04_grid_conforms_general.
Print Assumptions C04_layout.
Print Assumptions C04_scalar_clean.
Print Assumptions C04_header.
Print Assumptions C04_nonfinite.
Print Assumptions C04_string_literal.
Print Assumptions C04_version_gate.
Print Assumptions C04_grid_conforms_2_0.
Print Assumptions C04_grid_conforms_datetimes.
Print Assumptions C04_string_in_grammar.
Print Assumptions C04_uri_in_grammar.
