(* Refuted statements: defects that were found on the pinned tree and repaired
   by `fix:` commits in /repo.  Each is stated against a frozen copy of the
   pre-fix definition so that the history stays checkable. *)
From HS Require Import Base.Prelude Model.Version.
Open Scope N_scope.

(* C18 / F12: before the fix, __hash__ was hash(str(self)) *)
Definition hash_key_legacy (v : ver) : str := vstr v.
Theorem C18_eq_hash_refuted_legacy :
  exists a b, veq a b = true /\ hash_key_legacy a <> hash_key_legacy b.
Proof. exists (mkVer [2] None), (mkVer [2;0] None). vm_compute. split; [reflexivity|discriminate]. Qed.

(* C16 / F11: before the fix, add_item computed the target index of a key
   moved relative to another key BEFORE removing it *)
From HS Require Import Model.SortableDict.
Open Scope Z_scope.
Definition add_item_reloc_legacy (order0 : list key) (k K : key) (after : bool) : list key :=
  match index_of K order0 with
  | Some n => py_insert (if after then Z.of_nat n + 1 else Z.of_nat n) k (remove_first k order0)
  | None => order0
  end.
Theorem C16_relocation_refuted_legacy :
  exists order0 k K,
    add_item_reloc_legacy order0 k K false
    <> map fst (fst (om_add (map (fun x => (x, 0)) order0) k 0 false None (Some K) true)).
Proof.
  exists [[97]; [98]; [99]; [100]]%N, [97]%N, [99]%N. vm_compute. discriminate.
Qed.
