(* Proofs about Model/ZincDump.v and its composition with Model/ZincParse.v. *)
From Coq Require Import String.
From Coq Require Import List NArith ZArith Bool Lia.
From HS Require Import Base.Prelude Model.Value Model.Escape Model.Version Model.Json Model.ZincDump Model.ZincParse.
From HS Require Import Proofs.EscapeP Proofs.ZincParseP.
Import ListNotations.
Open Scope N_scope.

Lemma zdump_str_shape s t : zdump_str s = Ok t -> exists e, escape_str s = Ok e /\ t = DQ :: e ++ [DQ].
Proof. unfold zdump_str. destruct (escape_str s) as [e|x]; cbn [bind]; intro Q; inversion Q. eexists; split; reflexivity. Qed.
Lemma zdump_uri_shape s t : zdump_uri s = Ok t -> exists e, escape_uri s = Ok e /\ t = BQ :: e ++ [BQ].
Proof. unfold zdump_uri. destruct (escape_uri s) as [e|x]; cbn [bind]; intro Q; inversion Q. eexists; split; reflexivity. Qed.

(* a string cell: written by the dumper's ladder, read back by the whole scalar alternation, whatever follows *)
Lemma str_scalar_roundtrip f g p v3 s t rest :
  zdump (S f) p (VStr s) = Ok t -> p_scalar (S g) v3 (t ++ rest) = Some (Ok (VStr s), rest).
Proof.
  cbn [zdump]. intro H. destruct (zdump_str_shape s t H) as [e [He Ht]]. subst t.
  cbn [List.app]. rewrite <- app_assoc. cbn [List.app]. apply scalar_str. exact He.
Qed.
Lemma uri_scalar_roundtrip f g p v3 s t rest :
  zdump (S f) p (VUri s) = Ok t -> p_scalar (S g) v3 (t ++ rest) = Some (Ok (VUri s), rest).
Proof.
  cbn [zdump]. intro H. destruct (zdump_uri_shape s t H) as [e [He Ht]]. subst t.
  cbn [List.app]. rewrite <- app_assoc. cbn [List.app]. apply scalar_uri. exact He.
Qed.

(* non-finite numbers *)
Lemma zdump_nonfinite f p zt jt :
  zdump (S f) p (VNum NkInf zt jt None) = Ok (s_ "INF") /\
  zdump (S f) p (VNum NkNegInf zt jt None) = Ok (s_ "-INF") /\
  zdump (S f) p (VNum NkNaN zt jt None) = Ok (s_ "NaN").
Proof. repeat split; reflexivity. Qed.

(* the document starts with the version header *)
Lemma join_cons_cons sep (a b : str) l : join sep (a :: b :: l) = a ++ sep ++ join sep (b :: l).
Proof. reflexivity. Qed.
Lemma zdump_grid_header f ver meta cols rows t :
  zdump_grid (S f) ver meta cols rows = Ok t ->
  exists e rest, escape_str ver = Ok e /\ t = s_ "ver:" ++ DQ :: e ++ DQ :: rest.
Proof.
  cbn [zdump_grid]. destruct (pre3_of ver) as [p3|x]; cbn [bind]; [|discriminate].
  destruct (zdump_str ver) as [vt|x] eqn:Ev; cbn [bind]; [|discriminate].
  destruct (zdump_str_shape ver vt Ev) as [e [He Hvt]]. subst vt.
  match goal with |- (do header <- ?h; _) = _ -> _ => destruct h as [header|x] eqn:Eh end; cbn [bind]; [|discriminate].
  destruct cols as [|c cols']; [discriminate|].
  match goal with |- (do cs <- ?h; _) = _ -> _ => destruct h as [cs|x] end; cbn [bind]; [|discriminate].
  match goal with |- (do rs <- ?h; _) = _ -> _ => destruct h as [rs|x] end; cbn [bind]; [|discriminate].
  intro Q; inversion Q; subst t. clear Q.
  match goal with |- context [_ ++ 10 :: ?x] => generalize x; intro X end.
  destruct meta as [|m meta'].
  - inversion Eh; subst header. exists e. eexists. split; [exact He|].
    rewrite <- ?app_assoc. cbn [List.app]. rewrite <- ?app_assoc. cbn [List.app]. reflexivity.
  - match type of Eh with (do mt <- ?h; _) = _ => destruct h as [mt|x] end; cbn [bind] in Eh; [|discriminate].
    inversion Eh; subst header. exists e. eexists. split; [exact He|].
    rewrite <- ?app_assoc. cbn [List.app]. rewrite <- ?app_assoc. cbn [List.app]. rewrite <- ?app_assoc. cbn [List.app]. reflexivity.
Qed.

(* ---- no character below U+0020 ---- *)
Definition clean (t : str) : Prop := Forall (fun c => 32 <= c) t.
Lemma clean_app a b : clean a -> clean b -> clean (a ++ b).
Proof. intros. apply Forall_app. split; assumption. Qed.
Lemma clean_cons c t : 32 <= c -> clean t -> clean (c :: t).
Proof. intros. constructor; assumption. Qed.
Lemma clean_const s : forallb (fun c => 32 <=? c) s = true -> clean s.
Proof. intro H. apply Forall_forall. intros c Hc. rewrite forallb_forall in H. apply N.leb_le. exact (H c Hc). Qed.
Lemma clean_join sep l : clean sep -> Forall clean l -> clean (join sep l).
Proof.
  intros Hs. induction 1 as [|x l Hx Hl IH]; cbn [join]; [constructor|].
  destruct l as [|y l']; [exact Hx|]. apply clean_app; [exact Hx|]. apply clean_app; [exact Hs|exact IH].
Qed.
Lemma clean_str s t : zdump_str s = Ok t -> clean t.
Proof.
  unfold zdump_str. destruct (escape_str s) as [e|x] eqn:E; cbn [bind]; intro Q; inversion Q; subst.
  apply clean_cons; [unfold DQ; lia|]. apply clean_app; [|apply clean_cons; [unfold DQ; lia|constructor]].
  apply Forall_forall. exact (all_ge32 DQ str_esc_letters false esc_str_char dq_ne dq_32 every_char_str s e E).
Qed.
Lemma clean_uri s t : zdump_uri s = Ok t -> clean t.
Proof.
  unfold zdump_uri. destruct (escape_uri s) as [e|x] eqn:E; cbn [bind]; intro Q; inversion Q; subst.
  apply clean_cons; [unfold BQ; lia|]. apply clean_app; [|apply clean_cons; [unfold BQ; lia|constructor]].
  apply Forall_forall. exact (all_ge32 BQ uri_esc_letters true esc_uri_char bq_ne bq_32 every_char_uri s e E).
Qed.
Lemma ge32_48 k : 32 <= 48 + k. Proof. lia. Qed.
Ltac cl := unfold clean; repeat (apply Forall_cons; [cbv beta; first [apply ge32_48 | lia]|]); apply Forall_nil.
Lemma clean_d2 n : clean (d2 n). Proof. unfold d2. cl. Qed.
Lemma clean_d4 n : clean (d4 n). Proof. unfold d4. cl. Qed.
Lemma clean_d6 n : clean (d6 n). Proof. unfold d6. cl. Qed.
Lemma clean_iso_date y m d : clean (iso_date y m d).
Proof. unfold iso_date. repeat apply clean_app; try apply clean_d2; try apply clean_d4; cl. Qed.
Lemma clean_iso_time h mi s us : clean (iso_time h mi s us).
Proof.
  unfold iso_time. repeat apply clean_app; try apply clean_d2; try cl.
  destruct (us =? 0); [constructor|apply clean_cons; [lia|apply clean_d6]].
Qed.
Lemma clean_iso_offset off : clean (iso_offset off).
Proof.
  unfold iso_offset. repeat apply clean_app; try apply clean_d2; try cl.
  - destruct (off <? 0)%Z; cl.
  - destruct (_ =? 0); [constructor|apply clean_cons; [lia|apply clean_d2]].
Qed.
Lemma clean_iso_datetime y m d h mi s us off : clean (iso_datetime y m d h mi s us off).
Proof.
  unfold iso_datetime. apply clean_app; [apply clean_iso_date|]. apply clean_app; [cl|]. apply clean_app; [apply clean_iso_time|apply clean_iso_offset].
Qed.

(* ---- res_map ---- *)
Lemma res_map_ok {A B} (f : A -> res B) : forall l r, res_map f l = Ok r -> Forall2 (fun x y => f x = Ok y) l r.
Proof.
  induction l as [|x l IH]; intros r; cbn [res_map]; [intro Q; inversion Q; constructor|].
  destruct (f x) as [y|e] eqn:Ef; cbn [bind]; [|discriminate].
  destruct (res_map f l) as [r'|e]; cbn [bind]; [|discriminate]. intro Q; inversion Q; subst. constructor; [exact Ef|apply IH; reflexivity].
Qed.
Lemma Forall2_length {A B} (R : A -> B -> Prop) l r : Forall2 R l r -> length r = length l.
Proof. induction 1; cbn [length]; congruence. Qed.

(* ---- values whose text tokens hold no control character (the writer copies them verbatim) ---- *)
Fixpoint wfv (fuel : nat) (v : hval) : Prop :=
  match fuel with
  | O => False
  | S f =>
      match v with
      | VNum _ z _ u => clean z /\ match u with Some x => clean x | None => True end
      | VBin s => clean s
      | VRef n _ => clean n
      | VXStr en _ => clean en
      | VCoord a b => clean a /\ clean b
      | VDateTime _ _ _ _ _ _ _ _ z => match z with ZName n => clean n | ZError _ => True end
      | VList l => Forall (wfv f) l
      | VDict d => Forall (fun kv => clean (fst kv) /\ wfv f (snd kv)) (dict_of d)
      | VGrid _ _ _ _ => False
      | _ => True
      end
  end.

Lemma clean_znum k z : clean z -> clean (znum_text k z).
Proof. intro H. destruct k; cbn [znum_text]; try exact H; apply clean_const; reflexivity. Qed.

Lemma ok_inj {A} (a b : A) : Ok a = Ok b -> a = b. Proof. congruence. Qed.

Lemma zdump_clean : forall f p v t, wfv f v -> zdump f p v = Ok t -> clean t.
Proof.
  induction f as [|f IH]; intros p v t; cbn [wfv zdump]; [tauto|].
  destruct v as [| | | |b|k z j u|s|s|s|n d|en tx|y m d|h mi s us|y m d h mi s us off zn|iso zn|la lo|l|d|ver meta cols rows]; intro W.
  - intro Q; apply ok_inj in Q; subst t; cl.
  - intro Q; apply ok_inj in Q; subst t; cl.
  - destruct p; [discriminate|]. intro Q; apply ok_inj in Q; subst t; cl.
  - intro Q; apply ok_inj in Q; subst t; cl.
  - intro Q; apply ok_inj in Q; subst t; destruct b; cl.
  - destruct W as [Wz Wu]. destruct u as [[|c u']|]; intro Q; apply ok_inj in Q; subst t; try (apply clean_znum; exact Wz).
    apply clean_app; [apply clean_znum; exact Wz|exact Wu].
  - apply clean_str.
  - apply clean_uri.
  - intro Q; apply ok_inj in Q; subst t. apply clean_app; [apply clean_const; reflexivity|]. apply clean_app; [exact W|cl].
  - destruct d as [d|]; [|intro Q; apply ok_inj in Q; subst t; apply clean_cons; [lia|exact W]].
    destruct (zdump_str d) as [dt|e] eqn:Ed; cbn [bind]; [|discriminate]. intro Q; apply ok_inj in Q; subst t.
    apply clean_cons; [lia|]. apply clean_app; [exact W|]. apply clean_cons; [lia|]. eapply clean_str; eauto.
  - destruct p; [discriminate|]. destruct (zdump_str tx) as [dt|e] eqn:Ed; cbn [bind]; [|discriminate]. intro Q; apply ok_inj in Q; subst t.
    apply clean_app; [exact W|]. apply clean_cons; [lia|]. apply clean_app; [eapply clean_str; eauto|cl].
  - intro Q; apply ok_inj in Q; subst t. apply clean_iso_date.
  - intro Q; apply ok_inj in Q; subst t. apply clean_iso_time.
  - destruct zn as [n|e]; [|discriminate]. intro Q; apply ok_inj in Q; subst t. apply clean_app; [apply clean_iso_datetime|]. apply clean_cons; [lia|exact W].
  - discriminate.
  - destruct W as [Wa Wb]. intro Q; apply ok_inj in Q; subst t. apply clean_app; [apply clean_const; reflexivity|]. apply clean_app; [exact Wa|].
    apply clean_cons; [lia|]. apply clean_app; [exact Wb|cl].
  - destruct p; [discriminate|]. destruct (res_map (zdump f false) l) as [items|e] eqn:Er; cbn [bind]; [|discriminate]. intro Q; apply ok_inj in Q; subst t.
    apply clean_cons; [lia|]. apply clean_app; [|cl]. apply clean_join; [cl|].
    apply res_map_ok in Er. clear -Er W IH. induction Er as [|x y l r Hxy Hl IHl]; [constructor|]. inversion W; subst.
    constructor; [eapply IH; eauto|apply IHl; assumption].
  - destruct p; [discriminate|].
    match goal with |- (do items <- ?m; _) = _ -> _ => destruct m as [items|e] eqn:Er end; cbn [bind]; [|discriminate]. intro Q; apply ok_inj in Q; subst t.
    apply clean_cons; [lia|]. apply clean_app; [|cl]. apply clean_join; [cl|].
    apply res_map_ok in Er. clear -Er W IH. induction Er as [|x y l r Hxy Hl IHl]; [constructor|]. inversion W; subst.
    constructor; [|apply IHl; assumption].
    destruct (zdump f false (snd x)) as [tv|e] eqn:Ev; cbn [bind] in Hxy; [|discriminate]. apply ok_inj in Hxy; subst y.
    destruct H1 as [Hk Hv]. apply clean_app; [exact Hk|]. apply clean_cons; [lia|]. eapply IH; eauto.
  - destruct W.
Qed.

(* ---- the layout of a dumped grid ---- *)
Definition wf_tags (f : nat) (m : list (str * hval)) : Prop := Forall (fun kv => clean (fst kv) /\ wfv f (snd kv)) m.
Definition cell_of (c : str * list (str * hval)) (row : list (str * hval)) : hval :=
  match assoc (fst c) row with Some x => x | None => VNull end.

Lemma dump_meta_clean f p3 (m : list (str * hval)) mt :
  wf_tags f m ->
  (do items <- res_map (fun kv : str * hval => match snd kv with
                                  | VMarker => Ok (fst kv)
                                  | x => do t <- zdump f p3 x; Ok (fst kv ++ 58 :: t)
                                  end) m;
   Ok (join [32] items)) = Ok mt -> clean mt.
Proof.
  intros W. match goal with |- (do items <- ?r; _) = _ -> _ => destruct r as [items|e] eqn:Er end; cbn [bind]; [|discriminate].
  intro Q; apply ok_inj in Q; subst mt. apply clean_join; [cl|].
  apply res_map_ok in Er. induction Er as [|x y l r Hxy Hl IHl]; [constructor|]. inversion W; subst. destruct H1 as [Hk Hv].
  constructor; [|apply IHl; assumption].
  assert (G : forall v, v = snd x -> (do t <- zdump f p3 v; Ok (fst x ++ 58 :: t)) = Ok y -> clean y).
  { intros v Ev. subst v. destruct (zdump f p3 (snd x)) as [tv|e] eqn:Ev; cbn [bind]; [|discriminate].
    intro Q; apply ok_inj in Q; subst y. apply clean_app; [exact Hk|]. apply clean_cons; [lia|]. eapply zdump_clean; eauto. }
  destruct (snd x) eqn:Es; try (apply (G _ eq_refl); exact Hxy).
  apply ok_inj in Hxy. subst y. exact Hk.
Qed.

Theorem zdump_grid_layout f ver meta cols rows t :
  zdump_grid (S f) ver meta cols rows = Ok t ->
  wf_tags f meta ->
  Forall (fun c => clean (fst c) /\ wf_tags f (snd c)) cols ->
  Forall (fun row => Forall (fun c => wfv f (cell_of c row)) cols) rows ->
  exists header colline rowlines,
    t = join NL1 ([header; colline] ++ rowlines ++ [[]]) /\
    clean header /\ clean colline /\
    Forall2 (fun row line => exists cells, line = join [44] cells /\ length cells = length cols /\ Forall clean cells) rows rowlines.
Proof.
  intros H Wm Wc Wr. cbn [zdump_grid] in H.
  destruct (pre3_of ver) as [p3|e]; cbn [bind] in H; [|discriminate].
  destruct (zdump_str ver) as [vt|e] eqn:Ev; cbn [bind] in H; [|discriminate].
  match type of H with (do header <- ?h; _) = _ => destruct h as [header|e] eqn:Eh end; cbn [bind] in H; [|discriminate].
  destruct cols as [|c0 cols0] eqn:Ecols; [discriminate|]. rewrite <- Ecols in *.
  match type of H with (do cs <- ?h; _) = _ => destruct h as [cs|e] eqn:Ecs end; cbn [bind] in H; [|discriminate].
  match type of H with (do rs <- ?h; _) = _ => destruct h as [rs|e] eqn:Ers end; cbn [bind] in H; [|discriminate].
  apply ok_inj in H. subst t. exists header, (join [44] cs), rs. split; [reflexivity|].
  assert (Hvt : clean vt) by (eapply clean_str; eauto).
  split; [|split].
  - (* header *)
    destruct meta as [|m0 meta0] eqn:Em.
    + apply ok_inj in Eh. subst header. apply clean_app; [apply clean_const; reflexivity|exact Hvt].
    + rewrite <- Em in *. match type of Eh with (do mt <- ?h; _) = _ => destruct h as [mt|e] eqn:Emt end; cbn [bind] in Eh; [|discriminate].
      apply ok_inj in Eh. subst header. apply clean_app; [apply clean_const; reflexivity|]. apply clean_app; [exact Hvt|].
      apply clean_cons; [lia|]. eapply dump_meta_clean; eauto.
  - (* column line *)
    apply clean_join; [cl|]. apply res_map_ok in Ecs. clear -Ecs Wc.
    induction Ecs as [|x y l r Hxy Hl IHl]; [constructor|]. inversion Wc; subst. destruct H1 as [Hk Hm].
    constructor; [|apply IHl; assumption].
    destruct (snd x) as [|m0 ms] eqn:Es.
    + apply ok_inj in Hxy. subst y. exact Hk.
    + rewrite <- Es in *. match type of Hxy with (do mt <- ?h; _) = _ => destruct h as [mt|e] eqn:Emt end; cbn [bind] in Hxy; [|discriminate].
      apply ok_inj in Hxy. subst y. apply clean_app; [exact Hk|]. apply clean_cons; [lia|]. eapply dump_meta_clean; eauto.
  - (* one line per row, every cell present *)
    apply res_map_ok in Ers. clear -Ers Wr.
    induction Ers as [|row line l r Hrl Hl IHl]; [constructor|]. inversion Wr; subst.
    constructor; [|apply IHl; assumption].
    match type of Hrl with (do cells <- ?h; _) = _ => destruct h as [cells|e] eqn:Ece end; cbn [bind] in Hrl; [|discriminate].
    apply ok_inj in Hrl. subst line. exists cells. split; [reflexivity|]. apply res_map_ok in Ece.
    split; [eapply Forall2_length; eauto|].
    clear -Ece H1. induction Ece as [|c y cs ys Hcy Hcs IH]; [constructor|]. inversion H1; subst.
    constructor; [|apply IH; assumption]. eapply zdump_clean; [|exact Hcy]. exact H2.
Qed.
