(* Proofs about Model/SortableDict.v (property C16): invariant, refinement
   of the code model `step` to the reference ordered map `om_step`, and
   "a rejected operation changes nothing". *)
From Coq Require Import Lia.
From HS Require Import Base.Prelude Model.SortableDict Proofs.PreludeP.
Open Scope Z_scope.

Ltac str_cases :=
  repeat match goal with
         | |- context [str_eqb ?a ?b] => destruct (str_eqb_spec a b); subst
         | H : context [str_eqb ?a ?b] |- _ => destruct (str_eqb_spec a b); subst
         end.

(* ------------------------------------------------------------------ *)
(* association lists as finite maps *)

Lemma has_key_in k m : has_key k m = true <-> In k (map fst m).
Proof.
  unfold has_key. induction m as [|[y w] m IH]; simpl.
  - split; [discriminate | tauto].
  - destruct (str_eqb_spec y k); subst.
    + split; auto.
    + rewrite IH. split; [auto | intros [E|H]; [contradiction | auto]].
Qed.

Lemma has_key_false k m : has_key k m = false <-> ~ In k (map fst m).
Proof.
  rewrite <- has_key_in. destruct (has_key k m); split; intro H; try congruence; auto.
Qed.

Lemma lookup_none k m : lookup k m = None <-> ~ In k (map fst m).
Proof.
  rewrite <- has_key_false. unfold has_key. destruct (lookup k m); split; intro; congruence.
Qed.

Lemma lookup_set_same k v m : lookup k (set_assoc k v m) = Some v.
Proof.
  induction m as [|[y w] m IH]; simpl.
  - now rewrite str_eqb_refl.
  - destruct (str_eqb_spec y k); subst; simpl.
    + now rewrite str_eqb_refl.
    + destruct (str_eqb_spec y k); [contradiction | exact IH].
Qed.

Lemma lookup_set_other k k' v m : k <> k' -> lookup k' (set_assoc k v m) = lookup k' m.
Proof.
  intros Hne. induction m as [|[y w] m IH]; simpl.
  - destruct (str_eqb_spec k k'); [contradiction | reflexivity].
  - destruct (str_eqb_spec y k); subst; simpl.
    + destruct (str_eqb_spec k k'); [contradiction | reflexivity].
    + destruct (str_eqb_spec y k'); auto.
Qed.

Lemma lookup_del_other k k' m : k <> k' -> lookup k' (del_assoc k m) = lookup k' m.
Proof.
  intros Hne. induction m as [|[y w] m IH]; simpl; auto.
  destruct (str_eqb_spec y k); subst; simpl.
  - destruct (str_eqb_spec k k'); [contradiction | reflexivity].
  - destruct (str_eqb_spec y k'); auto.
Qed.

Lemma lookup_del_same k m : NoDup (map fst m) -> lookup k (del_assoc k m) = None.
Proof.
  induction m as [|[y w] m IH]; simpl; auto. intros Hnd. inversion Hnd; subst.
  destruct (str_eqb_spec y k); subst; simpl.
  - now apply lookup_none.
  - destruct (str_eqb_spec y k); [contradiction | auto].
Qed.

Lemma keys_set k v m :
  map fst (set_assoc k v m) = if has_key k m then map fst m else map fst m ++ [k].
Proof.
  unfold has_key. induction m as [|[y w] m IH]; simpl; auto.
  destruct (str_eqb_spec y k); subst; simpl; auto.
  rewrite IH. destruct (lookup k m); reflexivity.
Qed.

Lemma keys_del k m : map fst (del_assoc k m) = remove_first k (map fst m).
Proof.
  induction m as [|[y w] m IH]; simpl; auto.
  destruct (str_eqb_spec y k); subst; simpl; auto. now rewrite IH.
Qed.

(* ------------------------------------------------------------------ *)
(* key lists *)

Lemma in_remove_first x k l : NoDup l -> (In x (remove_first k l) <-> In x l /\ x <> k).
Proof.
  induction l as [|y l IH]; simpl; intros Hnd.
  - tauto.
  - inversion Hnd; subst. destruct (str_eqb_spec y k); subst.
    + split.
      * intros Hx. split; auto. intro; subst. contradiction.
      * intros [[E|Hx] Hne]; [congruence | auto].
    + simpl. rewrite IH by assumption. split.
      * intros [E|[Hx Hne]]; subst; auto.
      * intros [[E|Hx] Hne]; subst; auto.
Qed.

Lemma remove_first_notin k l : ~ In k l -> remove_first k l = l.
Proof.
  induction l as [|y l IH]; simpl; auto. intros H.
  destruct (str_eqb_spec y k); subst; [exfalso; auto | f_equal; auto].
Qed.

Lemma NoDup_remove_first k l : NoDup l -> NoDup (remove_first k l).
Proof.
  induction l as [|y l IH]; simpl; intros Hnd; auto.
  inversion Hnd; subst. destruct (str_eqb_spec y k); subst; auto.
  constructor; auto. rewrite in_remove_first by assumption. tauto.
Qed.

Lemma in_insert_nat n x l y : In y (insert_nat n x l) <-> y = x \/ In y l.
Proof.
  revert l; induction n as [|n IH]; intros [|z l]; simpl; try tauto; try (intuition; fail).
  rewrite IH. intuition.
Qed.

Lemma NoDup_insert_nat n x l : NoDup l -> ~ In x l -> NoDup (insert_nat n x l).
Proof.
  revert l; induction n as [|n IH]; intros [|z l] Hnd Hx; simpl.
  - constructor; auto.
  - constructor; auto.
  - constructor; auto.
  - inversion Hnd; subst. constructor.
    + rewrite in_insert_nat. simpl in Hx. intros [E|H]; subst; auto.
    + apply IH; auto. simpl in Hx. tauto.
Qed.

Lemma index_of_some k l : In k l -> exists n, index_of k l = Some n /\ (n < length l)%nat.
Proof.
  induction l as [|y l IH]; simpl; [tauto|]. intros H.
  destruct (str_eqb_spec y k) as [E|E]; subst.
  - exists O. split; auto. lia.
  - destruct H as [E'|H]; [contradiction|]. destruct (IH H) as [n [Hn Hl]].
    exists (S n). rewrite Hn. split; auto. lia.
Qed.

Lemma index_of_none k l : index_of k l = None <-> ~ In k l.
Proof.
  induction l as [|y l IH]; simpl; [tauto|].
  destruct (str_eqb_spec y k) as [E|E]; subst.
  - split; [discriminate | intros H; exfalso; auto].
  - destruct (index_of k l) as [n|]; split; intro H; try discriminate.
    + exfalso. assert (Hn : ~ In k l) by tauto. apply IH in Hn. discriminate.
    + tauto.
    + reflexivity.
Qed.

(* ------------------------------------------------------------------ *)
(* the invariant and the abstraction `items` *)

Definition Inv (s : sd) : Prop :=
  NoDup (order s) /\ NoDup (map fst (vals s)) /\
  forall k, In k (order s) <-> In k (map fst (vals s)).

Definition items_f (f : key -> option val) (l : list key) : list (key * val) :=
  flat_map (fun k => match f k with Some v => [(k, v)] | None => [] end) l.

Lemma items_is s : items s = items_f (fun k => lookup k (vals s)) (order s).
Proof. reflexivity. Qed.

Definition total_on (f : key -> option val) (l : list key) : Prop :=
  forall k, In k l -> f k <> None.

Lemma items_f_ext f g l : (forall k, In k l -> f k = g k) -> items_f f l = items_f g l.
Proof.
  induction l as [|y l IH]; simpl; intros H; auto.
  rewrite (H y) by auto. f_equal. apply IH. intros; apply H; auto.
Qed.

Lemma items_f_keys f l : total_on f l -> map fst (items_f f l) = l.
Proof.
  induction l as [|y l IH]; simpl; intros H; auto.
  destruct (f y) eqn:E; [|exfalso; apply (H y); simpl; auto].
  simpl. f_equal. apply IH. intros k Hk. apply H; simpl; auto.
Qed.

Lemma items_f_length f l : total_on f l -> length (items_f f l) = length l.
Proof. intros H. rewrite <- (items_f_keys f l H) at 2. now rewrite map_length. Qed.

Lemma inv_total s : Inv s -> total_on (fun k => lookup k (vals s)) (order s).
Proof.
  intros [_ [_ H]] k Hk E. apply lookup_none in E. apply E, H, Hk.
Qed.

Lemma items_keys s : Inv s -> map fst (items s) = order s.
Proof. intros H. rewrite items_is. apply items_f_keys, inv_total, H. Qed.

Lemma lookup_items_f f l k : lookup k (items_f f l) = if existsb (str_eqb k) l then f k else None.
Proof.
  induction l as [|y l IH]; simpl; auto.
  destruct (f y) eqn:E; simpl.
  - rewrite (str_eqb_sym k y). destruct (str_eqb_spec y k); subst; simpl; auto.
  - rewrite (str_eqb_sym k y). destruct (str_eqb_spec y k); subst; simpl; auto.
    rewrite IH. destruct (existsb (str_eqb k) l); congruence.
Qed.

Lemma existsb_in k l : existsb (str_eqb k) l = true <-> In k l.
Proof.
  rewrite existsb_exists. split.
  - intros [x [Hx E]]. apply str_eqb_eq in E. now subst.
  - intros H. exists k. split; auto. apply str_eqb_refl.
Qed.

Lemma lookup_items s k : Inv s -> lookup k (items s) = lookup k (vals s).
Proof.
  intros [_ [_ H]]. rewrite items_is, lookup_items_f.
  destruct (existsb (str_eqb k) (order s)) eqn:E; auto.
  symmetry. apply lookup_none. intro Hin. apply H in Hin. apply existsb_in in Hin. congruence.
Qed.

Lemma has_key_items s k : Inv s -> has_key k (items s) = has_key k (vals s).
Proof. intros H. unfold has_key. now rewrite lookup_items. Qed.

Lemma has_key_order s k : Inv s -> (has_key k (vals s) = true <-> In k (order s)).
Proof. intros [_ [_ H]]. rewrite has_key_in. symmetry. apply H. Qed.

(* ------------------------------------------------------------------ *)
(* the reference map's primitives expressed through items_f *)

Lemma om_replace_items f g l k v :
  NoDup l -> total_on f l -> g k = Some v -> (forall x, x <> k -> g x = f x) ->
  items_f g l = om_replace k v (items_f f l).
Proof.
  intros Hnd Ht Hk Ho. induction l as [|y l IH]; simpl; auto.
  inversion Hnd; subst.
  destruct (f y) eqn:E; [|exfalso; apply (Ht y); simpl; auto].
  assert (Ht' : total_on f l) by (intros x Hx; apply Ht; simpl; auto).
  simpl. destruct (str_eqb_spec y k) as [Ey|Ey]; subst.
  - rewrite Hk. simpl. f_equal. apply items_f_ext. intros x Hx. apply Ho. intro; subst; contradiction.
  - rewrite (Ho y Ey), E. simpl. f_equal. apply IH; auto.
Qed.

Lemma om_remove_items f g l k :
  NoDup l -> total_on f l -> (forall x, x <> k -> g x = f x) ->
  items_f g (remove_first k l) = om_remove k (items_f f l).
Proof.
  intros Hnd Ht Ho. induction l as [|y l IH]; simpl; auto.
  inversion Hnd; subst.
  destruct (f y) eqn:E; [|exfalso; apply (Ht y); simpl; auto].
  assert (Ht' : total_on f l) by (intros x Hx; apply Ht; simpl; auto).
  simpl. destruct (str_eqb_spec y k) as [Ey|Ey]; subst.
  - apply items_f_ext. intros x Hx. apply Ho. intro; subst; contradiction.
  - simpl. rewrite (Ho y Ey), E. simpl. f_equal. apply IH; auto.
Qed.

Lemma om_remove_notin k m : ~ In k (map fst m) -> om_remove k m = m.
Proof.
  induction m as [|[y w] m IH]; simpl; auto. intros H.
  destruct (str_eqb_spec y k) as [Ey|Ey]; subst; [exfalso; auto | f_equal; auto].
Qed.

Lemma om_insert_items f g l k v n :
  total_on f l -> ~ In k l -> g k = Some v -> (forall x, x <> k -> g x = f x) ->
  items_f g (insert_nat n k l) = om_insert_nat n (k, v) (items_f f l).
Proof.
  intros Ht Hk Hg Ho. revert l Ht Hk. induction n as [|n IH]; intros [|y l] Ht Hk; simpl.
  - now rewrite Hg.
  - rewrite Hg. simpl. f_equal.
    assert (Ey : y <> k) by (intro; subst; apply Hk; simpl; auto).
    rewrite (Ho y Ey). f_equal. apply items_f_ext. intros x Hx. apply Ho. intro; subst. apply Hk; simpl; auto.
  - now rewrite Hg.
  - assert (Ey : y <> k) by (intro; subst; apply Hk; simpl; auto).
    rewrite (Ho y Ey).
    destruct (f y) eqn:E; [|exfalso; apply (Ht y); simpl; auto].
    simpl. f_equal. apply IH.
    + intros x Hx. apply Ht; simpl; auto.
    + intro; apply Hk; simpl; auto.
Qed.

Lemma items_f_app f l1 l2 : items_f f (l1 ++ l2) = items_f f l1 ++ items_f f l2.
Proof. unfold items_f. apply flat_map_app. Qed.

(* ------------------------------------------------------------------ *)
(* the four state updates the code performs, on states satisfying Inv *)

Lemma P_del s k :
  Inv s -> In k (order s) ->
  let s1 := mkSd (del_assoc k (vals s)) (remove_first k (order s)) in
  Inv s1 /\ items s1 = om_remove k (items s) /\ ~ In k (order s1).
Proof.
  intros HI Hk. pose proof HI as [Ho [Hv Hd]]. simpl. split; [|split].
  - unfold Inv; simpl. split; [now apply NoDup_remove_first|]. split.
    + rewrite keys_del. now apply NoDup_remove_first.
    + intros x. rewrite keys_del, !in_remove_first by assumption. now rewrite Hd.
  - rewrite !items_is. simpl. apply om_remove_items; auto.
    + now apply inv_total.
    + intros x Hx. apply lookup_del_other. congruence.
  - rewrite in_remove_first by assumption. tauto.
Qed.

Lemma P_set s k v :
  Inv s -> In k (order s) ->
  let s1 := mkSd (set_assoc k v (vals s)) (order s) in
  Inv s1 /\ items s1 = om_replace k v (items s).
Proof.
  intros HI Hk. pose proof HI as [Ho [Hv Hd]]. simpl.
  assert (Hh : has_key k (vals s) = true) by (apply has_key_in, Hd, Hk).
  split.
  - unfold Inv; simpl. rewrite keys_set, Hh. auto.
  - rewrite !items_is. simpl. apply om_replace_items; auto.
    + now apply inv_total.
    + apply lookup_set_same.
    + intros x Hx. apply lookup_set_other. congruence.
Qed.

Lemma NoDup_app_intro_single {A} (l : list A) (k : A) : NoDup l -> ~ In k l -> NoDup (l ++ [k]).
Proof.
  induction l as [|y l IH]; simpl; intros Hnd Hk.
  - constructor; auto.
  - inversion Hnd; subst. constructor.
    + rewrite in_app_iff. simpl. intros [H|[H|[]]]; subst; auto.
    + apply IH; auto.
Qed.

Lemma P_insert s k v n :
  Inv s -> ~ In k (order s) ->
  let s1 := mkSd (set_assoc k v (vals s)) (insert_nat n k (order s)) in
  Inv s1 /\ items s1 = om_insert_nat n (k, v) (items s).
Proof.
  intros HI Hk. pose proof HI as [Ho [Hv Hd]]. simpl.
  assert (Hh : has_key k (vals s) = false) by (apply has_key_false; rewrite <- Hd; exact Hk).
  split.
  - unfold Inv; simpl. rewrite keys_set, Hh. split; [now apply NoDup_insert_nat|]. split.
    + apply NoDup_app_intro_single; auto. now rewrite <- Hd.
    + intros x. rewrite in_insert_nat, in_app_iff, Hd. simpl. intuition.
  - rewrite !items_is. simpl. apply om_insert_items; auto.
    + now apply inv_total.
    + apply lookup_set_same.
    + intros x Hx. apply lookup_set_other. congruence.
Qed.

Lemma P_append s k v :
  Inv s -> ~ In k (order s) ->
  let s1 := mkSd (set_assoc k v (vals s)) (order s ++ [k]) in
  Inv s1 /\ items s1 = items s ++ [(k, v)].
Proof.
  intros HI Hk. pose proof HI as [Ho [Hv Hd]]. simpl.
  assert (Hh : has_key k (vals s) = false) by (apply has_key_false; rewrite <- Hd; exact Hk).
  split.
  - unfold Inv; simpl. rewrite keys_set, Hh. split; [now apply NoDup_app_intro_single|]. split.
    + apply NoDup_app_intro_single; auto. now rewrite <- Hd.
    + intros x. rewrite !in_app_iff, Hd. tauto.
  - rewrite !items_is. simpl. rewrite items_f_app. f_equal.
    + apply items_f_ext. intros x Hx. apply lookup_set_other. intro; subst; contradiction.
    + simpl. now rewrite lookup_set_same.
Qed.

(* ------------------------------------------------------------------ *)
(* positions: the index arithmetic of add_item against the index-free spec *)

Lemma py_insert_pos_in i len : 0 <= i <= Z.of_nat len -> py_insert_pos i len = Z.to_nat i.
Proof.
  intros H. unfold py_insert_pos.
  destruct (i <? 0) eqn:E1; [lia|]. destruct (i <? 0) eqn:E2; [lia|].
  destruct (Z.of_nat len <? i) eqn:E3; [lia | reflexivity].
Qed.

(* index of K once k has been removed *)
Lemma index_after_remove k K l cur iK :
  NoDup l -> k <> K -> index_of k l = Some cur -> index_of K l = Some iK ->
  index_of K (remove_first k l) = Some (if (cur <? iK)%nat then (iK - 1)%nat else iK).
Proof.
  revert cur iK. induction l as [|y l IH]; simpl; intros cur iK Hnd Hne Hk HK; [discriminate|].
  inversion Hnd; subst.
  destruct (str_eqb_spec y k) as [Ey|Ey]; destruct (str_eqb_spec y K) as [EK|EK]; subst; try contradiction.
  - (* y = k *)
    inversion Hk; subst. destruct (index_of K l) as [n|] eqn:E; [|discriminate].
    inversion HK; subst. simpl. f_equal. lia.
  - (* y = K *)
    inversion HK; subst. destruct (index_of k l) as [n|]; [|discriminate]. inversion Hk; subst.
    simpl. destruct (str_eqb_spec K K); [|contradiction]. reflexivity.
  - destruct (index_of k l) as [n|] eqn:E1; [|discriminate].
    destruct (index_of K l) as [m|] eqn:E2; [|discriminate].
    inversion Hk; inversion HK; subst. simpl.
    destruct (str_eqb_spec y K); [contradiction|].
    rewrite (IH n m); auto.
    destruct (Nat.ltb_spec n m); destruct (Nat.ltb_spec (S n) (S m));
      try (exfalso; lia); f_equal; lia.
Qed.

(* inserting at the index of K is inserting immediately before K, one further is after *)
Lemma om_insert_at_index K x m n :
  index_of K (map fst m) = Some n ->
  om_insert_nat n x m = om_ins_before K x m /\ om_insert_nat (S n) x m = om_ins_after K x m.
Proof.
  revert n. induction m as [|[y w] m IH]; simpl; intros n H; [discriminate|].
  destruct (str_eqb_spec y K) as [EK|EK]; subst.
  - inversion H; subst. simpl. destruct m; auto.
  - destruct (index_of K (map fst m)) as [n'|] eqn:E; [|discriminate].
    inversion H; subst. destruct (IH n' eq_refl) as [H1 H2]. simpl. rewrite H1. split; auto.
    f_equal. exact H2.
Qed.

(* a key re-inserted at its own index takes its old place *)
Lemma om_reinsert_same k v m n :
  NoDup (map fst m) -> index_of k (map fst m) = Some n ->
  om_insert_nat n (k, v) (om_remove k m) = om_replace k v m.
Proof.
  revert n. induction m as [|[y w] m IH]; simpl; intros n Hnd H; [discriminate|].
  inversion Hnd; subst.
  destruct (str_eqb_spec y k) as [Ek|Ek]; subst.
  - inversion H; subst. reflexivity.
  - destruct (index_of k (map fst m)) as [n'|] eqn:E; [|discriminate].
    inversion H; subst. simpl. f_equal. apply IH; auto.
Qed.

Lemma om_replace_notin k v m : ~ In k (map fst m) -> om_replace k v m = m.
Proof.
  induction m as [|[y w] m IH]; simpl; auto. intros H.
  destruct (str_eqb_spec y k) as [Ey|Ey]; subst; [exfalso; auto | f_equal; auto].
Qed.

Lemma length_remove_first k l : In k l -> length (remove_first k l) = (length l - 1)%nat.
Proof.
  induction l as [|y l IH]; simpl; [tauto|]. intros H.
  destruct (str_eqb_spec y k) as [Ey|Ey]; subst; [lia|].
  destruct H as [E|H]; [contradiction|]. simpl. rewrite IH by assumption.
  destruct l; [inversion H | simpl; lia].
Qed.

Lemma index_of_inj l k K n : index_of k l = Some n -> index_of K l = Some n -> k = K.
Proof.
  revert n. induction l as [|y l IH]; simpl; intros n; [discriminate|].
  destruct (str_eqb_spec y k) as [E1|E1]; destruct (str_eqb_spec y K) as [E2|E2]; subst; auto.
  - destruct (index_of K l); intros H1 H2; congruence.
  - destruct (index_of k l); intros H1 H2; congruence.
  - destruct (index_of k l) as [a|], (index_of K l) as [b|]; try discriminate.
    intros H1 H2. inversion H1; inversion H2; subst. apply (IH a); auto; congruence.
Qed.

(* ------------------------------------------------------------------ *)
(* add_item refines om_add *)

Lemma inv_lengths s : Inv s -> length (items s) = length (order s).
Proof. intros H. rewrite items_is. apply items_f_length, inv_total, H. Qed.

Lemma om_has_items s k : Inv s -> om_has k (items s) = has_key k (vals s).
Proof. intros H. unfold om_has. now apply has_key_items. Qed.

Lemma not_in_order_items s k : Inv s -> ~ In k (order s) -> ~ In k (map fst (items s)).
Proof. intros H Hk. now rewrite items_keys. Qed.

Lemma add_item_refines s k v after index pos_key replace s' r :
  Inv s -> add_item s k v after index pos_key replace = (s', r) ->
  om_add (items s) k v after index pos_key replace = (items s', r) /\ Inv s'.
Proof.
  intros HI. unfold add_item, om_add.
  destruct (negb (validate v)) eqn:Eval.
  { intros H; inversion H; subst; auto. }
  destruct index as [i|], pos_key as [K|].
  { intros H; inversion H; subst; auto. }
  - (* numeric index *)
    rewrite (om_has_items s k HI).
    set (i2 := if after then i + 1 else i).
    replace (if after then Some (i + 1) else Some i) with (Some i2) by (unfold i2; destruct after; reflexivity).
    destruct (has_key k (vals s)) eqn:Ehk.
    + destruct replace; simpl.
      2:{ intros H; inversion H; subst; auto. }
      assert (Hk : In k (order s)) by (apply has_key_order; auto).
      unfold delitem. rewrite Ehk. simpl.
      destruct (P_del s k HI Hk) as [HI1 [Hit1 Hnk1]]. simpl in *.
      set (s1 := mkSd (del_assoc k (vals s)) (remove_first k (order s))) in *.
      intros H; inversion H; subst; clear H.
      destruct (P_insert s1 k v (py_insert_pos i2 (length (order s1))) HI1 Hnk1) as [HI2 Hit2].
      simpl in *. split; auto. unfold py_insert.
      rewrite Hit2, Hit1. rewrite <- Hit1, (inv_lengths s1 HI1). reflexivity.
    + simpl. assert (Hk : ~ In k (order s)).
      { intro Hin. apply (has_key_order s k HI) in Hin. congruence. }
      intros H; inversion H; subst; clear H.
      destruct (P_insert s k v (py_insert_pos i2 (length (order s))) HI Hk) as [HI2 Hit2].
      simpl in *. split; auto. unfold py_insert.
      rewrite Hit2, (om_remove_notin k (items s)) by (now apply not_in_order_items).
      now rewrite (inv_lengths s HI).
  - (* relative to key K *)
    rewrite (om_has_items s K HI), (om_has_items s k HI).
    destruct (index_of K (order s)) as [n|] eqn:EK.
    2:{ assert (HK : ~ In K (order s)) by (now apply index_of_none).
        assert (has_key K (vals s) = false) as ->.
        { apply has_key_false. destruct HI as [_ [_ Hd]]. now rewrite <- Hd. }
        simpl. intros H; inversion H; subst; auto. }
    assert (HK : In K (order s)).
    { destruct (index_of K (order s)) eqn:E; [|discriminate].
      apply Decidable.not_not; [|intro Hn; apply index_of_none in Hn; congruence].
      unfold Decidable.decidable. destruct (existsb (str_eqb K) (order s)) eqn:Ex.
      - left. now apply existsb_in.
      - right. intro Hin. apply existsb_in in Hin. congruence. }
    assert (has_key K (vals s) = true) as -> by (now apply has_key_order).
    simpl negb. cbv iota.
    destruct (index_of_some K (order s) HK) as [n' [En' Hlen]]. rewrite EK in En'. inversion En'; subst n'.
    set (i2 := if after then Z.of_nat n + 1 else Z.of_nat n).
    replace (if after then Some (Z.of_nat n + 1) else Some (Z.of_nat n)) with (Some i2)
      by (unfold i2; destruct after; reflexivity).
    destruct (has_key k (vals s)) eqn:Ehk.
    + destruct replace; simpl.
      2:{ intros H; inversion H; subst; auto. }
      assert (Hk : In k (order s)) by (apply has_key_order; auto).
      destruct (index_of_some k (order s) Hk) as [c [Ec Hclen]]. rewrite Ec.
      unfold delitem. rewrite Ehk. simpl.
      destruct (P_del s k HI Hk) as [HI1 [Hit1 Hnk1]]. simpl in *.
      set (s1 := mkSd (del_assoc k (vals s)) (remove_first k (order s))) in *.
      assert (Hlen1 : length (order s1) = (length (order s) - 1)%nat).
      { unfold s1; simpl. now apply length_remove_first. }
      intros H; inversion H; subst; clear H.
      destruct (str_eqb_spec K k) as [EKk|EKk].
      * (* relative to itself *)
        subst K. rewrite EK in Ec. inversion Ec; subst c.
        assert (Hpos : py_insert_pos (if Z.of_nat n <? i2 then i2 - 1 else i2) (length (order s1)) = n).
        { unfold i2. destruct after.
          - destruct (Z.ltb_spec (Z.of_nat n) (Z.of_nat n + 1)); [|lia].
            rewrite py_insert_pos_in by lia. lia.
          - destruct (Z.ltb_spec (Z.of_nat n) (Z.of_nat n)); [lia|].
            rewrite py_insert_pos_in by lia. lia. }
        destruct (P_insert s1 k v n HI1 Hnk1) as [HI2 Hit2]. simpl in *.
        unfold py_insert. rewrite Hpos. split; auto.
        rewrite Hit2, Hit1. symmetry. f_equal. apply om_reinsert_same.
        -- rewrite (items_keys s HI). apply HI.
        -- now rewrite (items_keys s HI).
      * assert (Hne : k <> K) by congruence.
        pose proof (index_after_remove k K (order s) c n (proj1 HI) Hne Ec EK) as Hidx.
        set (j := if (c <? n)%nat then (n - 1)%nat else n) in *.
        assert (Hcn : c <> n).
        { intro Ecn. apply Hne. apply (index_of_inj (order s) k K c); [exact Ec | rewrite Ecn; exact EK]. }
        assert (Hpos : py_insert_pos (if Z.of_nat c <? i2 then i2 - 1 else i2) (length (order s1))
                       = if after then S j else j).
        { unfold i2, j. destruct after.
          - destruct (Z.ltb_spec (Z.of_nat c) (Z.of_nat n + 1)); destruct (Nat.ltb_spec c n);
              try lia; rewrite py_insert_pos_in by lia; lia.
          - destruct (Z.ltb_spec (Z.of_nat c) (Z.of_nat n)); destruct (Nat.ltb_spec c n);
              try lia; rewrite py_insert_pos_in by lia; lia. }
        destruct (P_insert s1 k v (if after then S j else j) HI1 Hnk1) as [HI2 Hit2]. simpl in *.
        unfold py_insert. rewrite Hpos. split; auto.
        rewrite Hit2, Hit1. rewrite <- Hit1.
        assert (Hidx' : index_of K (map fst (items s1)) = Some j) by (rewrite (items_keys s1 HI1); exact Hidx).
        destruct (om_insert_at_index K (k, v) (items s1) j Hidx') as [Hb Ha].
        destruct after; [rewrite Ha | rewrite Hb]; reflexivity.
    + simpl. assert (Hk : ~ In k (order s)).
      { intro Hin. apply (has_key_order s k HI) in Hin. congruence. }
      assert (HKk : K <> k) by (intro; subst; contradiction).
      destruct (str_eqb_spec K k) as [E|E]; [contradiction|].
      intros H; inversion H; subst; clear H.
      assert (Hpos : py_insert_pos i2 (length (order s)) = if after then S n else n).
      { unfold i2. destruct after; rewrite py_insert_pos_in by lia; lia. }
      destruct (P_insert s k v (if after then S n else n) HI Hk) as [HI2 Hit2]. simpl in *.
      unfold py_insert. rewrite Hpos. split; auto.
      rewrite Hit2, (om_remove_notin k (items s)) by (now apply not_in_order_items).
      assert (Hidx' : index_of K (map fst (items s)) = Some n) by (now rewrite (items_keys s HI)).
      destruct (om_insert_at_index K (k, v) (items s) n Hidx') as [Hb Ha].
      destruct after; [rewrite Ha | rewrite Hb]; reflexivity.
  - (* no position *)
    rewrite (om_has_items s k HI).
    destruct (has_key k (vals s)) eqn:Ehk.
    + destruct replace; simpl.
      2:{ intros H; inversion H; subst; auto. }
      assert (Hk : In k (order s)) by (apply has_key_order; auto).
      intros H; inversion H; subst; clear H.
      destruct (P_set s k v HI Hk) as [HI2 Hit2]. simpl in *. split; auto. now rewrite Hit2.
    + simpl. assert (Hk : ~ In k (order s)).
      { intro Hin. apply (has_key_order s k HI) in Hin. congruence. }
      intros H; inversion H; subst; clear H.
      destruct (P_append s k v HI Hk) as [HI2 Hit2]. simpl in *. split; auto. now rewrite Hit2.
Qed.

(* ------------------------------------------------------------------ *)
(* the remaining operations *)

Lemma delitem_refines s k s' r :
  Inv s -> delitem s k = (s', r) -> om_del (items s) k = (items s', r) /\ Inv s'.
Proof.
  intros HI. unfold delitem, om_del. rewrite (om_has_items s k HI).
  destruct (has_key k (vals s)) eqn:E; intros H; inversion H; subst; clear H; auto.
  assert (Hk : In k (order s)) by (now apply has_key_order).
  destruct (P_del s k HI Hk) as [H1 [H2 _]]. simpl in *. split; auto. now rewrite H2.
Qed.

Lemma delitem_ok s k : Inv s -> has_key k (vals s) = true ->
  Inv (fst (delitem s k)) /\ items (fst (delitem s k)) = om_remove k (items s).
Proof.
  intros HI E. unfold delitem. rewrite E. simpl.
  assert (Hk : In k (order s)) by (now apply has_key_order).
  destruct (P_del s k HI Hk) as [H1 [H2 _]]. auto.
Qed.

Lemma pop_refines s k :
  Inv s ->
  match lookup k (items s) with
  | Some v => pop s k = (fst (delitem s k), Ok v) /\ Inv (fst (delitem s k))
              /\ items (fst (delitem s k)) = om_remove k (items s)
  | None => pop s k = (s, Raise KeyError)
  end.
Proof.
  intros HI. rewrite (lookup_items s k HI). unfold pop, getitem.
  destruct (lookup k (vals s)) eqn:E; auto.
  assert (Hh : has_key k (vals s) = true) by (unfold has_key; now rewrite E).
  destruct (delitem_ok s k HI Hh). auto.
Qed.

Lemma in_insert_sorted x l y : In y (insert_sorted x l) <-> y = x \/ In y l.
Proof.
  induction l as [|z l IH]; simpl; [intuition|].
  destruct (str_compare x z); simpl; rewrite ?IH; intuition.
Qed.

Lemma in_sort_keys l y : In y (sort_keys l) <-> In y l.
Proof.
  induction l as [|z l IH]; simpl; [tauto|]. rewrite in_insert_sorted, IH. intuition.
Qed.

Lemma NoDup_insert_sorted x l : NoDup l -> ~ In x l -> NoDup (insert_sorted x l).
Proof.
  induction l as [|z l IH]; simpl; intros Hnd Hx.
  - constructor; auto.
  - inversion Hnd; subst. destruct (str_compare x z).
    + constructor; auto.
    + constructor; auto.
    + constructor.
      * rewrite in_insert_sorted. intros [E|H]; subst; auto.
      * apply IH; auto.
Qed.

Lemma NoDup_sort_keys l : NoDup l -> NoDup (sort_keys l).
Proof.
  induction l as [|z l IH]; simpl; intros Hnd; [constructor|].
  inversion Hnd; subst. apply NoDup_insert_sorted; auto. now rewrite in_sort_keys.
Qed.

Lemma reorder_refines s l' :
  Inv s -> NoDup l' -> (forall x, In x l' <-> In x (order s)) ->
  Inv (mkSd (vals s) l') /\
  items (mkSd (vals s) l') = items_f (fun k => lookup k (items s)) l'.
Proof.
  intros HI Hnd Hin. split.
  - destruct HI as [Ho [Hv Hd]]. unfold Inv; simpl. split; auto. split; auto.
    intros x. now rewrite Hin.
  - rewrite items_is. simpl. apply items_f_ext. intros x Hx. now rewrite (lookup_items s x HI).
Qed.

Lemma items_f_rev f l : items_f f (rev l) = rev (items_f f l).
Proof.
  induction l as [|y l IH]; simpl; auto.
  rewrite items_f_app, IH. simpl. rewrite app_nil_r.
  destruct (f y); simpl; [reflexivity | now rewrite app_nil_r].
Qed.

Lemma items_f_self s : Inv s -> items_f (fun k => lookup k (items s)) (order s) = items s.
Proof.
  intros HI. symmetry. rewrite items_is. apply items_f_ext. intros x Hx. symmetry. now apply lookup_items.
Qed.

Lemma popitem_refines s :
  Inv s ->
  match items s with
  | [] => popitem s = (s, Raise KeyError) /\ order s = []
  | (k, v) :: m' => exists s', popitem s = (s', Ok (k, v)) /\ Inv s' /\ items s' = m'
  end.
Proof.
  intros HI. pose proof (inv_total s HI) as Ht. unfold popitem.
  rewrite items_is. destruct (order s) as [|k l] eqn:Eo; simpl; auto.
  unfold getitem. destruct (lookup k (vals s)) as [v|] eqn:El.
  2:{ exfalso. apply (Ht k); [simpl; auto | exact El]. }
  simpl. assert (Hh : has_key k (vals s) = true) by (unfold has_key; now rewrite El).
  destruct (delitem_ok s k HI Hh) as [H1 H2].
  eexists. split; [reflexivity|]. split; auto.
  rewrite H2, items_is, Eo. simpl. rewrite El. simpl. now rewrite str_eqb_refl.
Qed.

Lemma clear_fuel_spec fuel s :
  Inv s -> (length (order s) < fuel)%nat ->
  Inv (clear_fuel fuel s) /\ items (clear_fuel fuel s) = [].
Proof.
  revert s. induction fuel as [|fuel IH]; intros s HI Hlen; [lia|].
  simpl. pose proof (popitem_refines s HI) as Hp.
  destruct (items s) as [|[k v] m'] eqn:Ei.
  - destruct Hp as [Hp Ho]. rewrite Hp. auto.
  - destruct Hp as [s' [Hp [HI' Hi']]]. rewrite Hp. apply IH; auto.
    rewrite <- (inv_lengths s' HI'), Hi'. rewrite <- (inv_lengths s HI), Ei in Hlen. simpl in Hlen. lia.
Qed.

Lemma store_all_refines (f : sd -> key -> val -> sd * res unit)
      (g : omap -> key -> val -> omap * res unit) :
  (forall s k v s' r, Inv s -> f s k v = (s', r) -> g (items s) k v = (items s', r) /\ Inv s') ->
  forall its s s' r, Inv s -> store_all f s its = (s', r) ->
  (fix go (m : omap) (its : list (key * val)) : omap * res unit :=
     match its with
     | [] => (m, Ok tt)
     | (k, v) :: its' =>
         match g m k v with
         | (m', Ok _) => go m' its'
         | (m', Raise e) => (m', Raise e)
         end
     end) (items s) its = (items s', r) /\ Inv s'.
Proof.
  intros Hfg. induction its as [|[k v] its IH]; intros s s' r HI; simpl.
  - intros H; inversion H; subst; auto.
  - destruct (f s k v) as [s1 r1] eqn:E1. destruct (Hfg s k v s1 r1 HI E1) as [Hg HI1].
    rewrite Hg. destruct r1 as [u|e].
    + intros H. apply IH; auto.
    + intros H; inversion H; subst; auto.
Qed.

Lemma step_refines s o s' r :
  Inv s -> step s o = (s', r) -> om_step (items s) o = (items s', r) /\ Inv s'.
Proof.
  intros HI. destruct o; simpl.
  - (* OSet *) unfold setitem. destruct (add_item s k v false None None true) as [s1 r1] eqn:E.
    destruct (add_item_refines _ _ _ _ _ _ _ _ _ HI E) as [H1 H2]. rewrite H1.
    destruct r1; simpl; intros H; inversion H; subst; auto.
  - (* OAdd *) destruct (add_item s k v after index pos_key replace) as [s1 r1] eqn:E.
    destruct (add_item_refines _ _ _ _ _ _ _ _ _ HI E) as [H1 H2]. rewrite H1.
    destruct r1; simpl; intros H; inversion H; subst; auto.
  - (* ODel *) destruct (delitem s k) as [s1 r1] eqn:E.
    destruct (delitem_refines _ _ _ _ HI E) as [H1 H2]. rewrite H1.
    destruct r1; simpl; intros H; inversion H; subst; auto.
  - (* OPop *) pose proof (pop_refines s k HI) as Hp.
    destruct (lookup k (items s)) as [v|].
    + destruct Hp as [Hp [H1 H2]]. rewrite Hp. simpl. intros H; inversion H; subst. now rewrite H2.
    + rewrite Hp. simpl. intros H; inversion H; subst; auto.
  - (* OPopAt *) unfold pop_at, om_nth. rewrite (items_keys s HI).
    destruct (py_nth i (order s)) as [k|].
    + pose proof (pop_refines s k HI) as Hp.
      destruct (lookup k (items s)) as [v|].
      * destruct Hp as [Hp [H1 H2]]. rewrite Hp. simpl. intros H; inversion H; subst. now rewrite H2.
      * rewrite Hp. simpl. intros H; inversion H; subst; auto.
    + simpl. intros H; inversion H; subst; auto.
  - (* OPopItem *) pose proof (popitem_refines s HI) as Hp.
    destruct (items s) as [|[k v] m'] eqn:Ei.
    + destruct Hp as [Hp _]. rewrite Hp. intros H; inversion H; subst. rewrite Ei. auto.
    + destruct Hp as [s1 [Hp [H1 H2]]]. rewrite Hp. intros H; inversion H; subst; auto.
  - (* OSort *) intros H; inversion H; subst; clear H.
    assert (Hs : Inv (mkSd (vals s) (sort_keys (order s))) /\
                 items (mkSd (vals s) (sort_keys (order s))) = om_sort (items s)).
    { destruct (reorder_refines s (sort_keys (order s)) HI) as [H1 H2].
      - apply NoDup_sort_keys, HI.
      - intros x. apply in_sort_keys.
      - split; auto. rewrite H2. unfold om_sort. now rewrite (items_keys s HI). }
    destruct Hs as [Hs1 Hs2]. destruct rev.
    + destruct (reorder_refines s (List.rev (sort_keys (order s))) HI) as [H1 H2].
      * apply NoDup_rev, NoDup_sort_keys, HI.
      * intros x. rewrite <- in_rev. apply in_sort_keys.
      * split; auto. rewrite H2, items_f_rev. unfold om_sort. now rewrite (items_keys s HI).
    + split; auto. now rewrite Hs2.
  - (* OReverse *) intros H; inversion H; subst; clear H.
    destruct (reorder_refines s (List.rev (order s)) HI) as [H1 H2].
    + apply NoDup_rev, HI.
    + intros x. now rewrite <- in_rev.
    + split; auto. now rewrite H2, items_f_rev, (items_f_self s HI).
  - (* OClear *) intros H; inversion H; subst; clear H.
    destruct (clear_fuel_spec (S (length (order s))) s HI) as [H1 H2]; [lia|].
    unfold clear. split; auto. now rewrite H2.
  - (* OAppend *) destruct (add_item s k v false None None replace) as [s1 r1] eqn:E.
    destruct (add_item_refines _ _ _ _ _ _ _ _ _ HI E) as [H1 H2]. rewrite H1.
    destruct r1; simpl; intros H; inversion H; subst; auto.
  - (* OExtend *)
    destruct (store_all (fun s k v => add_item s k v false None None replace) s items) as [s1 r1] eqn:E.
    destruct (store_all_refines (fun s k v => add_item s k v false None None replace)
                (fun m k v => om_add m k v false None None replace)
                (fun s k v s' r HI E => add_item_refines s k v false None None replace s' r HI E)
                items s s1 r1 HI E) as [H1 H2].
    rewrite H1. destruct r1; simpl; intros H; inversion H; subst; auto.
  - (* OUpdate *)
    destruct (store_all setitem s items) as [s1 r1] eqn:E.
    destruct (store_all_refines setitem
                (fun m k v => om_add m k v false None None true)
                (fun s k v s' r HI E => add_item_refines s k v false None None true s' r HI E)
                items s s1 r1 HI E) as [H1 H2].
    rewrite H1. destruct r1; simpl; intros H; inversion H; subst; auto.
  - (* OSetDefault *) unfold setdefault, getitem. rewrite (lookup_items s k HI).
    destruct (lookup k (vals s)) as [w|].
    + simpl. intros H; inversion H; subst; auto.
    + unfold setitem. destruct (add_item s k v false None None true) as [s1 r1] eqn:E.
      destruct (add_item_refines _ _ _ _ _ _ _ _ _ HI E) as [H1 H2]. rewrite H1.
      destruct r1; simpl; intros H; inversion H; subst; auto.
Qed.

(* ------------------------------------------------------------------ *)
(* lifted to every history *)

Fixpoint outs (s : sd) (ops : list sdop) : list (res sdout) :=
  match ops with [] => [] | o :: ops' => snd (step s o) :: outs (fst (step s o)) ops' end.
Fixpoint om_outs (m : omap) (ops : list sdop) : list (res sdout) :=
  match ops with [] => [] | o :: ops' => snd (om_step m o) :: om_outs (fst (om_step m o)) ops' end.

Lemma inv_empty : Inv sd_empty.
Proof. unfold Inv, sd_empty; simpl. repeat split; try constructor; tauto. Qed.

Lemma run_refines ops : forall s, Inv s ->
  Inv (run s ops) /\ items (run s ops) = om_run (items s) ops /\ outs s ops = om_outs (items s) ops.
Proof.
  induction ops as [|o ops IH]; intros s HI; simpl; auto.
  destruct (step s o) as [s1 r1] eqn:E. destruct (step_refines s o s1 r1 HI E) as [H1 H2].
  rewrite H1. simpl. destruct (IH s1 H2) as [A [B C]]. split; [exact A|]. split; [exact B|]. now rewrite C.
Qed.

(* a rejected single-item operation changes nothing *)
Definition single_item (o : sdop) : bool :=
  match o with
  | OSet _ _ | OAdd _ _ _ _ _ _ | ODel _ | OPop _ | OPopAt _ | OPopItem
  | OAppend _ _ _ | OSetDefault _ _ => true
  | _ => false
  end.

Lemma add_item_rejected s k v a i p r s' e :
  add_item s k v a i p r = (s', Raise e) -> s' = s.
Proof.
  unfold add_item. destruct (negb (validate v)); [intros H; inversion H; auto|].
  destruct i, p; try (intros H; inversion H; auto; fail);
    repeat match goal with
           | |- context [match ?x with _ => _ end] => destruct x; try (intros H; inversion H; auto; fail)
           end.
Qed.

Lemma rejected_unchanged s o s' e :
  single_item o = true -> step s o = (s', Raise e) -> s' = s.
Proof.
  destruct o; simpl; try discriminate; intros _.
  - unfold setitem. destruct (add_item s k v false None None true) as [s1 [u|e1]] eqn:E; simpl;
      intros H; inversion H; subst. eapply add_item_rejected; eauto.
  - destruct (add_item s k v after index pos_key replace) as [s1 [u|e1]] eqn:E; simpl;
      intros H; inversion H; subst. eapply add_item_rejected; eauto.
  - unfold delitem. destruct (has_key k (vals s)); simpl; intros H; inversion H; auto.
  - unfold pop, getitem. destruct (lookup k (vals s)); simpl; intros H; inversion H; auto.
  - unfold pop_at, pop, getitem. destruct (py_nth i (order s)) as [k|]; simpl.
    + destruct (lookup k (vals s)); simpl; intros H; inversion H; auto.
    + intros H; inversion H; auto.
  - unfold popitem, getitem. destruct (order s) as [|k l]; simpl.
    + intros H; inversion H; auto.
    + destruct (lookup k (vals s)); simpl; intros H; inversion H; auto.
  - destruct (add_item s k v false None None replace) as [s1 [u|e1]] eqn:E; simpl;
      intros H; inversion H; subst. eapply add_item_rejected; eauto.
  - unfold setdefault, getitem, setitem. destruct (lookup k (vals s)); simpl.
    + intros H; inversion H.
    + destruct (add_item s k v false None None true) as [s1 [u|e1]] eqn:E; simpl;
        intros H; inversion H; subst. eapply add_item_rejected; eauto.
Qed.
