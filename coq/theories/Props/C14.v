(* C14 - Grid behaves as a list of row dicts under every sequence of operations.
   Statements only; proofs in Proofs/GridP.v.  `gstep` models the code
   (grid.py's five primitives, extend, reindex, and the MutableSequence mixins
   written in terms of them: reverse by swaps through __setitem__, clear by
   pops, pop = getitem + delitem, remove = delitem(index(..))); `lst_step` is
   Python list semantics on the rows. *)
From HS Require Import Base.Prelude Model.PyList Model.Grid Proofs.GridP.
Open Scope Z_scope.

(* after ANY sequence of operations the rows, and every result / exception
   class, are those of a Python list given the same operations.  Hypotheses:
   the offered rows hold no 3.0-only value (version gating is C10) and the
   operations are sequence operations (lookups by id are C15). *)
Theorem C14_refines : forall ops p gv,
  forallb plain_op ops = true -> forallb seq_op ops = true ->
  rows (grun (grid_new p gv) ops) = lrun [] ops /\
  map erase_res (gouts (grid_new p gv) ops) = louts [] ops.
Proof.
  intros ops p gv H1 H2. apply (grun_list ops (grid_new p gv)); auto. intros r [].
Qed.

(* one step, from any state whose rows hold no 3.0-only value *)
Theorem C14_step : forall g o g' r,
  AllPlain g -> plain_op o = true -> seq_op o = true -> gstep g o = (g', r) ->
  lst_step (rows g) o = (rows g', erase_res r) /\ AllPlain g'.
Proof. exact gstep_list. Qed.

(* the mixins really are list operations *)
Theorem C14_reverse : forall g, AllPlain g ->
  exists g', g_reverse g = (g', Ok tt) /\ rows g' = rev (rows g).
Proof. exact reverse_rows. Qed.

(* slicing yields a grid with the same version and the selected rows *)
Theorem C14_slice_is_grid : forall g sl s,
  g_getslice g sl = Ok s -> pre3 s = pre3 g /\ py_get_slice sl (rows g) = Some (rows s).
Proof.
  intros g sl s. unfold g_getslice. destruct (py_get_slice sl (rows g)); intros H; inversion H; subst; auto.
Qed.

(* non-dict rows are refused with TypeError and nothing changes *)
Theorem C14_notdict : forall g t,
  (forall i, gstep g (GInsert i (VNotDict t)) = (g, Raise TypeError)) /\
  gstep g (GAppend (VNotDict t)) = (g, Raise TypeError) /\
  (forall i, gstep g (GSetItem i (VNotDict t)) = (g, Raise TypeError)).
Proof. exact notdict_refused. Qed.

(* non-vacuity: a concrete history exercising insert at a negative index,
   slice deletion with a negative step, reverse through the swap loop, pop *)
Example C14_nonvacuous :
  let r k := mkRow k None (Z.of_N k) false in
  let ops := [GAppend (VRow (r 1%N)); GAppend (VRow (r 2%N)); GInsert (-1) (VRow (r 3%N));
              GAppend (VRow (r 4%N)); GAppend (VRow (r 5%N)); GReverse;
              GDelSlice (None, None, Some (-2)); GPop None] in
  forallb plain_op ops = true /\ forallb seq_op ops = true /\
  map tag (rows (grun (grid_new true false) ops)) = [4%N].
Proof. vm_compute. repeat split. Qed.
