(* Version 2.0 grids (with metadata) whose cells include date-times: two-sided form, as in ZincRawP.v *)
From Coq Require Import String.
From Coq Require Import List NArith Bool Lia Arith Setoid.
From HS Require Import Base.Prelude Model.Value Model.Escape Model.Version Model.Json Model.ZincParse Model.ZincDump.
From HS Require Import Proofs.PreludeP Proofs.VersionP Proofs.EscapeP Proofs.JsonP Proofs.ZincParseP Proofs.ZincDumpP Proofs.ZincNumP Proofs.ZincDateP Proofs.ZincListP Proofs.ZincGridP Proofs.ZincDictP Proofs.ZincMetaP Proofs.ZincV2P Proofs.ZincMeta2P Proofs.ZincDateTimeP.
Import ListNotations.
Open Scope N_scope.

Definition cellwr20 (p : hval * hval) (t : str) : Prop :=
  is_v3_only (snd p) = false /\ (forall f, zdump (S f) true (fst p) = Ok t) /\ (forall g, reads2 g (snd p) t).

Lemma cellwr20_same v t : cell2 v t -> cellwr20 (v, v) t.
Proof. intros [A [B C]]. split; [exact A|]. split; [exact B|exact C]. Qed.

Lemma cellwr20_datetime y m d h mi s us off zn sg hh mm :
  iso_offset off = off_text sg hh mm -> dt_ok y m d h mi s us sg hh mm -> tzname_ok zn ->
  cellwr20 (VDateTime y m d h mi s us off (ZName zn), VDateTimeRaw (iso_datetime y m d h mi s us off) (Some zn))
           (iso_datetime y m d h mi s us off ++ 32 :: zn).
Proof.
  intros Eo Hok Hz. split; [reflexivity|]. split; [intro f; reflexivity|]. intros g rest Hd. cbn [fst snd].
  apply (datetime_written_read 0 g false y m d h mi s us off zn sg hh mm _ rest Eo Hok Hz (delim_ns_delim rest Hd)). reflexivity.
Qed.

Theorem grid2_two_sided mps cols (rows : list (list (hval * hval))) rts :
  Forall mval2 mps -> NoDup (mkeys mps) -> ~ In VERK (mkeys mps) ->
  cols <> [] -> Forall mcol2 cols -> NoDup (map fst cols) ->
  Forall2 (fun cells ts => length cells = length (map fst cols) /\ Forall2 cellwr20 cells ts) rows rts ->
  (forall f, zdump_grid (S (S f)) V20 (map pkv mps) (map (fun c => (fst c, map pkv (snd c))) cols)
                        (map (fun cells => combine (map fst cols) (map fst cells)) rows) = Ok (meta_text2 mps cols rts)) /\
  zparse_grid (meta_text2 mps cols rts) = Ok (meta_grid2 mps cols (map (map snd) rows)).
Proof.
  intros Hm Hmn Hmv Hne Hc Hcn Hrows. split.
  - intro f.
    replace (map (fun cells : list (hval * hval) => combine (map fst cols) (map fst cells)) rows)
      with (map (fun cells => combine (map fst cols) cells) (map (map fst) rows)) by (rewrite map_map; reflexivity).
    apply grid_meta_dumps2; [| exact Hne | | exact Hcn |].
    + eapply Forall_impl; [|exact Hm]. intros p Hp. apply mval2_dump. exact Hp.
    + eapply Forall_impl; [|exact Hc]. intros c [_ [B _]]. unfold col_dump_ok2. eapply Forall_impl; [|exact B]. intros p Hp. apply mval2_dump. exact Hp.
    + clear -Hrows. induction Hrows as [|cells ts rows rts [Hl Hcs] _ IH]; cbn [map]; constructor; [|exact IH]. split; [rewrite map_length; exact Hl|].
      clear -Hcs. induction Hcs as [|v t vs ts [_ [D _]] _ IH]; cbn [map]; constructor; [apply D|exact IH].
  - unfold zparse_grid.
    assert (SV : sniff_version (meta_text2 mps cols rts) = Some V20) by reflexivity. rewrite SV.
    assert (P3 : pre3_of V20 = Ok true) by (vm_compute; reflexivity). rewrite P3. cbn [negb].
    unfold meta_text2 at 2. rewrite (grid_meta_reads2 (length (meta_text2 mps cols rts)) mps cols (map (map snd) rows) rts); [reflexivity| |exact Hmn|exact Hmv| | | |].
    + eapply Forall_impl; [|exact Hm]. intros p Hp. apply mval2_ok. exact Hp.
    + split; [exact Hne|]. split; [|split; [exact Hcn|]].
      * eapply Forall_impl; [|exact Hc]. intros c [A [B _]]. split; [exact A|]. eapply Forall_impl; [|exact B]. intros p Hp. apply mval2_ok. exact Hp.
      * eapply Forall_impl; [|exact Hc]. intros c [_ [_ C]]. exact C.
    + apply mval2_free. exact Hm.
    + eapply Forall_impl; [|exact Hc]. intros c [_ [B _]]. apply mval2_free. exact B.
    + clear -Hrows. induction Hrows as [|cells ts rows rts [Hl Hcs] _ IH]; cbn [map]; constructor; [|exact IH]. split; [rewrite map_length; exact Hl|]. split.
      * clear -Hcs. induction Hcs as [|v t vs ts [_ [_ R]] _ IH]; cbn [map]; constructor; [apply R|exact IH].
      * clear -Hcs. induction Hcs as [|v t vs ts [V _] _ IH]; cbn [map]; constructor; [exact V|exact IH].
Qed.
Print Assumptions grid2_two_sided.
