(* Proofs about Model/ZincDump.v and its composition with Model/ZincParse.v. *)
From Coq Require Import String.
From Coq Require Import List NArith Bool Lia.
From HS Require Import Base.Prelude Model.Value Model.Escape Model.Version Model.Json Model.ZincDump Model.ZincParse.
From HS Require Import Proofs.EscapeP Proofs.ZincParseP.
Import ListNotations.
Open Scope N_scope.

Lemma zdump_str_shape s t : zdump_str s = Ok t -> exists e, escape_str s = Ok e /\ t = DQ :: e ++ [DQ].
Proof. unfold zdump_str. destruct (escape_str s) as [e|x]; cbn [bind]; intro Q; inversion Q. eexists; split; reflexivity. Qed.
Lemma zdump_uri_shape s t : zdump_uri s = Ok t -> exists e, escape_uri s = Ok e /\ t = BQ :: e ++ [BQ].
Proof. unfold zdump_uri. destruct (escape_uri s) as [e|x]; cbn [bind]; intro Q; inversion Q. eexists; split; reflexivity. Qed.

(* a string cell: written by the dumper's ladder, read back by the whole scalar alternation, whatever follows *)
Lemma str_scalar_roundtrip f g p v3 s t rest :
  zdump (S f) p (VStr s) = Ok t -> p_scalar (S g) v3 (t ++ rest) = Some (Ok (VStr s), rest).
Proof.
  cbn [zdump]. intro H. destruct (zdump_str_shape s t H) as [e [He Ht]]. subst t.
  cbn [List.app]. rewrite <- app_assoc. cbn [List.app]. apply scalar_str. exact He.
Qed.
Lemma uri_scalar_roundtrip f g p v3 s t rest :
  zdump (S f) p (VUri s) = Ok t -> p_scalar (S g) v3 (t ++ rest) = Some (Ok (VUri s), rest).
Proof.
  cbn [zdump]. intro H. destruct (zdump_uri_shape s t H) as [e [He Ht]]. subst t.
  cbn [List.app]. rewrite <- app_assoc. cbn [List.app]. apply scalar_uri. exact He.
Qed.

(* non-finite numbers *)
Lemma zdump_nonfinite f p zt jt :
  zdump (S f) p (VNum NkInf zt jt None) = Ok (s_ "INF") /\
  zdump (S f) p (VNum NkNegInf zt jt None) = Ok (s_ "-INF") /\
  zdump (S f) p (VNum NkNaN zt jt None) = Ok (s_ "NaN").
Proof. repeat split; reflexivity. Qed.

(* the document starts with the version header *)
Lemma join_cons_cons sep (a b : str) l : join sep (a :: b :: l) = a ++ sep ++ join sep (b :: l).
Proof. reflexivity. Qed.
Lemma zdump_grid_header f ver meta cols rows t :
  zdump_grid (S f) ver meta cols rows = Ok t ->
  exists e rest, escape_str ver = Ok e /\ t = s_ "ver:" ++ DQ :: e ++ DQ :: rest.
Proof.
  cbn [zdump_grid]. destruct (pre3_of ver) as [p3|x]; cbn [bind]; [|discriminate].
  destruct (zdump_str ver) as [vt|x] eqn:Ev; cbn [bind]; [|discriminate].
  destruct (zdump_str_shape ver vt Ev) as [e [He Hvt]]. subst vt.
  match goal with |- (do header <- ?h; _) = _ -> _ => destruct h as [header|x] eqn:Eh end; cbn [bind]; [|discriminate].
  destruct cols as [|c cols']; [discriminate|].
  match goal with |- (do cs <- ?h; _) = _ -> _ => destruct h as [cs|x] end; cbn [bind]; [|discriminate].
  match goal with |- (do rs <- ?h; _) = _ -> _ => destruct h as [rs|x] end; cbn [bind]; [|discriminate].
  intro Q; inversion Q; subst t. clear Q.
  match goal with |- context [_ ++ 10 :: ?x] => generalize x; intro X end.
  destruct meta as [|m meta'].
  - inversion Eh; subst header. exists e. eexists. split; [exact He|].
    rewrite <- ?app_assoc. cbn [List.app]. rewrite <- ?app_assoc. cbn [List.app]. reflexivity.
  - match type of Eh with (do mt <- ?h; _) = _ => destruct h as [mt|x] end; cbn [bind] in Eh; [|discriminate].
    inversion Eh; subst header. exists e. eexists. split; [exact He|].
    rewrite <- ?app_assoc. cbn [List.app]. rewrite <- ?app_assoc. cbn [List.app]. rewrite <- ?app_assoc. cbn [List.app]. reflexivity.
Qed.
