(* Lists through the scalar rule of the ZINC reader model *)
From Coq Require Import String.
From Coq Require Import List NArith Bool Lia Arith.
From HS Require Import Base.Prelude Model.Value Model.Escape Model.Version Model.Json Model.ZincParse.
From HS Require Import Proofs.VersionP Proofs.EscapeP Proofs.JsonP Proofs.ZincParseP Proofs.ZincNumP.
Import ListNotations.
Open Scope N_scope.

(* nothing is a scalar at a delimiter or at the end of the text *)
Lemma scalar_none_nil g v3 : p_scalar (S g) v3 [] = None.
Proof. cbn [p_scalar]. destruct v3; cbv zeta; unfold scalars_2_0; apply por_none; repeat (apply Forall_cons; [reflexivity|]); apply Forall_nil. Qed.

Lemma scalar_none_delim g v3 c t : In c [44; 10; 13; 32; 93; 125; 62] -> p_scalar (S g) v3 (c :: t) = None.
Proof.
  intro Hc. assert (Hdig : is_digit c = false) by (dl Hc; reflexivity).
  destruct (date_letters c t Hdig) as [D1 [D2 D3]].
  cbn [p_scalar]. destruct v3; cbv zeta; unfold scalars_2_0; apply por_none; dl Hc;
    repeat (apply Forall_cons; [first [exact D1 | exact D2 | exact D3 | reflexivity]|]); apply Forall_nil.
Qed.

(* an element: the scalar rule (at some fuel, version 3.0) reads v from txt whenever a delimiter other than a blank follows
   (the end of the text, a comma, a line end, a closing bracket) *)
Definition reads (g : nat) (v : hval) (txt : str) : Prop :=
  forall rest, delim_ns rest -> p_scalar (S g) true (txt ++ rest) = Some (Ok v, rest).

Lemma reads_hd g v txt : reads g v txt -> exists c t, txt = c :: t /\ ~ In c [44; 10; 13; 32; 93; 125; 62].
Proof.
  intro H. specialize (H [] (or_introl eq_refl)). rewrite app_nil_r in H. destruct txt as [|c t].
  - rewrite scalar_none_nil in H. discriminate.
  - exists c, t. split; [reflexivity|]. intro Hc. rewrite (scalar_none_delim g true c t Hc) in H. discriminate.
Qed.

Lemma nosp_hd (c : N) : ~ In c [44; 10; 13; 32; 93; 125; 62] -> is_sp c = false /\ c <> 93 /\ c <> 44.
Proof.
  intro H. cbn [In] in H. repeat split.
  - unfold is_sp. destruct (N.eqb_spec c 32); [subst; exfalso; apply H; tauto|reflexivity].
  - intro E; subst; apply H; tauto.
  - intro E; subst; apply H; tauto.
Qed.

(* ",item" *)
Lemma sep_item g v txt rest : reads g v txt -> delim_ns rest ->
  pthen value_sep (p_scalar (S g) true) (44 :: txt ++ rest) = Some (Ok v, rest).
Proof.
  intros Hr Hd. destruct (reads_hd g v txt Hr) as [c [t [E Hc]]]. destruct (nosp_hd c Hc) as [Hs _].
  pose proof (comma_with_blanks 0 0 (txt ++ rest)) as V. cbn [blanks repeat List.app] in V.
  unfold pthen, pmap, pand. rewrite V by (subst txt; exact Hs). rewrite (Hr rest Hd). reflexivity.
Qed.

Definition items_text (ts : list str) : str := concat (map (fun t => 44 :: t) ts).

Lemma delim_close r : delim_ns (93 :: r). Proof. right. eexists. eexists. split; [reflexivity|]. cbn; tauto. Qed.
Lemma delim_comma r : delim_ns (44 :: r). Proof. right. eexists. eexists. split; [reflexivity|]. cbn; tauto. Qed.
Lemma delim_ns_delim r : delim_ns r -> delim r.
Proof. intros [E|[c [r' [E Hc]]]]; [left; exact E|right]. exists c, r'. split; [exact E|]. cbn [In] in *. tauto. Qed.
Lemma items_delim ts r : delim_ns (items_text ts ++ 93 :: r).
Proof. destruct ts as [|t ts]; cbn [items_text map concat List.app]; [apply delim_close|apply delim_comma]. Qed.

Lemma many_items g : forall vs ts, Forall2 (reads g) vs ts -> forall r fuel, (length ts < fuel)%nat ->
  pmany_fuel fuel (pthen value_sep (p_scalar (S g) true)) (items_text ts ++ 93 :: r) = (Ok vs, 93 :: r).
Proof.
  induction 1 as [|v t vs ts Hvt Hrest IH]; intros r fuel Hf.
  - cbn [items_text map concat List.app]. destruct fuel as [|f]; [cbn in Hf; lia|]. cbn [pmany_fuel].
    assert (E : pthen value_sep (p_scalar (S g) true) (93 :: r) = None) by reflexivity. rewrite E. reflexivity.
  - destruct fuel as [|f]; [cbn in Hf; lia|]. cbn [items_text map concat List.app]. fold (items_text ts).
    rewrite <- app_assoc. cbn [pmany_fuel].
    rewrite (sep_item g v t (items_text ts ++ 93 :: r) Hvt (items_delim ts r)).
    assert (L : Nat.ltb (length (items_text ts ++ 93 :: r)) (length (44 :: t ++ items_text ts ++ 93 :: r)) = true).
    { apply Nat.ltb_lt. cbn [length]. rewrite !app_length. cbn [length]. lia. }
    rewrite L. rewrite (IH r f) by (cbn in Hf; lia). reflexivity.
Qed.

Lemma join_items t ts : join [44] (t :: ts) = (t ++ items_text ts)%list.
Proof.
  revert t. induction ts as [|t2 ts IH]; intro t; cbn [join items_text map concat]; [rewrite app_nil_r; reflexivity|].
  cbn [List.app]. fold (items_text ts). rewrite <- IH. reflexivity.
Qed.

Lemma items_len ts : (length ts <= length (items_text ts))%nat.
Proof. induction ts as [|t ts IH]; cbn [items_text map concat length]; [lia|]. fold (items_text ts). rewrite app_length. cbn [length]. lia. Qed.

Lemma delimited_items g v t vs ts r : reads g v t -> Forall2 (reads g) vs ts ->
  pdelimited (p_scalar (S g) true) value_sep (join [44] (t :: ts) ++ 93 :: r) = Some (Ok (v :: vs), 93 :: r).
Proof.
  intros Hv Hvs. rewrite join_items, <- app_assoc. unfold pdelimited, pmap, pand.
  rewrite (Hv (items_text ts ++ 93 :: r) (items_delim ts r)). unfold pmany.
  rewrite (many_items g vs ts Hvs r) by (rewrite app_length; pose proof (items_len ts); lia). reflexivity.
Qed.

(* the two alternatives of hs_list, as in Model/ZincParse.v *)
Definition list_alt1 : parser hval := pmap (fun _ => VList []) (pthen (plit [91]) (pthen spaces (plit [93]))).
Definition list_alt2 (scalar : parser hval) : parser hval :=
  pmap (fun x => VList (match x with Some l => l | None => [] end))
       (pthen (plit [91]) (pthen spaces
          (pbefore (popt (pdelimited scalar value_sep))
                   (pthen (popt value_sep) (pthen spaces (plit [93])))))).

Lemma list_alt2_empty scalar r : scalar (93 :: r) = None -> list_alt2 scalar (91 :: 93 :: r) = Some (Ok (VList []), r).
Proof.
  intro H. unfold list_alt2.
  assert (E : popt (pdelimited scalar value_sep) (93 :: r) = Some (Ok None, 93 :: r)).
  { unfold popt, pdelimited, pmap, pand. rewrite H. reflexivity. }
  assert (T : pthen (popt value_sep) (pthen spaces (plit [93])) (93 :: r) = Some (Ok tt, r)) by reflexivity.
  assert (B : pbefore (popt (pdelimited scalar value_sep)) (pthen (popt value_sep) (pthen spaces (plit [93]))) (93 :: r) = Some (Ok None, r)).
  { unfold pbefore, pmap, pand. rewrite E, T. reflexivity. }
  assert (S1 : spaces (93 :: r) = Some (Ok tt, 93 :: r)) by reflexivity.
  assert (L : plit [91] (91 :: 93 :: r) = Some (Ok tt, 93 :: r)) by reflexivity.
  unfold pthen at 1 2. unfold pmap, pand. rewrite L, S1, B. reflexivity.
Qed.

Lemma list_alt2_items scalar body vs r : (match body with c :: _ => is_sp c = false | [] => False end) ->
  pdelimited scalar value_sep (body ++ 93 :: r) = Some (Ok vs, 93 :: r) ->
  list_alt2 scalar (91 :: body ++ 93 :: r) = Some (Ok (VList vs), r).
Proof.
  intros Hb H. unfold list_alt2.
  assert (E : popt (pdelimited scalar value_sep) (body ++ 93 :: r) = Some (Ok (Some vs), 93 :: r)) by (apply popt_ok; exact H).
  assert (T : pthen (popt value_sep) (pthen spaces (plit [93])) (93 :: r) = Some (Ok tt, r)) by reflexivity.
  assert (B : pbefore (popt (pdelimited scalar value_sep)) (pthen (popt value_sep) (pthen spaces (plit [93]))) (body ++ 93 :: r) = Some (Ok (Some vs), r)).
  { unfold pbefore, pmap, pand. rewrite E, T. reflexivity. }
  assert (S1 : spaces (body ++ 93 :: r) = Some (Ok tt, body ++ 93 :: r)).
  { destruct body as [|c b]; [contradiction|]. unfold spaces, pmap, pspan. cbn [List.app span]. rewrite Hb. reflexivity. }
  assert (L : plit [91] (91 :: body ++ 93 :: r) = Some (Ok tt, body ++ 93 :: r)) by reflexivity.
  unfold pthen at 1 2. unfold pmap, pand. rewrite L, S1, B. reflexivity.
Qed.

Lemma list_alt1_none body r : (match body with c :: _ => is_sp c = false /\ c <> 93 | [] => False end) ->
  list_alt1 (91 :: body ++ 93 :: r) = None.
Proof.
  intro Hb. destruct body as [|c b]; [contradiction|]. destruct Hb as [Hs Hc]. unfold list_alt1.
  assert (S1 : spaces ((c :: b) ++ 93 :: r) = Some (Ok tt, (c :: b) ++ 93 :: r)).
  { unfold spaces, pmap, pspan. cbn [List.app span]. rewrite Hs. reflexivity. }
  assert (L : plit [91] (91 :: (c :: b) ++ 93 :: r) = Some (Ok tt, (c :: b) ++ 93 :: r)) by reflexivity.
  unfold pthen at 1 2. unfold pmap at 1 2. unfold pand at 1. rewrite L. unfold pmap, pand. rewrite S1.
  cbn [List.app]. unfold plit. cbn [strip_prefix]. destruct (N.eqb_spec 93 c); [subst; contradiction|reflexivity].
Qed.


(* hs_dict and the nested grid, as in Model/ZincParse.v, and the 3.0 scalar rule spelled out over them *)
Definition hs_list (scalar : parser hval) : parser hval := por [list_alt1; list_alt2 scalar].
Definition hs_tagpair (scalar : parser hval) : parser (str * hval) := pand p_id (pthen (plit [58]) (pthen spaces scalar)).
Definition hs_tag (scalar : parser hval) : parser (option (str * hval)) :=
  por [ pmap (fun k => Some (k, VMarker)) p_id; pmap Some (hs_tagpair scalar) ].
Definition hs_tags (scalar : parser hval) : parser (list (str * hval)) :=
  pmap (fun l => flat_map (fun o => match o with Some kv => [kv] | None => [] end) l)
       (pmany (por [hs_tag scalar; pmap (fun _ => None) (pspan1 is_sp)])).
Definition hs_dict (scalar : parser hval) : parser hval :=
  por [ pmap (fun _ => VDict []) (pthen (plit [123]) (pthen spaces (plit [125])));
        pmap (fun l => VDict (dict_of l))
             (pthen (plit [123]) (pthen spaces (pbefore (hs_tags scalar) (pthen spaces (plit [125]))))) ].
Definition hs_inner_grid (grid : parser hval) : parser hval :=
  pthen (plit [60; 60]) (pthen spaces (pbefore grid (pthen spaces (plit [62; 62])))).

Lemma p_scalar_3_0 f t : p_scalar (S f) true t =
  por [p_ref; p_xstr; p_bin; pmap VStr p_str; pmap VUri p_uri; p_datetime; p_date; p_time; p_coord; p_number;
       p_na; p_null; p_marker; p_remove; p_bool; hs_list (p_scalar f true); hs_dict (p_scalar f true); hs_inner_grid (p_grid f true)] t.
Proof. reflexivity. Qed.

Theorem scalar_list g vs ts rest : Forall2 (reads g) vs ts -> delim rest ->
  p_scalar (S (S g)) true (91 :: join [44] ts ++ 93 :: rest) = Some (Ok (VList vs), rest).
Proof.
  intros Hall Hd.
  assert (PL : hs_list (p_scalar (S g) true) (91 :: join [44] ts ++ 93 :: rest) = Some (Ok (VList vs), rest)).
  { unfold hs_list. destruct Hall as [|v t vs ts Hv Hvs].
    - cbn [join List.app]. unfold por.
      assert (A1 : list_alt1 (91 :: 93 :: rest) = Some (Ok (VList []), rest)) by reflexivity.
      rewrite (por_pick_start _ _ _ _ _ A1).
      assert (A2 : list_alt2 (p_scalar (S g) true) (91 :: 93 :: rest) = Some (Ok (VList []), rest)).
      { apply list_alt2_empty. apply scalar_none_delim. cbn; tauto. }
      rewrite (por_pick_keep _ _ _ _ _ _ _ A2 (Nat.le_refl _)). reflexivity.
    - destruct (reads_hd g v t Hv) as [c [t' [E Hc]]]. destruct (nosp_hd c Hc) as [Hs [H93 _]].
      assert (Hb : match join [44] (t :: ts) with c0 :: _ => is_sp c0 = false /\ c0 <> 93 | [] => False end).
      { rewrite join_items. subst t. cbn [List.app]. split; assumption. }
      unfold por. rewrite por_pick_skip by (apply list_alt1_none; exact Hb).
      apply por_pick_take; [|apply Forall_nil].
      apply list_alt2_items; [destruct (join [44] (t :: ts)); tauto|]. apply delimited_items; assumption. }
  destruct (date_letters 91 (join [44] ts ++ 93 :: rest) eq_refl) as [D1 [D2 D3]].
  rewrite p_scalar_3_0. set (T := (join [44] ts ++ 93 :: rest)%list) in *. clearbody T.
  unfold por.
  do 5 rewrite por_pick_skip by reflexivity.
  rewrite por_pick_skip by exact D1. rewrite por_pick_skip by exact D2. rewrite por_pick_skip by exact D3.
  do 7 rewrite por_pick_skip by reflexivity.
  apply por_pick_take; [exact PL|].
  repeat (apply Forall_cons; [reflexivity|]); apply Forall_nil.
Qed.

(* nesting: leaves readable at every fuel, lists of such values to any depth *)
Definition leafr (v : hval) (t : str) : Prop := forall g, reads g v t.
Fixpoint zrt (n : nat) (v : hval) (t : str) : Prop :=
  match n with
  | O => leafr v t
  | S n' => leafr v t \/ exists vs ts, v = VList vs /\ t = (91 :: join [44] ts ++ [93])%list /\ Forall2 (zrt n') vs ts
  end.

Theorem zrt_reads : forall n v t, zrt n v t -> forall k, reads (n + k) v t.
Proof.
  induction n as [|n IH]; intros v t H k.
  - exact (H _).
  - destruct H as [H|[vs [ts [Ev [Et H]]]]]; [exact (H _)|]. subst v t.
    intros rest Hd. cbn [List.app Nat.add]. rewrite <- app_assoc. cbn [List.app].
    apply scalar_list; [|apply delim_ns_delim; exact Hd].
    clear Hd. induction H as [|v t vs ts Hvt _ IH2]; constructor; [apply IH; exact Hvt|exact IH2].
Qed.
