(* C07 - anything parsed can be re-dumped, transcoded and re-parsed unchanged.
   Proved on the models: for text (every code-point list as Str and as Uri) each format's writer followed by its reader
   is the identity, hence every chain of transcodings ZINC -> JSON -> ZINC ... returns the value it started from and
   re-dumping reproduces the same text (idempotent normalisation); for WHOLE GRIDS - metadata-free 3.0 grids, 3.0 grids
   with grid and column metadata over every kind but date-times (lists, dicts and nested grids included), and 2.0 grids
   with metadata - both formats read back the same grid that was written (C07_grid_both_formats, _general, _2_0).
   A date-time in a named zone is read as the same raw text and zone name from both formats (C07_datetime_both_formats).
   PARTIAL: zone-less date-times (the known finding lives there: an offset no zone maps to) and float payloads (the JSON six-decimal
   rule) are decided by the tie and the search on the implementation.  Purity needs no theorem in a functional model:
   zdump / jdump are functions of the value, so two dumps of one value are identical and nothing is modified - that
   part is checked on the implementation (deep snapshot before / after, two dumps compared) by harness/props/c07.py. *)
From Coq Require Import String.
From Coq Require Import List NArith Bool Lia.
From HS Require Import Base.Prelude Model.Value Model.Escape Model.Version Model.Json Model.ZincDump Model.ZincParse.
From HS Require Import Proofs.EscapeP Proofs.JsonP Proofs.ZincParseP Proofs.ZincDumpP Proofs.ZincNumP Proofs.ZincListP Proofs.ZincGridP Proofs.ZincDictP Proofs.ZincMetaP Proofs.ZincNestP Proofs.JsonGridP Proofs.JsonNestP Proofs.JsonReadP Proofs.JsonVerP Proofs.ZincV2P Proofs.ZincMeta2P Proofs.ZincDateP Proofs.ZincDateTimeP Proofs.ZincDateTimeSpP.
Import ListNotations.
Open Scope N_scope.

Definition is_text (v : hval) : Prop := exists s, v = VStr s \/ v = VUri s.

(* ZINC: reader after writer is the identity on text, through the whole scalar alternation *)
Theorem C07_zinc_leg : forall v, is_text v -> forall f g pre3 ver3 t rest,
  zdump (S f) pre3 v = Ok t -> p_scalar (S g) ver3 (t ++ rest) = Some (Ok v, rest).
Proof.
  intros v [s [H|H]] f g pre3 ver3 t rest; subst v.
  - apply str_scalar_roundtrip.
  - apply uri_scalar_roundtrip.
Qed.
(* JSON: reader after writer is the identity on text *)
Theorem C07_json_leg : forall v, is_text v -> forall pre3 j,
  jdump_scalar pre3 v = Ok (JStr j) -> jparse_str pre3 j = Ok v.
Proof.
  intros v [s [H|H]] pre3 j; subst v; cbn; intro Q; inversion Q; subst j.
  - apply rt_str.
  - apply rt_uri.
Qed.
(* both writers accept every text, so every chain of transcodings is defined *)
Theorem C07_text_always_dumps : forall v, is_text v -> forall f pre3,
  (exists t, zdump (S f) pre3 v = Ok t) /\ (exists j, jdump_scalar pre3 v = Ok (JStr j)).
Proof.
  intros v [s [H|H]] f pre3; subst v; cbn [zdump]; unfold zdump_str, zdump_uri.
  - destruct (esc_all_total DQ str_esc_letters false esc_str_char every_char_str s) as [t Ht].
    change (esc_all esc_str_char s) with (escape_str s) in Ht. rewrite Ht. cbn [bind]. split; eexists; reflexivity.
  - destruct (esc_all_total BQ uri_esc_letters true esc_uri_char every_char_uri s) as [t Ht].
    change (esc_all esc_uri_char s) with (escape_uri s) in Ht. rewrite Ht. cbn [bind]. split; eexists; reflexivity.
Qed.
(* idempotent normalisation: dump (parse (dump v)) is character for character dump v *)
Theorem C07_zinc_normalisation_idempotent : forall v, is_text v -> forall f g pre3 ver3 t v',
  zdump (S f) pre3 v = Ok t -> p_scalar (S g) ver3 t = Some (Ok v', []) -> zdump (S f) pre3 v' = Ok t.
Proof.
  intros v Hv f g pre3 ver3 t v' Hd Hp.
  pose proof (C07_zinc_leg v Hv f g pre3 ver3 t [] Hd) as H. rewrite app_nil_r in H. rewrite H in Hp.
  inversion Hp; subst v'. exact Hd.
Qed.
Theorem C07_json_normalisation_idempotent : forall v, is_text v -> forall pre3 j v',
  jdump_scalar pre3 v = Ok (JStr j) -> jparse_str pre3 j = Ok v' -> jdump_scalar pre3 v' = Ok (JStr j).
Proof.
  intros v Hv pre3 j v' Hd Hp. rewrite (C07_json_leg v Hv pre3 j Hd) in Hp. inversion Hp; subst v'. exact Hd.
Qed.

(* JSON leg for whole trees: lists and dicts (distinct keys, not grid-like) to any depth over strings, URIs, Bins,
   markers, nulls, booleans, NA, Remove - reader after writer is the identity, hence re-dumping what was read
   reproduces the text *)
Theorem C07_json_leg_nested : forall n v fuel j, plain n v -> jdump fuel false v = Ok j -> jparse fuel false j = Ok v.
Proof. intros n v fuel j. exact (plain_roundtrip n v fuel j). Qed.
Theorem C07_json_normalisation_idempotent_nested : forall n v fuel j v',
  plain n v -> jdump fuel false v = Ok j -> jparse fuel false j = Ok v' -> jdump fuel false v' = Ok j.
Proof.
  intros n v fuel j v' Hp Hd Hr. rewrite (plain_roundtrip n v fuel j Hp Hd) in Hr. inversion Hr; subst v'. exact Hd.
Qed.

(* WHOLE GRIDS IN BOTH FORMATS: a metadata-free 3.0 grid whose cells are written and read back cell-wise by the ZINC
   models (gcell) and are plain values for the JSON models comes back as the SAME grid from either format: what is read
   from the ZINC text equals what is read from the JSON object equals the grid written - so parsing one format and
   dumping the other loses nothing on such grids *)
Theorem C07_grid_both_formats : forall n k names rows rts,
  names <> [] -> Forall colname names -> NoDup names -> Forall2 (grid_gcells_ok n names) rows rts ->
  Forall (Forall (plain k)) rows -> (n <= length (plain_text names rts))%nat ->
  zparse_grid (plain_text names rts) = Ok (plain_grid names rows) /\
  (forall f, zdump_grid (S (S (n + f))) V30 [] (map (fun x => (x, [])) names) (map (fun cells => combine names cells) rows) = Ok (plain_text names rts)) /\
  (forall f j, jdump_grid (S f) V30 [] (map (fun x => (x, [])) names) (map (fun cells => combine names cells) rows) = Ok j ->
               exists m, j = JObj m /\ jparse_grid (S f) m = Ok (plain_grid names rows)).
Proof.
  intros n k names rows rts Hne Hcn Hnd Hrows Hplain Hn.
  destruct (grid_roundtrip_values n names rows rts Hne Hcn Hnd Hrows) as [D [_ T]].
  split; [exact (T Hn)|]. split; [exact D|]. intros f j Hj.
  assert (MF : map fst (map (fun x : str => (x, @nil (str * hval))) names) = names) by (rewrite map_map; cbn [fst]; apply map_id).
  apply (json_plain_grid_roundtrip k f V30 [] _ _ j); try exact Hj.
  - destruct ver30_facts as [pv H]. exists pv. exact H.
  - destruct names; [contradiction|discriminate].
  - constructor.
  - intros [].
  - constructor.
  - rewrite MF. exact Hnd.
  - clear. induction names as [|x l IH]; cbn [map]; constructor; [|exact IH]. split; [constructor|]. split; [intros []|constructor].
  - clear -Hrows Hplain Hnd MF. revert rts Hrows. induction Hplain as [|cells rows Hc _ IH]; intros rts Hrows; cbn [map]; [constructor|].
    inversion Hrows as [|? ts ? rts' [Hl _] Hrest]; subst. constructor; [|exact (IH rts' Hrest)].
    split.
    + rewrite <- MF at 2. apply canon_combine; [rewrite MF; exact Hnd|rewrite map_length; exact Hl].
    + unfold plain_items. clear -Hc Hl. revert names Hl. induction Hc as [|x cells Hx _ IH]; intros [|nm names] Hl; cbn in Hl; try discriminate; cbn [combine]; constructor; [exact Hx|].
      apply IH. lia.
Qed.

(* IN GENERAL: a 3.0 grid with grid and column metadata whose values are in the ZINC value relation (zv: every kind but
   date-times, lists, dicts, nested grids) AND in the JSON value relation (jv) comes back as the same grid from both formats *)
Theorem C07_grid_both_formats_general : forall n k mps cols rows rts,
  full_grid_ok n mps cols rows rts ->
  Forall (fun p => jv k (snd (pkv p))) mps ->
  Forall (fun c => ~ In NAME (mkeys (snd c)) /\ Forall (fun p => jv k (snd (pkv p))) (snd c)) cols ->
  Forall (Forall (jv k)) rows ->
  (2 * n <= length (meta_text mps cols rts))%nat ->
  zparse_grid (meta_text mps cols rts) = Ok (meta_grid mps cols rows) /\
  (forall f j, jdump_grid (S f) V30 (map pkv mps) (map (fun c => (fst c, map pkv (snd c))) cols)
                          (map (fun cells => combine (map fst cols) cells) rows) = Ok j ->
               exists m, j = JObj m /\ jparse_grid (S f) m = Ok (meta_grid mps cols rows)).
Proof.
  intros n k mps cols rows rts OK Jm Jc Jr Hn.
  destruct (full_grid_roundtrip n mps cols rows rts OK) as [_ [_ T]]. split; [exact (T Hn)|].
  destruct OK as [Hm [Hmn [Hmv [Hne [Hc [Hcn Hrows]]]]]].
  intros f j Hj. unfold meta_grid.
  set (cols' := map (fun c : str * list (str * hval * str) => (fst c, map pkv (snd c))) cols) in *.
  assert (NK : map fst cols' = map fst cols) by (unfold cols'; rewrite map_map; reflexivity).
  apply (json_full_grid k f V30 (map pkv mps) cols' _ j); try exact Hj.
  - destruct ver30_facts as [pv H]. exists pv. exact H.
  - unfold cols'. destruct cols; [contradiction|discriminate].
  - exact Hmn.
  - exact Hmv.
  - clear -Jm. induction Jm as [|p l Hp _ IH]; cbn [map]; constructor; [exact Hp|exact IH].
  - rewrite NK. exact Hcn.
  - unfold cols'. clear -Hc Jc. induction Jc as [|c l [Hn Hv] _ IH]; cbn [map]; [constructor|].
    inversion Hc as [|? ? [_ [_ Hnd]] Hc']; subst. constructor; [|exact (IH Hc')].
    split; [exact Hnd|]. split; [exact Hn|]. cbn [snd]. clear -Hv. induction Hv as [|p l Hp _ IH]; cbn [map]; constructor; [exact Hp|exact IH].
  - clear -Hrows Jr Hcn NK. revert rts Hrows. induction Jr as [|cells rows Hcv _ IH]; intros rts Hrows; cbn [map]; [constructor|].
    inversion Hrows as [|? ts ? rts' [Hl _] Hrest]; subst. constructor; [|exact (IH rts' Hrest)].
    split.
    + rewrite <- NK. apply canon_combine; [rewrite NK; exact Hcn|rewrite <- NK in Hl; rewrite map_length in Hl; exact Hl].
    + clear -Hcv Hl. revert Hl. generalize (map fst cols). intros names Hl. revert names Hl.
      induction Hcv as [|x cells Hx _ IH]; intros [|nm names] Hl; cbn in Hl; try discriminate; cbn [combine]; constructor; [exact Hx|].
      apply IH. lia.
Qed.

(* VERSION 2.0, WITH METADATA: a 2.0 grid whose metadata values and cells are 2.0 values for the ZINC models (mval2 /
   cell2) and leaves for the JSON models (leaf2: strings, URIs, Bins, markers, nulls, booleans, Remove) comes back as the
   same grid, declared version included, from both formats *)
Theorem C07_grid_both_formats_2_0 : forall mps cols rows rts,
  Forall mval2 mps -> NoDup (mkeys mps) -> ~ In VERK (mkeys mps) ->
  cols <> [] -> Forall mcol2 cols -> NoDup (map fst cols) ->
  Forall2 (grid2_cells_ok (map fst cols)) rows rts ->
  Forall (fun p => leaf2 (snd (pkv p))) mps ->
  Forall (fun c => ~ In NAME (mkeys (snd c)) /\ Forall (fun p => leaf2 (snd (pkv p))) (snd c)) cols ->
  Forall (Forall leaf2) rows ->
  zparse_grid (meta_text2 mps cols rts) = Ok (meta_grid2 mps cols rows) /\
  (forall f g j, jdump_grid (S (S f)) V20 (map pkv mps) (map (fun c => (fst c, map pkv (snd c))) cols)
                            (map (fun cells => combine (map fst cols) cells) rows) = Ok j ->
                 exists m, j = JObj m /\ jparse_grid (S (S g)) m = Ok (meta_grid2 mps cols rows)).
Proof.
  intros mps cols rows rts Hm Hmn Hmv Hne Hc Hcn Hrows Jm Jc Jr.
  destruct (grid2_meta_roundtrip mps cols rows rts Hm Hmn Hmv Hne Hc Hcn Hrows) as [_ T]. split; [exact T|].
  intros f g j Hj. unfold meta_grid2.
  set (cols' := map (fun c : str * list (str * hval * str) => (fst c, map pkv (snd c))) cols) in *.
  assert (NK : map fst cols' = map fst cols) by (unfold cols'; rewrite map_map; reflexivity).
  apply (json_grid_roundtrip_2_0 f g V20 (map pkv mps) cols' _ j); try exact Hj.
  - destruct ver20_facts as [pv H]. exists pv. exact H.
  - unfold cols'. destruct cols; [contradiction|discriminate].
  - exact Hmn.
  - exact Hmv.
  - clear -Jm. induction Jm as [|p l Hp _ IH]; cbn [map]; constructor; [exact Hp|exact IH].
  - rewrite NK. exact Hcn.
  - unfold cols'. clear -Hc Jc. induction Jc as [|c l [Hn Hv] _ IH]; cbn [map]; [constructor|].
    inversion Hc as [|? ? [_ [_ Hnd]] Hc']; subst. constructor; [|exact (IH Hc')].
    split; [exact Hnd|]. split; [exact Hn|]. cbn [snd]. clear -Hv. induction Hv as [|p l Hp _ IH]; cbn [map]; constructor; [exact Hp|exact IH].
  - clear -Hrows Jr Hcn NK. revert rts Hrows. induction Jr as [|cells rows Hcv _ IH]; intros rts Hrows; cbn [map]; [constructor|].
    inversion Hrows as [|? ts ? rts' [Hl _] Hrest]; subst. constructor; [|exact (IH rts' Hrest)].
    split.
    + rewrite <- NK. apply canon_combine; [rewrite NK; exact Hcn|rewrite <- NK in Hl; rewrite map_length in Hl; exact Hl].
    + clear -Hcv Hl. revert Hl. generalize (map fst cols). intros names Hl. revert names Hl.
      induction Hcv as [|x cells Hx _ IH]; intros [|nm names] Hl; cbn in Hl; try discriminate; cbn [combine]; constructor; [exact Hx|].
      apply IH. lia.
Qed.

(* DATE-TIMES IN BOTH FORMATS: a date-time in a named zone is written by either writer with the same ISO text and zone
   name, and both readers hand on exactly that text and name (what they denote is the iso8601 / pytz oracle): the ZINC
   reading and the JSON reading of one written date-time are the same value *)
Theorem C07_datetime_both_formats : forall f g v3 pre3 y m d h mi s us off zn sg hh mm,
  iso_offset off = off_text sg hh mm -> dt_ok y m d h mi s us sg hh mm -> tzname_ok zn ->
  whole_minutes off ->
  let w := VDateTime y m d h mi s us off (ZName zn) in
  let raw := VDateTimeRaw (iso_datetime y m d h mi s us off) (Some zn) in
  (exists t, zdump (S f) false w = Ok t /\ forall rest, delim rest -> p_scalar (S g) v3 (t ++ rest) = Some (Ok raw, rest)) /\
  (exists j, jdump_scalar pre3 w = Ok (JStr j) /\ jparse_str pre3 j = Ok raw).
Proof.
  intros f g v3 pre3 y m d h mi s us off zn sg hh mm Eo Hok Hz Hw w raw. destruct (tzname_ok_json zn Hz) as [Hne Hc]. split.
  - exists (iso_datetime y m d h mi s us off ++ 32 :: zn)%list. split; [reflexivity|]. intros rest Hd.
    apply (datetime_written_read f g v3 y m d h mi s us off zn sg hh mm _ rest Eo Hok Hz Hd). reflexivity.
  - exists (116 :: 58 :: iso_datetime y m d h mi s us off ++ 32 :: zn)%list. split; [reflexivity|].
    destruct Hok as [Hv [[Hh [Hm [Hs Hu]]] _]]. destruct (date_bounds y m d Hv) as [By [Bm Bd]].
    apply rt_datetime; try assumption; lia.
Qed.

Example C07_grid_nonvacuous :
  let names := [s_ "a"; s_ "b"] in
  let rows := [[VStr (s_ "x"); VList [VMarker; VBool true]]; [VNull; VUri (s_ "u")]] in
  let rts := [[s_ """x"""; s_ "[M,T]"]; [s_ "N"; s_ "`u`"]] in
  Forall2 (grid_gcells_ok 1 names) rows rts /\ Forall (Forall (plain 2)) rows /\
  zparse_grid (plain_text names rts) = Ok (plain_grid names rows).
Proof.
  intros names rows rts.
  assert (H : Forall2 (grid_gcells_ok 1 names) rows rts).
  { constructor; [|constructor; [|constructor]]; (split; [reflexivity|]).
    - constructor; [apply gcell_zcell; left; apply (leafc_str (s_ "x") (s_ "x")); reflexivity|].
      constructor; [|constructor]. apply gcell_zcell. right. exists [VMarker; VBool true], [s_ "M"; s_ "T"].
      split; [reflexivity|]. split; [reflexivity|]. constructor; [exact leafc_marker|]. constructor; [exact (leafc_bool true)|constructor].
    - constructor; [apply gcell_zcell; left; exact leafc_null|]. constructor; [|constructor].
      apply gcell_zcell. left. apply (leafc_uri (s_ "u") (s_ "u")). reflexivity. }
  assert (P : Forall (Forall (plain 2)) rows) by (repeat constructor).
  split; [exact H|]. split; [exact P|].
  apply (C07_grid_both_formats 1 2 names rows rts); try assumption.
  - discriminate.
  - repeat constructor.
  - repeat constructor; vm_compute; intuition discriminate.
  - vm_compute. repeat constructor.
Qed.

Print Assumptions C07_grid_both_formats.
Print Assumptions C07_grid_both_formats_general.
Print Assumptions C07_grid_both_formats_2_0.
Print Assumptions C07_datetime_both_formats.
Print Assumptions C07_json_leg_nested.
Print Assumptions C07_json_normalisation_idempotent_nested.
Print Assumptions C07_zinc_leg.
Print Assumptions C07_json_leg.
Print Assumptions C07_text_always_dumps.
Print Assumptions C07_zinc_normalisation_idempotent.
Print Assumptions C07_json_normalisation_idempotent.
