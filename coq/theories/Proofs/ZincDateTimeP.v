(* Date-times through the scalar alternation: the raw ISO text and the zone name are what the reader hands on *)
From Coq Require Import String.
From Coq Require Import List NArith Bool Lia Arith.
From HS Require Import Base.Prelude Model.Value Model.Escape Model.Version Model.Json Model.ZincParse.
From HS Require Import Proofs.VersionP Proofs.EscapeP Proofs.JsonP Proofs.ZincParseP Proofs.ZincNumP Proofs.ZincDateP.
Import ListNotations.
Open Scope N_scope.

Definition tstop (rest : str) : Prop := match rest with c :: _ => is_digit c = false /\ c <> 46 | [] => True end.

Lemma p_time_str_gen h mi s us rest : time_ok h mi s us -> tstop rest ->
  p_time_str (iso_time h mi s us ++ rest) = Some (Ok (d2 h, d2 mi, d2 s, if us =? 0 then None else Some (d6 us)), rest).
Proof.
  intros [Hh [Hm [Hs Hu]]] Hr. unfold iso_time. rewrite <- !app_assoc. cbn [List.app]. unfold p_time_str.
  rewrite (two_digits_d2 h _ ltac:(lia)), hd_is_same, (two_digits_d2 mi _ ltac:(lia)), hd_is_same, (two_digits_d2 s _ ltac:(lia)).
  destruct (us =? 0) eqn:E; cbn [List.app].
  - destruct rest as [|c r]; [reflexivity|]. destruct Hr as [_ Hc]. rewrite (hd_is_other 46 c r Hc). reflexivity.
  - rewrite hd_is_same.
    assert (Sp : span is_digit (d6 us ++ rest) = (d6 us, rest)).
    { destruct rest as [|c r]; [rewrite app_nil_r; apply span_digits_d6; exact Hu|].
      apply JsonP.span_app; [apply forallb_d6_digits; exact Hu|exact (proj1 Hr)]. }
    rewrite Sp. reflexivity.
Qed.

(* a numeric offset +hh:mm / -hh:mm *)
Definition off_text (sg hh mm : N) : str := (sg :: d2 hh ++ 58 :: d2 mm)%list.
Definition off_ok (sg hh mm : N) : Prop := (sg = 43 \/ sg = 45) /\ hh < 100 /\ mm < 100 /\ hh * 60 + mm < 1440.

Lemma p_offset_num sg hh mm rest : off_ok sg hh mm -> p_offset (off_text sg hh mm ++ rest) = Some (Ok (off_text sg hh mm), rest).
Proof.
  intros [Hs [Hh [Hm _]]]. unfold off_text. cbn [List.app]. rewrite <- app_assoc. cbn [List.app].
  unfold p_offset, por.
  rewrite por_pick_skip by (unfold pmap, pchar; destruct Hs; subst; reflexivity).
  apply por_pick_take; [|apply Forall_nil].
  unfold pmap, pand, pchar.
  assert (E : (sg =? 43) || (sg =? 45) = true) by (destruct Hs; subst; reflexivity). rewrite E.
  rewrite (two_digits_d2 hh _ Hh), hd_is_same, (two_digits_d2 mm _ Hm). reflexivity.
Qed.

(* zone names: UTC, or an upper-case letter other than U and G followed by letters, digits, _ and - *)
Definition tzname_ok (n : str) : Prop :=
  n = [85; 84; 67] \/ match n with c :: r => is_upper c = true /\ c <> 85 /\ c <> 71 /\ Forall (fun x => is_tzname_rest x = true) r | [] => False end.
Definition zstop (rest : str) : Prop := match rest with c :: _ => is_tzname_rest c = false /\ is_digit c = false /\ c <> 43 | [] => True end.

Lemma p_tzname_reads n rest : tzname_ok n -> zstop rest -> p_timezone_name (n ++ rest) = Some (Ok n, rest).
Proof.
  intros [E|H] Hr.
  - subst n. cbn [List.app]. unfold p_timezone_name, por.
    assert (A : p_tz_utc_offset (85 :: 84 :: 67 :: rest) = Some (Ok [85; 84; 67], rest)).
    { unfold p_tz_utc_offset.
      match goal with |- pmap ?f (pand ?X ?Y) ?t = _ =>
        assert (P1 : X t = Some (Ok (s_ "UTC"), rest)) by reflexivity;
        assert (P2 : Y rest = Some (Ok None, rest));
        [|rewrite (pmap_ok f (pand X Y) t _ _ (pand_ok X Y t _ _ _ _ P1 P2)); reflexivity]
      end.
      unfold popt. rewrite por_none; [reflexivity|]. destruct rest as [|c r]; [repeat constructor|]. destruct Hr as [Ht [Hd Hp]].
      constructor.
      - unfold pmap, plit. cbn [strip_prefix]. destruct (N.eqb_spec 48 c) as [E|_]; [subst c; discriminate Hd|reflexivity].
      - constructor; [|constructor]. unfold pmap, pand, pchar.
        destruct (N.eqb_spec c 43); [contradiction|]. destruct (N.eqb_spec c 45) as [E|_]; [subst c; discriminate Ht|reflexivity]. }
    rewrite (por_pick_start _ _ _ _ _ A).
    assert (B : p_tz_name (85 :: 84 :: 67 :: rest) = Some (Ok [85; 84; 67], rest)).
    { unfold p_tz_name. cbn [is_upper]. assert (U : is_upper 85 = true) by reflexivity. rewrite U.
      change (84 :: 67 :: rest) with ([84; 67] ++ rest)%list.
      rewrite (span_all is_tzname_rest [84; 67] rest); [reflexivity|repeat constructor|]. destruct rest; [exact I|exact (proj1 Hr)]. }
    rewrite (por_pick_keep _ _ _ _ _ _ _ B (Nat.le_refl _)). reflexivity.
  - destruct n as [|c r]; [contradiction|]. destruct H as [Hu [H85 [H71 Hrr]]]. cbn [List.app]. unfold p_timezone_name, por.
    rewrite por_pick_skip.
    + apply por_pick_take; [|apply Forall_nil]. unfold p_tz_name. rewrite Hu.
      rewrite (span_all is_tzname_rest r rest Hrr); [reflexivity|]. destruct rest; [exact I|exact (proj1 Hr)].
    + unfold p_tz_utc_offset, pmap, pand. rewrite por_none; [reflexivity|].
      change (s_ "UTC") with [85; 84; 67]. change (s_ "GMT") with [71; 77; 84].
      constructor; [|constructor; [|constructor]]; unfold pmap, plit; cbn [strip_prefix].
      * destruct (N.eqb_spec 85 c); [subst; contradiction|reflexivity].
      * destruct (N.eqb_spec 71 c); [subst; contradiction|reflexivity].
Qed.

(* ---------- hs_isoDateTime and hs_dateTime ---------- *)
Definition dt_text (y m d h mi s us sg hh mm : N) : str := (iso_date y m d ++ 84 :: iso_time h mi s us ++ off_text sg hh mm)%list.
Definition dt_ok (y m d h mi s us sg hh mm : N) : Prop := valid_date y m d = true /\ time_ok h mi s us /\ off_ok sg hh mm.

Lemma time_text_iso h mi s us : time_text (d2 h, d2 mi, d2 s, if us =? 0 then None else Some (d6 us)) = iso_time h mi s us.
Proof. unfold time_text, iso_time. destruct (us =? 0); cbn [List.app]; rewrite <- ?app_assoc; reflexivity. Qed.

Lemma off_tstop sg hh mm rest : off_ok sg hh mm -> tstop (off_text sg hh mm ++ rest).
Proof. intros [[E|E] _]; subst; cbn; split; try reflexivity; discriminate. Qed.

Lemma p_iso_datetime_reads y m d h mi s us sg hh mm rest : dt_ok y m d h mi s us sg hh mm ->
  p_iso_datetime (dt_text y m d h mi s us sg hh mm ++ rest) = Some (Ok (dt_text y m d h mi s us sg hh mm), rest).
Proof.
  intros [Hv [Ht Ho]]. destruct (date_bounds y m d Hv) as [By [Bm Bd]].
  unfold dt_text. rewrite <- !app_assoc. cbn [List.app]. rewrite <- !app_assoc.
  set (P := pand p_date_str (pand (pchar (fun c => (c =? 84) || (c =? 116))) (pand p_time_str (popt p_offset)))).
  assert (Q : P (iso_date y m d ++ 84 :: iso_time h mi s us ++ off_text sg hh mm ++ rest)
            = Some (Ok ((d4 y, d2 m, d2 d), (84, ((d2 h, d2 mi, d2 s, if us =? 0 then None else Some (d6 us)), Some (off_text sg hh mm)))), rest)).
  { eapply pand_ok; [apply p_date_str_iso; assumption|]. eapply pand_ok; [reflexivity|].
    eapply pand_ok; [apply p_time_str_gen; [exact Ht|apply off_tstop; exact Ho]|].
    apply popt_ok. apply p_offset_num. exact Ho. }
  unfold p_iso_datetime. fold P. unfold pact. rewrite Q. cbv beta iota zeta. rewrite time_text_iso.
  destruct Ht as [Hh [Hm [Hs Hu]]]. destruct Ho as [Hsg [Hhh [Hmm Hlt]]].
  rewrite (int_d4 y By), (int_d2 m Bm), (int_d2 d Bd), (int_d2 h ltac:(lia)), (int_d2 mi ltac:(lia)), (int_d2 s ltac:(lia)), Hv.
  assert (B : (h <=? 23) && (mi <=? 59) && (s <=? 59) = true) by (rewrite !andb_true_iff; repeat split; apply N.leb_le; assumption).
  cbn [andb]. apply andb_true_iff in B. destruct B as [B B3]. apply andb_true_iff in B. destruct B as [B1 B2]. rewrite B1, B2, B3. cbn [andb].
  unfold off_text, d2. cbn [List.app].
  change [48 + (hh / 10) mod 10; 48 + hh mod 10] with (d2 hh). change [48 + (mm / 10) mod 10; 48 + mm mod 10] with (d2 mm).
  rewrite (int_d2 hh Hhh), (int_d2 mm Hmm). apply N.ltb_lt in Hlt. rewrite Hlt.
  unfold date_text. rewrite <- !app_assoc. cbn [List.app]. reflexivity.
Qed.

Definition dtz_text (y m d h mi s us sg hh mm : N) (zn : str) : str := (dt_text y m d h mi s us sg hh mm ++ 32 :: zn)%list.

Lemma p_datetime_reads y m d h mi s us sg hh mm zn rest : dt_ok y m d h mi s us sg hh mm -> tzname_ok zn -> zstop rest ->
  p_datetime (dtz_text y m d h mi s us sg hh mm zn ++ rest)
  = Some (Ok (VDateTimeRaw (dt_text y m d h mi s us sg hh mm) (Some zn)), rest).
Proof.
  intros Hok Hz Hr. unfold dtz_text. rewrite <- app_assoc. cbn [List.app]. unfold p_datetime.
  assert (A : p_iso_datetime (dt_text y m d h mi s us sg hh mm ++ 32 :: zn ++ rest) = Some (Ok (dt_text y m d h mi s us sg hh mm), 32 :: zn ++ rest))
    by (apply p_iso_datetime_reads; exact Hok).
  assert (B : popt (pthen (plit [32]) p_timezone_name) (32 :: zn ++ rest) = Some (Ok (Some zn), rest)).
  { apply popt_ok. unfold pthen, pmap, pand. assert (L : plit [32] (32 :: zn ++ rest) = Some (Ok tt, zn ++ rest)) by reflexivity.
    rewrite L, (p_tzname_reads zn rest Hz Hr). reflexivity. }
  unfold pmap, pand. rewrite A, B. reflexivity.
Qed.

Lemma delim_zstop rest : delim rest -> zstop rest.
Proof. intro H. apply delim_hd in H. destruct rest as [|c r]; [exact I|]. dl H; repeat split; try reflexivity; discriminate. Qed.

(* no character of the text is an opening parenthesis *)
Lemma tzrest_not40 x : is_tzname_rest x = true -> x <> 40.
Proof. intros H E. subst. discriminate. Qed.

Theorem scalar_datetime f v3 y m d h mi s us sg hh mm zn rest : dt_ok y m d h mi s us sg hh mm -> tzname_ok zn -> delim rest ->
  p_scalar (S f) v3 (dtz_text y m d h mi s us sg hh mm zn ++ rest)
  = Some (Ok (VDateTimeRaw (dt_text y m d h mi s us sg hh mm) (Some zn)), rest).
Proof.
  intros Hok Hz Hd. pose proof (p_datetime_reads y m d h mi s us sg hh mm zn rest Hok Hz (delim_zstop rest Hd)) as PDT.
  destruct Hok as [Hv [Ht Ho]]. destruct (date_bounds y m d Hv) as [By [Bm Bd]].
  set (tail := (84 :: iso_time h mi s us ++ off_text sg hh mm ++ 32 :: zn ++ rest)%list).
  assert (TX : (dtz_text y m d h mi s us sg hh mm zn ++ rest)%list = (iso_date y m d ++ tail)%list).
  { unfold dtz_text, dt_text, tail. rewrite <- !app_assoc. cbn [List.app]. rewrite <- !app_assoc. reflexivity. }
  rewrite TX in *.
  (* the date rule reads the date only *)
  assert (PD : p_date (iso_date y m d ++ tail) = Some (Ok (VDate y m d), tail)) by (apply date_p_date; exact Hv).
  assert (PN : p_number (iso_date y m d ++ tail) = Some (Ok (VNum NkFin (d4 y) (d4 y) None), 45 :: d2 m ++ 45 :: d2 d ++ tail)).
  { unfold iso_date. rewrite <- !app_assoc. cbn [List.app]. apply p_number_digits; [apply d4_digs| |reflexivity]. cbn. repeat split; discriminate. }
  assert (PX : p_xstr (iso_date y m d ++ tail) = None).
  { unfold iso_date. rewrite <- !app_assoc. cbn [List.app]. apply p_xstr_none; [apply digs_not40; exact (proj2 (d4_digs y))|]. split; [reflexivity|discriminate]. }
  assert (PT : p_time (iso_date y m d ++ tail) = None).
  { unfold iso_date, d4. cbn [List.app]. apply four_digs_no_time; apply adig_mod. }
  assert (L1 : Nat.le (length rest) (length tail)).
  { unfold tail. cbn [length]. rewrite !app_length. cbn [length]. rewrite !app_length. lia. }
  assert (L2 : Nat.le (length rest) (length (45 :: d2 m ++ 45 :: d2 d ++ tail))).
  { cbn [length]. rewrite !app_length. cbn [length]. rewrite !app_length. lia. }
  clearbody tail. revert PDT PD PN PX PT L2. unfold iso_date, d4. cbn [List.app].
  pose proof (adig_mod (y / 1000)) as Ha. set (a := 48 + (y / 1000) mod 10) in *.
  set (tl := (48 + (y / 100) mod 10 :: 48 + (y / 10) mod 10 :: 48 + y mod 10 :: 45 :: d2 m ++ 45 :: d2 d ++ tail)).
  set (nrest := (45 :: d2 m ++ 45 :: d2 d ++ tail)).
  clearbody tl nrest. clearbody a.
  dcases Ha; intros PDT PD PN PX PT L2; cbn [p_scalar]; destruct v3; cbv zeta; unfold scalars_2_0, por.
  all: try (rewrite por_pick_skip by reflexivity; rewrite por_pick_skip by exact PX; do 3 rewrite por_pick_skip by reflexivity;
            erewrite por_pick_start by exact PDT;
            erewrite por_pick_keep by first [exact PD | exact L1];
            rewrite por_pick_skip by exact PT; rewrite por_pick_skip by reflexivity;
            erewrite por_pick_keep by first [exact PN | exact L2];
            apply por_pick_rest_none; repeat (apply Forall_cons; [reflexivity|]); apply Forall_nil).
  all: (do 4 rewrite por_pick_skip by reflexivity;
        erewrite por_pick_start by exact PDT;
        erewrite por_pick_keep by first [exact PD | exact L1];
        rewrite por_pick_skip by exact PT; rewrite por_pick_skip by reflexivity;
        erewrite por_pick_keep by first [exact PN | exact L2];
        apply por_pick_rest_none; repeat (apply Forall_cons; [reflexivity|]); apply Forall_nil).
Qed.

(* the writer's text for a date-time in a named zone *)
From HS Require Import Model.ZincDump Proofs.ZincDumpP.
Theorem datetime_written_read f g v3 y m d h mi s us off zn sg hh mm t rest :
  iso_offset off = off_text sg hh mm -> dt_ok y m d h mi s us sg hh mm -> tzname_ok zn -> delim rest ->
  zdump (S f) false (VDateTime y m d h mi s us off (ZName zn)) = Ok t ->
  p_scalar (S g) v3 (t ++ rest) = Some (Ok (VDateTimeRaw (iso_datetime y m d h mi s us off) (Some zn)), rest).
Proof.
  intros Eo Hok Hz Hd Q.
  assert (Dp : zdump (S f) false (VDateTime y m d h mi s us off (ZName zn)) = Ok (iso_datetime y m d h mi s us off ++ 32 :: zn)%list) by reflexivity.
  rewrite Dp in Q. apply ok_inj in Q. subst t.
  assert (E : iso_datetime y m d h mi s us off = dt_text y m d h mi s us sg hh mm).
  { unfold iso_datetime, dt_text. rewrite Eo. cbn [List.app]. rewrite <- ?app_assoc. reflexivity. }
  rewrite E. fold (dtz_text y m d h mi s us sg hh mm zn). exact (scalar_datetime g v3 y m d h mi s us sg hh mm zn rest Hok Hz Hd).
Qed.
