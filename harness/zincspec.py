"""Independent ZINC reader written from the Project Haystack grammar (recursive
descent, first-character dispatch).  It shares no code with hszinc: it is the
"independent, spec-derived reader" of C04 and the oracle of C03.  Returns the
canonical forms of codec.canon / jsonsim (date-times as 'dt-spec')."""
import datetime
import re

from codec import fbits


class ZincSpecError(Exception):
    pass


ID_RE = re.compile(r'[a-z][a-zA-Z0-9_]*')
NUM_RE = re.compile(r'-?[0-9][0-9_]*(\.[0-9][0-9_]*)?([eE][+-]?[0-9][0-9_]*)?')
DATE_RE = re.compile(r'([0-9]{4})-([0-9]{2})-([0-9]{2})')
TIME_RE = re.compile(r'([0-9]{2}):([0-9]{2}):([0-9]{2})(\.[0-9]+)?')
OFF_RE = re.compile(r'[zZ]|[+-][0-9]{2}:[0-9]{2}')
TZ_RE = re.compile(r'[A-Z][a-zA-Z0-9_\-+]*')
REF_RE = re.compile(r'[a-zA-Z0-9_:\-.~]*')
XSTR_RE = re.compile(r'[A-Z][a-zA-Z0-9_]*\(')


def unit_char(c):
    return c.isascii() and c.isalpha() or c in '%_/$' or ord(c) >= 0x80


class Reader:
    def __init__(self, text, pre3):
        self.t = text
        self.p = 0
        self.pre3 = pre3

    def peek(self, n=1):
        return self.t[self.p:self.p + n]

    def eat(self, s):
        if not self.t.startswith(s, self.p):
            raise ZincSpecError('expected %r at %d, found %r' % (s, self.p, self.peek(10)))
        self.p += len(s)

    def spaces(self):
        while self.peek() == ' ':
            self.p += 1

    def match(self, regex):
        m = regex.match(self.t, self.p)
        if not m:
            return None
        self.p = m.end()
        return m

    # ---- strings
    def quoted(self, q, extra_escapes):
        self.eat(q)
        out = []
        while True:
            if self.p >= len(self.t):
                raise ZincSpecError('unterminated literal')
            c = self.t[self.p]
            if c == q:
                self.p += 1
                return ''.join(out)
            if ord(c) < 0x20:
                raise ZincSpecError('raw control character U+%04X in literal' % ord(c))
            if c == '\\':
                e = self.t[self.p + 1:self.p + 2]
                if e in ('u', 'U'):
                    hx = self.t[self.p + 2:self.p + 6]
                    if not re.fullmatch(r'[0-9a-fA-F]{4}', hx):
                        raise ZincSpecError('bad \\u escape')
                    out.append(chr(int(hx, 16)))
                    self.p += 6
                    continue
                table = {'b': '\b', 'f': '\f', 'n': '\n', 'r': '\r', 't': '\t', '\\': '\\', q: q}
                table.update(extra_escapes)
                if e not in table:
                    raise ZincSpecError('illegal escape \\%s' % e)
                out.append(table[e])
                self.p += 2
                continue
            out.append(c)
            self.p += 1

    def str_lit(self):
        return self.quoted('"', {'$': '$'})

    def uri_lit(self):
        return self.quoted('`', {c: c for c in ':/?#[]@&=;'})

    # ---- values
    def val(self):
        c = self.peek()
        if c == '':
            raise ZincSpecError('value expected')
        if c == '"':
            return ('str', self.str_lit())
        if c == '`':
            return ('uri', self.uri_lit())
        if c == '@':
            self.p += 1
            name = self.match(REF_RE).group(0)
            if self.peek(2) == ' "':
                self.p += 1
                return ('ref', name, self.str_lit())
            return ('ref', name, None)
        if c == '[':
            if self.pre3:
                raise ZincSpecError('list under 2.0')
            return self.list_lit()
        if c == '{':
            if self.pre3:
                raise ZincSpecError('dict under 2.0')
            return self.dict_lit()
        if self.peek(2) == '<<':
            if self.pre3:
                raise ZincSpecError('grid under 2.0')
            self.p += 2
            self.spaces()
            g = self.grid()
            self.spaces()
            self.eat('>>')
            return g
        if c.isdigit() or c == '-':
            return self.numeric()
        # keywords and typed literals
        if self.peek(2) == 'C(':
            self.p += 2
            la = self.match(re.compile(r'-?[0-9]*\.?[0-9]*')).group(0)
            self.spaces()
            self.eat(',')
            self.spaces()
            lo = self.match(re.compile(r'-?[0-9]*\.?[0-9]*')).group(0)
            self.eat(')')
            return ('coord', fbits(float(la)), fbits(float(lo)))
        if self.peek(4) == 'Bin(' and self.peek(5) != 'Bin("':
            self.p += 4
            end = self.t.find(')', self.p)
            if end < 0:
                raise ZincSpecError('unterminated Bin')
            mime = self.t[self.p:end]
            self.p = end + 1
            return ('bin', mime)
        m = XSTR_RE.match(self.t, self.p)
        if m:
            if self.pre3:
                raise ZincSpecError('XStr under 2.0')
            enc = m.group(0)[:-1]
            self.p = m.end()
            data = self.str_lit()
            self.eat(')')
            return xstr(enc, data)
        for kw, v in (('NaN', ('num', fbits(float('nan')), None)), ('NA', ('na',)), ('INF', ('num', fbits(float('inf')), None)),
                      ('N', ('null',)), ('M', ('marker',)), ('R', ('remove',)), ('T', ('bool', True)), ('F', ('bool', False))):
            if self.t.startswith(kw, self.p):
                if kw == 'NA' and self.pre3:
                    raise ZincSpecError('NA under 2.0')
                self.p += len(kw)
                return v
        # lower-case hex / b64 xstr types are not capitalised in hszinc's own writer: hex("..") b64("..")
        m = re.compile(r'[a-zA-Z][a-zA-Z0-9_]*\(').match(self.t, self.p)
        if m and not self.pre3:
            enc = m.group(0)[:-1]
            self.p = m.end()
            data = self.str_lit()
            self.eat(')')
            return xstr(enc, data)
        raise ZincSpecError('unexpected %r at %d' % (self.peek(10), self.p))

    def numeric(self):
        if self.peek(4) == '-INF':
            self.p += 4
            return ('num', fbits(float('-inf')), None)
        m = DATE_RE.match(self.t, self.p)
        if m and self.t[m.end():m.end() + 1] in ('T', 't'):
            # date-time
            y, mo, d = map(int, m.groups())
            self.p = m.end() + 1
            tm = self.match(TIME_RE)
            if not tm:
                raise ZincSpecError('bad time in date-time')
            off = self.match(OFF_RE)
            hh, mi, ss = int(tm.group(1)), int(tm.group(2)), int(tm.group(3))
            us = int((tm.group(4) or '.0')[1:7].ljust(6, '0'))
            if off is None:
                offs = 0
            elif off.group(0) in 'zZ':
                offs = 0
            else:
                o = off.group(0)
                offs = (1 if o[0] == '+' else -1) * (int(o[1:3]) * 3600 + int(o[4:6]) * 60)
            zone = None
            if self.peek() == ' ' and TZ_RE.match(self.t, self.p + 1):
                self.p += 1
                zone = self.match(TZ_RE).group(0)
            local = datetime.datetime(y, mo, d, hh, mi, ss, us)
            utc = (local - datetime.timedelta(seconds=offs)).replace(tzinfo=datetime.timezone.utc)
            return ('dt-spec', utc.isoformat(), offs, zone)
        if m:
            self.p = m.end()
            d = datetime.date(*map(int, m.groups()))
            return ('date', d.year, d.month, d.day)
        tm = TIME_RE.match(self.t, self.p)
        if tm:
            self.p = tm.end()
            us = int((tm.group(4) or '.0')[1:7].ljust(6, '0'))
            t = datetime.time(int(tm.group(1)), int(tm.group(2)), int(tm.group(3)), us)
            return ('time', t.hour, t.minute, t.second, t.microsecond, False)
        nm = self.match(NUM_RE)
        if not nm:
            raise ZincSpecError('bad number at %d' % self.p)
        x = float(nm.group(0).replace('_', ''))
        start = self.p
        while self.p < len(self.t) and unit_char(self.t[self.p]):
            self.p += 1
        unit = self.t[start:self.p] or None
        return ('num', fbits(x), unit)

    def list_lit(self):
        self.eat('[')
        self.spaces()
        items = []
        while self.peek() != ']':
            items.append(self.val())
            self.spaces()
            if self.peek() == ',':
                self.p += 1
                self.spaces()
            elif self.peek() != ']':
                raise ZincSpecError('expected , or ] in list')
        self.eat(']')
        return ('list',) + tuple(items)

    def dict_lit(self):
        self.eat('{')
        self.spaces()
        items = []
        while self.peek() != '}':
            items.append(self.tag())
            self.spaces()
        self.eat('}')
        d = {}
        for k, v in items:
            d[k] = v
        return ('dict',) + tuple(d.items())

    def tag(self):
        m = self.match(ID_RE)
        if not m:
            raise ZincSpecError('tag name expected at %d: %r' % (self.p, self.peek(10)))
        name = m.group(0)
        if self.peek() == ':':
            self.p += 1
            self.spaces()
            return name, self.val()
        return name, ('marker',)

    def meta(self):
        """tags separated by single spaces, up to , or newline"""
        items = []
        while self.peek() == ' ' and ID_RE.match(self.t, self.p + 1):
            self.p += 1
            m = self.match(ID_RE)
            name = m.group(0)
            save = self.p
            self.spaces()
            if self.peek() == ':':
                self.p += 1
                self.spaces()
                items.append((name, self.val()))
            else:
                self.p = save
                items.append((name, ('marker',)))
        d = {}
        for k, v in items:
            d[k] = v
        return tuple(d.items())

    def nl(self):
        self.spaces()
        if self.peek(2) == '\r\n':
            self.p += 2
        elif self.peek() == '\n':
            self.p += 1
        else:
            raise ZincSpecError('newline expected at %d, found %r' % (self.p, self.peek(10)))

    def grid(self):
        self.eat('ver:')
        ver = self.str_lit()
        outer_pre3 = self.pre3
        self.pre3 = not (ver.startswith('3') or ver.startswith('4') or ver.startswith('2.5'))
        meta = self.meta()
        self.nl()
        cols = []
        while True:
            m = self.match(ID_RE)
            if not m:
                raise ZincSpecError('column name expected at %d' % self.p)
            cols.append((m.group(0), self.meta()))
            self.spaces()
            if self.peek() == ',':
                self.p += 1
                self.spaces()
                continue
            break
        self.nl()
        names = [c for c, _ in cols]
        rows = []
        while self.p < len(self.t) and not (self.peek(2) == '>>' or re.match(r' *>>', self.t[self.p:self.p + 20])):
            cells = []
            while True:
                self.spaces()
                if self.peek() in (',', '\n', '\r', ''):
                    cells.append(('null',))
                else:
                    cells.append(self.val())
                self.spaces()
                if self.peek() == ',':
                    self.p += 1
                    continue
                break
            self.nl()
            if len(cells) != len(names):
                raise ZincSpecError('row has %d cells for %d columns' % (len(cells), len(names)))
            rows.append(tuple(zip(names, cells)))
        self.pre3 = outer_pre3
        return ('grid', ver, meta, tuple(cols), tuple(rows))


def xstr(enc, data):
    if enc == 'hex':
        if not re.fullmatch(r'([0-9a-fA-F]{2})*', data):
            raise ZincSpecError('bad hex')
        return ('xstr', enc, data.lower())
    if enc == 'b64':
        import base64
        try:
            return ('xstr', enc, base64.b64decode(data, validate=True).hex())
        except Exception:
            raise ZincSpecError('bad base64')
    return ('xstr', enc, ('text', data))


def read_grid(text):
    r = Reader(text, False)
    g = r.grid()
    if r.p != len(text):
        raise ZincSpecError('trailing text at %d: %r' % (r.p, text[r.p:r.p + 20]))
    return g


def read_scalar(text, pre3):
    r = Reader(text, pre3)
    v = r.val()
    if r.p != len(text):
        raise ZincSpecError('trailing text at %d: %r' % (r.p, text[r.p:r.p + 20]))
    return v


def read_doc(text):
    """several grids separated by blank lines"""
    chunks = [c for c in re.split(r'(?<=\n)\n+', re.sub(r'\n+$', '\n', text)) if c.strip()]
    return [read_grid(c) for c in chunks]
