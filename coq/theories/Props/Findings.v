(* Refuted statements: defects that were found on the pinned tree and repaired
   by `fix:` commits in /repo.  Each is stated against a frozen copy of the
   pre-fix definition so that the history stays checkable. *)
From HS Require Import Base.Prelude Model.Version.
Open Scope N_scope.

(* C18 / F12: before the fix, __hash__ was hash(str(self)) *)
Definition hash_key_legacy (v : ver) : str := vstr v.
Theorem C18_eq_hash_refuted_legacy :
  exists a b, veq a b = true /\ hash_key_legacy a <> hash_key_legacy b.
Proof. exists (mkVer [2] None), (mkVer [2;0] None). vm_compute. split; [reflexivity|discriminate]. Qed.

(* C16 / F11: before the fix, add_item computed the target index of a key
   moved relative to another key BEFORE removing it *)
From HS Require Import Model.SortableDict.
Open Scope Z_scope.
Definition add_item_reloc_legacy (order0 : list key) (k K : key) (after : bool) : list key :=
  match index_of K order0 with
  | Some n => py_insert (if after then Z.of_nat n + 1 else Z.of_nat n) k (remove_first k order0)
  | None => order0
  end.
Theorem C16_relocation_refuted_legacy :
  exists order0 k K,
    add_item_reloc_legacy order0 k K false
    <> map fst (fst (om_add (map (fun x => (x, 0)) order0) k 0 false None (Some K) true)).
Proof.
  exists [[97]; [98]; [99]; [100]]%N, [97]%N, [99]%N. vm_compute. discriminate.
Qed.

(* C14/C15 / F10: before the fix __setitem__ and __delitem__ removed the old
   row from the index with the RAW id as key although the index is keyed by
   str(id): rows whose id is a Ref or a number stayed reachable after deletion *)
From HS Require Import Model.Grid.
Definition legacy_unindex (m : gindex) (raw_key_matches : bool) (k : str) : gindex :=
  if raw_key_matches then filter (fun kv => negb (str_eqb (fst kv) k)) m else m.
Theorem C15_stale_entry_refuted_legacy :
  exists (r : row) (k : str),
    let m := build_index [r] in
    (* a Ref id never equals its own string form, so nothing was removed *)
    idx_lookup k (legacy_unindex m false k) = Some r /\ ~ In r [].
Proof.
  exists (mkRow 1%N (Some (IdRef [120%N] None)) 0%Z false), [64%N; 120%N].
  vm_compute. split; [reflexivity | tauto].
Qed.
