(* Documents of one grid through parser.parse of the ZINC reader model *)
From Coq Require Import String.
From Coq Require Import List NArith Bool Lia Arith.
From HS Require Import Base.Prelude Model.Value Model.Escape Model.Version Model.Json Model.ZincParse.
From HS Require Import Proofs.ZincParseP.
Import ListNotations.
Open Scope N_scope.

(* no empty line: no two line feeds in a row *)
Fixpoint no_adj (t : str) : bool :=
  match t with
  | a :: ((b :: _) as t') => negb ((a =? 10) && (b =? 10)) && no_adj t'
  | _ => true
  end.

Lemma split_one : forall t cur afternl, no_adj t = true ->
  (afternl = true -> match t with c :: _ => (c =? 10) = false | [] => True end) ->
  split_grids_from cur afternl false t = [(rev cur ++ t)%list].
Proof.
  induction t as [|c t IH]; intros cur afternl Hn Ha; cbn [split_grids_from].
  - rewrite app_nil_r. reflexivity.
  - assert (Hn' : no_adj t = true) by (destruct t as [|b t']; [reflexivity|]; cbn [no_adj] in Hn; apply andb_true_iff in Hn; exact (proj2 Hn)).
    destruct (c =? 10) eqn:Ec.
    + destruct afternl; [specialize (Ha eq_refl); cbn in Ha; congruence|].
      rewrite (IH (c :: cur) true Hn').
      * cbn [rev]. rewrite <- app_assoc. reflexivity.
      * intros _. destruct t as [|b t']; [exact I|]. cbn [no_adj] in Hn. apply andb_true_iff in Hn. destruct Hn as [Hn _].
        rewrite Ec in Hn. cbn [andb] in Hn. destruct (b =? 10); [discriminate|reflexivity].
    + rewrite (IH (c :: cur) false Hn'); [|discriminate]. cbn [rev]. rewrite <- app_assoc. reflexivity.
Qed.

Lemma strip_keep s : s <> [] -> (last s 0 =? 10) = false -> strip_trailing_nls s = s.
Proof.
  induction s as [|c s IH]; intros Hne Hl; [contradiction|]. cbn [strip_trailing_nls]. destruct s as [|d s'].
  - cbn [strip_trailing_nls]. cbn [last] in Hl. rewrite Hl. reflexivity.
  - rewrite IH; [reflexivity|discriminate|exact Hl].
Qed.

(* a text of non-empty lines, each ended by one line feed, is one chunk: parser.parse hands it to parse_grid as it is *)
Theorem doc_single s g : s <> [] -> (last s 0 =? 10) = false -> no_adj (s ++ [10]) = true ->
  (match s with c :: _ => negb ((c =? 32) || ((9 <=? c) && (c <=? 13)) || ((28 <=? c) && (c <=? 31)) || (c =? 133) || (c =? 160)
                    || (c =? 5760) || ((8192 <=? c) && (c <=? 8202)) || (c =? 8232) || (c =? 8233) || (c =? 8239)
                    || (c =? 8287) || (c =? 12288)) = true | [] => False end) ->
  zparse_grid (s ++ [10]) = Ok g -> zparse_doc (s ++ [10]) = Ok [g].
Proof.
  intros Hne Hl Hn Hb Hg. unfold zparse_doc.
  assert (NT : norm_trailing (s ++ [10]) = (s ++ [10])%list).
  { unfold norm_trailing. rewrite strip_trailing_nls_app_nl, (strip_keep s Hne Hl). destruct s; [contradiction|reflexivity]. }
  rewrite NT. unfold split_grids. rewrite (split_one (s ++ [10]) [] false Hn) by discriminate. cbn [rev List.app filter].
  assert (B : is_blank_chunk (s ++ [10]) = false).
  { destruct s as [|c s']; [contradiction|]. cbn [List.app is_blank_chunk forallb]. apply negb_true_iff in Hb. rewrite Hb. reflexivity. }
  rewrite B. cbn [negb]. rewrite Hg. reflexivity.
Qed.
