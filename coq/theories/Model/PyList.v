(* CPython list primitives, polymorphic: index normalisation (negative
   indices), insert clamping, item get/set/delete, extended slices
   (PySlice_AdjustIndices).  Executable definitions only. *)
From HS Require Import Base.Prelude.
Open Scope Z_scope.

Section PyList.
  Context {A : Type}.

  Fixpoint ins_nat (n : nat) (x : A) (l : list A) : list A :=
    match n, l with
    | O, _ => x :: l
    | S n', [] => [x]
    | S n', y :: l' => y :: ins_nat n' x l'
    end.

  (* list.insert(i, x) *)
  Definition ins_pos (i : Z) (len : nat) : nat :=
    let n := Z.of_nat len in
    let j := if i <? 0 then i + n else i in
    if j <? 0 then O else if n <? j then len else Z.to_nat j.
  Definition py_ins (i : Z) (x : A) (l : list A) : list A := ins_nat (ins_pos i (length l)) x l.

  (* l[i], l[i] = x, del l[i]: None = IndexError *)
  Definition norm_index (i : Z) (len : nat) : option nat :=
    let n := Z.of_nat len in
    let j := if i <? 0 then i + n else i in
    if (j <? 0) || (n <=? j) then None else Some (Z.to_nat j).

  Definition py_get (i : Z) (l : list A) : option A :=
    match norm_index i (length l) with Some n => nth_error l n | None => None end.

  Fixpoint set_nat (n : nat) (x : A) (l : list A) : list A :=
    match n, l with
    | _, [] => []
    | O, _ :: l' => x :: l'
    | S n', y :: l' => y :: set_nat n' x l'
    end.
  Definition py_set (i : Z) (x : A) (l : list A) : option (list A) :=
    match norm_index i (length l) with Some n => Some (set_nat n x l) | None => None end.

  Fixpoint del_nat (n : nat) (l : list A) : list A :=
    match n, l with
    | _, [] => []
    | O, _ :: l' => l'
    | S n', y :: l' => y :: del_nat n' l'
    end.
  Definition py_del (i : Z) (l : list A) : option (list A) :=
    match norm_index i (length l) with Some n => Some (del_nat n l) | None => None end.

  (* ---- slices: (start, stop, step), each optional ---- *)
  Definition slice := (option Z * option Z * option Z)%type.

  (* PySlice_AdjustIndices; None = ValueError (step 0) *)
  Definition slice_indices (sl : slice) (len : nat) : option (Z * Z * Z) :=
    let '(ostart, ostop, ostep) := sl in
    let n := Z.of_nat len in
    let step := match ostep with Some s => s | None => 1 end in
    if step =? 0 then None else
    let adj (v : Z) : Z :=
      if v <? 0 then
        let v' := v + n in
        if v' <? 0 then (if step <? 0 then -1 else 0) else v'
      else if n <=? v then (if step <? 0 then n - 1 else n) else v in
    let start := match ostart with Some v => adj v | None => if step <? 0 then n - 1 else 0 end in
    let stop := match ostop with Some v => adj v | None => if step <? 0 then -1 else n end in
    Some (start, stop, step).

  (* range(start, stop, step) as positions; fuel bounds the length *)
  Fixpoint range_fuel (fuel : nat) (cur stop step : Z) : list nat :=
    match fuel with
    | O => []
    | S f =>
        if (if 0 <? step then cur <? stop else stop <? cur)
        then Z.to_nat cur :: range_fuel f (cur + step) stop step
        else []
    end.

  Definition slice_positions (sl : slice) (len : nat) : option (list nat) :=
    match slice_indices sl len with
    | None => None
    | Some (start, stop, step) => Some (range_fuel (S len) start stop step)
    end.

  Definition py_get_slice (sl : slice) (l : list A) : option (list A) :=
    match slice_positions sl (length l) with
    | None => None
    | Some ps => Some (flat_map (fun p => match nth_error l p with Some x => [x] | None => [] end) ps)
    end.

  Fixpoint memnat (n : nat) (l : list nat) : bool :=
    match l with [] => false | m :: l' => Nat.eqb n m || memnat n l' end.

  Fixpoint drop_positions (ps : list nat) (cur : nat) (l : list A) : list A :=
    match l with
    | [] => []
    | x :: l' => if memnat cur ps then drop_positions ps (S cur) l'
                 else x :: drop_positions ps (S cur) l'
    end.

  Definition py_del_slice (sl : slice) (l : list A) : option (list A) :=
    match slice_positions sl (length l) with
    | None => None
    | Some ps => Some (drop_positions ps O l)
    end.
End PyList.
