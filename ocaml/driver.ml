(* Line-oriented S-expression front end of the extracted model.
   One command per input line, one result per output line.
   Wire syntax:  ( ... )  lists;  -?[0-9]+  integers;  #c.c.c  a string given by
   its decimal code points (# alone = empty string);  a bare word
   [A-Za-z_][A-Za-z0-9_-]* abbreviates the string with those characters. *)
module H = Hsmodel
type positive = H.positive
type n = H.n
type z = H.z
type sexp = H.sexp

let rec pos_of_int (i : int) : positive =
  if i = 1 then H.XH
  else if i land 1 = 0 then H.XO (pos_of_int (i lsr 1))
  else H.XI (pos_of_int (i lsr 1))

let n_of_int (i : int) : n = if i = 0 then H.N0 else H.Npos (pos_of_int i)

let rec int_of_pos (p : positive) : int =
  match p with H.XH -> 1 | H.XO q -> 2 * int_of_pos q | H.XI q -> 2 * int_of_pos q + 1

let int_of_n (x : n) : int = match x with H.N0 -> 0 | H.Npos p -> int_of_pos p

(* decimal digit string (no sign, non-empty) -> positive option (None for 0),
   by repeated halving of the decimal numeral, so any size is accepted *)
let pos_of_decimal (s : string) : positive option =
  let digits = Array.init (String.length s) (fun i -> Char.code s.[i] - 48) in
  let is_zero () = Array.for_all (fun d -> d = 0) digits in
  let halve () =
    let carry = ref 0 in
    Array.iteri (fun i d ->
        let cur = !carry * 10 + d in
        digits.(i) <- cur / 2;
        carry := cur mod 2) digits;
    !carry in
  let bits = ref [] in
  while not (is_zero ()) do
    bits := halve () :: !bits
  done;
  (* !bits is most-significant first *)
  match !bits with
  | [] -> None
  | _ :: rest ->
      Some (List.fold_left (fun acc b -> if b = 1 then H.XI acc else H.XO acc) H.XH rest)

let z_of_decimal (s : string) : z =
  let neg = String.length s > 0 && s.[0] = '-' in
  let body = if neg then String.sub s 1 (String.length s - 1) else s in
  match pos_of_decimal body with
  | None -> H.Z0
  | Some p -> if neg then H.Zneg p else H.Zpos p

exception Syntax

let parse_line (s : string) : sexp =
  let len = String.length s in
  let pos = ref 0 in
  let peek () = if !pos < len then Some s.[!pos] else None in
  let rec skip () =
    match peek () with
    | Some (' ' | '\t' | '\r' | '\n') -> incr pos; skip ()
    | _ -> () in
  let is_digit c = c >= '0' && c <= '9' in
  let is_word c =
    (c >= 'a' && c <= 'z') || (c >= 'A' && c <= 'Z') || c = '_' || c = '-' || is_digit c in
  let take p =
    let start = !pos in
    while !pos < len && p s.[!pos] do incr pos done;
    String.sub s start (!pos - start) in
  let rec item () : sexp =
    skip ();
    match peek () with
    | None -> raise Syntax
    | Some '(' ->
        incr pos;
        let items = ref [] in
        let rec loop () =
          skip ();
          match peek () with
          | Some ')' -> incr pos
          | None -> raise Syntax
          | _ -> items := item () :: !items; loop () in
        loop ();
        H.SList (List.rev !items)
    | Some '#' ->
        incr pos;
        let body = take (fun c -> is_digit c || c = '.') in
        if body = "" then H.SStr []
        else H.SStr (List.map (fun d -> if d = "" then raise Syntax else n_of_int (int_of_string d))
                     (String.split_on_char '.' body))
    | Some c when is_digit c || (c = '-' && !pos + 1 < len && is_digit s.[!pos + 1]) ->
        let sign = if c = '-' then (incr pos; "-") else "" in
        let body = take is_digit in
        H.SInt (z_of_decimal (sign ^ body))
    | Some c when is_word c ->
        let w = take is_word in
        H.SStr (List.init (String.length w) (fun i -> n_of_int (Char.code w.[i])))
    | _ -> raise Syntax in
  let r = item () in
  skip ();
  if !pos <> len then raise Syntax;
  r

let buf = Buffer.create 65536

let is_bare (l : int list) : bool =
  match l with
  | [] -> false
  | c :: _ ->
      let ok_first = (c >= 97 && c <= 122) || (c >= 65 && c <= 90) || c = 95 in
      ok_first
      && List.for_all (fun c ->
             (c >= 97 && c <= 122) || (c >= 65 && c <= 90) || c = 95 || c = 45
             || (c >= 48 && c <= 57)) l

let rec print_sexp (e : sexp) : unit =
  match e with
  | H.SInt z ->
      List.iter (fun c -> Buffer.add_char buf (Char.chr (int_of_n c))) (H.str_of_Z z)
  | H.SStr t ->
      let l = List.map int_of_n t in
      if is_bare l then List.iter (fun c -> Buffer.add_char buf (Char.chr c)) l
      else begin
        Buffer.add_char buf '#';
        List.iteri (fun i c ->
            if i > 0 then Buffer.add_char buf '.';
            Buffer.add_string buf (string_of_int c)) l
      end
  | H.SList l ->
      Buffer.add_char buf '(';
      List.iteri (fun i x -> if i > 0 then Buffer.add_char buf ' '; print_sexp x) l;
      Buffer.add_char buf ')'

let () =
  try
    while true do
      let line = input_line stdin in
      Buffer.clear buf;
      (try print_sexp (H.run_command (parse_line line)) with
       | Syntax -> Buffer.clear buf; Buffer.add_string buf "(bad-syntax)"
       | Stack_overflow -> Buffer.clear buf; Buffer.add_string buf "(driver-stack-overflow)"
       | Failure _ -> Buffer.clear buf; Buffer.add_string buf "(bad-syntax)");
      Buffer.add_char buf '\n';
      print_string (Buffer.contents buf);
      flush stdout
    done
  with End_of_file -> ()
