(* Proofs about Model/FilterCache.v. *)
From Coq Require Import List NArith Arith Bool Lia Permutation.
From HS Require Import Base.Prelude Model.FilterCache.
Import ListNotations.
Open Scope nat_scope.

(* ================================================================== sequential histories, with eviction *)
Definition SI (s : cstate) : Prop :=
  (forall k n, In (k, n) (cache s) -> n < ctr s /\ glookup n (globals s) = Some k) /\
  NoDup (map snd (cache s)) /\
  (forall m k, In (m, k) (globals s) -> m < ctr s).

Lemma cfind_In k c n : cfind k c = Some n -> In (k, n) c.
Proof.
  induction c as [|[k' n'] c IH]; cbn [cfind]; [discriminate|].
  destruct (N.eqb_spec k' k); [intro Q; inversion Q; subst; left; reflexivity|intro H; right; apply IH; exact H].
Qed.
Lemma cdel_incl k c x : In x (cdel k c) -> In x c.
Proof.
  induction c as [|[k' n'] c IH]; cbn [cdel]; [tauto|].
  destruct (N.eqb k' k); [intro H; right; exact H|intros [H|H]; [left; exact H|right; apply IH; exact H]].
Qed.
Lemma cdel_names k c n : cfind k c = Some n -> NoDup (map snd c) ->
  NoDup (map snd (cdel k c)) /\ ~ In n (map snd (cdel k c)).
Proof.
  induction c as [|[k' n'] c IH]; cbn [cfind cdel map snd]; [discriminate|]. intros H ND. inversion ND; subst.
  destruct (N.eqb_spec k' k).
  - inversion H; subst. split; assumption.
  - destruct (IH H H3) as [N1 N2]. cbn [map snd]. split.
    + constructor; [|exact N1]. intro Hin. apply H2. apply in_map_iff in Hin. destruct Hin as [x [Ex Hx]].
      apply in_map_iff. exists x. split; [exact Ex|eapply cdel_incl; eauto].
    + intros [E|Hin]; [|exact (N2 Hin)]. subst n'. apply H2. apply cfind_In in H. change n with (snd (k, n)). apply in_map. exact H.
Qed.
Lemma glookup_gdel_other m n g : m <> n -> glookup m (gdel n g) = glookup m g.
Proof.
  intro H. induction g as [|[a k] g IH]; cbn [gdel glookup]; [reflexivity|].
  destruct (Nat.eqb_spec a n).
  - subst a. destruct (Nat.eqb_spec n m); [congruence|exact IH].
  - cbn [glookup]. destruct (Nat.eqb a m); [reflexivity|exact IH].
Qed.
Lemma gdel_incl n g x : In x (gdel n g) -> In x g.
Proof.
  induction g as [|[a k] g IH]; cbn [gdel]; [tauto|].
  destruct (Nat.eqb a n); [intro H; right; apply IH; exact H|intros [H|H]; [left; exact H|right; apply IH; exact H]].
Qed.
Lemma rev_cons_shape {A} (l : list A) x t : rev l = x :: t -> l = (rev t ++ [x])%list.
Proof. intro H. rewrite <- (rev_involutive l), H. reflexivity. Qed.

Theorem call_correct cap s k s' r : SI s -> call cap s k = (s', r) -> r = Some k /\ SI s'.
Proof.
  intros [Ha [Hb Hd]]. unfold call. destruct (cfind k (cache s)) as [n|] eqn:Ef.
  - (* hit *)
    intro Q; inversion Q; subst. clear Q. pose proof (cfind_In _ _ _ Ef) as Hin. destruct (Ha k n Hin) as [Hlt Hg].
    split; [exact Hg|]. destruct (cdel_names k (cache s) n Ef Hb) as [N1 N2].
    split; [|split]; cbn [ctr globals cache].
    + intros k0 n0 [E|H]; [inversion E; subst; split; assumption|apply Ha; eapply cdel_incl; eauto].
    + cbn [map snd]. constructor; assumption.
    + exact Hd.
  - (* miss *)
    set (n := ctr s). set (g1 := (n, k) :: globals s). set (c1 := (k, n) :: cache s).
    assert (Hr : glookup n g1 = Some k) by (unfold g1; cbn [glookup]; rewrite Nat.eqb_refl; reflexivity).
    assert (Hold : forall k0 n0, In (k0, n0) (cache s) -> n0 < S n /\ glookup n0 g1 = Some k0).
    { intros k0 n0 H. destruct (Ha k0 n0 H) as [L G]. split; [unfold n; lia|]. unfold g1. cbn [glookup].
      destruct (Nat.eqb_spec n n0); [unfold n in *; lia|exact G]. }
    assert (Hfresh : ~ In n (map snd (cache s))).
    { intro H. apply in_map_iff in H. destruct H as [[k0 n0] [E H]]. cbn [snd] in E. subst n0. destruct (Ha k0 n H) as [L _]. unfold n in L. lia. }
    assert (SI1 : SI (mkC (S n) g1 c1)).
    { split; [|split]; cbn [ctr globals cache].
      - intros k0 n0 [E|H]; [inversion E; subst; split; [lia|exact Hr]|apply Hold; exact H].
      - unfold c1. cbn [map snd]. constructor; assumption.
      - intros m k0 [E|H]; [inversion E; subst; lia|specialize (Hd m k0 H); unfold n; lia]. }
    clearbody c1 g1.
    destruct (Nat.ltb cap (length c1)); [|intro Q; inversion Q; subst; split; [exact Hr|exact SI1]].
    destruct (rev c1) as [|[k' n'] t] eqn:Er; [intro Q; inversion Q; subst; split; [exact Hr|exact SI1]|].
    intro Q; inversion Q; subst. clear Q. split; [exact Hr|].
    apply rev_cons_shape in Er. destruct SI1 as [A1 [B1 D1]]. cbn [ctr globals cache] in *.
    rewrite Er in *. rewrite removelast_last.
    rewrite map_app in B1. cbn [map snd] in B1. apply NoDup_remove in B1. rewrite app_nil_r in B1. destruct B1 as [B1 Bn].
    split; [|split]; cbn [ctr globals cache].
    + intros k0 n0 H. destruct (A1 k0 n0 (in_or_app _ _ _ (or_introl H))) as [L G]. split; [exact L|].
      rewrite glookup_gdel_other; [exact G|]. intro E. subst n0. apply Bn. change n' with (snd (k0, n')). apply in_map. exact H.
    + exact B1.
    + intros m k0 H. apply gdel_incl in H. exact (D1 m k0 H).
Qed.

Lemma SI_init : SI cinit.
Proof. split; [intros k n []|split; [constructor|intros m k []]]. Qed.

(* any number of filters, any order, any repetition, across evictions: every call hands back the code of its own filter *)
Theorem run_calls_correct cap : forall ks s s' rs, SI s -> run_calls cap s ks = (s', rs) -> rs = map Some ks /\ SI s'.
Proof.
  induction ks as [|k ks IH]; intros s s' rs HI; cbn [run_calls].
  - intro Q; inversion Q; subst. split; [reflexivity|exact HI].
  - destruct (call cap s k) as [s1 r] eqn:Ec. destruct (run_calls cap s1 ks) as [s2 rs'] eqn:Er.
    intro Q; inversion Q; subst. destruct (call_correct cap s k s1 r HI Ec) as [Hr H1].
    destruct (IH s1 s' rs' H1 Er) as [Hrs H2]. subst. split; [reflexivity|exact H2].
Qed.

(* ================================================================== interleaved threads *)
Definition pending (l : list tstate) : list name := flat_map (fun t => match t with TNamed _ n => [n] | _ => [] end) l.
Definition owns (t : tstate) (g : list (name * key)) : Prop :=
  match t with TDefined k n | THolding k n => In (n, k) g | _ => True end.
Definition agrees (k : key) (t : tstate) : Prop :=
  match t with TDone r => r = Some k | _ => key_of t = Some k end.

Definition PI (ks : list key) (s : pstate) : Prop :=
  NoDup (pending (threads s) ++ map fst (pglobals s)) /\
  (forall n, In n (pending (threads s) ++ map fst (pglobals s)) -> n < pctr s) /\
  (forall k n, In (k, n) (pcache s) -> In (n, k) (pglobals s)) /\
  Forall (fun t => owns t (pglobals s)) (threads s) /\
  Forall2 agrees ks (threads s).

Lemma glookup_In n k g : NoDup (map fst g) -> In (n, k) g -> glookup n g = Some k.
Proof.
  induction g as [|[m k'] g IH]; cbn [map fst glookup]; [intros _ []|]. intros ND [E|H].
  - inversion E; subst. rewrite Nat.eqb_refl. reflexivity.
  - inversion ND; subst. destruct (Nat.eqb_spec m n) as [E|E]; [|apply IH; assumption].
    subst m. exfalso. apply H2. change n with (fst (n, k)). apply in_map. exact H.
Qed.

(* replacing the state of one thread *)
Lemma upd_Forall {A} (P : A -> Prop) : forall i x l, Forall P l -> P x -> Forall P (upd i x l).
Proof.
  induction i as [|i IH]; intros x [|y l] H Hx; cbn [upd]; try constructor; inversion H; subst; auto.
Qed.
Lemma upd_Forall2 {A B} (R : A -> B -> Prop) : forall i x (ks : list A) l a, Forall2 R ks l ->
  nth_error ks i = Some a -> R a x -> Forall2 R ks (upd i x l).
Proof.
  induction i as [|i IH]; intros x ks l a H Hn Hx; destruct H as [|k y ks l Hk Hl]; cbn [upd nth_error] in *; try discriminate.
  - inversion Hn; subst. constructor; assumption.
  - constructor; [exact Hk|eapply IH; eauto].
Qed.
Lemma Forall2_nth {A B} (R : A -> B -> Prop) : forall i (ks : list A) (l : list B) t, Forall2 R ks l ->
  nth_error l i = Some t -> exists a, nth_error ks i = Some a /\ R a t.
Proof.
  induction i as [|i IH]; intros ks l t H Hn; destruct H as [|k y ks l Hk Hl]; cbn [nth_error] in *; try discriminate.
  - inversion Hn; subst. eauto.
  - eapply IH; eauto.
Qed.
Lemma Forall_nth {A} (P : A -> Prop) : forall i (l : list A) t, Forall P l -> nth_error l i = Some t -> P t.
Proof. intros i l t H Hn. rewrite Forall_forall in H. apply H. eapply nth_error_In; eauto. Qed.

Definition is_named (t : tstate) : bool := match t with TNamed _ _ => true | _ => false end.
Lemma pending_upd_same : forall i l t t', nth_error l i = Some t -> is_named t = false -> is_named t' = false ->
  pending (upd i t' l) = pending l.
Proof.
  induction i as [|i IH]; intros [|y l] t t' Hn Ht Ht'; cbn [nth_error upd] in *; try discriminate.
  - inversion Hn; subst. unfold pending. cbn [flat_map]. destruct t; try discriminate; destruct t'; try discriminate; reflexivity.
  - unfold pending in *. cbn [flat_map]. f_equal. eapply IH; eauto.
Qed.
Lemma pending_upd_add : forall i l t k n, nth_error l i = Some t -> is_named t = false ->
  Permutation (pending (upd i (TNamed k n) l)) (n :: pending l).
Proof.
  induction i as [|i IH]; intros [|y l] t k n Hn Ht; cbn [nth_error upd] in *; try discriminate.
  - inversion Hn; subst. unfold pending. cbn [flat_map]. destruct t; try discriminate; reflexivity.
  - unfold pending in *. cbn [flat_map]. eapply perm_trans; [apply Permutation_app_head; eapply IH; eauto|].
    apply Permutation_sym. apply Permutation_middle.
Qed.
Lemma pending_upd_remove : forall i l k n t', nth_error l i = Some (TNamed k n) -> is_named t' = false ->
  Permutation (n :: pending (upd i t' l)) (pending l).
Proof.
  induction i as [|i IH]; intros [|y l] k n t' Hn Ht'; cbn [nth_error upd] in *; try discriminate.
  - inversion Hn; subst. unfold pending. cbn [flat_map]. destruct t'; try discriminate; reflexivity.
  - unfold pending in *. cbn [flat_map]. eapply perm_trans; [apply Permutation_middle|]. apply Permutation_app_head. eapply IH; eauto.
Qed.

Lemma owns_mono t g x : owns t g -> owns t (x :: g).
Proof. destruct t; cbn [owns]; auto; intro H; right; exact H. Qed.

Theorem pstep_inv ks s i : PI ks s -> PI ks (pstep s i).
Proof.
  intros [HA [HB [HC [HD HE]]]]. unfold pstep. destruct (nth_error (threads s) i) as [t|] eqn:En; [|repeat split; assumption].
  destruct (Forall2_nth _ _ _ _ _ HE En) as [k0 [Ek Hag]].
  pose proof (Forall_nth _ _ _ _ HD En) as Hown.
  destruct t as [k|k|k n|k n|k n|r].
  - (* ask the cache *)
    cbn [agrees key_of] in Hag. inversion Hag; subst k0.
    destruct (cfind k (pcache s)) as [n|] eqn:Ef; unfold PI; cbn [pctr pglobals pcache threads];
      [rewrite (pending_upd_same i (threads s) (TStart k) (THolding k n) En eq_refl eq_refl)
      |rewrite (pending_upd_same i (threads s) (TStart k) (TAlloc k) En eq_refl eq_refl)].
    + split; [exact HA|]. split; [exact HB|]. split; [exact HC|]. split.
      * apply upd_Forall; [exact HD|]. cbn [owns]. apply HC. apply cfind_In. exact Ef.
      * eapply upd_Forall2; [exact HE|exact Ek|reflexivity].
    + split; [exact HA|]. split; [exact HB|]. split; [exact HC|]. split.
      * apply upd_Forall; [exact HD|exact I].
      * eapply upd_Forall2; [exact HE|exact Ek|reflexivity].
  - (* take a name *)
    cbn [agrees key_of] in Hag. inversion Hag; subst k0.
    unfold PI; cbn [pctr pglobals pcache threads].
    pose proof (pending_upd_add i (threads s) (TAlloc k) k (pctr s) En eq_refl) as P.
    assert (Hfresh : ~ In (pctr s) (pending (threads s) ++ map fst (pglobals s))) by (intro H; specialize (HB _ H); lia).
    split; [|split; [|split; [|split]]].
    + eapply Permutation_NoDup; [apply Permutation_sym; apply Permutation_app_tail; exact P|]. cbn [List.app]. constructor; assumption.
    + intros n Hin. assert (Hin' : In n ((pctr s :: pending (threads s)) ++ map fst (pglobals s))).
      { eapply Permutation_in; [apply Permutation_app_tail; exact P|exact Hin]. }
      cbn [List.app In] in Hin'. destruct Hin' as [E|H]; [subst; lia|specialize (HB _ H); lia].
    + exact HC.
    + apply upd_Forall; [exact HD|exact I].
    + eapply upd_Forall2; [exact HE|exact Ek|reflexivity].
  - (* define the global *)
    cbn [agrees key_of] in Hag. inversion Hag; subst k0.
    unfold PI; cbn [pctr pglobals pcache threads].
    pose proof (pending_upd_remove i (threads s) k n (TDefined k n) En eq_refl) as P.
    assert (Q : Permutation (pending (upd i (TDefined k n) (threads s)) ++ n :: map fst (pglobals s)) (pending (threads s) ++ map fst (pglobals s))).
    { eapply perm_trans; [apply Permutation_sym; apply Permutation_middle|]. apply (Permutation_app_tail _ P). }
    split; [|split; [|split; [|split]]].
    + cbn [map fst]. eapply Permutation_NoDup; [apply Permutation_sym; exact Q|exact HA].
    + intros m Hin. cbn [map fst] in Hin. apply HB. eapply Permutation_in; [exact Q|exact Hin].
    + intros k1 n1 H. right. apply HC. exact H.
    + apply upd_Forall; [|cbn [owns]; left; reflexivity]. eapply Forall_impl; [|exact HD]. intros t0 H0. apply owns_mono. exact H0.
    + eapply upd_Forall2; [exact HE|exact Ek|reflexivity].
  - (* store in the cache *)
    cbn [agrees key_of] in Hag. inversion Hag; subst k0. cbn [owns] in Hown.
    unfold PI; cbn [pctr pglobals pcache threads]. rewrite (pending_upd_same i (threads s) (TDefined k n) (THolding k n) En eq_refl eq_refl).
    split; [exact HA|]. split; [exact HB|]. split; [|split].
    + intros k1 n1 [E|H]; [inversion E; subst; exact Hown|apply HC; exact H].
    + apply upd_Forall; [exact HD|exact Hown].
    + eapply upd_Forall2; [exact HE|exact Ek|reflexivity].
  - (* get() *)
    cbn [agrees key_of] in Hag. inversion Hag; subst k0. cbn [owns] in Hown.
    unfold PI; cbn [pctr pglobals pcache threads]. rewrite (pending_upd_same i (threads s) (THolding k n) (TDone (glookup n (pglobals s))) En eq_refl eq_refl).
    split; [exact HA|]. split; [exact HB|]. split; [exact HC|]. split.
    + apply upd_Forall; [exact HD|exact I].
    + eapply upd_Forall2; [exact HE|exact Ek|]. cbn [agrees]. apply glookup_In; [|exact Hown]. clear -HA. induction (pending (threads s)) as [|x l IH]; [exact HA|]. apply IH. cbn [List.app] in HA. inversion HA; assumption.
  - repeat split; assumption.
Qed.

Theorem prun_inv ks : forall sched s, PI ks s -> PI ks (prun s sched).
Proof. induction sched as [|i sched IH]; intros s H; cbn [prun]; [exact H|]. apply IH. apply pstep_inv. exact H. Qed.

(* the starting point: any state a sequential history left behind, any number of threads *)
Lemma PI_start ks (s : cstate) : SI s -> NoDup (map fst (globals s)) ->
  (forall k n, In (k, n) (cache s) -> In (n, k) (globals s)) ->
  PI ks (mkP (ctr s) (globals s) (cache s) (map TStart ks)).
Proof.
  intros [Ha [Hb Hd]] ND HC. unfold PI. cbn [pctr pglobals pcache threads].
  assert (P0 : pending (map TStart ks) = []) by (induction ks as [|k ks IH]; [reflexivity|unfold pending in *; cbn [map flat_map]; exact IH]).
  rewrite P0. cbn [List.app]. split; [exact ND|]. split.
  - intros n Hin. apply in_map_iff in Hin. destruct Hin as [[m k] [E H]]. cbn [fst] in E. subst m. exact (Hd n k H).
  - split; [exact HC|]. split.
    + apply Forall_forall. intros t Ht. apply in_map_iff in Ht. destruct Ht as [k [E _]]. subst t. exact I.
    + clear. induction ks as [|k ks IH]; cbn [map]; [constructor|constructor; [reflexivity|exact IH]].
Qed.

(* ---- globals hold every name once, also across evictions ---- *)
Lemma gdel_names_incl n g m : In m (map fst (gdel n g)) -> In m (map fst g).
Proof.
  intro H. apply in_map_iff in H. destruct H as [[a k] [E H]]. apply gdel_incl in H. apply in_map_iff. exists (a, k). split; assumption.
Qed.
Lemma gdel_nodup n g : NoDup (map fst g) -> NoDup (map fst (gdel n g)).
Proof.
  induction g as [|[a k] g IH]; cbn [gdel map fst]; [constructor|]. intro H. inversion H; subst.
  destruct (Nat.eqb a n); [apply IH; assumption|]. cbn [map fst]. constructor; [|apply IH; assumption].
  intro Hin. apply H2. eapply gdel_names_incl; eauto.
Qed.
Lemma call_nodup cap s k s' r : SI s -> NoDup (map fst (globals s)) -> call cap s k = (s', r) -> NoDup (map fst (globals s')).
Proof.
  intros [Ha [Hb Hd]] ND. unfold call. destruct (cfind k (cache s)); [intro Q; inversion Q; subst; exact ND|].
  assert (N1 : NoDup (map fst ((ctr s, k) :: globals s))).
  { cbn [map fst]. constructor; [|exact ND]. intro H. apply in_map_iff in H. destruct H as [[m k0] [E H]]. cbn [fst] in E. subst m. specialize (Hd _ _ H). lia. }
  destruct (Nat.ltb cap _); [|intro Q; apply (f_equal (fun x => globals (fst x))) in Q; cbn [fst globals] in Q; rewrite <- Q; exact N1].
  destruct (rev _) as [|[k' n'] t]; intro Q; apply (f_equal (fun x => globals (fst x))) in Q; cbn [fst globals] in Q; rewrite <- Q; [exact N1|].
  apply gdel_nodup. exact N1.
Qed.
Lemma run_calls_nodup cap : forall ks s s' rs, SI s -> NoDup (map fst (globals s)) -> run_calls cap s ks = (s', rs) -> NoDup (map fst (globals s')).
Proof.
  induction ks as [|k ks IH]; intros s s' rs HI ND; cbn [run_calls]; [intro Q; inversion Q; subst; exact ND|].
  destruct (call cap s k) as [s1 r] eqn:Ec. destruct (run_calls cap s1 ks) as [s2 rs'] eqn:Er. intro Q; inversion Q; subst.
  destruct (call_correct cap s k s1 r HI Ec) as [_ H1]. eapply IH; [exact H1| |exact Er]. exact (call_nodup cap s k s1 r HI ND Ec).
Qed.
Lemma glookup_Some_In n k g : glookup n g = Some k -> In (n, k) g.
Proof.
  induction g as [|[m k'] g IH]; cbn [glookup]; [discriminate|].
  destruct (Nat.eqb_spec m n); [intro Q; inversion Q; subst; left; reflexivity|intro H; right; apply IH; exact H].
Qed.

(* any sequential history, then any number of threads under any schedule *)
Theorem concurrent_after_history cap hist ks sched s rs :
  run_calls cap cinit hist = (s, rs) ->
  Forall2 agrees ks (threads (prun (mkP (ctr s) (globals s) (cache s) (map TStart ks)) sched)).
Proof.
  intro H. destruct (run_calls_correct cap hist cinit s rs SI_init H) as [_ HS].
  pose proof (run_calls_nodup cap hist cinit s rs SI_init (NoDup_nil _) H) as ND.
  assert (HC : forall k n, In (k, n) (cache s) -> In (n, k) (globals s)).
  { intros k n Hin. destruct HS as [Ha _]. destruct (Ha k n Hin) as [_ G]. apply glookup_Some_In. exact G. }
  pose proof (prun_inv ks sched _ (PI_start ks s HS ND HC)) as [_ [_ [_ [_ HE]]]]. exact HE.
Qed.

(* ================================================================== interleaved threads WITH eviction *)
(* ---- names contributed by the threads, generically ---- *)
Lemma fm_upd (c : tstate -> list name) : forall i l t t', nth_error l i = Some t ->
  Permutation (c t ++ flat_map c (upd i t' l)) (c t' ++ flat_map c l).
Proof.
  induction i as [|i IH]; intros [|y l] t t' Hn; cbn [nth_error upd] in *; try discriminate.
  - inversion Hn; subst. cbn [flat_map]. rewrite !app_assoc. apply Permutation_app_tail. apply Permutation_app_comm.
  - cbn [flat_map]. specialize (IH l t t' Hn).
    eapply perm_trans; [apply Permutation_app_swap_app|]. eapply perm_trans; [apply Permutation_app_head; exact IH|]. apply Permutation_app_swap_app.
Qed.

Definition own (t : tstate) : list name := match t with TNamed _ n | TDefined _ n => [n] | _ => [] end.
Definition pend (t : tstate) : list name := match t with TNamed _ n => [n] | _ => [] end.
Lemma pending_is_fm l : pending l = flat_map pend l.
Proof. reflexivity. Qed.

Definition PI2 (ks : list key) (s : pstate) : Prop :=
  NoDup (flat_map pend (threads s) ++ map fst (pglobals s)) /\
  (forall n, In n (flat_map pend (threads s) ++ map fst (pglobals s)) -> n < pctr s) /\
  (forall k n, In (k, n) (pcache s) -> In (n, k) (pglobals s)) /\
  Forall (fun t => owns t (pglobals s)) (threads s) /\
  Forall2 agrees ks (threads s) /\
  NoDup (cnames (pcache s)) /\
  NoDup (flat_map own (threads s)) /\
  (forall n, In n (flat_map own (threads s)) -> ~ In n (cnames (pcache s))).

Lemma In_gdel_other n m k g : m <> n -> In (m, k) g -> In (m, k) (gdel n g).
Proof.
  intros H. induction g as [|[a b] g IH]; cbn [gdel In]; [tauto|]. intros [E|Hin].
  - inversion E; subst. destruct (Nat.eqb_spec m n); [contradiction|]. left; reflexivity.
  - destruct (Nat.eqb a n); [apply IH; exact Hin|right; apply IH; exact Hin].
Qed.
Lemma gdel_names_sub n g : forall m, In m (map fst (gdel n g)) -> In m (map fst g).
Proof. intros m H. apply in_map_iff in H. destruct H as [[a k] [E H]]. apply gdel_incl in H. apply in_map_iff. exists (a, k). split; assumption. Qed.
Lemma NoDup_app_sub {A} (l g g' : list A) : NoDup (l ++ g) -> NoDup g' -> (forall x, In x g' -> In x g) -> NoDup (l ++ g').
Proof.
  induction l as [|a l IH]; cbn [List.app]; intros H Hg Hs; [exact Hg|]. inversion H; subst. constructor.
  - intro Hin. apply H2. apply in_app_or in Hin. apply in_or_app. destruct Hin; [left; assumption|right; apply Hs; assumption].
  - apply IH; assumption.
Qed.
Lemma gdel_nodup2 n g : NoDup (map fst g) -> NoDup (map fst (gdel n g)).
Proof.
  induction g as [|[a k] g IH]; cbn [gdel map fst]; [constructor|]. intro H. inversion H; subst.
  destruct (Nat.eqb a n); [apply IH; assumption|]. cbn [map fst]. constructor; [|apply IH; assumption].
  intro Hin. apply H2. eapply gdel_names_sub; eauto.
Qed.
Lemma not_held_owns n ts g : held n ts = false -> Forall (fun t => owns t g) ts -> Forall (fun t => owns t (gdel n g)) ts.
Proof.
  intros H F. induction F as [|t ts Ht Hts IH]; [constructor|]. cbn [held existsb] in H. apply orb_false_iff in H. destruct H as [H1 H2].
  constructor; [|apply IH; exact H2].
  destruct t; cbn [owns holds] in *; auto; apply In_gdel_other; auto; intro E; subst; rewrite Nat.eqb_refl in H1; discriminate.
Qed.
Lemma NoDup_app_r {A} (l g : list A) : NoDup (l ++ g) -> NoDup g.
Proof. induction l as [|a l IH]; cbn [List.app]; [auto|]. intro H. inversion H; auto. Qed.

Definition PI3 (ks : list key) (s : pstate) : Prop :=
  PI2 ks s /\ (forall n, In n (flat_map own (threads s)) -> n < pctr s).

Lemma perm_nil_l {A} (a b : list A) : Permutation ([] ++ a) ([] ++ b) -> Permutation a b.
Proof. auto. Qed.
Lemma existsb_eqb_false n l : existsb (Nat.eqb n) l = false -> ~ In n l.
Proof. intros H Hin. assert (existsb (Nat.eqb n) l = true) by (apply existsb_exists; exists n; split; [exact Hin|apply Nat.eqb_refl]). congruence. Qed.
Lemma cnames_lt s ks : PI2 ks s -> forall n, In n (cnames (pcache s)) -> n < pctr s.
Proof.
  intros [HA [HB [HC _]]] n Hin. unfold cnames in Hin. apply in_map_iff in Hin. destruct Hin as [[k m] [E H]]. cbn [snd] in E. subst m.
  apply HB. apply in_or_app. right. apply in_map_iff. exists (n, k). split; [reflexivity|apply HC; exact H].
Qed.

Theorem pstep2_inv cap ks s i : PI3 ks s -> PI3 ks (pstep2 cap s i).
Proof.
  intros [[HA [HB [HC [HD [HE [HF [HG HH]]]]]]] HI].
  pose proof (cnames_lt s ks (conj HA (conj HB (conj HC (conj HD (conj HE (conj HF (conj HG HH)))))))) as HCL.
  unfold pstep2. destruct (nth_error (threads s) i) as [t|] eqn:En; [|split; [repeat split; assumption|exact HI]].
  destruct (Forall2_nth _ _ _ _ _ HE En) as [k0 [Ek Hag]].
  pose proof (Forall_nth _ _ _ _ HD En) as Hown.
  destruct t as [k|k|k n|k n|k n|r].
  - (* ask the cache *)
    cbn [agrees key_of] in Hag. inversion Hag; subst k0.
    destruct (cfind k (pcache s)) as [n|] eqn:Ef.
    + pose proof (perm_nil_l _ _ (fm_upd pend i (threads s) (TStart k) (THolding k n) En)) as PP.
      pose proof (perm_nil_l _ _ (fm_upd own i (threads s) (TStart k) (THolding k n) En)) as PO.
      destruct (cdel_names k (pcache s) n Ef HF) as [N1 N2]. pose proof (cfind_In _ _ _ Ef) as Hin.
      split; [|cbn [pctr threads]; intros m Hm; apply HI; eapply Permutation_in; [exact PO|exact Hm]].
      unfold PI2. cbn [pctr pglobals pcache threads]. split; [|split; [|split; [|split; [|split; [|split; [|split]]]]]].
      * eapply Permutation_NoDup; [apply Permutation_app_tail; apply Permutation_sym; exact PP|exact HA].
      * intros m Hm. apply HB. eapply Permutation_in; [apply Permutation_app_tail; exact PP|exact Hm].
      * intros k1 n1 [E|H]; [inversion E; subst; apply HC; exact Hin|apply HC; eapply cdel_incl; eauto].
      * apply upd_Forall; [exact HD|]. cbn [owns]. apply HC. exact Hin.
      * eapply upd_Forall2; [exact HE|exact Ek|reflexivity].
      * cbn [cnames map snd]. constructor; assumption.
      * eapply Permutation_NoDup; [apply Permutation_sym; exact PO|exact HG].
      * intros m Hm Hc. apply (HH m); [eapply Permutation_in; [exact PO|exact Hm]|].
        cbn [cnames map snd] in Hc. destruct Hc as [E|Hc]; [subst; change m with (snd (k, m)); apply in_map; exact Hin|].
        unfold cnames in *. apply in_map_iff in Hc. destruct Hc as [x [Ex Hx]]. apply in_map_iff. exists x. split; [exact Ex|eapply cdel_incl; eauto].
    + pose proof (perm_nil_l _ _ (fm_upd pend i (threads s) (TStart k) (TAlloc k) En)) as PP.
      pose proof (perm_nil_l _ _ (fm_upd own i (threads s) (TStart k) (TAlloc k) En)) as PO.
      split; [|cbn [pctr threads]; intros m Hm; apply HI; eapply Permutation_in; [exact PO|exact Hm]].
      unfold PI2. cbn [pctr pglobals pcache threads]. split; [|split; [|split; [|split; [|split; [|split; [|split]]]]]].
      * eapply Permutation_NoDup; [apply Permutation_app_tail; apply Permutation_sym; exact PP|exact HA].
      * intros m Hm. apply HB. eapply Permutation_in; [apply Permutation_app_tail; exact PP|exact Hm].
      * exact HC.
      * apply upd_Forall; [exact HD|exact I].
      * eapply upd_Forall2; [exact HE|exact Ek|reflexivity].
      * exact HF.
      * eapply Permutation_NoDup; [apply Permutation_sym; exact PO|exact HG].
      * intros m Hm. apply HH. eapply Permutation_in; [exact PO|exact Hm].
  - (* take a name *)
    cbn [agrees key_of] in Hag. inversion Hag; subst k0.
    pose proof (fm_upd pend i (threads s) (TAlloc k) (TNamed k (pctr s)) En) as PP. cbn [pend List.app] in PP.
    pose proof (fm_upd own i (threads s) (TAlloc k) (TNamed k (pctr s)) En) as PO. cbn [own List.app] in PO.
    assert (Hfresh : ~ In (pctr s) (flat_map pend (threads s) ++ map fst (pglobals s))) by (intro H; specialize (HB _ H); lia).
    split.
    + unfold PI2. cbn [pctr pglobals pcache threads]. split; [|split; [|split; [|split; [|split; [|split; [|split]]]]]].
      * eapply Permutation_NoDup; [apply Permutation_sym; apply Permutation_app_tail; exact PP|]. cbn [List.app]. constructor; assumption.
      * intros m Hm. assert (Hm' : In m ((pctr s :: flat_map pend (threads s)) ++ map fst (pglobals s))) by (eapply Permutation_in; [apply Permutation_app_tail; exact PP|exact Hm]).
        cbn [List.app In] in Hm'. destruct Hm' as [E|H]; [subst; lia|specialize (HB _ H); lia].
      * exact HC.
      * apply upd_Forall; [exact HD|exact I].
      * eapply upd_Forall2; [exact HE|exact Ek|reflexivity].
      * exact HF.
      * eapply Permutation_NoDup; [apply Permutation_sym; exact PO|]. constructor; [intro H; specialize (HI _ H); lia|exact HG].
      * intros m Hm Hc. assert (Hm' : In m (pctr s :: flat_map own (threads s))) by (eapply Permutation_in; [exact PO|exact Hm]).
        destruct Hm' as [E|H]; [subst; specialize (HCL _ Hc); lia|exact (HH m H Hc)].
    + cbn [pctr threads]. intros m Hm. assert (Hm' : In m (pctr s :: flat_map own (threads s))) by (eapply Permutation_in; [exact PO|exact Hm]).
      destruct Hm' as [E|H]; [subst; lia|specialize (HI _ H); lia].
  - (* define the global *)
    cbn [agrees key_of] in Hag. inversion Hag; subst k0.
    pose proof (fm_upd pend i (threads s) (TNamed k n) (TDefined k n) En) as PP. cbn [pend List.app] in PP.
    pose proof (fm_upd own i (threads s) (TNamed k n) (TDefined k n) En) as PO. cbn [own] in PO. apply Permutation_cons_inv in PO.
    assert (Q : Permutation (flat_map pend (upd i (TDefined k n) (threads s)) ++ n :: map fst (pglobals s)) (flat_map pend (threads s) ++ map fst (pglobals s))).
    { eapply perm_trans; [apply Permutation_sym; apply Permutation_middle|]. apply (Permutation_app_tail _ PP). }
    split; [|cbn [pctr threads]; intros m Hm; apply HI; eapply Permutation_in; [exact PO|exact Hm]].
    unfold PI2. cbn [pctr pglobals pcache threads]. split; [|split; [|split; [|split; [|split; [|split; [|split]]]]]].
    + cbn [map fst]. eapply Permutation_NoDup; [apply Permutation_sym; exact Q|exact HA].
    + intros m Hm. cbn [map fst] in Hm. apply HB. eapply Permutation_in; [exact Q|exact Hm].
    + intros k1 n1 H. right. apply HC. exact H.
    + apply upd_Forall; [|cbn [owns]; left; reflexivity]. eapply Forall_impl; [|exact HD]. intros t0 H0. apply owns_mono. exact H0.
    + eapply upd_Forall2; [exact HE|exact Ek|reflexivity].
    + exact HF.
    + eapply Permutation_NoDup; [apply Permutation_sym; exact PO|exact HG].
    + intros m Hm. apply HH. eapply Permutation_in; [exact PO|exact Hm].
  - (* store in the cache, possibly evicting *)
    cbn [agrees key_of] in Hag. inversion Hag; subst k0. cbn [owns] in Hown.
    pose proof (perm_nil_l _ _ (fm_upd pend i (threads s) (TDefined k n) (THolding k n) En)) as PP.
    pose proof (fm_upd own i (threads s) (TDefined k n) (THolding k n) En) as PO. cbn [own List.app] in PO.
    set (ts' := upd i (THolding k n) (threads s)) in *.
    assert (HnO : In n (flat_map own (threads s))) by (eapply Permutation_in; [exact PO|left; reflexivity]).
    assert (HnC : ~ In n (cnames (pcache s))) by (apply HH; exact HnO).
    assert (HG' : NoDup (flat_map own ts') /\ ~ In n (flat_map own ts')).
    { assert (N : NoDup (n :: flat_map own ts')) by (eapply Permutation_NoDup; [apply Permutation_sym; exact PO|exact HG]). inversion N; split; assumption. }
    destruct HG' as [HG1 HG2].
    assert (HD1 : Forall (fun t => owns t (pglobals s)) ts') by (apply upd_Forall; [exact HD|exact Hown]).
    assert (HE1 : Forall2 agrees ks ts') by (eapply upd_Forall2; [exact HE|exact Ek|reflexivity]).
    assert (HA1 : NoDup (flat_map pend ts' ++ map fst (pglobals s))) by (eapply Permutation_NoDup; [apply Permutation_app_tail; apply Permutation_sym; exact PP|exact HA]).
    assert (HB1 : forall m, In m (flat_map pend ts' ++ map fst (pglobals s)) -> m < pctr s) by (intros m Hm; apply HB; eapply Permutation_in; [apply Permutation_app_tail; exact PP|exact Hm]).
    assert (HI1 : forall m, In m (flat_map own ts') -> m < pctr s) by (intros m Hm; apply HI; eapply Permutation_in; [exact PO|right; exact Hm]).
    assert (HO1 : forall m, In m (flat_map own ts') -> In m (flat_map own (threads s))) by (intros m Hm; eapply Permutation_in; [exact PO|right; exact Hm]).
    unfold cache_insert. set (c1 := (k, n) :: pcache s).
    assert (HF1 : NoDup (cnames c1)) by (cbn [c1 cnames map snd]; constructor; assumption).
    assert (HC1 : forall k1 n1, In (k1, n1) c1 -> In (n1, k1) (pglobals s)) by (intros k1 n1 [E|H]; [inversion E; subst; exact Hown|apply HC; exact H]).
    assert (HH1 : forall m, In m (flat_map own ts') -> ~ In m (cnames c1)).
    { intros m Hm [E|Hc]; [cbn [snd] in E; subst; exact (HG2 Hm)|exact (HH m (HO1 m Hm) Hc)]. }
    clearbody c1.
    destruct (Nat.ltb cap (length c1)).
    2:{ split; [|exact HI1]. unfold PI2. cbn [pctr pglobals pcache threads]. repeat split; assumption. }
    destruct (rev c1) as [|[k' n'] t] eqn:Er.
    { split; [|exact HI1]. unfold PI2. cbn [pctr pglobals pcache threads]. repeat split; assumption. }
    apply rev_cons_shape in Er. subst c1. rewrite removelast_last.
    unfold cnames in HF1. rewrite map_app in HF1. cbn [map snd] in HF1. pose proof (NoDup_remove _ _ _ HF1) as [HF2 Hn'].
    rewrite app_nil_r in HF2, Hn'.
    assert (HC2 : forall k1 n1, In (k1, n1) (rev t) -> In (n1, k1) (pglobals s) /\ n1 <> n').
    { intros k1 n1 H. split; [apply HC1; apply in_or_app; left; exact H|]. intro E. subst n1. apply Hn'. change n' with (snd (k1, n')). apply in_map. exact H. }
    assert (HH2 : forall m, In m (flat_map own ts') -> ~ In m (cnames (rev t))).
    { intros m Hm Hc. apply (HH1 m Hm). unfold cnames. rewrite map_app. apply in_or_app. left. exact Hc. }
    split; [|exact HI1]. unfold PI2. cbn [pctr pglobals pcache threads].
    destruct (held n' ts') eqn:Eh.
    + split; [exact HA1|]. split; [exact HB1|]. split; [intros k1 n1 H; apply (HC2 k1 n1 H)|]. split; [exact HD1|]. split; [exact HE1|].
      split; [exact HF2|]. split; [exact HG1|exact HH2].
    + split; [apply (NoDup_app_sub _ _ _ HA1); [apply gdel_nodup2; eapply NoDup_app_r; exact HA1|apply gdel_names_sub]|].
      split; [intros m Hm; apply HB1; apply in_app_or in Hm; apply in_or_app; destruct Hm as [Hm|Hm]; [left; exact Hm|right; eapply gdel_names_sub; exact Hm]|].
      split; [intros k1 n1 H; destruct (HC2 k1 n1 H) as [H1 H2]; apply In_gdel_other; assumption|].
      split; [apply not_held_owns; assumption|]. split; [exact HE1|]. split; [exact HF2|]. split; [exact HG1|exact HH2].
  - (* get(), then release *)
    cbn [agrees key_of] in Hag. inversion Hag; subst k0. cbn [owns] in Hown.
    pose proof (perm_nil_l _ _ (fm_upd pend i (threads s) (THolding k n) (TDone (glookup n (pglobals s))) En)) as PP.
    pose proof (perm_nil_l _ _ (fm_upd own i (threads s) (THolding k n) (TDone (glookup n (pglobals s))) En)) as PO.
    set (ts' := upd i (TDone (glookup n (pglobals s))) (threads s)) in *.
    assert (Hr : glookup n (pglobals s) = Some k) by (apply glookup_In; [eapply NoDup_app_r; exact HA|exact Hown]).
    assert (HD1 : Forall (fun t => owns t (pglobals s)) ts') by (apply upd_Forall; [exact HD|exact I]).
    assert (HE1 : Forall2 agrees ks ts') by (eapply upd_Forall2; [exact HE|exact Ek|cbn [agrees]; exact Hr]).
    assert (HA1 : NoDup (flat_map pend ts' ++ map fst (pglobals s))) by (eapply Permutation_NoDup; [apply Permutation_app_tail; apply Permutation_sym; exact PP|exact HA]).
    assert (HB1 : forall m, In m (flat_map pend ts' ++ map fst (pglobals s)) -> m < pctr s) by (intros m Hm; apply HB; eapply Permutation_in; [apply Permutation_app_tail; exact PP|exact Hm]).
    assert (HG1 : NoDup (flat_map own ts')) by (eapply Permutation_NoDup; [apply Permutation_sym; exact PO|exact HG]).
    assert (HH1 : forall m, In m (flat_map own ts') -> ~ In m (cnames (pcache s))) by (intros m Hm; apply HH; eapply Permutation_in; [exact PO|exact Hm]).
    assert (HI1 : forall m, In m (flat_map own ts') -> m < pctr s) by (intros m Hm; apply HI; eapply Permutation_in; [exact PO|exact Hm]).
    split; [|exact HI1]. unfold PI2. cbn [pctr pglobals pcache threads].
    destruct (existsb (Nat.eqb n) (cnames (pcache s))) eqn:Ec; cbn [orb].
    + repeat split; assumption.
    + destruct (held n ts') eqn:Eh.
      * repeat split; assumption.
      * pose proof (existsb_eqb_false _ _ Ec) as HnC.
        split; [apply (NoDup_app_sub _ _ _ HA1); [apply gdel_nodup2; eapply NoDup_app_r; exact HA1|apply gdel_names_sub]|].
        split; [intros m Hm; apply HB1; apply in_app_or in Hm; apply in_or_app; destruct Hm as [Hm|Hm]; [left; exact Hm|right; eapply gdel_names_sub; exact Hm]|].
        split; [intros k1 n1 H; apply In_gdel_other; [intro E; subst n1; apply HnC; change n with (snd (k1, n)); apply in_map; exact H|apply HC; exact H]|].
        split; [apply not_held_owns; assumption|]. split; [exact HE1|]. split; [exact HF|]. split; [exact HG1|exact HH1].
  - split; [repeat split; assumption|exact HI].
Qed.

Theorem prun2_inv cap ks : forall sched s, PI3 ks s -> PI3 ks (prun2 cap s sched).
Proof. induction sched as [|i sched IH]; intros s H; cbn [prun2]; [exact H|]. apply IH. apply pstep2_inv. exact H. Qed.

Lemma PI3_start ks (s : cstate) : SI s -> NoDup (map fst (globals s)) ->
  PI3 ks (mkP (ctr s) (globals s) (cache s) (map TStart ks)).
Proof.
  intros HS ND. pose proof HS as [Ha [Hb Hd]].
  assert (P0 : flat_map pend (map TStart ks) = []) by (clear; induction ks as [|k ks IH]; [reflexivity|cbn [map flat_map pend List.app]; exact IH]).
  assert (O0 : flat_map own (map TStart ks) = []) by (clear; induction ks as [|k ks IH]; [reflexivity|cbn [map flat_map own List.app]; exact IH]).
  split; [|cbn [threads]; rewrite O0; intros n []].
  unfold PI2. cbn [pctr pglobals pcache threads]. rewrite P0, O0. cbn [List.app].
  split; [exact ND|]. split.
  { intros n Hin. apply in_map_iff in Hin. destruct Hin as [[m k] [E H]]. cbn [fst] in E. subst m. exact (Hd n k H). }
  split; [intros k n Hin; destruct (Ha k n Hin) as [_ G]; apply glookup_Some_In; exact G|].
  split; [apply Forall_forall; intros t Ht; apply in_map_iff in Ht; destruct Ht as [k [E _]]; subst t; exact I|].
  split; [clear; induction ks as [|k ks IH]; cbn [map]; [constructor|constructor; [reflexivity|exact IH]]|].
  split; [exact Hb|]. split; [constructor|intros n []].
Qed.

(* any sequential history, then any number of threads under any schedule, evictions included *)
Theorem concurrent_with_eviction cap hist ks sched s rs :
  run_calls cap cinit hist = (s, rs) ->
  Forall2 agrees ks (threads (prun2 cap (mkP (ctr s) (globals s) (cache s) (map TStart ks)) sched)).
Proof.
  intro H. destruct (run_calls_correct cap hist cinit s rs SI_init H) as [_ HS].
  pose proof (run_calls_nodup cap hist cinit s rs SI_init (NoDup_nil _) H) as ND.
  destruct (prun2_inv cap ks sched _ (PI3_start ks s HS ND)) as [[_ [_ [_ [_ [HE _]]]]] _]. exact HE.
Qed.
