(* The Haystack value domain shared by the codec models (ZINC and JSON writers
   and readers), and the JSON tree the JSON codec works on.
   Floats never enter Coq: a number is carried as the exact text CPython
   exchanges with the format - str(x) for ZINC, '%f' % x for JSON - and the
   readers return the exact text they would hand to float(). *)
From HS Require Import Base.Prelude.
Open Scope N_scope.

Inductive numkind := NkFin | NkInf | NkNegInf | NkNaN.

Inductive zone :=
| ZName (n : str)          (* timezone_name(dt) answered this Haystack zone name *)
| ZError (e : exn).        (* timezone_name(dt) raised *)

Inductive hval :=
| VNull | VMarker | VNA | VRemove
| VBool (b : bool)
| VNum (k : numkind) (ztok jtok : str) (unit : option str)
| VStr (s : str) | VUri (s : str) | VBin (s : str)
| VRef (name : str) (dis : option str)
| VXStr (enc : str) (text : str)                 (* text = data_to_string(): hex digits / base64 / the raw payload *)
| VDate (y m d : N)
| VTime (h mi s us : N)
| VDateTime (y m d h mi s us : N) (off : Z) (z : zone)   (* local fields, UTC offset in seconds *)
| VDateTimeRaw (iso : str) (zn : option str)      (* readers: the text handed to iso8601.parse_date, and the zone name *)
| VCoord (lat lng : str)                          (* '%f' % latitude, '%f' % longitude *)
| VList (l : list hval)
| VDict (d : list (str * hval))
| VGrid (ver : str) (meta : list (str * hval))
        (cols : list (str * list (str * hval)))
        (rows : list (list (str * hval))).

(* what both writers and both readers decide by: nearest(version) < 3.0 *)
Definition ver_pre3 := bool.

Inductive json :=
| JNull | JBool (b : bool) | JNum (tok : str) | JStr (s : str)
| JArr (l : list json) | JObj (m : list (str * json)).

Fixpoint assoc {A} (k : str) (m : list (str * A)) : option A :=
  match m with
  | [] => None
  | (y, v) :: m' => if str_eqb y k then Some v else assoc k m'
  end.

Fixpoint remove_key {A} (k : str) (m : list (str * A)) : list (str * A) :=
  match m with
  | [] => []
  | (y, v) :: m' => if str_eqb y k then remove_key k m' else (y, v) :: remove_key k m'
  end.

(* Python dict built by successive assignment: a repeated key keeps its first position, last value *)
Fixpoint dict_set {A} (k : str) (v : A) (m : list (str * A)) : list (str * A) :=
  match m with
  | [] => [(k, v)]
  | (y, w) :: m' => if str_eqb y k then (y, v) :: m' else (y, w) :: dict_set k v m'
  end.
Definition dict_of {A} (items : list (str * A)) : list (str * A) :=
  fold_left (fun m kv => dict_set (fst kv) (snd kv) m) items [].

(* ---- fixed-width decimal fields (isoformat) ---- *)
Definition d2 (n : N) : str := [48 + (n / 10) mod 10; 48 + n mod 10].
Definition d4 (n : N) : str := [48 + (n / 1000) mod 10; 48 + (n / 100) mod 10; 48 + (n / 10) mod 10; 48 + n mod 10].
Definition d6 (n : N) : str :=
  [48 + (n / 100000) mod 10; 48 + (n / 10000) mod 10; 48 + (n / 1000) mod 10;
   48 + (n / 100) mod 10; 48 + (n / 10) mod 10; 48 + n mod 10].

(* date.isoformat(), time.isoformat() (naive), datetime.isoformat() (aware) *)
Definition iso_date (y m d : N) : str := d4 y ++ [45] ++ d2 m ++ [45] ++ d2 d.
Definition iso_time (h mi s us : N) : str :=
  d2 h ++ [58] ++ d2 mi ++ [58] ++ d2 s ++ (if us =? 0 then [] else 46 :: d6 us).
Definition iso_offset (off : Z) : str :=
  let a := Z.to_N (Z.abs off) in
  (if (off <? 0)%Z then [45] else [43]) ++ d2 (a / 3600) ++ [58] ++ d2 ((a / 60) mod 60)
  ++ (if a mod 60 =? 0 then [] else 58 :: d2 (a mod 60)).
Definition iso_datetime (y m d h mi s us : N) (off : Z) : str :=
  iso_date y m d ++ [84] ++ iso_time h mi s us ++ iso_offset off.

(* ---- wire decoding of values ---- *)
From Coq Require Import String.
Local Open Scope string_scope.

Definition dec_opt_str (e : sexp) : option str := match e with SList [SStr t] => Some t | _ => None end.
Definition dec_N (e : sexp) : N := match e with SInt z => Z.to_N z | _ => 0%N end.

Definition dec_numkind (e : sexp) : numkind :=
  if is_sym "inf" e then NkInf else if is_sym "ninf" e then NkNegInf
  else if is_sym "nan" e then NkNaN else NkFin.

Definition dec_exn (e : sexp) : exn :=
  if is_sym "ValueError" e then ValueError
  else if is_sym "AmbiguousTimeError" e then AmbiguousTimeError
  else if is_sym "NonExistentTimeError" e then NonExistentTimeError
  else if is_sym "TypeError" e then TypeError
  else if is_sym "AttributeError" e then AttributeError
  else OverflowError.

Fixpoint dec_hval (fuel : nat) (e : sexp) : option hval :=
  match fuel with
  | O => None
  | S f =>
      let dec_items := (fix go (l : list sexp) : option (list (str * hval)) :=
                          match l with
                          | [] => Some []
                          | SList [SStr k; x] :: l' =>
                              match dec_hval f x, go l' with Some v, Some vs => Some ((k, v) :: vs) | _, _ => None end
                          | _ => None
                          end) in
      match e with
      | SStr t =>
          if str_eqb t (s_ "null") then Some VNull
          else if str_eqb t (s_ "marker") then Some VMarker
          else if str_eqb t (s_ "na") then Some VNA
          else if str_eqb t (s_ "remove") then Some VRemove
          else None
      | SList (SStr t :: args) =>
          let is n := str_eqb t (s_ n) in
          if is "bool" then match args with [b] => Some (VBool (is_sym "true" b)) | _ => None end
          else if is "num" then
            match args with [k; SStr z; SStr j; u] => Some (VNum (dec_numkind k) z j (dec_opt_str u)) | _ => None end
          else if is "str" then match args with [SStr s] => Some (VStr s) | _ => None end
          else if is "uri" then match args with [SStr s] => Some (VUri s) | _ => None end
          else if is "bin" then match args with [SStr s] => Some (VBin s) | _ => None end
          else if is "ref" then match args with [SStr n; d] => Some (VRef n (dec_opt_str d)) | _ => None end
          else if is "xstr" then match args with [SStr en; SStr tx] => Some (VXStr en tx) | _ => None end
          else if is "date" then match args with [y; m; d] => Some (VDate (dec_N y) (dec_N m) (dec_N d)) | _ => None end
          else if is "time" then
            match args with [h; mi; s; us] => Some (VTime (dec_N h) (dec_N mi) (dec_N s) (dec_N us)) | _ => None end
          else if is "dt" then
            match args with
            | [y; m; d; h; mi; s; us; SInt off; z] =>
                Some (VDateTime (dec_N y) (dec_N m) (dec_N d) (dec_N h) (dec_N mi) (dec_N s) (dec_N us) off
                        (match z with
                         | SList [SStr n] => ZName n
                         | other => ZError (dec_exn other)
                         end))
            | _ => None
            end
          else if is "coord" then match args with [SStr a; SStr b] => Some (VCoord a b) | _ => None end
          else if is "list" then
            option_map VList
              ((fix go (l : list sexp) : option (list hval) :=
                  match l with
                  | [] => Some []
                  | x :: l' => match dec_hval f x, go l' with Some v, Some vs => Some (v :: vs) | _, _ => None end
                  end) args)
          else if is "dict" then option_map VDict (dec_items args)
          else if is "grid" then
            match args with
            | [SStr ver; SList m; SList cs; SList rs] =>
                let cols := (fix go (l : list sexp) : option (list (str * list (str * hval))) :=
                               match l with
                               | [] => Some []
                               | SList [SStr c; SList cm] :: l' =>
                                   match dec_items cm, go l' with Some x, Some xs => Some ((c, x) :: xs) | _, _ => None end
                               | _ => None
                               end) cs in
                let rows := (fix go (l : list sexp) : option (list (list (str * hval))) :=
                               match l with
                               | [] => Some []
                               | SList r :: l' =>
                                   match dec_items r, go l' with Some x, Some xs => Some (x :: xs) | _, _ => None end
                               | _ => None
                               end) rs in
                match dec_items m, cols, rows with
                | Some m, Some cols, Some rows => Some (VGrid ver m cols rows)
                | _, _, _ => None
                end
            | _ => None
            end
          else None
      | _ => None
      end
  end.

(* values back onto the wire (reader results) *)
Definition sopts (o : option str) : sexp := match o with Some s => SList [SStr s] | None => sym "none" end.
Definition snumkind (k : numkind) : sexp :=
  match k with NkFin => sym "fin" | NkInf => sym "inf" | NkNegInf => sym "ninf" | NkNaN => sym "nan" end.

Fixpoint shval (fuel : nat) (v : hval) : sexp :=
  match fuel with
  | O => sym "too-deep"
  | S f =>
      let items := fun (l : list (str * hval)) => SList (map (fun kv => SList [SStr (fst kv); shval f (snd kv)]) l) in
      match v with
      | VNull => sym "null" | VMarker => sym "marker" | VNA => sym "na" | VRemove => sym "remove"
      | VBool b => SList [sym "bool"; sbool b]
      | VNum k z j u => SList [sym "num"; snumkind k; SStr z; SStr j; sopts u]
      | VStr s => SList [sym "str"; SStr s]
      | VUri s => SList [sym "uri"; SStr s]
      | VBin s => SList [sym "bin"; SStr s]
      | VRef n d => SList [sym "ref"; SStr n; sopts d]
      | VXStr en tx => SList [sym "xstr"; SStr en; SStr tx]
      | VDate y m d => SList [sym "date"; sN y; sN m; sN d]
      | VTime h mi s us => SList [sym "time"; sN h; sN mi; sN s; sN us]
      | VDateTime y m d h mi s us off z =>
          SList [sym "dt"; sN y; sN m; sN d; sN h; sN mi; sN s; sN us; SInt off;
                 match z with ZName n => SList [SStr n] | ZError e => SStr (exn_name e) end]
      | VDateTimeRaw iso zn => SList [sym "dtraw"; SStr iso; sopts zn]
      | VCoord a b => SList [sym "coord"; SStr a; SStr b]
      | VList l => SList (sym "list" :: map (shval f) l)
      | VDict d => SList (sym "dict" :: map (fun kv => SList [SStr (fst kv); shval f (snd kv)]) d)
      | VGrid ver m cols rows =>
          SList [sym "grid"; SStr ver; items m;
                 SList (map (fun c => SList [SStr (fst c); items (snd c)]) cols);
                 SList (map items rows)]
      end
  end.

Fixpoint sjson (fuel : nat) (j : json) : sexp :=
  match fuel with
  | O => sym "too-deep"
  | S f =>
      match j with
      | JNull => sym "null"
      | JBool b => sbool b
      | JNum t => SList [sym "num"; SStr t]
      | JStr s => SList [sym "str"; SStr s]
      | JArr l => SList (sym "arr" :: map (sjson f) l)
      | JObj m => SList (sym "obj" :: map (fun kv => SList [SStr (fst kv); sjson f (snd kv)]) m)
      end
  end.

Fixpoint dec_json (fuel : nat) (e : sexp) : option json :=
  match fuel with
  | O => None
  | S f =>
      match e with
      | SStr t => if str_eqb t (s_ "null") then Some JNull
                  else if str_eqb t (s_ "true") then Some (JBool true)
                  else if str_eqb t (s_ "false") then Some (JBool false) else None
      | SList (SStr t :: args) =>
          if str_eqb t (s_ "num") then match args with [SStr x] => Some (JNum x) | _ => None end
          else if str_eqb t (s_ "str") then match args with [SStr x] => Some (JStr x) | _ => None end
          else if str_eqb t (s_ "arr") then
            option_map JArr
              ((fix go (l : list sexp) : option (list json) :=
                  match l with
                  | [] => Some []
                  | x :: l' => match dec_json f x, go l' with Some v, Some vs => Some (v :: vs) | _, _ => None end
                  end) args)
          else if str_eqb t (s_ "obj") then
            option_map JObj
              ((fix go (l : list sexp) : option (list (str * json)) :=
                  match l with
                  | [] => Some []
                  | SList [SStr k; x] :: l' =>
                      match dec_json f x, go l' with Some v, Some vs => Some ((k, v) :: vs) | _, _ => None end
                  | _ => None
                  end) args)
          else None
      | _ => None
      end
  end.
