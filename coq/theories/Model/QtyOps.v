(* Operator vocabulary shared by the generated method table of Qty
   (Gen/QtyData.v) and the model of Python's operator dispatch (Model/Qty.v). *)
From HS Require Import Base.Prelude.

Inductive binop := Add | Sub | Mul | TrueDiv | FloorDiv | Mod | DivMod | Pow
                 | LShift | RShift | BAnd | BXor | BOr.
Inductive unop := Neg | Pos | Abs | Invert | ToInt | ToFloat | ToComplex | Index | Oct | Hex.
Inductive cmpop := Lt | Le | Eq | Ne | Ge | Gt.

(* what the body of a method of Qty does *)
Inductive qshape :=
| QBin (op : binop) (unwrap : bool)     (* [unwrap other;] return self.value OP other *)
| QRBin (op : binop) (unwrap : bool)    (* [unwrap other;] return other OP self.value *)
| QPow3 (unwrap : bool)                 (* return pow(self.value, other, modulo) *)
| QUn (op : unop)                       (* return OP(self.value) *)
| QCmp (op : cmpop)                     (* return self._cmp_op(other, lambda x, y: x OP y) *)
| QHash.
