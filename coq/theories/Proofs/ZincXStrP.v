(* Extended strings through the scalar alternation *)
From Coq Require Import String.
From Coq Require Import List NArith Bool Lia Arith.
From HS Require Import Base.Prelude Model.Value Model.Escape Model.Version Model.Json Model.ZincParse Model.ZincDump.
From HS Require Import Proofs.EscapeP Proofs.JsonP Proofs.ZincParseP Proofs.ZincNumP Proofs.ZincListP Proofs.ZincGridP Proofs.ZincDictP Proofs.ZincLeavesP.
Import ListNotations.
Open Scope N_scope.

(* type names: an upper-case letter that starts no other literal (not T F N M R I B C), then letters, digits, underscores *)
Definition xhead (c : N) : Prop := In c [65; 68; 69; 71; 72; 74; 75; 76; 79; 80; 81; 83; 85; 86; 87; 88; 89; 90].
Definition xname_ok (en : str) : Prop := match en with c :: r => xhead c /\ Forall (fun x => is_xname_char x = true) r | [] => False end.

Lemma p_xstr_reads en s e rest : xname_ok en -> escape_str s = Ok e ->
  p_xstr (en ++ 40 :: DQ :: e ++ DQ :: 41 :: rest) = Some (Ok (VXStr en s), rest).
Proof.
  intros Hn He. destruct en as [|c r]; [contradiction|]. destruct Hn as [Hc Hr].
  assert (Hx : Forall (fun x => is_xname_char x = true) (c :: r)).
  { constructor; [|exact Hr]. unfold xhead in Hc. cbn [In] in Hc. repeat (destruct Hc as [Hc|Hc]; [subst c; reflexivity|]). contradiction. }
  unfold p_xstr, pmap, pand, pspan1. rewrite (span_all is_xname_char (c :: r) (40 :: DQ :: e ++ DQ :: 41 :: rest) Hx eq_refl).
  unfold pthen, pbefore, pmap, pand.
  assert (L : plit [40] (40 :: DQ :: e ++ DQ :: 41 :: rest) = Some (Ok tt, DQ :: e ++ DQ :: 41 :: rest)) by reflexivity. rewrite L.
  unfold p_str, hs_str. rewrite (quoted_roundtrip DQ str_esc_letters false esc_str_char dq_ne dq_32 every_char_str s e (41 :: rest) He).
  assert (C : plit [41] (41 :: rest) = Some (Ok tt, rest)) by reflexivity. rewrite C. reflexivity.
Qed.

Lemma scalar_xstr f en s e rest : xname_ok en -> escape_str s = Ok e ->
  p_scalar (S f) true (en ++ 40 :: DQ :: e ++ DQ :: 41 :: rest) = Some (Ok (VXStr en s), rest).
Proof.
  intros Hn He. pose proof (p_xstr_reads en s e rest Hn He) as R.
  destruct en as [|c r]; [contradiction|]. destruct Hn as [Hc _]. revert R. cbn [List.app]. intro R.
  set (T := (r ++ 40 :: DQ :: e ++ DQ :: 41 :: rest)%list) in *. clearbody T.
  assert (Hd : is_digit c = false) by (unfold xhead in Hc; cbn [In] in Hc; repeat (destruct Hc as [Hc|Hc]; [subst c; reflexivity|]); contradiction).
  destruct (date_letters c T Hd) as [D1 [D2 D3]].
  rewrite p_scalar_3_0. unfold por.
  unfold xhead in Hc. cbn [In] in Hc.
  repeat (destruct Hc as [Hc|Hc]; [subst c; rewrite por_pick_skip by reflexivity; apply por_pick_take; [exact R|];
                                   repeat (apply Forall_cons; [first [exact D1 | exact D2 | exact D3 | reflexivity]|]); apply Forall_nil|]).
  contradiction.
Qed.

Lemma leafd_xstr en s e : xname_ok en -> escape_str s = Ok e -> leafd (VXStr en s) (en ++ 40 :: DQ :: e ++ [DQ; 41]).
Proof.
  intros Hn He. split.
  - intro f. cbn [zdump]. unfold zdump_str. rewrite He. cbn [bind List.app]. rewrite <- app_assoc. reflexivity.
  - intros g rest _. rewrite <- app_assoc. cbn [List.app]. rewrite <- app_assoc. cbn [List.app]. apply scalar_xstr; assumption.
Qed.
