(* Model of hszinc/sortabledict.py (SortableDict) and hszinc/metadata.py
   (MetadataObject), with the MutableMapping mixin methods of CPython 3.12's
   collections.abc written in terms of the primitives, as in the code.
   Executable definitions only; proofs are in Proofs/SortableDictP.v. *)
From HS Require Import Base.Prelude.
Open Scope Z_scope.

Definition key := str.
Definition val := Z.

(* ---- Python list primitives used on _order ---- *)

Fixpoint index_of (k : key) (l : list key) : option nat :=
  match l with
  | [] => None
  | y :: l' => if str_eqb y k then Some O
               else match index_of k l' with Some n => Some (S n) | None => None end
  end.

Fixpoint remove_first (k : key) (l : list key) : list key :=
  match l with
  | [] => []
  | y :: l' => if str_eqb y k then l' else y :: remove_first k l'
  end.

Fixpoint insert_nat (n : nat) (x : key) (l : list key) : list key :=
  match n, l with
  | O, _ => x :: l
  | S n', [] => [x]
  | S n', y :: l' => y :: insert_nat n' x l'
  end.

(* list.insert(i, x): negative i counts from the end, then clamp to [0, len] *)
Definition py_insert_pos (i : Z) (len : nat) : nat :=
  let n := Z.of_nat len in
  let j := if i <? 0 then i + n else i in
  if j <? 0 then O else if n <? j then len else Z.to_nat j.

Definition py_insert (i : Z) (x : key) (l : list key) : list key :=
  insert_nat (py_insert_pos i (length l)) x l.

(* list[i] with negative indices; None = IndexError *)
Definition py_nth (i : Z) (l : list key) : option key :=
  let n := Z.of_nat (length l) in
  let j := if i <? 0 then i + n else i in
  if (j <? 0) || (n <=? j) then None else nth_error l (Z.to_nat j).

(* list.sort(): keys are unique strings; insertion sort by code-point order *)
Fixpoint insert_sorted (x : key) (l : list key) : list key :=
  match l with
  | [] => [x]
  | y :: l' => match str_compare x y with
               | Gt => y :: insert_sorted x l'
               | _ => x :: l
               end
  end.
Definition sort_keys (l : list key) : list key := fold_right insert_sorted [] l.

(* ---- the dict _values: association list with unique keys ---- *)

Fixpoint lookup (k : key) (m : list (key * val)) : option val :=
  match m with
  | [] => None
  | (y, v) :: m' => if str_eqb y k then Some v else lookup k m'
  end.

Fixpoint set_assoc (k : key) (v : val) (m : list (key * val)) : list (key * val) :=
  match m with
  | [] => [(k, v)]
  | (y, w) :: m' => if str_eqb y k then (y, v) :: m' else (y, w) :: set_assoc k v m'
  end.

Fixpoint del_assoc (k : key) (m : list (key * val)) : list (key * val) :=
  match m with
  | [] => []
  | (y, w) :: m' => if str_eqb y k then m' else (y, w) :: del_assoc k m'
  end.

Definition has_key (k : key) (m : list (key * val)) : bool :=
  match lookup k m with Some _ => true | None => false end.

(* ---- state ---- *)

Record sd := mkSd { vals : list (key * val) ; order : list key }.
Definition sd_empty : sd := mkSd [] [].

(* validate_fn of the harness: refuses negative values with ValueError *)
Definition validate (v : val) : bool := 0 <=? v.

(* __delitem__: del self._values[key]; self._order.remove(key) *)
Definition delitem (s : sd) (k : key) : sd * res unit :=
  if has_key k (vals s)
  then (mkSd (del_assoc k (vals s)) (remove_first k (order s)), Ok tt)
  else (s, Raise KeyError).

(* add_item, in the order of its statements *)
Definition add_item (s : sd) (k : key) (v : val) (after : bool)
           (index : option Z) (pos_key : option key) (replace : bool) : sd * res unit :=
  if negb (validate v) then (s, Raise ValueError) else
  match index, pos_key with
  | Some _, Some _ => (s, Raise ValueError)
  | _, _ =>
    let index1 : res (option Z) :=
      match pos_key with
      | Some pk => match index_of pk (order s) with
                   | Some n => Ok (Some (Z.of_nat n))
                   | None => Raise KeyError
                   end
      | None => Ok index
      end in
    match index1 with
    | Raise e => (s, Raise e)
    | Ok index1 =>
      let index2 := match index1 with
                    | Some i => if after then Some (i + 1) else Some i
                    | None => None
                    end in
      if has_key k (vals s) then
        if negb replace then (s, Raise KeyError) else
        match index2 with
        | Some i =>
            (* re-locating *)
            let i' := match pos_key, index_of k (order s) with
                      | Some _, Some cur => if Z.of_nat cur <? i then i - 1 else i
                      | _, _ => i
                      end in
            let s1 := fst (delitem s k) in
            (mkSd (set_assoc k v (vals s1)) (py_insert i' k (order s1)), Ok tt)
        | None =>
            (mkSd (set_assoc k v (vals s)) (order s), Ok tt)
        end
      else
        match index2 with
        | Some i => (mkSd (set_assoc k v (vals s)) (py_insert i k (order s)), Ok tt)
        | None => (mkSd (set_assoc k v (vals s)) (order s ++ [k]), Ok tt)
        end
    end
  end.

Definition setitem (s : sd) (k : key) (v : val) : sd * res unit :=
  add_item s k v false None None true.

Definition getitem (s : sd) (k : key) : res val :=
  match lookup k (vals s) with Some v => Ok v | None => Raise KeyError end.

(* MutableMapping.pop(key) without default *)
Definition pop (s : sd) (k : key) : sd * res val :=
  match getitem s k with
  | Raise e => (s, Raise e)
  | Ok v => (fst (delitem s k), Ok v)
  end.

Definition pop_at (s : sd) (i : Z) : sd * res val :=
  match py_nth i (order s) with
  | None => (s, Raise IndexError)
  | Some k => pop s k
  end.

(* MutableMapping.popitem: the FIRST key of iteration order *)
Definition popitem (s : sd) : sd * res (key * val) :=
  match order s with
  | [] => (s, Raise KeyError)
  | k :: _ => match getitem s k with
              | Raise e => (s, Raise e)
              | Ok v => (fst (delitem s k), Ok (k, v))
              end
  end.

(* MutableMapping.clear: popitem until KeyError *)
Fixpoint clear_fuel (fuel : nat) (s : sd) : sd :=
  match fuel with
  | O => s
  | S f => match popitem s with
           | (s', Ok _) => clear_fuel f s'
           | (s', Raise _) => s'
           end
  end.
Definition clear (s : sd) : sd := clear_fuel (S (length (order s))) s.

(* a sequence of stores that stops at the first exception (update / extend) *)
Fixpoint store_all (f : sd -> key -> val -> sd * res unit) (s : sd) (items : list (key * val))
  : sd * res unit :=
  match items with
  | [] => (s, Ok tt)
  | (k, v) :: items' =>
      match f s k v with
      | (s', Ok _) => store_all f s' items'
      | (s', Raise e) => (s', Raise e)
      end
  end.

Definition setdefault (s : sd) (k : key) (v : val) : sd * res val :=
  match getitem s k with
  | Ok w => (s, Ok w)
  | Raise _ => match setitem s k v with
               | (s', Ok _) => (s', Ok v)
               | (s', Raise e) => (s', Raise e)
               end
  end.

(* ---- operations as data ---- *)
Inductive sdop :=
| OSet (k : key) (v : val)
| OAdd (k : key) (v : val) (after : bool) (index : option Z) (pos_key : option key) (replace : bool)
| ODel (k : key)
| OPop (k : key)
| OPopAt (i : Z)
| OPopItem
| OSort (rev : bool)
| OReverse
| OClear
| OAppend (k : key) (v : val) (replace : bool)       (* MetadataObject.append *)
| OExtend (items : list (key * val)) (replace : bool) (* MetadataObject.extend *)
| OUpdate (items : list (key * val))
| OSetDefault (k : key) (v : val).

(* result of an operation: nothing, a value, or an item *)
Inductive sdout := RNone | RVal (v : val) | RItem (k : key) (v : val).

Definition lift_unit {S : Type} (r : S * res unit) : S * res sdout :=
  match r with (s, Ok _) => (s, Ok RNone) | (s, Raise e) => (s, Raise e) end.
Definition lift_val {S : Type} (r : S * res val) : S * res sdout :=
  match r with (s, Ok v) => (s, Ok (RVal v)) | (s, Raise e) => (s, Raise e) end.

Definition step (s : sd) (o : sdop) : sd * res sdout :=
  match o with
  | OSet k v => lift_unit (setitem s k v)
  | OAdd k v after index pos_key replace => lift_unit (add_item s k v after index pos_key replace)
  | ODel k => lift_unit (delitem s k)
  | OPop k => lift_val (pop s k)
  | OPopAt i => lift_val (pop_at s i)
  | OPopItem => match popitem s with
                | (s', Ok (k, v)) => (s', Ok (RItem k v))
                | (s', Raise e) => (s', Raise e)
                end
  | OSort rv => (mkSd (vals s) (if rv then rev (sort_keys (order s)) else sort_keys (order s)), Ok RNone)
  | OReverse => (mkSd (vals s) (rev (order s)), Ok RNone)
  | OClear => (clear s, Ok RNone)
  | OAppend k v replace => lift_unit (add_item s k v false None None replace)
  | OExtend items replace =>
      lift_unit (store_all (fun s k v => add_item s k v false None None replace) s items)
  | OUpdate items => lift_unit (store_all setitem s items)
  | OSetDefault k v => lift_val (setdefault s k v)
  end.

Definition items (s : sd) : list (key * val) :=
  flat_map (fun k => match lookup k (vals s) with Some v => [(k, v)] | None => [] end) (order s).

Fixpoint run (s : sd) (ops : list sdop) : sd :=
  match ops with [] => s | o :: ops' => run (fst (step s o)) ops' end.

(* ================================================================== *)
(* The reference ordered map of the documented semantics (the SPEC).   *)
(* One list of (key, value); no separate order, no indices for the     *)
(* "relative to key K" forms.                                          *)

Definition omap := list (key * val).

Fixpoint om_remove (k : key) (m : omap) : omap :=
  match m with
  | [] => []
  | (y, w) :: m' => if str_eqb y k then m' else (y, w) :: om_remove k m'
  end.

Fixpoint om_replace (k : key) (v : val) (m : omap) : omap :=
  match m with
  | [] => []
  | (y, w) :: m' => if str_eqb y k then (y, v) :: m' else (y, w) :: om_replace k v m'
  end.

(* immediately before / after the entry of key K *)
Fixpoint om_ins_before (K : key) (x : key * val) (m : omap) : omap :=
  match m with
  | [] => [x]
  | (y, w) :: m' => if str_eqb y K then x :: (y, w) :: m' else (y, w) :: om_ins_before K x m'
  end.
Fixpoint om_ins_after (K : key) (x : key * val) (m : omap) : omap :=
  match m with
  | [] => [x]
  | (y, w) :: m' => if str_eqb y K then (y, w) :: x :: m' else (y, w) :: om_ins_after K x m'
  end.

Fixpoint om_insert_nat (n : nat) (x : key * val) (m : omap) : omap :=
  match n, m with
  | O, _ => x :: m
  | S n', [] => [x]
  | S n', y :: m' => y :: om_insert_nat n' x m'
  end.

Definition om_has (k : key) (m : omap) : bool := has_key k m.

Definition om_add (m : omap) (k : key) (v : val) (after : bool)
           (index : option Z) (pos_key : option key) (replace : bool) : omap * res unit :=
  if negb (validate v) then (m, Raise ValueError) else
  match index, pos_key with
  | Some _, Some _ => (m, Raise ValueError)
  | None, None =>
      if om_has k m then
        if replace then (om_replace k v m, Ok tt) else (m, Raise KeyError)
      else (m ++ [(k, v)], Ok tt)
  | Some i, None =>
      if om_has k m && negb replace then (m, Raise KeyError) else
      let rest := om_remove k m in          (* no-op when k is new *)
      let i' := if after then i + 1 else i in
      (om_insert_nat (py_insert_pos i' (length rest)) (k, v) rest, Ok tt)
  | None, Some K =>
      if negb (om_has K m) then (m, Raise KeyError) else
      if om_has k m && negb replace then (m, Raise KeyError) else
      if str_eqb K k then (om_replace k v m, Ok tt)       (* relative to itself: keeps its place *)
      else
        let rest := om_remove k m in
        ((if after then om_ins_after K (k, v) rest else om_ins_before K (k, v) rest), Ok tt)
  end.

Definition om_del (m : omap) (k : key) : omap * res unit :=
  if om_has k m then (om_remove k m, Ok tt) else (m, Raise KeyError).

Definition om_sort (m : omap) : omap :=
  flat_map (fun k => match lookup k m with Some v => [(k, v)] | None => [] end)
           (sort_keys (map fst m)).

Definition om_nth (i : Z) (m : omap) : option key := py_nth i (map fst m).

Definition om_step (m : omap) (o : sdop) : omap * res sdout :=
  match o with
  | OSet k v => lift_unit (om_add m k v false None None true)
  | OAdd k v after index pos_key replace => lift_unit (om_add m k v after index pos_key replace)
  | ODel k => lift_unit (om_del m k)
  | OPop k => match lookup k m with
              | Some v => (om_remove k m, Ok (RVal v))
              | None => (m, Raise KeyError)
              end
  | OPopAt i => match om_nth i m with
                | None => (m, Raise IndexError)
                | Some k => match lookup k m with
                            | Some v => (om_remove k m, Ok (RVal v))
                            | None => (m, Raise KeyError)
                            end
                end
  | OPopItem => match m with
                | [] => (m, Raise KeyError)
                | (k, v) :: m' => (m', Ok (RItem k v))
                end
  | OSort rv => ((if rv then rev (om_sort m) else om_sort m), Ok RNone)
  | OReverse => (rev m, Ok RNone)
  | OClear => ([], Ok RNone)
  | OAppend k v replace => lift_unit (om_add m k v false None None replace)
  | OExtend items replace =>
      lift_unit ((fix go (m : omap) (its : list (key * val)) : omap * res unit :=
                    match its with
                    | [] => (m, Ok tt)
                    | (k, v) :: its' =>
                        match om_add m k v false None None replace with
                        | (m', Ok _) => go m' its'
                        | (m', Raise e) => (m', Raise e)
                        end
                    end) m items)
  | OUpdate items =>
      lift_unit ((fix go (m : omap) (its : list (key * val)) : omap * res unit :=
                    match its with
                    | [] => (m, Ok tt)
                    | (k, v) :: its' =>
                        match om_add m k v false None None true with
                        | (m', Ok _) => go m' its'
                        | (m', Raise e) => (m', Raise e)
                        end
                    end) m items)
  | OSetDefault k v => match lookup k m with
                       | Some w => (m, Ok (RVal w))
                       | None => match om_add m k v false None None true with
                                 | (m', Ok _) => (m', Ok (RVal v))
                                 | (m', Raise e) => (m', Raise e)
                                 end
                       end
  end.

Fixpoint om_run (m : omap) (ops : list sdop) : omap :=
  match ops with [] => m | o :: ops' => om_run (fst (om_step m o)) ops' end.

(* ---- wire ---- *)
From Coq Require Import String.
Local Open Scope string_scope.
Definition sitem (kv : key * val) : sexp := SList [SStr (fst kv); SInt (snd kv)].
Definition sout (o : sdout) : sexp :=
  match o with
  | RNone => sym "none"
  | RVal v => SList [sym "val"; SInt v]
  | RItem k v => SList [sym "item"; SStr k; SInt v]
  end.

Definition dec_bool (e : sexp) : option bool :=
  if is_sym "true" e then Some true else if is_sym "false" e then Some false else None.
Definition dec_optZ (e : sexp) : option (option Z) :=
  match e with
  | SInt z => Some (Some z)
  | _ => if is_sym "none" e then Some None else None
  end.
Definition dec_optkey (e : sexp) : option (option key) :=
  match e with
  | SList [SStr k] => Some (Some k)
  | _ => if is_sym "none" e then Some None else None
  end.
Fixpoint dec_items (l : list sexp) : option (list (key * val)) :=
  match l with
  | [] => Some []
  | SList [SStr k; SInt v] :: l' =>
      match dec_items l' with Some r => Some ((k, v) :: r) | None => None end
  | _ => None
  end.

Definition dec_op (e : sexp) : option sdop :=
  match e with
  | SList (SStr name :: args) =>
      if str_eqb name (s_ "set") then
        match args with [SStr k; SInt v] => Some (OSet k v) | _ => None end
      else if str_eqb name (s_ "add") then
        match args with
        | [SStr k; SInt v; a; i; pk; r] =>
            match dec_bool a, dec_optZ i, dec_optkey pk, dec_bool r with
            | Some a, Some i, Some pk, Some r => Some (OAdd k v a i pk r)
            | _, _, _, _ => None
            end
        | _ => None
        end
      else if str_eqb name (s_ "del") then
        match args with [SStr k] => Some (ODel k) | _ => None end
      else if str_eqb name (s_ "pop") then
        match args with [SStr k] => Some (OPop k) | _ => None end
      else if str_eqb name (s_ "popat") then
        match args with [SInt i] => Some (OPopAt i) | _ => None end
      else if str_eqb name (s_ "popitem") then Some OPopItem
      else if str_eqb name (s_ "sort") then
        match args with [r] => match dec_bool r with Some r => Some (OSort r) | None => None end | _ => None end
      else if str_eqb name (s_ "reverse") then Some OReverse
      else if str_eqb name (s_ "clear") then Some OClear
      else if str_eqb name (s_ "append") then
        match args with
        | [SStr k; SInt v; r] => match dec_bool r with Some r => Some (OAppend k v r) | None => None end
        | _ => None
        end
      else if str_eqb name (s_ "extend") then
        match args with
        | [SList its; r] => match dec_items its, dec_bool r with
                            | Some its, Some r => Some (OExtend its r)
                            | _, _ => None
                            end
        | _ => None
        end
      else if str_eqb name (s_ "update") then
        match args with
        | [SList its] => match dec_items its with Some its => Some (OUpdate its) | None => None end
        | _ => None
        end
      else if str_eqb name (s_ "setdefault") then
        match args with [SStr k; SInt v] => Some (OSetDefault k v) | _ => None end
      else None
  | _ => None
  end.

(* (sd-run op ...) -> per step: (result, items of the model, items of the spec) *)
Fixpoint sd_trace (s : sd) (m : omap) (ops : list sexp) : list sexp :=
  match ops with
  | [] => []
  | e :: ops' =>
      match dec_op e with
      | None => [bad_request]
      | Some o =>
          let '(s', r) := step s o in
          let '(m', r') := om_step m o in
          SList [sres sout r; SList (map sitem (items s')); SList (map SStr (order s'));
                 sres sout r'; SList (map sitem m')]
          :: sd_trace s' m' ops'
      end
  end.

Definition cmd_sd_run (ops : list sexp) : sexp := SList (sd_trace sd_empty [] ops).
