(* C01 - ZINC round trip.  Proved on the models of the writer and the reader: THE GENERAL THEOREM for version 3.0
   (C01_full_grid, C01_value_relation) - grids with or without grid and column metadata, any columns, any rows, every
   kind but date-times as cell or metadata value, lists, dicts and nested grids to any depth, up to parse_grid and
   parser.parse (C01_document), several grids per document (C01_multi_grid); date-times per kind (C01_datetime) and as
   cells of whole grids in two-sided form (C01_full_grid_with_datetimes); version 2.0 grids without and with metadata
   (C01_grid_2_0, C01_grid_2_0_with_metadata).  Each kind goes through the reader's WHOLE scalar alternation.
   Date-times anywhere - inside lists, dicts and nested grids, as metadata values, as cells - are
   C01_full_grid_two_sided.
   Version 2.0 grids with date-time cells and metadata values are C01_grid_2_0_with_datetimes / C01_grid_2_0_two_sided.
   PARTIAL: what a date-time text denotes (iso8601 / pytz) is the oracle of the model-implementation tie and of the
   search (harness/props/c01.py); number texts are CPython tokens. *)
From Coq Require Import String.
From Coq Require Import List NArith Bool.
From HS Require Import Base.Prelude Model.Value Model.Escape Model.Version Model.Json Model.ZincDump Model.ZincParse.
From HS Require Import Proofs.EscapeP Proofs.ZincParseP Proofs.ZincDumpP Proofs.ZincNumP Proofs.ZincDateP Proofs.ZincListP Proofs.ZincGridP Proofs.ZincDictP Proofs.ZincMetaP Proofs.ZincLeavesP Proofs.ZincDocP Proofs.ZincNestP Proofs.ZincCoordP Proofs.ZincXStrP Proofs.ZincDateTimeP Proofs.ZincMultiP Proofs.ZincV2P Proofs.ZincMeta2P Proofs.ZincRawP Proofs.ZincRaw2P Proofs.ZincRawV2P.
Import ListNotations.
Open Scope N_scope.

Theorem C01_str_partial : forall f g pre3 ver3 s t rest,
  zdump (S f) pre3 (VStr s) = Ok t -> p_scalar (S g) ver3 (t ++ rest) = Some (Ok (VStr s), rest).
Proof. exact str_scalar_roundtrip. Qed.
Theorem C01_uri_partial : forall f g pre3 ver3 s t rest,
  zdump (S f) pre3 (VUri s) = Ok t -> p_scalar (S g) ver3 (t ++ rest) = Some (Ok (VUri s), rest).
Proof. exact uri_scalar_roundtrip. Qed.
(* the letter scalars - null, marker, Remove, booleans, and NA under 3.0 - written by the dumper come back through
   the whole alternation whenever a delimiter (end of text, comma, line end, blank, ] } >) follows; for NA the
   longest match wins over N *)
Theorem C01_letter_scalars_partial : forall f g pre3 ver3 v t rest,
  In v [VNull; VMarker; VRemove; VBool true; VBool false] -> delim rest ->
  zdump (S f) pre3 v = Ok t -> p_scalar (S g) ver3 (t ++ rest) = Some (Ok v, rest).
Proof.
  intros f g pre3 ver3 v t rest Hin Hd. cbn [In] in Hin.
  destruct Hin as [E|[E|[E|[E|[E|[]]]]]]; subst v; cbn [zdump]; intro Q; inversion Q; subst t; cbn [List.app].
  - apply scalar_null; exact Hd.
  - apply scalar_marker; exact Hd.
  - apply scalar_remove; exact Hd.
  - apply scalar_true; exact Hd.
  - apply scalar_false; exact Hd.
Qed.
Theorem C01_na_partial : forall f g t rest, delim rest ->
  zdump (S f) false VNA = Ok t -> p_scalar (S g) true (t ++ rest) = Some (Ok VNA, rest).
Proof. intros f g t rest Hd. cbn [zdump]. intro Q; inversion Q; subst t. cbn [List.app]. apply scalar_na. exact Hd. Qed.

(* a reference without display name, followed by a delimiter other than a blank (a blank followed by a quoted string
   would be its display name) *)
Theorem C01_ref_partial : forall f g pre3 ver3 name t rest,
  Forall (fun c => is_zref_char c = true) name -> delim_ns rest ->
  zdump (S f) pre3 (VRef name None) = Ok t -> p_scalar (S g) ver3 (t ++ rest) = Some (Ok (VRef name None), rest).
Proof.
  intros f g pre3 ver3 name t rest Hn Hd. cbn [zdump]. intro Q; inversion Q; subst t. cbn [List.app].
  apply scalar_ref_plain; assumption.
Qed.

(* NUMBERS AND QUANTITIES: every finite number whose text has the shape the writer emits - optional minus sign, digits,
   optional fraction, optional exponent e / e+ / e- with digits (the text itself comes from CPython's float formatting, an
   oracle) - with or without a unit (unit characters that are not digits, not starting with _ e E), followed by a
   delimiter, is written as that text and comes back through the WHOLE scalar alternation of either version as exactly that
   number: the date, time, date-time and extended-string rules, which also start with digits, never win *)
Theorem C01_number : forall f g pre3 ver3 sg ip fp ex u t rest,
  ntok_ok sg ip fp ex u -> delim rest ->
  zdump (S f) pre3 (nval sg ip fp ex u) = Ok t -> p_scalar (S g) ver3 (t ++ rest) = Some (Ok (nval sg ip fp ex u), rest).
Proof.
  intros f g pre3 ver3 sg ip fp ex u t rest Hok Hd. unfold nval. cbn [zdump znum_text].
  pose proof (scalar_number g ver3 sg ip fp ex u rest Hok Hd) as S.
  destruct u as [[|c u']|]; intro Q; inversion Q; subst t; cbn [upt] in S.
  - destruct Hok as [_ [_ [_ [[Hne _] _]]]]. contradiction.
  - rewrite <- app_assoc. exact S.
  - exact S.
Qed.
Example C01_number_nonvacuous :
  ntok_ok true (s_ "12") (Some (s_ "5")) (Some (Some 45, s_ "07")) (Some (s_ "kW/h")) /\
  mant true (s_ "12") (Some (s_ "5")) (Some (Some 45, s_ "07")) = s_ "-12.5e-07" /\
  ntok_ok false (s_ "2020") None None None /\ delim (s_ ",x").
Proof.
  assert (D : forall l, forallb is_ascii_digit l = true -> l <> [] -> digs l).
  { intros l H Hne. split; [exact Hne|]. apply Forall_forall. intros c Hc. rewrite forallb_forall in H. exact (H c Hc). }
  split; [|split; [reflexivity|split]].
  - unfold ntok_ok. split; [apply D; [reflexivity|discriminate]|]. split; [apply D; [reflexivity|discriminate]|].
    split; [split; [right; right; reflexivity|apply D; [reflexivity|discriminate]]|]. split; [|left; reflexivity].
    cbn [u_ok]. unfold unit_ok. split; [discriminate|]. split; [|repeat split; discriminate].
    repeat (constructor; [split; reflexivity|]). constructor.
  - unfold ntok_ok. split; [apply D; [reflexivity|discriminate]|]. cbn [fp_ok ex_ok u_ok]. repeat split. right; reflexivity.
  - right. eexists. eexists. split; [reflexivity|]. left. reflexivity.
Qed.

(* DATES AND TIMES: every valid calendar date and every time of day (with or without microseconds), followed by a
   delimiter, is written in ISO form and comes back through the WHOLE scalar alternation of either version: the number
   rule, which reads the leading digits, loses to the longer match; the date-time, extended-string and the other
   digit-led rules do not match *)
Theorem C01_date : forall f g pre3 ver3 y m d t rest,
  valid_date y m d = true -> delim rest ->
  zdump (S f) pre3 (VDate y m d) = Ok t -> p_scalar (S g) ver3 (t ++ rest) = Some (Ok (VDate y m d), rest).
Proof. intros f g pre3 ver3 y m d t rest Hv Hd. cbn [zdump]. intro Q; inversion Q; subst t. apply scalar_date; assumption. Qed.
Theorem C01_time : forall f g pre3 ver3 h mi s us t rest,
  time_ok h mi s us -> delim rest ->
  zdump (S f) pre3 (VTime h mi s us) = Ok t -> p_scalar (S g) ver3 (t ++ rest) = Some (Ok (VTime h mi s us), rest).
Proof. intros f g pre3 ver3 h mi s us t rest Hv Hd. cbn [zdump]. intro Q; inversion Q; subst t. apply scalar_time; assumption. Qed.
Example C01_date_time_nonvacuous : valid_date 2024 2 29 = true /\ time_ok 23 59 59 999999 /\ iso_time 7 5 0 1500 = s_ "07:05:00.001500".
Proof. split; [reflexivity|]. split; [unfold time_ok; repeat split; (discriminate || reflexivity)|reflexivity]. Qed.

(* LISTS, to any depth: a list of values that are each written as some text and read back from it (whenever a comma, a
   closing bracket, a line end or the end of the text follows) is written as [t1,t2,...] and read back as that list
   through the whole 3.0 scalar alternation.  zcell n v t: v is a leaf (below) or a list of zcell (n-1) values. *)
Theorem C01_nested_lists : forall n v t, zcell n v t ->
  (forall f, zdump (S (n + f)) false v = Ok t) /\
  (forall k rest, delim_ns rest -> p_scalar (S (n + k)) true (t ++ rest) = Some (Ok v, rest)).
Proof. intros n v t H. split; [apply zcell_dump; exact H|]. intros k rest Hd. exact (zcell_reads n v t H k rest Hd). Qed.
(* the leaves: every string and URI, every finite number / quantity of the written shape, every valid date, every time,
   null, marker, Remove, NA, booleans, references without display name *)
Theorem C01_leaves :
  (forall s e, escape_str s = Ok e -> leafc (VStr s) (DQ :: e ++ [DQ])) /\
  (forall s e, escape_uri s = Ok e -> leafc (VUri s) (BQ :: e ++ [BQ])) /\
  (forall sg ip fp ex u, ntok_ok sg ip fp ex u -> leafc (nval sg ip fp ex u) (mant sg ip fp ex ++ upt u)) /\
  (forall y m d, valid_date y m d = true -> leafc (VDate y m d) (iso_date y m d)) /\
  (forall h mi s us, time_ok h mi s us -> leafc (VTime h mi s us) (iso_time h mi s us)) /\
  leafc VNull [78] /\ leafc VMarker [77] /\ leafc VRemove [82] /\ leafc VNA [78; 65] /\ (forall b, leafc (VBool b) [if b then 84 else 70]) /\
  (forall name, Forall (fun c => is_zref_char c = true) name -> leafc (VRef name None) (64 :: name)).
Proof.
  exact (conj leafc_str (conj leafc_uri (conj leafc_number (conj leafc_date (conj leafc_time (conj leafc_null (conj leafc_marker
         (conj leafc_remove (conj leafc_na (conj leafc_bool leafc_ref)))))))))).
Qed.

(* WHOLE GRIDS (version 3.0, no grid or column metadata): for every non-empty list of distinct column names, every number
   of rows, every cell a zcell value (so: any of the leaves above or nested lists of them, at any depth n), the text the
   writer produces is read back by the grid rule - and by the top-level reader parse_grid, version sniffing included -
   as exactly that grid.  (With metadata, dicts, nested grids, date-times, coordinates, Bin, XStr: tie + search.) *)
Theorem C01_grid_roundtrip : forall n names rows rts,
  names <> [] -> Forall colname names -> NoDup names -> Forall2 (grid_cells_ok n names) rows rts ->
  (forall f, zdump_grid (S (S (n + f))) V30 [] (map (fun x => (x, [])) names) (map (fun cells => combine names cells) rows) = Ok (plain_text names rts)) /\
  (forall k, p_grid (S (S (n + k))) true (plain_text names rts) = Some (Ok (plain_grid names rows), [])).
Proof. exact grid_roundtrip. Qed.
Theorem C01_grid_roundtrip_top : forall n names rows rts,
  names <> [] -> Forall colname names -> NoDup names -> Forall2 (grid_cells_ok n names) rows rts ->
  (n <= length (plain_text names rts))%nat ->
  zparse_grid (plain_text names rts) = Ok (plain_grid names rows).
Proof. exact grid_roundtrip_top. Qed.

(* VALUES WITH DICTS: zval n v t - v is a leaf that is also read back before a blank (every leaf above but the plain
   reference), a list of zval (n-1) values, or a dict {k1:t1 k2:t2 ...} with distinct tag names over zval (n-1) values *)
Theorem C01_values : forall n v t, zval n v t ->
  (forall f, zdump (S (n + f)) false v = Ok t) /\
  (forall k rest, delim rest -> p_scalar (S (n + k)) true (t ++ rest) = Some (Ok v, rest)).
Proof. intros n v t H. split; [apply zval_dump; exact H|]. intros k rest Hd. exact (zval_readsd n v t H k rest Hd). Qed.
(* whole grids whose cells are ANY values that are written and read back cell-wise (gcell: zcell or zval values) *)
Theorem C01_grid_values : forall n names rows rts,
  names <> [] -> Forall colname names -> NoDup names -> Forall2 (grid_gcells_ok n names) rows rts ->
  (forall f, zdump_grid (S (S (n + f))) V30 [] (map (fun x => (x, [])) names) (map (fun cells => combine names cells) rows) = Ok (plain_text names rts)) /\
  (forall k, p_grid (S (S (n + k))) true (plain_text names rts) = Some (Ok (plain_grid names rows), [])) /\
  ((n <= length (plain_text names rts))%nat -> zparse_grid (plain_text names rts) = Ok (plain_grid names rows)).
Proof. exact grid_roundtrip_values. Qed.
Example C01_dict_nonvacuous :
  zval 3 (VDict [(s_ "a", VStr (s_ "x")); (s_ "b", VList [VMarker; VDict []])]) (s_ "{a:""x"" b:[M,{}]}").
Proof.
  right. right. exists [(s_ "a", VStr (s_ "x"), s_ """x"""); (s_ "b", VList [VMarker; VDict []], s_ "[M,{}]")].
  split; [reflexivity|]. split; [reflexivity|]. split; [repeat constructor; cbn [In]; intuition discriminate|].
  constructor; [split; [repeat constructor|left; apply (leafd_str (s_ "x") (s_ "x")); reflexivity]|].
  constructor; [|constructor]. split; [repeat constructor|].
  right. left. exists [VMarker; VDict []], [s_ "M"; s_ "{}"]. split; [reflexivity|]. split; [reflexivity|].
  constructor; [left; exact leafd_marker|]. constructor; [|constructor].
  right. right. exists []. split; [reflexivity|]. split; [reflexivity|]. split; constructor.
Qed.

(* WHOLE GRIDS WITH GRID AND COLUMN METADATA: metadata tags are bare names (markers) or name:value with a zval value;
   distinct tag names (none called ver), distinct column names, per column distinct tag names; cells as above.  The text
   written is read back - by the grid rule and by parse_grid - as exactly the grid. *)
Theorem C01_grid_with_metadata : forall n mps cols rows rts,
  Forall (mval n) mps -> NoDup (mkeys mps) -> ~ In VERK (mkeys mps) ->
  cols <> [] -> Forall (mcol n) cols -> NoDup (map fst cols) ->
  Forall2 (grid_gcells_ok n (map fst cols)) rows rts ->
  (forall f, zdump_grid (S (S (n + f))) V30 (map pkv mps) (map (fun c => (fst c, map pkv (snd c))) cols)
                        (map (fun cells => combine (map fst cols) cells) rows) = Ok (meta_text mps cols rts)) /\
  (forall k, p_grid (S (S (n + k))) true (meta_text mps cols rts) = Some (Ok (meta_grid mps cols rows), [])) /\
  ((n <= length (meta_text mps cols rts))%nat -> zparse_grid (meta_text mps cols rts) = Ok (meta_grid mps cols rows)).
Proof. exact grid_meta_roundtrip. Qed.
Example C01_metadata_nonvacuous :
  let mps := [(s_ "site", VMarker, []); (s_ "dis", VStr (s_ "a b"), s_ """a b""")] in
  let cols := [(s_ "a", [(s_ "unit", VStr (s_ "kW"), s_ """kW"""); (s_ "his", VMarker, [])]); (s_ "b", [])] in
  let rows := [[VBool true; VNull]] in
  let rts := [[s_ "T"; s_ "N"]] in
  meta_text mps cols rts = s_ "ver:""3.0"" site dis:""a b""
a unit:""kW"" his,b
T,N
" /\ zparse_grid (meta_text mps cols rts) = Ok (meta_grid mps cols rows).
Proof.
  intros mps cols rows rts. split; [reflexivity|].
  assert (Sab : zval 0 (VStr (s_ "a b")) (s_ """a b""")) by (apply (leafd_str (s_ "a b") (s_ "a b")); reflexivity).
  assert (Skw : zval 0 (VStr (s_ "kW")) (s_ """kW""")) by (apply (leafd_str (s_ "kW") (s_ "kW")); reflexivity).
  apply (C01_grid_with_metadata 0 mps cols rows rts).
  - constructor; [split; [repeat constructor|left; reflexivity]|]. constructor; [split; [repeat constructor|right; exact Sab]|constructor].
  - repeat constructor; vm_compute; intuition discriminate.
  - vm_compute. intuition discriminate.
  - discriminate.
  - constructor; [|constructor; [|constructor]].
    + split; [repeat constructor|]. split; [|repeat constructor; vm_compute; intuition discriminate].
      constructor; [split; [repeat constructor|right; exact Skw]|]. constructor; [split; [repeat constructor|left; reflexivity]|constructor].
    + split; [repeat constructor|]. split; constructor.
  - repeat constructor; vm_compute; intuition discriminate.
  - constructor; [|constructor]. split; [reflexivity|].
    constructor; [apply gcell_zval; exact (leafd_bool true)|]. constructor; [apply gcell_zval; exact leafd_null|constructor].
  - apply Nat.le_0_l.
Qed.

(* more leaves: references with a display name (any name over the reference alphabet, any display string), Bin,
   coordinates (degree texts: optional minus, digits, optional fraction) and extended strings (type name: an upper-case
   letter other than T F N M R I B C, which start other literals, then letters, digits, underscores; any payload) *)
Theorem C01_more_leaves :
  (forall name s e, Forall (fun c => is_zref_char c = true) name -> escape_str s = Ok e ->
                    leafd (VRef name (Some s)) (64 :: name ++ 32 :: DQ :: e ++ [DQ])) /\
  (forall m, bin_ok m -> leafd (VBin m) (BINP ++ m ++ [41])) /\
  (forall s1 i1 f1 s2 i2 f2, deg_ok i1 f1 -> deg_ok i2 f2 ->
                    leafd (VCoord (deg s1 i1 f1) (deg s2 i2 f2)) (coord_text (deg s1 i1 f1) (deg s2 i2 f2))) /\
  (forall en s e, xname_ok en -> escape_str s = Ok e -> leafd (VXStr en s) (en ++ 40 :: DQ :: e ++ [DQ; 41])).
Proof. split; [exact leafd_ref_dis|]. split; [exact leafd_bin|]. split; [exact leafd_coord|exact leafd_xstr]. Qed.
(* DATE-TIMES: what the writer emits for a date-time in a named zone (UTC, or a name starting with an upper-case letter
   other than U and G) with a whole-minute offset below 24 h is read back through the WHOLE scalar alternation as the
   raw ISO text and the zone name, exactly (the date rule, which matches the leading date, and the number rule, which
   reads the year, lose to the longer match).  Turning the raw text into an instant is iso8601 + pytz: an oracle. *)
Theorem C01_datetime : forall f g v3 y m d h mi s us off zn sg hh mm t rest,
  iso_offset off = off_text sg hh mm -> dt_ok y m d h mi s us sg hh mm -> tzname_ok zn -> delim rest ->
  zdump (S f) false (VDateTime y m d h mi s us off (ZName zn)) = Ok t ->
  p_scalar (S g) v3 (t ++ rest) = Some (Ok (VDateTimeRaw (iso_datetime y m d h mi s us off) (Some zn)), rest).
Proof. exact datetime_written_read. Qed.
Example C01_datetime_nonvacuous :
  iso_offset (-18000)%Z = off_text 45 5 0 /\ dt_ok 2020 6 1 12 30 0 250000 45 5 0 /\ tzname_ok (s_ "New_York") /\ tzname_ok (s_ "UTC") /\
  iso_datetime 2020 6 1 12 30 0 250000 (-18000)%Z = s_ "2020-06-01T12:30:00.250000-05:00".
Proof.
  split; [reflexivity|]. split; [split; [reflexivity|split; [unfold time_ok; repeat split; (discriminate || reflexivity)|]]|].
  - unfold off_ok. repeat split; try reflexivity. right; reflexivity.
  - split; [right; repeat split; try discriminate; repeat constructor|]. split; [left; reflexivity|reflexivity].
Qed.

(* DOCUMENTS: a text of non-empty lines, each ended by one line feed, is one chunk for parser.parse (trailing-newline
   normalisation, splitting at blank lines, dropping blank chunks): what parse_grid makes of it is the document's one grid *)
Theorem C01_document : forall s g, s <> [] -> (last s 0 =? 10) = false -> no_adj (s ++ [10]) = true ->
  (match s with c :: _ => negb ((c =? 32) || ((9 <=? c) && (c <=? 13)) || ((28 <=? c) && (c <=? 31)) || (c =? 133) || (c =? 160)
                    || (c =? 5760) || ((8192 <=? c) && (c <=? 8202)) || (c =? 8232) || (c =? 8233) || (c =? 8239)
                    || (c =? 8287) || (c =? 12288)) = true | [] => False end) ->
  zparse_grid (s ++ [10]) = Ok g -> zparse_doc (s ++ [10]) = Ok [g].
Proof. exact doc_single. Qed.

(* VERSION 2.0: for every non-empty list of distinct column names and any number of rows whose cells are 2.0 values
   (cell2: strings, URIs, numbers / quantities, dates, times, null, marker, Remove, booleans, plain references - not a
   3.0-only kind), the text written under the pre-3.0 rules is read back by parse_grid - the 2.0 scalar alternation and
   the reader's version gate included - as exactly that grid. *)
Theorem C01_grid_2_0 : forall names rows rts,
  names <> [] -> Forall colname names -> NoDup names -> Forall2 (grid2_cells_ok names) rows rts ->
  (forall f, zdump_grid (S (S f)) V20 [] (map (fun x => (x, [])) names) (map (fun cells => combine names cells) rows) = Ok (plain_text2 names rts)) /\
  zparse_grid (plain_text2 names rts) = Ok (plain_grid2 names rows).
Proof. exact grid2_roundtrip. Qed.
Theorem C01_leaves_2_0 :
  (forall s e, escape_str s = Ok e -> cell2 (VStr s) (DQ :: e ++ [DQ])) /\
  (forall s e, escape_uri s = Ok e -> cell2 (VUri s) (BQ :: e ++ [BQ])) /\
  (forall sg ip fp ex u, ntok_ok sg ip fp ex u -> cell2 (nval sg ip fp ex u) (mant sg ip fp ex ++ upt u)) /\
  (forall y m d, valid_date y m d = true -> cell2 (VDate y m d) (iso_date y m d)) /\
  (forall h mi s us, time_ok h mi s us -> cell2 (VTime h mi s us) (iso_time h mi s us)) /\
  cell2 VNull [78] /\ cell2 VMarker [77] /\ cell2 VRemove [82] /\ (forall b, cell2 (VBool b) [if b then 84 else 70]) /\
  (forall name, Forall (fun c => is_zref_char c = true) name -> cell2 (VRef name None) (64 :: name)).
Proof.
  exact (conj cell2_str (conj cell2_uri (conj cell2_number (conj cell2_date (conj cell2_time (conj cell2_null (conj cell2_marker
         (conj cell2_remove (conj cell2_bool cell2_ref))))))))).
Qed.
Example C01_grid_2_0_nonvacuous :
  zparse_grid (s_ "ver:""2.0""
a,b
""x"",N
T,@r
") = Ok (plain_grid2 [s_ "a"; s_ "b"] [[VStr (s_ "x"); VNull]; [VBool true; VRef (s_ "r") None]]).
Proof.
  destruct (C01_grid_2_0 [s_ "a"; s_ "b"] [[VStr (s_ "x"); VNull]; [VBool true; VRef (s_ "r") None]] [[s_ """x"""; s_ "N"]; [s_ "T"; s_ "@r"]]) as [_ T].
  - discriminate.
  - repeat constructor.
  - repeat constructor; vm_compute; intuition discriminate.
  - constructor; [|constructor; [|constructor]]; (split; [reflexivity|]).
    + constructor; [apply (cell2_str (s_ "x") (s_ "x")); reflexivity|]. constructor; [exact cell2_null|constructor].
    + constructor; [exact (cell2_bool true)|]. constructor; [apply cell2_ref; repeat constructor|constructor].
  - exact T.
Qed.

(* VERSION 2.0 GRIDS WITH METADATA: grid metadata and column metadata (marker tags and tags with 2.0 values; distinct tag
   names), any non-empty list of distinct column names, any rows of 2.0 cells: the writer under the pre-3.0 rules writes
   the text, and parse_grid (version sniffing, the 2.0 alternation, the reader's version gate over metadata, column
   metadata and cells) reads it back as exactly that grid, declared version included. *)
Theorem C01_grid_2_0_with_metadata : forall mps cols rows rts,
  Forall mval2 mps -> NoDup (mkeys mps) -> ~ In VERK (mkeys mps) ->
  cols <> [] -> Forall mcol2 cols -> NoDup (map fst cols) ->
  Forall2 (grid2_cells_ok (map fst cols)) rows rts ->
  (forall f, zdump_grid (S (S f)) V20 (map pkv mps) (map (fun c => (fst c, map pkv (snd c))) cols)
                        (map (fun cells => combine (map fst cols) cells) rows) = Ok (meta_text2 mps cols rts)) /\
  zparse_grid (meta_text2 mps cols rts) = Ok (meta_grid2 mps cols rows).
Proof. exact grid2_meta_roundtrip. Qed.
(* the 2.0 metadata values *)
Theorem C01_metadata_values_2_0 :
  (forall s e, escape_str s = Ok e -> val2 (VStr s) (DQ :: e ++ [DQ])) /\
  (forall s e, escape_uri s = Ok e -> val2 (VUri s) (BQ :: e ++ [BQ])) /\
  (forall sg ip fp ex u, ntok_ok sg ip fp ex u -> val2 (nval sg ip fp ex u) (mant sg ip fp ex ++ upt u)) /\
  (forall y m d, valid_date y m d = true -> val2 (VDate y m d) (iso_date y m d)) /\
  (forall h mi s us, time_ok h mi s us -> val2 (VTime h mi s us) (iso_time h mi s us)) /\
  val2 VNull [78] /\ val2 VRemove [82] /\ (forall b, val2 (VBool b) [if b then 84 else 70]).
Proof. exact (conj val2_str (conj val2_uri (conj val2_number (conj val2_date (conj val2_time (conj val2_null (conj val2_remove val2_bool))))))). Qed.
Ltac cn := (vm_compute; split; [reflexivity | repeat (constructor; try reflexivity)]).
Example C01_grid_2_0_with_metadata_nonvacuous :
  zparse_grid (s_ "ver:""2.0"" a b:""q""
x c:""y"",z
""u"",N
") = Ok (VGrid V20 [(s_ "a", VMarker); (s_ "b", VStr (s_ "q"))] [(s_ "x", [(s_ "c", VStr (s_ "y"))]); (s_ "z", [])]
              [[(s_ "x", VStr (s_ "u")); (s_ "z", VNull)]]).
Proof.
  destruct (C01_grid_2_0_with_metadata
              [(s_ "a", VMarker, []); (s_ "b", VStr (s_ "q"), s_ """q""")]
              [(s_ "x", [(s_ "c", VStr (s_ "y"), s_ """y""")]); (s_ "z", [])]
              [[VStr (s_ "u"); VNull]] [[s_ """u"""; s_ "N"]]) as [_ T].
  - constructor; [split; [cn|left; reflexivity]|].
    constructor; [|constructor]. split; [cn|right; apply (val2_str (s_ "q") (s_ "q")); reflexivity].
  - repeat constructor; vm_compute; intuition discriminate.
  - vm_compute. intuition discriminate.
  - discriminate.
  - constructor; [|constructor; [|constructor]].
    + split; [cn|]. split; [|repeat constructor; vm_compute; intuition discriminate].
      constructor; [|constructor]. split; [cn|right; apply (val2_str (s_ "y") (s_ "y")); reflexivity].
    + split; [cn|]. split; constructor.
  - repeat constructor; vm_compute; intuition discriminate.
  - constructor; [|constructor]. split; [reflexivity|].
    constructor; [apply (cell2_str (s_ "u") (s_ "u")); reflexivity|]. constructor; [exact cell2_null|constructor].
  - exact T.
Qed.

(* WHOLE 3.0 GRIDS WITH DATE-TIME CELLS: the reader model hands a date-time on as its raw ISO text and zone name (their
   interpretation is the iso8601 / pytz oracle of the tie), so each cell is a pair (written value, value read): the value
   itself for every kind of C01_full_grid, and (date-time, its raw text and zone) for a date-time in a named zone. *)
Theorem C01_full_grid_with_datetimes : forall n mps cols (rows : list (list (hval * hval))) rts,
  Forall (mv (zv n)) mps -> NoDup (mkeys mps) -> ~ In VERK (mkeys mps) ->
  cols <> [] -> Forall (mc (zv n)) cols -> NoDup (map fst cols) ->
  Forall2 (fun cells ts => length cells = length (map fst cols) /\ Forall2 (cellwr n) cells ts) rows rts ->
  (forall f, zdump_grid (S (S (2 * n + f))) V30 (map pkv mps) (map (fun c => (fst c, map pkv (snd c))) cols)
                        (map (fun cells => combine (map fst cols) (map fst cells)) rows) = Ok (meta_text mps cols rts)) /\
  ((2 * n <= length (meta_text mps cols rts))%nat ->
   zparse_grid (meta_text mps cols rts) = Ok (meta_grid mps cols (map (map snd) rows))).
Proof. exact full_grid_datetimes. Qed.
Theorem C01_datetime_cells : forall n,
  (forall v t, cellv n v t -> cellwr n (v, v) t) /\
  (forall y m d h mi s us off zn sg hh mm, iso_offset off = off_text sg hh mm -> dt_ok y m d h mi s us sg hh mm -> tzname_ok zn ->
     cellwr n (VDateTime y m d h mi s us off (ZName zn), VDateTimeRaw (iso_datetime y m d h mi s us off) (Some zn))
              (iso_datetime y m d h mi s us off ++ 32 :: zn)).
Proof. intro n. split; [apply cellwr_same|apply cellwr_datetime]. Qed.
Example C01_datetime_cell_nonvacuous :
  cellwr 0 (VDateTime 2020 2 29 23 59 59 0 19800 (ZName (s_ "Kolkata")), VDateTimeRaw (s_ "2020-02-29T23:59:59+05:30") (Some (s_ "Kolkata")))
           (s_ "2020-02-29T23:59:59+05:30 Kolkata").
Proof.
  apply (cellwr_datetime 0 2020 2 29 23 59 59 0 19800 (s_ "Kolkata") 43 5 30).
  - vm_compute. reflexivity.
  - repeat split; try reflexivity; try (left; reflexivity); vm_compute; try discriminate; try reflexivity.
  - right. cbn. repeat split; try reflexivity; try discriminate; repeat constructor.
Qed.

(* DATE-TIMES ANYWHERE: inside lists and dicts to any depth, as grid and column metadata values, as cells.  wrv n w r t:
   w is written as t and t is read as r - every value of the general theorem with r = w (zv), a date-time in a named
   zone with r its raw ISO text and zone name, lists, dicts and NESTED GRIDS (with metadata) of such triples; metadata
   items are markers or such triples.  The written grid (the w side) is dumped to a text which parse_grid reads as the r side. *)
Theorem C01_full_grid_two_sided : forall n (mq : list q4) (cs : list cq) (rows : list (list (hval * hval))) rts,
  Forall (mq_ok n) mq -> NoDup (map k4 mq) -> ~ In VERK (map k4 mq) ->
  cs <> [] -> Forall (cq_ok n) cs -> NoDup (map fst cs) ->
  Forall2 (fun cells ts => length cells = length (map fst cs) /\ Forall2 (cellwr n) cells ts) rows rts ->
  (forall f, zdump_grid (S (S (2 * n + f))) V30 (map pkv (map pw mq)) (map (fun c => (fst c, map pkv (snd c))) (map colw cs))
                        (map (fun cells => combine (map fst cs) (map fst cells)) rows) = Ok (meta_text (map pw mq) (map colw cs) rts)) /\
  ((2 * n <= length (meta_text (map pw mq) (map colw cs) rts))%nat ->
   zparse_grid (meta_text (map pw mq) (map colw cs) rts) = Ok (meta_grid (map pr mq) (map colr cs) (map (map snd) rows))).
Proof. exact full_grid_two_sided. Qed.
Theorem C01_two_sided_values : forall n w r t, wrv n w r t ->
  (forall f, zdump (S (2 * n + f)) false w = Ok t) /\ (forall k, readsd (2 * n + k) r t) /\ cellwr n (w, r) t.
Proof. intros n w r t H. destruct (wrv_sem n w r t H) as [D R]. split; [exact D|]. split; [exact R|apply wrv_cellwr; exact H]. Qed.
(* the relation, one level: the same value of the general theorem, a date-time, a list, a dict or a nested grid of triples *)
Theorem C01_two_sided_relation : forall n w r t,
  wrv (S n) w r t <->
  ((w = r /\ zv (S n) w t) \/ dtt w r t
   \/ (exists l : list (hval * hval * str), w = VList (map w3 l) /\ r = VList (map r3 l) /\
         t = (91 :: join [44] (map t3 l) ++ [93])%list /\ Forall (fun x => wrv n (w3 x) (r3 x) (t3 x)) l)
   \/ (exists l : list q4, w = VDict (map pkv (map pw l)) /\ r = VDict (map pkv (map pr l)) /\
         t = (123 :: body_text (map pw l) ++ [125])%list /\ NoDup (map k4 l) /\
         Forall (fun x => colname (k4 x) /\ wrv n (w4 x) (r4 x) (t4 x)) l)
   \/ grid2_of (wrv n) w r t).
Proof. intros. reflexivity. Qed.
Example C01_two_sided_nonvacuous :
  wrv 1 (VList [VDateTime 2020 2 29 23 59 59 0 19800 (ZName (s_ "Kolkata")); VNull])
        (VList [VDateTimeRaw (s_ "2020-02-29T23:59:59+05:30") (Some (s_ "Kolkata")); VNull])
        (s_ "[2020-02-29T23:59:59+05:30 Kolkata,N]").
Proof.
  right. right. left.
  exists [(VDateTime 2020 2 29 23 59 59 0 19800 (ZName (s_ "Kolkata")), VDateTimeRaw (s_ "2020-02-29T23:59:59+05:30") (Some (s_ "Kolkata")), s_ "2020-02-29T23:59:59+05:30 Kolkata");
          (VNull, VNull, s_ "N")].
  split; [reflexivity|]. split; [reflexivity|]. split; [reflexivity|].
  constructor; [|constructor; [|constructor]].
  - right. exists 2020, 2, 29, 23, 59, 59, 0, 19800%Z, (s_ "Kolkata"), 43, 5, 30.
    split; [vm_compute; reflexivity|]. split; [repeat split; try reflexivity; try (left; reflexivity); vm_compute; try discriminate; try reflexivity|].
    split; [right; cbn; repeat split; try reflexivity; try discriminate; repeat constructor|]. split; [reflexivity|]. split; reflexivity.
  - left. split; [reflexivity|]. exact leafd_null.
Qed.

Example C01_two_sided_nested_grid_nonvacuous :
  let dt := VDateTime 2020 2 29 23 59 59 0 19800 (ZName (s_ "Kolkata")) in
  let raw := VDateTimeRaw (s_ "2020-02-29T23:59:59+05:30") (Some (s_ "Kolkata")) in
  wrv 1 (meta_grid [] [(s_ "a", [])] [[dt]]) (meta_grid [] [(s_ "a", [])] [[raw]])
        (60 :: 60 :: meta_text [] [(s_ "a", [])] [[s_ "2020-02-29T23:59:59+05:30 Kolkata"]] ++ [62; 62]).
Proof.
  intros dt raw. right. right. right. right.
  exists [], [(s_ "a", [])], [[(dt, raw, s_ "2020-02-29T23:59:59+05:30 Kolkata")]].
  split; [reflexivity|]. split; [reflexivity|]. split; [reflexivity|].
  split; [constructor|]. split; [constructor|]. split; [intros []|]. split; [discriminate|].
  split; [constructor; [|constructor]; split; [cn|split; constructor]|].
  split; [repeat constructor; intros []|].
  constructor; [|constructor]. split; [reflexivity|]. constructor; [|constructor].
  right. exists 2020, 2, 29, 23, 59, 59, 0, 19800%Z, (s_ "Kolkata"), 43, 5, 30.
  split; [vm_compute; reflexivity|]. split; [repeat split; try reflexivity; try (left; reflexivity); vm_compute; try discriminate; try reflexivity|].
  split; [right; cbn; repeat split; try reflexivity; try discriminate; repeat constructor|]. split; [reflexivity|]. split; reflexivity.
Qed.

(* VERSION 2.0 WITH DATE-TIME CELLS (date-times are a 2.0 kind): two-sided as above, metadata over the 2.0 values *)
Theorem C01_grid_2_0_with_datetimes : forall mps cols (rows : list (list (hval * hval))) rts,
  Forall mval2 mps -> NoDup (mkeys mps) -> ~ In VERK (mkeys mps) ->
  cols <> [] -> Forall mcol2 cols -> NoDup (map fst cols) ->
  Forall2 (fun cells ts => length cells = length (map fst cols) /\ Forall2 cellwr20 cells ts) rows rts ->
  (forall f, zdump_grid (S (S f)) V20 (map pkv mps) (map (fun c => (fst c, map pkv (snd c))) cols)
                        (map (fun cells => combine (map fst cols) (map fst cells)) rows) = Ok (meta_text2 mps cols rts)) /\
  zparse_grid (meta_text2 mps cols rts) = Ok (meta_grid2 mps cols (map (map snd) rows)).
Proof. exact grid2_two_sided. Qed.
Theorem C01_cells_2_0_two_sided :
  (forall v t, cell2 v t -> cellwr20 (v, v) t) /\
  (forall y m d h mi s us off zn sg hh mm, iso_offset off = off_text sg hh mm -> dt_ok y m d h mi s us sg hh mm -> tzname_ok zn ->
     cellwr20 (VDateTime y m d h mi s us off (ZName zn), VDateTimeRaw (iso_datetime y m d h mi s us off) (Some zn))
              (iso_datetime y m d h mi s us off ++ 32 :: zn)).
Proof. split; [exact cellwr20_same|exact cellwr20_datetime]. Qed.

(* ... and with date-times among the 2.0 grid and column metadata values as well *)
Theorem C01_grid_2_0_two_sided : forall (mq : list q4) (cs : list cq) (rows : list (list (hval * hval))) rts,
  Forall mq2_ok mq -> NoDup (map k4 mq) -> ~ In VERK (map k4 mq) ->
  cs <> [] -> Forall cq2_ok cs -> NoDup (map fst cs) ->
  Forall2 (fun cells ts => length cells = length (map fst cs) /\ Forall2 cellwr20 cells ts) rows rts ->
  (forall f, zdump_grid (S (S f)) V20 (map pkv (map pw mq)) (map (fun c => (fst c, map pkv (snd c))) (map colw cs))
                        (map (fun cells => combine (map fst cs) (map fst cells)) rows) = Ok (meta_text2 (map pw mq) (map colw cs) rts)) /\
  zparse_grid (meta_text2 (map pw mq) (map colw cs) rts) = Ok (meta_grid2 (map pr mq) (map colr cs) (map (map snd) rows)).
Proof. exact grid2_two_sided_meta. Qed.

(* SEVERAL GRIDS IN ONE DOCUMENT: the writer joins the grid texts with a line feed, so that an empty line separates them;
   parser.parse cuts the text there again and reads the grids in order.  For grid texts that are non-empty lines ended by
   one line feed each (body_ok), not starting with a blank: if each grid is written as its text and each text is read as
   its grid, the document written for the list of grids is read back as that list. *)
Theorem C01_multi_grid : forall gs bodies, bodies <> [] -> Forall body_ok bodies -> Forall nonblank_hd bodies ->
  Forall2 (fun g b => zdump_top g = Ok (b ++ [10])%list) gs bodies ->
  Forall2 (fun b g => zparse_grid (b ++ [10]) = Ok g) bodies gs ->
  exists t, zdump_doc gs = Ok t /\ zparse_doc t = Ok gs.
Proof. exact doc_roundtrip. Qed.
Example C01_multi_grid_nonvacuous :
  let g1 := plain_grid [s_ "a"] [[VBool true]] in
  let g2 := plain_grid [s_ "b"; s_ "c"] [[VNull; VMarker]; [VStr (s_ "x"); VNA]] in
  zdump_doc [g1; g2] = Ok (s_ "ver:""3.0""
a
T

ver:""3.0""
b,c
N,M
""x"",NA
") /\ zparse_doc (s_ "ver:""3.0""
a
T

ver:""3.0""
b,c
N,M
""x"",NA
") = Ok [g1; g2].
Proof.
  intros g1 g2.
  destruct (C01_multi_grid [g1; g2] [s_ "ver:""3.0""
a
T"; s_ "ver:""3.0""
b,c
N,M
""x"",NA"]) as [t [Hd Hp]].
  - discriminate.
  - repeat constructor; vm_compute; try reflexivity; discriminate.
  - repeat constructor.
  - repeat constructor; vm_compute; reflexivity.
  - repeat constructor; vm_compute; reflexivity.
  - assert (Et : zdump_doc [g1; g2] = Ok (s_ "ver:""3.0""
a
T

ver:""3.0""
b,c
N,M
""x"",NA
")) by (vm_compute; reflexivity).
    rewrite Et in Hd. apply ok_inj in Hd. subst t. split; [exact Et|exact Hp].
Qed.

Example C01_document_nonvacuous :
  let mps := [(s_ "site", VMarker, []); (s_ "dis", VStr (s_ "a b"), s_ """a b""")] in
  let cols := [(s_ "a", [(s_ "unit", VStr (s_ "kW"), s_ """kW"""); (s_ "his", VMarker, [])]); (s_ "b", [])] in
  zparse_doc (s_ "ver:""3.0"" site dis:""a b""
a unit:""kW"" his,b
T,N
") = Ok [meta_grid mps cols [[VBool true; VNull]]].
Proof.
  intros mps cols. destruct C01_metadata_nonvacuous as [Et Hg]. cbv zeta in Et, Hg. fold mps cols in Et, Hg. rewrite Et in Hg.
  apply (C01_document (s_ "ver:""3.0"" site dis:""a b""
a unit:""kW"" his,b
T,N")); first [vm_compute; reflexivity | discriminate | exact Hg].
Qed.

(* THE GENERAL THEOREM.  zv n v t: v is a leaf (string, URI, number / quantity, date, time, null, marker, Remove, NA,
   boolean, reference with display name, Bin, coordinate, extended string), a list, a dict, or a NESTED GRID with metadata - of zv (n-1) values, to
   any depth n.  Every such value is written as t and read back from t (C01_value_relation); and every 3.0 grid with grid
   and column metadata over zv values, whose cells are zv values or plain references, is written as text that the grid
   rule and parse_grid read back as exactly that grid (C01_full_grid). *)
Theorem C01_value_relation : forall n v t, zv n v t ->
  (forall f, zdump (S (2 * n + f)) false v = Ok t) /\
  (forall k rest, delim rest -> p_scalar (S (2 * n + k)) true (t ++ rest) = Some (Ok v, rest)).
Proof. intros n v t H. destruct (zv_sem n v t H) as [D R]. split; [exact D|]. intros k rest Hd. exact (R k rest Hd). Qed.
Theorem C01_full_grid : forall n mps cols rows rts, full_grid_ok n mps cols rows rts ->
  (forall f, zdump_grid (S (S (2 * n + f))) V30 (map pkv mps) (map (fun c => (fst c, map pkv (snd c))) cols)
                        (map (fun cells => combine (map fst cols) cells) rows) = Ok (meta_text mps cols rts)) /\
  (forall k, p_grid (S (S (2 * n + k))) true (meta_text mps cols rts) = Some (Ok (meta_grid mps cols rows), [])) /\
  ((2 * n <= length (meta_text mps cols rts))%nat -> zparse_grid (meta_text mps cols rts) = Ok (meta_grid mps cols rows)).
Proof. exact full_grid_roundtrip. Qed.
Example C01_nested_grid_nonvacuous :
  let inner := meta_grid [] [(s_ "x", [])] [[nval false (s_ "1") None None None]] in
  let cols := [(s_ "a", []); (s_ "b", [])] in
  let rows := [[inner; VRef (s_ "r1") None]] in
  let rts := [[s_ "<<ver:""3.0""
x
1
>>"; s_ "@r1"]] in
  full_grid_ok 1 [] cols rows rts /\
  zparse_doc (s_ "ver:""3.0""
a,b
<<ver:""3.0""
x
1
>>,@r1
") = Ok [meta_grid [] cols rows].
Proof.
  intros inner cols rows rts.
  assert (D1 : ntok_ok false (s_ "1") None None None).
  { unfold ntok_ok, digs, fp_ok, ex_ok, u_ok. repeat split; try discriminate; try (repeat constructor; fail). }
  assert (ZI : zv 1 inner (s_ "<<ver:""3.0""
x
1
>>")).
  { right. right. right. exists [], [(s_ "x", [])], [[nval false (s_ "1") None None None]], [[s_ "1"]].
    split; [reflexivity|]. split; [reflexivity|]. split; [constructor|]. split; [constructor|]. split; [intros []|].
    split; [discriminate|]. split; [constructor; [split; [repeat constructor|split; constructor]|constructor]|].
    split; [repeat constructor; intros []|]. constructor; [|constructor]. split; [reflexivity|].
    constructor; [exact (leafd_number false (s_ "1") None None None D1)|constructor]. }
  assert (OK : full_grid_ok 1 [] cols rows rts).
  { split; [constructor|]. split; [constructor|]. split; [intros []|]. split; [discriminate|].
    split; [constructor; [split; [repeat constructor|split; constructor]|constructor; [split; [repeat constructor|split; constructor]|constructor]]|].
    split; [repeat constructor; vm_compute; intuition discriminate|].
    constructor; [|constructor]. split; [reflexivity|].
    constructor; [left; exact ZI|]. constructor; [right; apply leafc_ref; repeat constructor|constructor]. }
  split; [exact OK|].
  destruct (C01_full_grid 1 [] cols rows rts OK) as [_ [_ T]].
  assert (Et : meta_text [] cols rts = s_ "ver:""3.0""
a,b
<<ver:""3.0""
x
1
>>,@r1
") by reflexivity.
  rewrite Et in T.
  apply (C01_document (s_ "ver:""3.0""
a,b
<<ver:""3.0""
x
1
>>,@r1")); first [vm_compute; reflexivity | discriminate | (apply T; vm_compute; repeat constructor)].
Qed.

(* non-vacuity: a concrete grid meets the hypotheses; its text, and what the top-level reader makes of it *)
Example C01_grid_nonvacuous :
  let names := [s_ "a"; s_ "b"] in
  let rows := [[VStr (s_ "x,y"); nval false (s_ "12") None None None]; [VList [VNull; VBool true; VList []]; VNull]] in
  let rts := [[s_ """x,y"""; s_ "12"]; [s_ "[N,T,[]]"; s_ "N"]] in
  Forall2 (grid_cells_ok 2 names) rows rts /\
  plain_text names rts = s_ "ver:""3.0""
a,b
""x,y"",12
[N,T,[]],N
" /\ zparse_grid (plain_text names rts) = Ok (plain_grid names rows).
Proof.
  intros names rows rts.
  assert (D12 : ntok_ok false (s_ "12") None None None).
  { unfold ntok_ok, digs, fp_ok, ex_ok, u_ok. repeat split; try discriminate; try (repeat constructor; fail). }
  assert (H : Forall2 (grid_cells_ok 2 names) rows rts).
  { constructor; [|constructor; [|constructor]]; (split; [reflexivity|]).
    - constructor; [left; apply (leafc_str (s_ "x,y") (s_ "x,y")); reflexivity|].
      constructor; [left; exact (leafc_number false (s_ "12") None None None D12)|constructor].
    - constructor; [|constructor; [left; exact leafc_null|constructor]].
      right. exists [VNull; VBool true; VList []], [s_ "N"; s_ "T"; s_ "[]"]. split; [reflexivity|]. split; [reflexivity|].
      constructor; [left; exact leafc_null|]. constructor; [left; exact (leafc_bool true)|]. constructor; [|constructor].
      right. exists [], []. split; [reflexivity|]. split; [reflexivity|constructor]. }
  split; [exact H|]. split; [reflexivity|].
  apply (C01_grid_roundtrip_top 2 names rows rts); try exact H.
  - discriminate.
  - repeat constructor.
  - repeat constructor; cbn [In]; intuition discriminate.
  - vm_compute. repeat constructor.
Qed.

(* the writer never fails on text *)
Theorem C01_text_always_dumps : forall f pre3 s, (exists t, zdump (S f) pre3 (VStr s) = Ok t) /\ (exists t, zdump (S f) pre3 (VUri s) = Ok t).
Proof.
  intros f pre3 s. cbn [zdump]. unfold zdump_str, zdump_uri.
  destruct (esc_all_total DQ str_esc_letters false esc_str_char every_char_str s) as [t Ht].
  destruct (esc_all_total BQ uri_esc_letters true esc_uri_char every_char_uri s) as [u Hu].
  change (esc_all esc_str_char s) with (escape_str s) in Ht. change (esc_all esc_uri_char s) with (escape_uri s) in Hu.
  rewrite Ht, Hu. cbn [bind]. split; eexists; reflexivity.
Qed.

(* a whole grid, both versions, computed inside Coq (a test, not the unbounded claim) *)
Definition sample_rows : list (list (str * hval)) :=
  [[(s_ "a", VStr (s_ "x,""
y")); (s_ "b", VRef (s_ "r-1") (Some (s_ "dis $"))) ];
   [(s_ "a", VNull); (s_ "b", VList [VMarker; VBool true; VUri (s_ "h`t")])]].
Example C01_grid_example :
  match zdump_grid 8 (s_ "3.0") [(s_ "m", VMarker)] [(s_ "a", []); (s_ "b", [(s_ "dis", VStr (s_ "B"))])] sample_rows with
  | Ok t => zparse_doc t = Ok [VGrid (s_ "3.0") [(s_ "m", VMarker)] [(s_ "a", []); (s_ "b", [(s_ "dis", VStr (s_ "B"))])] sample_rows]
  | Raise _ => False
  end.
Proof. vm_compute. reflexivity. Qed.

Print Assumptions C01_full_grid.
Print Assumptions C01_value_relation.
Print Assumptions C01_grid_with_metadata.
Print Assumptions C01_datetime.
Print Assumptions C01_grid_2_0.
Print Assumptions C01_leaves_2_0.
Print Assumptions C01_full_grid_with_datetimes.
Print Assumptions C01_datetime_cells.
Print Assumptions C01_full_grid_two_sided.
Print Assumptions C01_two_sided_values.
Print Assumptions C01_two_sided_relation.
Print Assumptions C01_grid_2_0_with_datetimes.
Print Assumptions C01_cells_2_0_two_sided.
Print Assumptions C01_grid_2_0_two_sided.
Print Assumptions C01_grid_2_0_with_metadata.
Print Assumptions C01_metadata_values_2_0.
Print Assumptions C01_multi_grid.
Print Assumptions C01_document.
Print Assumptions C01_more_leaves.
Print Assumptions C01_grid_values.
Print Assumptions C01_values.
Print Assumptions C01_grid_roundtrip.
Print Assumptions C01_grid_roundtrip_top.
Print Assumptions C01_nested_lists.
Print Assumptions C01_leaves.
Print Assumptions C01_number.
Print Assumptions C01_date.
Print Assumptions C01_time.
Print Assumptions C01_ref_partial.
Print Assumptions C01_letter_scalars_partial.
Print Assumptions C01_na_partial.
Print Assumptions C01_str_partial.
Print Assumptions C01_uri_partial.
Print Assumptions C01_text_always_dumps.
