(* JSON: values with nested grids, to any depth *)
From Coq Require Import String.
From Coq Require Import List NArith Bool Lia Arith.
From HS Require Import Base.Prelude Model.Value Model.Escape Model.Version Model.Json.
From HS Require Import Proofs.PreludeP Proofs.VersionP Proofs.JsonP Proofs.JsonGridP.
Import ListNotations.
Open Scope N_scope.

Definition jcolv (P : hval -> Prop) (c : str * list (str * hval)) : Prop :=
  NoDup (map fst (snd c)) /\ ~ In NAME (map fst (snd c)) /\ Forall (fun kv => P (snd kv)) (snd c).
Definition jrowv (P : hval -> Prop) (cols : list (str * list (str * hval))) (row : list (str * hval)) : Prop :=
  canon_row cols row /\ Forall (fun kv => P (snd kv)) row.

(* jv n v: a leaf of any kind that round-trips on its own, a list, a dict (distinct keys, not shaped like a grid), or a grid
   (3.0 family; distinct metadata tags none called ver; distinct column names, per column distinct tags none called name;
   rows holding one cell per column in column order) - over jv (n-1) values *)
Fixpoint jv (n : nat) (v : hval) : Prop :=
  match n with
  | O => False
  | S n' =>
      (is_container v = false /\ leaf_rt v v)
      \/ (exists l, v = VList l /\ Forall (jv n') l)
      \/ (exists d, v = VDict d /\ NoDup (map fst d) /\ grid_like d = false /\ Forall (fun kv => jv n' (snd kv)) d)
      \/ (exists ver meta cols rows, v = VGrid ver meta cols rows /\ ver_ok ver /\ cols <> [] /\
            NoDup (map fst meta) /\ ~ In VER (map fst meta) /\ Forall (fun kv => jv n' (snd kv)) meta /\
            NoDup (map fst cols) /\ Forall (jcolv (jv n')) cols /\ Forall (jrowv (jv n') cols) rows)
  end.

Theorem jv_roundtrip : forall n v, jv n v -> forall f, item_rt f f false v.
Proof.
  induction n as [|n IH]; intros v H f j; cbn [jv] in H; [contradiction|].
  destruct H as [[Hc Hl]|[[l [E Hf]]|[[d [E [ND [Hg Hf]]]]|[ver [meta [cols [rows [E [Hv [Hne [Hmn [Hmv [Hmi [Hcn [Hci Hri]]]]]]]]]]]]]]].
  - destruct f as [|f]; [cbn [jdump]; discriminate|]. intro Hd. exact (Hl f f j Hd).
  - subst. destruct f as [|f]; [cbn [jdump]; discriminate|]. cbn [jdump].
    match goal with |- bind ?m _ = _ -> _ => destruct m as [r|e] eqn:Er end; cbn [bind]; [|discriminate].
    intro Q; inversion Q; subst j. clear Q. cbn [jparse].
    assert (G : (fix go (l0 : list json) : res (list hval) := match l0 with [] => Ok [] | x :: l'0 => do v <- jparse f false x; do r0 <- go l'0; Ok (v :: r0) end) r = Ok l).
    { revert r Er. induction Hf as [|x l Hx Hl IHl]; intros r Er.
      - inversion Er; reflexivity.
      - destruct (jdump f false x) as [jx|e] eqn:Ex; cbn [bind] in Er; [|discriminate].
        match type of Er with bind ?m _ = _ => destruct m as [r0|e] eqn:Er0 end; cbn [bind] in Er; [|discriminate].
        inversion Er; subst r. rewrite (IH x Hx f jx Ex). cbn [bind]. rewrite (IHl r0 eq_refl). reflexivity. }
    rewrite G. reflexivity.
  - subst. destruct f as [|f]; [cbn [jdump]; discriminate|]. cbn [jdump].
    match goal with |- bind ?m _ = _ -> _ => destruct m as [r|e] eqn:Er end; cbn [bind]; [|discriminate].
    intro Q; inversion Q; subst j. clear Q.
    assert (G : map fst r = map fst d /\
                (fix go (l0 : list (str * json)) : res (list (str * hval)) := match l0 with [] => Ok [] | (k, x) :: l'0 => do v <- jparse f false x; do r0 <- go l'0; Ok ((k, v) :: r0) end) r = Ok d).
    { revert r Er. clear ND Hg. induction Hf as [|[k x] l Hx Hl IHl]; intros r Er.
      - inversion Er; split; reflexivity.
      - cbn [fst snd] in *. destruct (jdump f false x) as [jx|e] eqn:Ex; cbn [bind] in Er; [|discriminate].
        match type of Er with bind ?m _ = _ => destruct m as [r0|e] eqn:Er0 end; cbn [bind] in Er; [|discriminate].
        inversion Er; subst r. destruct (IHl r0 eq_refl) as [K1 K2]. split; [cbn [map fst]; rewrite K1; reflexivity|].
        rewrite (IH x Hx f jx Ex). cbn [bind]. rewrite K2. reflexivity. }
    destruct G as [K G]. assert (NDr : NoDup (map fst r)) by (rewrite K; exact ND).
    rewrite (dict_of_nodup r NDr). cbn [jparse].
    assert (Hgr : is_grid_obj r = false).
    { unfold is_grid_obj. change (grid_like r = false). rewrite (grid_like_keys r d K). exact Hg. }
    rewrite Hgr, G. cbn [bind]. f_equal. f_equal. apply dict_of_nodup. exact ND.
  - subst. destruct f as [|f]; [cbn [jdump]; discriminate|]. cbn [jdump]. intro Hd.
    destruct f as [|f]; [cbn [jdump_grid] in Hd; discriminate|].
    destruct (jdump_grid_shape (S f) ver meta cols rows j Hd) as [m0 [cs [rs [Ej _]]]].
    assert (I : forall l, Forall (fun kv : str * hval => jv n (snd kv)) l -> Forall (fun kv => item_rt f f false (snd kv)) l).
    { intros l Hl. eapply Forall_impl; [|exact Hl]. cbn beta. intros kv Hk. apply IH. exact Hk. }
    destruct (json_grid_roundtrip f f ver meta cols rows j Hv Hne Hmn Hmv (I _ Hmi) Hcn) as [m [Em Hm]]; [| |exact Hd|].
    + eapply Forall_impl; [|exact Hci]. intros c [A [B C]]. split; [exact A|]. split; [exact B|]. apply I. exact C.
    + eapply Forall_impl; [|exact Hri]. intros r [A B]. split; [exact A|]. apply I. exact B.
    + subst j. inversion Em; subst m. cbn [jparse].
      assert (G : is_grid_obj [(s_ "meta", JObj m0); (s_ "cols", JArr cs); (s_ "rows", JArr rs)] = true) by reflexivity.
      rewrite G. exact Hm.
Qed.

Theorem json_full_grid n f ver meta cols rows j :
  ver_ok ver -> cols <> [] ->
  NoDup (map fst meta) -> ~ In VER (map fst meta) -> Forall (fun kv => jv n (snd kv)) meta ->
  NoDup (map fst cols) -> Forall (jcolv (jv n)) cols -> Forall (jrowv (jv n) cols) rows ->
  jdump_grid (S f) ver meta cols rows = Ok j ->
  exists m, j = JObj m /\ jparse_grid (S f) m = Ok (VGrid ver meta cols rows).
Proof.
  intros Hv Hne Hmn Hmv Hmi Hcn Hci Hri H.
  assert (I : forall l, Forall (fun kv : str * hval => jv n (snd kv)) l -> Forall (fun kv => item_rt f f false (snd kv)) l).
  { intros l Hl. eapply Forall_impl; [|exact Hl]. cbn beta. intros kv Hk. apply (jv_roundtrip n). exact Hk. }
  apply (json_grid_roundtrip f f ver meta cols rows j Hv Hne Hmn Hmv (I _ Hmi) Hcn); [| |exact H].
  - eapply Forall_impl; [|exact Hci]. intros c [A [B C]]. split; [exact A|]. split; [exact B|]. apply I. exact C.
  - eapply Forall_impl; [|exact Hri]. intros r [A B]. split; [exact A|]. apply I. exact B.
Qed.
