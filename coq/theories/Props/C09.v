(* C09 - the ZINC reader fails only in the documented way.
   Statements about Model/ZincParse.v (the pyparsing grammar of hszinc/zincparser.py with
   its parse actions and the exception handling of parse_grid / parse_scalar / parser.parse). *)
From Coq Require Import String.
From Coq Require Import List NArith Bool.
From HS Require Import Base.Prelude Model.Value Model.Escape Model.Version Model.Json Model.ZincParse.
From HS Require Import Proofs.ZincParseP Proofs.ZincFuelP.
Import ListNotations.
Open Scope N_scope.

(* grid parsing: for EVERY text, grids or ZincParseException - nothing else *)
Theorem C09_grid_total : forall t, (exists g, zparse_grid t = Ok g) \/ zparse_grid t = Raise ZincParseException.
Proof. exact zparse_grid_total. Qed.
Theorem C09_document_total : forall t, (exists gs, zparse_doc t = Ok gs) \/ zparse_doc t = Raise ZincParseException.
Proof. exact zparse_doc_total. Qed.

(* scalar parsing raises only ValueError-family exceptions (ZincParseException is a ValueError);
   in particular the model's own OutOfFuel marker never comes out: see C09_fuel_adequate below *)
Theorem C09_scalar_exceptions : forall ver3 t e,
  zparse_scalar ver3 t = Raise e -> e = ZincParseException \/ e = ValueError.
Proof. exact zparse_scalar_exn_full. Qed.

(* fuel adequacy: the recursive rules are run with fuel S (S (length t)); every nesting level consumes at least
   one character ([ , { , << , ver:) before the rule one level down is tried, so the fuel never runs out - the model
   answers for every text what the unbounded grammar answers, and the ZincParseException of the grid reader is never
   a disguised OutOfFuel *)
Theorem C09_fuel_adequate : forall ver3 t rest,
  p_scalar (S (S (length t))) ver3 t <> Some (Raise OutOfFuel, rest) /\
  p_grid (S (S (length t))) ver3 t <> Some (Raise OutOfFuel, rest).
Proof. intros ver3 t rest. split; [apply fuel_adequate_scalar|apply fuel_adequate_grid]. Qed.
(* more generally, at any fuel, OutOfFuel needs a text at least as long as the fuel *)
Theorem C09_out_of_fuel_needs_long_text : forall fuel ver3 t rest,
  (p_scalar fuel ver3 t = Some (Raise OutOfFuel, rest) \/ p_grid fuel ver3 t = Some (Raise OutOfFuel, rest)) -> (fuel <= length t)%nat.
Proof. intros fuel ver3 t rest [H|H]; [exact (proj1 (oofb_scalar_grid fuel ver3) _ _ H)|exact (proj2 (oofb_scalar_grid fuel ver3) _ _ H)]. Qed.

(* every rule of the grammar, at every nesting depth: a parse action raises ValueError only *)
Theorem C09_actions_raise_valueerror_only : forall fuel ver3 t e rest,
  (p_scalar fuel ver3 t = Some (Raise e, rest) \/ p_grid fuel ver3 t = Some (Raise e, rest)) -> e = ValueError \/ e = OutOfFuel.
Proof. intros fuel ver3 t e rest [H|H]; [exact (proj1 (safe_scalar_grid fuel ver3) _ _ _ H)|exact (proj2 (safe_scalar_grid fuel ver3) _ _ _ H)]. Qed.

(* the un-escaping action of string / URI literals never raises on what the character regex matched *)
Theorem C09_literals_never_raise : forall t e rest, hs_str t <> Some (Raise e, rest) /\ hs_uri t <> Some (Raise e, rest).
Proof. intros t e rest. split; [apply noraise_hs_str|apply noraise_hs_uri]. Qed.

(* structurally broken documents *)
Theorem C09_missing_header_rejected : forall t, sniff_version t = None -> zparse_grid t = Raise ZincParseException.
Proof. exact no_header_rejected. Qed.
Theorem C09_unterminated_string_rejected : forall t, ~ In DQ t -> hs_str (DQ :: t) = None.
Proof. intros t H. exact (unterminated_rejected DQ str_esc_letters false t H). Qed.
Theorem C09_unterminated_uri_rejected : forall t, ~ In BQ t -> hs_uri (BQ :: t) = None.
Proof. intros t H. exact (unterminated_rejected BQ uri_esc_letters true t H). Qed.
(* under version 2.0 nothing that starts with [ { or < is a scalar *)
Theorem C09_v3_brackets_rejected_under_2_0 : forall fuel c t,
  (c = 91 \/ c = 123 \/ c = 60) -> p_scalar (S fuel) false (c :: t) = None.
Proof.
  intros fuel c t H. apply scalar_2_0_opener. unfold opener.
  destruct H as [H|[H|H]]; subst; reflexivity.
Qed.

(* non-vacuity: the model accepts a real document and rejects broken ones *)
Example C09_accepts : exists g, zparse_doc (s_ "ver:""3.0""
a,b
1,[M,""x""]
") = Ok [g].
Proof. vm_compute. eexists. reflexivity. Qed.
Example C09_rejects_bad_escape : zparse_doc (s_ "ver:""3.0""
a
""\q""
") = Raise ZincParseException.
Proof. vm_compute. reflexivity. Qed.

Print Assumptions C09_grid_total.
Print Assumptions C09_document_total.
Print Assumptions C09_scalar_exceptions.
Print Assumptions C09_fuel_adequate.
Print Assumptions C09_out_of_fuel_needs_long_text.
Print Assumptions C09_actions_raise_valueerror_only.
Print Assumptions C09_literals_never_raise.
Print Assumptions C09_missing_header_rejected.
Print Assumptions C09_unterminated_string_rejected.
Print Assumptions C09_v3_brackets_rejected_under_2_0.
