(* Model of == / != / hash over the Haystack value kinds, following Python's
   rich-comparison protocol: each class's __eq__/__ne__ as written in
   hszinc/datatypes.py (or inherited from the builtin it subclasses), the
   NotImplemented / reflected-operand / subclass-first rules, and the
   identity fall-back; Grid._approx_check and Grid.__eq__ from hszinc/grid.py.
   Executable definitions only; proofs in Proofs/EqP.v. *)
From HS Require Import Base.Prelude.
Open Scope Z_scope.

(* ---- numbers: exact values of ints and finite floats (m * 2^e), inf, nan ---- *)
Inductive num :=
| NFin (m : Z) (e : Z) (isfloat : bool)
| NInf (neg : bool)
| NNan.

(* m1 * 2^e1 compared with m2 * 2^e2, exactly *)
Definition fin_cmp (m1 e1 m2 e2 : Z) : comparison :=
  let e := Z.min e1 e2 in
  Z.compare (m1 * 2 ^ (e1 - e)) (m2 * 2 ^ (e2 - e)).

Definition num_eqb (a b : num) : bool :=
  match a, b with
  | NFin m1 e1 _, NFin m2 e2 _ => match fin_cmp m1 e1 m2 e2 with Eq => true | _ => false end
  | NInf s1, NInf s2 => Bool.eqb s1 s2
  | _, _ => false
  end.

Definition num_isfloat (a : num) : bool :=
  match a with NFin _ _ f => f | _ => true end.
Definition num_has_nan (a : num) : bool := match a with NNan => true | _ => false end.

(* abs(v1 - v2) < 0.000001, with the difference taken exactly; the threshold is
   the double nearest to 1e-6 = 4722366482869645 * 2^-72 *)
Definition num_close (a b : num) : bool :=
  match a, b with
  | NFin m1 e1 _, NFin m2 e2 _ =>
      let e := Z.min (Z.min e1 e2) (-72) in
      let d := Z.abs (m1 * 2 ^ (e1 - e) - m2 * 2 ^ (e2 - e)) in
      d <? 4722366482869645 * 2 ^ (-72 - e)
  | _, _ => false            (* inf - inf and anything with nan: nan < x is False; inf - finite = inf *)
  end.

(* ---- values ---- *)
Inductive xdata := XBytes (b : list N) | XText (s : str).

Inductive hv :=
| HNone
| HBool (b : bool)
| HNum (n : num)
| HStr (s : str) | HUri (s : str) | HBin (s : str)
| HRef (name : str) (value : option str) (has_value : bool)
| HXStr (enc : str) (d : xdata)
| HQty (v : num) (unit : option str)
| HCoord (lat lng : num)
| HMarker | HNA | HRemove
| HDate (d : Z)                          (* ordinal *)
| HTime (us : Z) (aware : bool)          (* microseconds since midnight; naive/aware *)
| HDateTime (date : Z) (us : Z) (off : option Z) (tz : Z)   (* local fields, utc offset in s if aware, identity of tzinfo *)
| HList (l : list hv)
| HDict (l : list (str * hv)).

(* outcome of an __eq__/__ne__ method *)
Inductive cmpres := CTrue | CFalse | CNotImpl | CRaise (e : exn).
Definition of_bool (b : bool) : cmpres := if b then CTrue else CFalse.
Definition cneg (r : cmpres) : cmpres :=
  match r with CTrue => CFalse | CFalse => CTrue | x => x end.

Definition xdata_eqb (a b : xdata) : bool :=
  match a, b with
  | XBytes x, XBytes y => list_eqb N.eqb x y
  | XText x, XText y => str_eqb x y
  | _, _ => false
  end.

Definition is_strlike (v : hv) : bool :=
  match v with HStr _ | HUri _ | HBin _ => true | _ => false end.
Definition str_of (v : hv) : str :=
  match v with HStr s | HUri s | HBin s => s | _ => [] end.

(* bool is a subclass of int: True == 1 *)
Definition as_num (v : hv) : option num :=
  match v with
  | HNum n => Some n
  | HBool b => Some (NFin (if b then 1 else 0) 0 false)
  | _ => None
  end.

(* instants of aware date-times; naive ones compare by fields *)
Definition dt_eqb (d1 u1 : Z) (o1 : option Z) (d2 u2 : Z) (o2 : option Z) : bool :=
  match o1, o2 with
  | None, None => Z.eqb d1 d2 && Z.eqb u1 u2
  | Some a, Some b => Z.eqb (d1 * 86400000000 + u1 - a * 1000000) (d2 * 86400000000 + u2 - b * 1000000)
  | _, _ => false
  end.

(* Are these the same Python object?  Only the singletons (and None, True,
   False) are; two operands of any other kind are distinct objects. *)
Definition same_object (a b : hv) : bool :=
  match a, b with
  | HNone, HNone | HMarker, HMarker | HNA, HNA | HRemove, HRemove => true
  | HBool x, HBool y => Bool.eqb x y
  | _, _ => false
  end.

Section Eq.
  (* recursive knot for containers: full == on elements *)
  Variable pyeq_rec : hv -> hv -> res bool.

  Fixpoint list_eq (a b : list hv) : res bool :=
    match a, b with
    | [], [] => Ok true
    | x :: a', y :: b' =>
        match pyeq_rec x y with
        | Ok true => list_eq a' b'
        | r => r
        end
    | _, _ => Ok false
    end.

  Fixpoint dict_get (k : str) (d : list (str * hv)) : option hv :=
    match d with
    | [] => None
    | (y, v) :: d' => if str_eqb y k then Some v else dict_get k d'
    end.

  Fixpoint dict_eq_items (a b : list (str * hv)) : res bool :=
    match a with
    | [] => Ok true
    | (k, v) :: a' =>
        match dict_get k b with
        | None => Ok false
        | Some w => match pyeq_rec v w with
                    | Ok true => dict_eq_items a' b
                    | r => r
                    end
        end
    end.

  (* type(a).__eq__(a, b) *)
  Definition method_eq (a b : hv) : cmpres :=
    match a with
    | HNone | HMarker | HNA | HRemove => CNotImpl          (* object.__eq__: identity, handled by the fall-back *)
    | HBool _ | HNum _ =>
        match as_num a, as_num b with
        | Some x, Some y => of_bool (num_eqb x y)
        | _, _ => CNotImpl
        end
    | HStr s => if is_strlike b then of_bool (str_eqb s (str_of b)) else CNotImpl
    | HUri s => match b with
                | HUri t => of_bool (str_eqb s t)
                | HStr _ | HBin _ => CFalse
                | _ => CNotImpl
                end
    | HBin s => match b with
                | HBin t => of_bool (str_eqb s t)
                | HStr _ | HUri _ => CFalse
                | _ => CNotImpl
                end
    | HRef n v h => match b with
                    | HRef n' v' h' => of_bool (str_eqb n n' && Bool.eqb h h' && opt_str_eqb v v')
                    | _ => CNotImpl
                    end
    | HXStr _ d => match b with
                   | HXStr _ d' => of_bool (xdata_eqb d d')
                   | _ => CNotImpl
                   end
    | HQty v u =>
        match b with
        | HQty w u' => if opt_str_eqb u' u then of_bool (num_eqb v w) else CRaise TypeError
        | _ => match as_num b with
               | Some y => of_bool (num_eqb v y)       (* op(self.value, other) *)
               | None => CFalse                        (* number == non-number is False *)
               end
        end
    | HCoord la lo => match b with
                      | HCoord la' lo' => of_bool (num_eqb la la' && num_eqb lo lo')
                      | _ => CNotImpl
                      end
    | HDate d => match b with HDate d' => of_bool (Z.eqb d d') | _ => CNotImpl end
    | HTime u aw => match b with
                    | HTime u' aw' => of_bool (Bool.eqb aw aw' && Z.eqb u u')
                    | _ => CNotImpl
                    end
    | HDateTime d u o _ => match b with
                           | HDateTime d' u' o' _ => of_bool (dt_eqb d u o d' u' o')
                           | _ => CNotImpl
                           end
    | HList l => match b with
                 | HList l' => if Nat.eqb (length l) (length l')     (* list_richcompare: lengths first *)
                               then match list_eq l l' with Ok r => of_bool r | Raise e => CRaise e end
                               else CFalse
                 | _ => CNotImpl
                 end
    | HDict d => match b with
                 | HDict d' => if Nat.eqb (length d) (length d')
                               then match dict_eq_items d d' with Ok r => of_bool r | Raise e => CRaise e end
                               else CFalse
                 | _ => CNotImpl
                 end
    end.

  (* type(a).__ne__(a, b): Qty defines its own; Uri, Bin, Ref, Coordinate derive
     it from their __eq__; everything else has object's default (invert __eq__) *)
  Definition method_ne (a b : hv) : cmpres :=
    match a with
    | HQty v u =>
        match b with
        | HQty w u' => if opt_str_eqb u' u then of_bool (negb (num_eqb v w)) else CRaise TypeError
        | _ => match as_num b with
               | Some y => of_bool (negb (num_eqb v y))
               | None => CTrue
               end
        end
    | _ => cneg (method_eq a b)
    end.

  (* Uri and Bin are proper subclasses of str: their reflected method is tried first *)
  Definition subclass_first (a b : hv) : bool :=
    match a, b with
    | HStr _, HUri _ | HStr _, HBin _ => true
    | _, _ => false
    end.

  (* a == b *)
  Definition pyeq (a b : hv) : res bool :=
    let first := if subclass_first a b then method_eq b a else method_eq a b in
    match first with
    | CTrue => Ok true | CFalse => Ok false | CRaise e => Raise e
    | CNotImpl =>
        let second := if subclass_first a b then method_eq a b else method_eq b a in
        match second with
        | CTrue => Ok true | CFalse => Ok false | CRaise e => Raise e
        | CNotImpl => Ok (same_object a b)
        end
    end.

  (* a != b *)
  Definition pyne (a b : hv) : res bool :=
    let first := if subclass_first a b then method_ne b a else method_ne a b in
    match first with
    | CTrue => Ok true | CFalse => Ok false | CRaise e => Raise e
    | CNotImpl =>
        let second := if subclass_first a b then method_ne a b else method_ne b a in
        match second with
        | CTrue => Ok true | CFalse => Ok false | CRaise e => Raise e
        | CNotImpl => Ok (negb (same_object a b))
        end
    end.
End Eq.

(* tie the knot with fuel = nesting depth *)
Fixpoint pyeq_fuel (fuel : nat) (a b : hv) : res bool :=
  match fuel with
  | O => Raise OutOfFuel
  | S f => pyeq (pyeq_fuel f) a b
  end.
Fixpoint pyne_fuel (fuel : nat) (a b : hv) : res bool :=
  match fuel with
  | O => Raise OutOfFuel
  | S f => pyne (pyeq_fuel f) a b
  end.

Fixpoint depth (v : hv) : nat :=
  match v with
  | HList l => S (fold_right (fun x acc => Nat.max (depth x) acc) O l)
  | HDict d => S (fold_right (fun kv acc => Nat.max (depth (snd kv)) acc) O d)
  | _ => O
  end.

Definition py_eq (a b : hv) : res bool := pyeq_fuel (S (S (Nat.max (depth a) (depth b)))) a b.
Definition py_ne (a b : hv) : res bool := pyne_fuel (S (S (Nat.max (depth a) (depth b)))) a b.

(* ---- hash: the object each __hash__ hands to the builtin hash(); None = unhashable ---- *)
Inductive hkey :=
| KNone | KNum (n : num) | KStr (s : str) | KRef (n : str) (v : option str) (h : bool)
| KQty (n : num) (u : option str) | KCoord (a b : num) | KSingleton (which : N)
| KDate (d : Z) | KTime (u : Z) (aw : bool) | KDateTime (instant : Z) (naive : bool).

(* canonical form of a number: odd mantissa (or zero), so that equal numbers get equal keys *)
Fixpoint strip_twos (fuel : nat) (m e : Z) : Z * Z :=
  match fuel with
  | O => (m, e)
  | S f => if (m =? 0) then (0, 0) else if Z.even m then strip_twos f (m / 2) (e + 1) else (m, e)
  end.
Definition canon_num (n : num) : num :=
  match n with
  | NFin m e _ => let '(m', e') := strip_twos (Z.to_nat (Z.log2 (Z.abs m)) + 1) m e in NFin m' e' false
  | x => x
  end.

Definition hash_key (v : hv) : option hkey :=
  match v with
  | HNone => Some KNone
  | HBool b => Some (KNum (canon_num (NFin (if b then 1 else 0) 0 false)))
  | HNum n => Some (KNum (canon_num n))
  | HStr s => Some (KStr s)
  | HUri _ | HBin _ | HXStr _ _ | HList _ | HDict _ => None
  | HRef n v h => Some (KRef n v h)
  | HQty n u => Some (KQty (canon_num n) u)
  | HCoord a b => Some (KCoord (canon_num a) (canon_num b))
  | HMarker => Some (KSingleton 1) | HNA => Some (KSingleton 2) | HRemove => Some (KSingleton 3)
  | HDate d => Some (KDate d)
  | HTime u aw => Some (KTime u aw)
  | HDateTime d u o _ => Some (match o with
                               | Some off => KDateTime (d * 86400000000 + u - off * 1000000) false
                               | None => KDateTime (d * 86400000000 + u) true
                               end)
  end.

(* ---- Grid._approx_check and Grid.__eq__ ---- *)
Definition is_kind_time (v : hv) := match v with HTime _ _ => true | _ => false end.
Definition is_kind_dt (v : hv) := match v with HDateTime _ _ _ _ => true | _ => false end.
Definition is_kind_qty (v : hv) := match v with HQty _ _ => true | _ => false end.
Definition is_kind_coord (v : hv) := match v with HCoord _ _ => true | _ => false end.
Definition is_kind_bool (v : hv) := match v with HBool _ => true | _ => false end.
Definition is_float (v : hv) := match v with HNum n => num_isfloat n | _ => false end.
Definition is_number (v : hv) := match v with HNum _ | HBool _ => true | _ => false end.

(* numbers compared by _approx_check: close when either is a float, else == *)
Definition approx_num (a b : num) : bool :=
  if num_isfloat a || num_isfloat b then num_eqb a b || num_close a b else num_eqb a b.

Definition approx_check (v1 v2 : hv) : res bool :=
  match v1 with
  | HTime u aw => match v2 with
                  | HTime u' aw' => Ok (Bool.eqb aw aw' && Z.eqb (u / 1000000) (u' / 1000000))
                  | _ => Ok false
                  end
  | HDateTime d u o tz =>
      match v2 with
      | HDateTime d' u' o' tz' =>
          Ok (Z.eqb tz tz' && Z.eqb d d' && Z.eqb (u / 1000000) (u' / 1000000))
      | _ => Ok false
      end
  | HQty v u => match v2 with
                | HQty w u' => Ok (opt_str_eqb u u' && approx_num v w)
                | _ => Ok false
                end
  | HCoord la lo => match v2 with
                    | HCoord la' lo' => Ok (approx_num la la' && approx_num lo lo')
                    | _ => Ok false
                    end
  | _ =>
      if is_kind_time v2 || is_kind_dt v2 || is_kind_qty v2 || is_kind_coord v2 then Ok false
      else if is_kind_bool v1 || is_kind_bool v2 then
        match v1, v2 with HBool a, HBool b => Ok (Bool.eqb a b) | _, _ => Ok false end
      else if is_float v1 || is_float v2 then
        match v1, v2 with
        | HNum a, HNum b => Ok (num_eqb a b || num_close a b)
        | _, _ => Ok false
        end
      else py_eq v1 v2
  end.

Record ggrid := mkGG {
  gmeta : list (str * hv) ;
  gcols : list (str * list (str * hv)) ;
  grows : list (list (str * hv))
}.

Fixpoint keys_subset {A} (a b : list (str * A)) : bool :=
  match a with
  | [] => true
  | (k, _) :: a' => existsb (fun kv => str_eqb (fst kv) k) b && keys_subset a' b
  end.
Definition same_keys {A} (a b : list (str * A)) : bool := keys_subset a b && keys_subset b a.

Fixpoint lookup_any {A} (k : str) (d : list (str * A)) : option A :=
  match d with [] => None | (y, v) :: d' => if str_eqb y k then Some v else lookup_any k d' end.

(* all (key, value) of a against the same key in b, by _approx_check *)
Fixpoint approx_items (a b : list (str * hv)) : res bool :=
  match a with
  | [] => Ok true
  | (k, v) :: a' =>
      match lookup_any k b with
      | None => Raise KeyError
      | Some w => match approx_check v w with
                  | Ok true => approx_items a' b
                  | r => r
                  end
      end
  end.

Definition row_get (r : list (str * hv)) (c : str) : hv :=
  match lookup_any c r with Some v => v | None => HNone end.

Fixpoint approx_cols (cols : list (str * list (str * hv))) (other : list (str * list (str * hv))) : res bool :=
  match cols with
  | [] => Ok true
  | (c, m) :: cols' =>
      match lookup_any c other with
      | None => Raise KeyError
      | Some m' =>
          if negb (Nat.eqb (length m) (length m')) || negb (same_keys m m') then Ok false
          else match approx_items m m' with
               | Ok true => approx_cols cols' other
               | r => r
               end
      end
  end.

Fixpoint approx_row (cols : list str) (r1 r2 : list (str * hv)) : res bool :=
  match cols with
  | [] => Ok true
  | c :: cols' => match approx_check (row_get r1 c) (row_get r2 c) with
                  | Ok true => approx_row cols' r1 r2
                  | r => r
                  end
  end.

Fixpoint approx_rows (cols : list str) (a b : list (list (str * hv))) : res bool :=
  match a, b with
  | r1 :: a', r2 :: b' => match approx_row cols r1 r2 with
                          | Ok true => approx_rows cols a' b'
                          | r => r
                          end
  | _, _ => Ok true
  end.

Definition grid_eq (g h : ggrid) : res bool :=
  if negb (same_keys (gmeta g) (gmeta h)) then Ok false else
  match approx_items (gmeta g) (gmeta h) with
  | Ok true =>
      if negb (same_keys (gcols g) (gcols h)) then Ok false else
      match approx_cols (gcols g) (gcols h) with
      | Ok true =>
          if negb (Nat.eqb (length (grows g)) (length (grows h))) then Ok false
          else approx_rows (map fst (gcols g)) (grows g) (grows h)
      | r => r
      end
  | r => r
  end.

(* ---- wire ---- *)
From Coq Require Import String.
Local Open Scope string_scope.

Definition dec_b (e : sexp) : bool := is_sym "true" e.
Definition dec_ostr (e : sexp) : option str :=
  match e with SList [SStr t] => Some t | _ => None end.

Definition dec_num (e : sexp) : option num :=
  match e with
  | SList [SStr t; SInt m; SInt ex; f] => if str_eqb t (s_ "fin") then Some (NFin m ex (dec_b f)) else None
  | SList [SStr t; ng] => if str_eqb t (s_ "inf") then Some (NInf (dec_b ng)) else None
  | SStr t => if str_eqb t (s_ "nan") then Some NNan else None
  | _ => None
  end.

Fixpoint dec_hv (fuel : nat) (e : sexp) : option hv :=
  match fuel with
  | O => None
  | S f =>
      match e with
      | SStr t =>
          if str_eqb t (s_ "none") then Some HNone
          else if str_eqb t (s_ "marker") then Some HMarker
          else if str_eqb t (s_ "na") then Some HNA
          else if str_eqb t (s_ "remove") then Some HRemove
          else None
      | SList (SStr t :: args) =>
          let is n := str_eqb t (s_ n) in
          if is "bool" then match args with [b] => Some (HBool (dec_b b)) | _ => None end
          else if is "num" then match args with [n] => option_map HNum (dec_num n) | _ => None end
          else if is "str" then match args with [SStr s] => Some (HStr s) | _ => None end
          else if is "uri" then match args with [SStr s] => Some (HUri s) | _ => None end
          else if is "bin" then match args with [SStr s] => Some (HBin s) | _ => None end
          else if is "ref" then match args with [SStr n; v; h] => Some (HRef n (dec_ostr v) (dec_b h)) | _ => None end
          else if is "xbytes" then
            match args with
            | [SStr en; SList bs] => Some (HXStr en (XBytes (flat_map (fun x => match x with SInt z => [Z.to_N z] | _ => [] end) bs)))
            | _ => None
            end
          else if is "xtext" then match args with [SStr en; SStr s] => Some (HXStr en (XText s)) | _ => None end
          else if is "qty" then
            match args with [n; u] => option_map (fun n => HQty n (dec_ostr u)) (dec_num n) | _ => None end
          else if is "coord" then
            match args with
            | [a; b] => match dec_num a, dec_num b with Some a, Some b => Some (HCoord a b) | _, _ => None end
            | _ => None
            end
          else if is "date" then match args with [SInt d] => Some (HDate d) | _ => None end
          else if is "time" then match args with [SInt u; aw] => Some (HTime u (dec_b aw)) | _ => None end
          else if is "dt" then
            match args with
            | [SInt d; SInt u; SInt o; SInt tz] => Some (HDateTime d u (Some o) tz)
            | [SInt d; SInt u; SStr _; SInt tz] => Some (HDateTime d u None tz)
            | _ => None
            end
          else if is "list" then
            option_map HList
              ((fix go (l : list sexp) : option (list hv) :=
                  match l with
                  | [] => Some []
                  | x :: l' => match dec_hv f x, go l' with Some v, Some vs => Some (v :: vs) | _, _ => None end
                  end) args)
          else if is "dict" then
            option_map HDict
              ((fix go (l : list sexp) : option (list (str * hv)) :=
                  match l with
                  | [] => Some []
                  | SList [SStr k; x] :: l' =>
                      match dec_hv f x, go l' with Some v, Some vs => Some ((k, v) :: vs) | _, _ => None end
                  | _ => None
                  end) args)
          else None
      | _ => None
      end
  end.

Definition snumk (n : num) : sexp :=
  match n with
  | NFin m e _ => SList [sym "fin"; SInt m; SInt e]
  | NInf s => SList [sym "inf"; sbool s]
  | NNan => sym "nan"
  end.

Definition shk (k : option hkey) : sexp :=
  match k with
  | None => sym "unhashable"
  | Some k =>
      match k with
      | KNone => sym "knone"
      | KNum n => SList [sym "knum"; snumk n]
      | KStr s => SList [sym "kstr"; SStr s]
      | KRef n v h => SList [sym "kref"; SStr n; sopt SStr v; sbool h]
      | KQty n u => SList [sym "kqty"; snumk n; sopt SStr u]
      | KCoord a b => SList [sym "kcoord"; snumk a; snumk b]
      | KSingleton w => SList [sym "ksingleton"; sN w]
      | KDate d => SList [sym "kdate"; SInt d]
      | KTime u aw => SList [sym "ktime"; SInt u; sbool aw]
      | KDateTime i nv => SList [sym "kdt"; SInt i; sbool nv]
      end
  end.

Definition sresb (r : res bool) : sexp := sres sbool r.

Definition cmd_eq_pairs (args : list sexp) : sexp :=
  let vs := map (dec_hv 8) args in
  SList (map (fun oa =>
    match oa with
    | None => bad_request
    | Some a => SList (map (fun ob =>
        match ob with
        | None => bad_request
        | Some b => SList [sresb (py_eq a b); sresb (py_ne a b); sresb (approx_check a b)]
        end) vs)
    end) vs).

Definition cmd_eq_hash (args : list sexp) : sexp :=
  SList (map (fun e => match dec_hv 8 e with Some v => shk (hash_key v) | None => bad_request end) args).

Definition dec_items_hv (e : sexp) : option (list (str * hv)) :=
  match e with
  | SList l =>
      (fix go (l : list sexp) : option (list (str * hv)) :=
         match l with
         | [] => Some []
         | SList [SStr k; x] :: l' =>
             match dec_hv 8 x, go l' with Some v, Some vs => Some ((k, v) :: vs) | _, _ => None end
         | _ => None
         end) l
  | _ => None
  end.

Definition dec_ggrid (e : sexp) : option ggrid :=
  match e with
  | SList [m; SList cols; SList rows] =>
      match dec_items_hv m with
      | None => None
      | Some m =>
          let cs := (fix go (l : list sexp) : option (list (str * list (str * hv))) :=
                       match l with
                       | [] => Some []
                       | SList [SStr c; cm] :: l' =>
                           match dec_items_hv cm, go l' with Some x, Some xs => Some ((c, x) :: xs) | _, _ => None end
                       | _ => None
                       end) cols in
          let rs := (fix go (l : list sexp) : option (list (list (str * hv))) :=
                       match l with
                       | [] => Some []
                       | r :: l' => match dec_items_hv r, go l' with Some x, Some xs => Some (x :: xs) | _, _ => None end
                       end) rows in
          match cs, rs with Some cs, Some rs => Some (mkGG m cs rs) | _, _ => None end
      end
  | _ => None
  end.

Definition cmd_grid_eq (args : list sexp) : sexp :=
  match args with
  | [g; h] => match dec_ggrid g, dec_ggrid h with
              | Some g, Some h => sresb (grid_eq g h)
              | _, _ => bad_request
              end
  | _ => bad_request
  end.
