(* Lists with blanks inside the brackets and a trailing comma *)
From Coq Require Import String.
From Coq Require Import List NArith Bool Lia Arith.
From HS Require Import Base.Prelude Model.Value Model.Escape Model.Version Model.Json Model.ZincParse.
From HS Require Import Proofs.VersionP Proofs.EscapeP Proofs.JsonP Proofs.ZincParseP Proofs.ZincNumP Proofs.ZincListP Proofs.ZincGridP Proofs.ZincDictP Proofs.ZincSpacedP.
Import ListNotations.
Open Scope N_scope.

(* what closes a list: an optional comma, blanks, the bracket *)
Definition lclose (tc : bool) (b : nat) (r : str) : str := ((if tc then [44] else []) ++ blanks b ++ 93 :: r)%list.

Lemma lclose_delim tc b r : delim (lclose tc b r).
Proof.
  unfold lclose. destruct tc; cbn [List.app]; [right; eexists; eexists; split; [reflexivity|cbn; tauto]|].
  destruct b; cbn [blanks repeat List.app]; right; eexists; eexists; (split; [reflexivity|cbn; tauto]).
Qed.

Lemma spaces_blanks n c r : is_sp c = false -> spaces (blanks n ++ c :: r) = Some (Ok tt, c :: r).
Proof. intro H. unfold spaces, pmap, pspan. rewrite (span_all is_sp (blanks n) (c :: r) (blanks_sp n) H). reflexivity. Qed.

(* the loop over ",item" stops at the closing part *)
Lemma lstop g tc b r : pthen value_sep (p_scalar (S g) true) (lclose tc b r) = None.
Proof.
  unfold lclose, pthen, pmap, pand. destruct tc; cbn [List.app].
  - assert (V : value_sep (44 :: blanks b ++ 93 :: r) = Some (Ok tt, 93 :: r)).
    { pose proof (comma_with_blanks 0 b (93 :: r) eq_refl) as V. cbn [blanks repeat List.app] in V. exact V. }
    rewrite V. rewrite (scalar_none_delim g true 93 r) by (cbn; tauto). reflexivity.
  - unfold value_sep, pthen, pmap, pand. rewrite (spaces_blanks b 93 r eq_refl). reflexivity.
Qed.

Lemma litems_delim ts tc b r : delim (items_text ts ++ lclose tc b r).
Proof. destruct ts as [|t ts]; cbn [items_text map concat List.app]; [apply lclose_delim|right; eexists; eexists; split; [reflexivity|cbn; tauto]]. Qed.

Lemma lsep_item g v txt rest : readsd g v txt -> delim rest ->
  pthen value_sep (p_scalar (S g) true) (44 :: txt ++ rest) = Some (Ok v, rest).
Proof.
  intros Hr Hd. destruct (reads_hd g v txt (readsd_reads g v txt Hr)) as [c [t [E Hc]]]. destruct (nosp_hd c Hc) as [Hs _].
  pose proof (comma_with_blanks 0 0 (txt ++ rest)) as V. cbn [blanks repeat List.app] in V.
  unfold pthen, pmap, pand. rewrite V by (subst txt; exact Hs). rewrite (Hr rest Hd). reflexivity.
Qed.

Lemma lmany g tc b r : forall vs ts, Forall2 (readsd g) vs ts -> forall fuel, (length ts < fuel)%nat ->
  pmany_fuel fuel (pthen value_sep (p_scalar (S g) true)) (items_text ts ++ lclose tc b r) = (Ok vs, lclose tc b r).
Proof.
  induction 1 as [|v t vs ts Hvt _ IH]; intros fuel Hf.
  - cbn [items_text map concat List.app]. destruct fuel as [|f]; [cbn in Hf; lia|]. cbn [pmany_fuel]. rewrite lstop. reflexivity.
  - destruct fuel as [|f]; [cbn in Hf; lia|]. cbn [items_text map concat List.app]. fold (items_text ts).
    rewrite <- app_assoc. cbn [pmany_fuel]. rewrite (lsep_item g v t _ Hvt (litems_delim ts tc b r)).
    assert (L : Nat.ltb (length (items_text ts ++ lclose tc b r)) (length (44 :: t ++ items_text ts ++ lclose tc b r)) = true).
    { apply Nat.ltb_lt. cbn [length]. rewrite !app_length. lia. }
    rewrite L, (IH f) by (cbn in Hf; lia). reflexivity.
Qed.

Lemma lclose_reads tc b r : pthen (popt value_sep) (pthen spaces (plit [93])) (lclose tc b r) = Some (Ok tt, r).
Proof.
  unfold lclose. destruct tc; cbn [List.app].
  - assert (V : value_sep (44 :: blanks b ++ 93 :: r) = Some (Ok tt, 93 :: r)).
    { pose proof (comma_with_blanks 0 b (93 :: r) eq_refl) as V. cbn [blanks repeat List.app] in V. exact V. }
    unfold pthen at 1. unfold pmap, pand, popt. rewrite V.
    assert (E : pthen spaces (plit [93]) (93 :: r) = Some (Ok tt, r)) by reflexivity. rewrite E. reflexivity.
  - assert (V : value_sep (blanks b ++ 93 :: r) = None).
    { unfold value_sep, pthen, pmap, pand. rewrite (spaces_blanks b 93 r eq_refl). reflexivity. }
    unfold pthen at 1. unfold pmap, pand, popt. rewrite V.
    assert (E : pthen spaces (plit [93]) (blanks b ++ 93 :: r) = Some (Ok tt, r)).
    { unfold pthen, pmap, pand. rewrite (spaces_blanks b 93 r eq_refl). reflexivity. }
    rewrite E. reflexivity.
Qed.

(* [ blanks items (,)? blanks ] *)
Theorem scalar_list_spelled g a v t vs ts tc b rest : readsd g v t -> Forall2 (readsd g) vs ts -> delim rest ->
  p_scalar (S (S g)) true (91 :: blanks a ++ join [44] (t :: ts) ++ lclose tc b rest) = Some (Ok (VList (v :: vs)), rest).
Proof.
  intros Hv Hvs Hd.
  destruct (reads_hd g v t (readsd_reads g v t Hv)) as [c [t' [E Hc]]]. destruct (nosp_hd c Hc) as [Hs [H93 _]].
  set (body := (join [44] (t :: ts) ++ lclose tc b rest)%list).
  assert (Hb : exists bt, body = c :: bt) by (unfold body; rewrite join_items; subst t; cbn [List.app]; eexists; reflexivity).
  destruct Hb as [bt Eb].
  assert (SP : spaces (blanks a ++ body) = Some (Ok tt, body)) by (rewrite Eb; apply spaces_blanks; exact Hs).
  assert (DL : pdelimited (p_scalar (S g) true) value_sep body = Some (Ok (v :: vs), lclose tc b rest)).
  { unfold body. rewrite join_items, <- app_assoc. unfold pdelimited, pmap, pand.
    rewrite (Hv _ (litems_delim ts tc b rest)). unfold pmany.
    rewrite (lmany g tc b rest vs ts Hvs) by (rewrite app_length; pose proof (items_len ts); lia). reflexivity. }
  assert (A2 : list_alt2 (p_scalar (S g) true) (91 :: blanks a ++ body) = Some (Ok (VList (v :: vs)), rest)).
  { unfold list_alt2.
    assert (L : plit [91] (91 :: blanks a ++ body) = Some (Ok tt, blanks a ++ body)) by reflexivity.
    assert (B : pbefore (popt (pdelimited (p_scalar (S g) true) value_sep)) (pthen (popt value_sep) (pthen spaces (plit [93]))) body = Some (Ok (Some (v :: vs)), rest)).
    { unfold pbefore, pmap, pand. rewrite (popt_ok _ _ _ _ DL), (lclose_reads tc b rest). reflexivity. }
    unfold pthen at 1 2. unfold pmap, pand. rewrite L, SP, B. reflexivity. }
  assert (A1 : list_alt1 (91 :: blanks a ++ body) = None).
  { unfold list_alt1.
    assert (L : plit [91] (91 :: blanks a ++ body) = Some (Ok tt, blanks a ++ body)) by reflexivity.
    unfold pthen at 1 2. unfold pmap at 1 2. unfold pand at 1. rewrite L. unfold pmap, pand. rewrite SP. rewrite Eb.
    unfold plit. cbn [strip_prefix]. destruct (N.eqb_spec 93 c); [subst; contradiction|reflexivity]. }
  assert (PL : hs_list (p_scalar (S g) true) (91 :: blanks a ++ body) = Some (Ok (VList (v :: vs)), rest)).
  { unfold hs_list, por. rewrite por_pick_skip by exact A1. apply por_pick_take; [exact A2|apply Forall_nil]. }
  destruct (date_letters 91 (blanks a ++ body) eq_refl) as [D1 [D2 D3]].
  rewrite p_scalar_3_0. set (T := (blanks a ++ body)%list) in *. clearbody T.
  unfold por.
  do 5 rewrite por_pick_skip by reflexivity.
  rewrite por_pick_skip by exact D1. rewrite por_pick_skip by exact D2. rewrite por_pick_skip by exact D3.
  do 7 rewrite por_pick_skip by reflexivity.
  apply por_pick_take; [exact PL|].
  repeat (apply Forall_cons; [reflexivity|]); apply Forall_nil.
Qed.
