(* Model of hszinc/grid.py: Grid as a MutableSequence of row dicts with a
   lazily built id index and version auto-upgrade / refusal.  The five
   primitives (__getitem__, __setitem__, __delitem__, insert, __len__), extend
   and reindex are transcribed; every mixin method of collections.abc's
   MutableSequence/Sequence is written in terms of those primitives, as CPython
   does.  The specification side (`lst_step`, `scan_lookup`) is Python's list.
   Executable definitions only; proofs in Proofs/GridP.v. *)
From HS Require Import Base.Prelude Model.PyList.
Open Scope Z_scope.

(* ---- rows ---- *)
Inductive idval := IdStr (s : str) | IdInt (z : Z) | IdRef (name : str) (dis : option str).

(* a row dict: `tag` is the identity of the Python object, the rest its content;
   v3 = it holds a value of a Haystack-3.0-only kind *)
Record row := mkRow { tag : N ; rid : option idval ; payload : Z ; v3 : bool }.

(* something offered as a row: a dict, or any other object *)
Inductive pyval := VRow (r : row) | VNotDict (t : N).

Definition idval_eqb (a b : idval) : bool :=
  match a, b with
  | IdStr x, IdStr y => str_eqb x y
  | IdInt x, IdInt y => Z.eqb x y
  | IdRef n d, IdRef m e => str_eqb n m && opt_str_eqb d e
  | _, _ => false
  end.

(* dict == dict: by content *)
Definition row_eqb (a b : row) : bool :=
  match rid a, rid b with
  | None, None => true
  | Some x, Some y => idval_eqb x y
  | _, _ => false
  end && Z.eqb (payload a) (payload b) && Bool.eqb (v3 a) (v3 b).

(* `v is value or v == value` *)
Definition val_matches (x : pyval) (r : row) : bool :=
  match x with
  | VRow q => N.eqb (tag q) (tag r) || row_eqb q r
  | VNotDict _ => false
  end.

(* str(id): 'x', '5', '@x', "@x 'Dis'" (display names without quotes or escapes) *)
Definition pystr (i : idval) : str :=
  match i with
  | IdStr s => s
  | IdInt z => str_of_Z z
  | IdRef n None => 64%N :: n
  | IdRef n (Some d) => (64%N :: n) ++ [32%N; 39%N] ++ d ++ [39%N]
  end.

(* ---- the id index: a dict str -> row ---- *)
Definition gindex := list (str * row).

Fixpoint idx_lookup (k : str) (m : gindex) : option row :=
  match m with
  | [] => None
  | (y, r) :: m' => if str_eqb y k then Some r else idx_lookup k m'
  end.

Fixpoint idx_set (k : str) (r : row) (m : gindex) : gindex :=
  match m with
  | [] => [(k, r)]
  | (y, w) :: m' => if str_eqb y k then (y, r) :: m' else (y, w) :: idx_set k r m'
  end.

(* reindex(): later rows overwrite earlier ones *)
Definition build_index (rows : list row) : gindex :=
  fold_left (fun m r => match rid r with Some i => idx_set (pystr i) r m | None => m end) rows [].

(* ---- state ---- *)
Record grid := mkGrid {
  rows : list row ;
  idx : option gindex ;
  pre3 : bool ;        (* nearest(version) < 3.0 *)
  given : bool         (* version passed to the constructor *)
}.

Definition grid_new (pre3 given : bool) : grid := mkGrid [] None pre3 given.

(* `if not self._index: self.reindex()` *)
Definition index_falsy (g : grid) : bool :=
  match idx g with None => true | Some [] => true | Some _ => false end.
Definition ensure_index (g : grid) : grid :=
  if index_falsy g then mkGrid (rows g) (Some (build_index (rows g))) (pre3 g) (given g) else g.
Definition cur_index (g : grid) : gindex := match idx g with Some m => m | None => [] end.
Definition reindex (g : grid) : grid :=
  mkGrid (rows g) (Some (build_index (rows g))) (pre3 g) (given g).

(* _detect_or_validate on the values of a row *)
Definition validate_row (g : grid) (r : row) : res grid :=
  if v3 r && pre3 g then
    if given g then Raise ValueError
    else Ok (mkGrid (rows g) (idx g) false (given g))
  else Ok g.

(* ---- the primitives ---- *)
Definition g_insert (g : grid) (i : Z) (x : pyval) : grid * res unit :=
  match x with
  | VNotDict _ => (g, Raise TypeError)
  | VRow r =>
      match validate_row g r with
      | Raise e => (g, Raise e)
      | Ok g1 =>
          let g2 := mkGrid (py_ins i r (rows g1)) (idx g1) (pre3 g1) (given g1) in
          match rid r with
          | None => (g2, Ok tt)
          | Some id =>
              let g3 := ensure_index g2 in
              (mkGrid (rows g3) (Some (idx_set (pystr id) r (cur_index g3))) (pre3 g3) (given g3), Ok tt)
          end
      end
  end.

Definition g_setitem (g : grid) (i : Z) (x : pyval) : grid * res unit :=
  match x with
  | VNotDict _ => (g, Raise TypeError)
  | VRow r =>
      match validate_row g r with
      | Raise e => (g, Raise e)
      | Ok g1 =>
          match py_set i r (rows g1) with
          | None => (g1, Raise IndexError)
          | Some rows' => (reindex (mkGrid rows' (idx g1) (pre3 g1) (given g1)), Ok tt)
          end
      end
  end.

Definition g_delitem (g : grid) (i : Z) : grid * res unit :=
  match py_del i (rows g) with
  | None => (g, Raise IndexError)
  | Some rows' => (reindex (mkGrid rows' (idx g) (pre3 g) (given g)), Ok tt)
  end.

Definition g_delslice (g : grid) (sl : slice) : grid * res unit :=
  match py_del_slice sl (rows g) with
  | None => (g, Raise ValueError)
  | Some rows' => (reindex (mkGrid rows' (idx g) (pre3 g) (given g)), Ok tt)
  end.

Definition g_getitem (g : grid) (i : Z) : res row :=
  match py_get i (rows g) with Some r => Ok r | None => Raise IndexError end.

(* g[a:b:c]: Grid(version=self.version, ...): the version is now "given" *)
Definition g_getslice (g : grid) (sl : slice) : res grid :=
  match py_get_slice sl (rows g) with
  | None => Raise ValueError
  | Some rs => Ok (mkGrid rs None (pre3 g) true)
  end.

(* grid[key] / grid.get(key) for a non-numeric key *)
Definition g_lookup (g : grid) (k : str) : grid * res row :=
  let g1 := ensure_index g in
  (g1, match idx_lookup k (cur_index g1) with Some r => Ok r | None => Raise KeyError end).
Definition g_get (g : grid) (k : str) : grid * option row :=
  let g1 := ensure_index g in (g1, idx_lookup k (cur_index g1)).

(* ---- MutableSequence mixins, in terms of the primitives ---- *)
Definition g_len (g : grid) : Z := Z.of_nat (length (rows g)).
Definition g_append (g : grid) (x : pyval) : grid * res unit := g_insert g (g_len g) x.

Fixpoint g_append_all (g : grid) (xs : list pyval) : grid * res unit :=
  match xs with
  | [] => (g, Ok tt)
  | x :: xs' => match g_append g x with
                | (g', Ok _) => g_append_all g' xs'
                | (g', Raise e) => (g', Raise e)
                end
  end.

(* Grid.extend: super().extend(values); self.reindex() *)
Definition g_extend (g : grid) (xs : list pyval) : grid * res unit :=
  match g_append_all g xs with
  | (g', Ok _) => (reindex g', Ok tt)
  | (g', Raise e) => (g', Raise e)
  end.

(* pop(idx=-1): v = self[idx]; del self[idx]; return v *)
Definition g_pop (g : grid) (i : Z) : grid * res row :=
  match g_getitem g i with
  | Raise e => (g, Raise e)
  | Ok r => match g_delitem g i with
            | (g', Ok _) => (g', Ok r)
            | (g', Raise e) => (g', Raise e)
            end
  end.

(* Sequence.idx(value): first i with self[i] is value or == value *)
Fixpoint find_row (x : pyval) (l : list row) (pos : nat) : option nat :=
  match l with
  | [] => None
  | r :: l' => if val_matches x r then Some pos else find_row x l' (S pos)
  end.

Definition g_index (g : grid) (x : pyval) : res Z :=
  match find_row x (rows g) O with Some n => Ok (Z.of_nat n) | None => Raise ValueError end.

Definition g_remove (g : grid) (x : pyval) : grid * res unit :=
  match g_index g x with
  | Raise e => (g, Raise e)
  | Ok i => g_delitem g i
  end.

(* reverse(): n = len(self); for i in range(n//2): self[i], self[n-i-1] = self[n-i-1], self[i] *)
Fixpoint g_reverse_loop (count : nat) (i : Z) (n : Z) (g : grid) : grid * res unit :=
  match count with
  | O => (g, Ok tt)
  | S c =>
      match g_getitem g (n - i - 1), g_getitem g i with
      | Ok a, Ok b =>
          match g_setitem g i (VRow a) with
          | (g1, Ok _) =>
              match g_setitem g1 (n - i - 1) (VRow b) with
              | (g2, Ok _) => g_reverse_loop c (i + 1) n g2
              | (g2, Raise e) => (g2, Raise e)
              end
          | (g1, Raise e) => (g1, Raise e)
          end
      | Raise e, _ => (g, Raise e)
      | _, Raise e => (g, Raise e)
      end
  end.
Definition g_reverse (g : grid) : grid * res unit :=
  let n := length (rows g) in g_reverse_loop (Nat.div2 n) 0 (Z.of_nat n) g.

(* clear(): try: while True: self.pop()  except IndexError: pass *)
Fixpoint g_clear_fuel (fuel : nat) (g : grid) : grid * res unit :=
  match fuel with
  | O => (g, Raise OutOfFuel)
  | S f => match g_pop g (-1) with
           | (g', Ok _) => g_clear_fuel f g'
           | (g', Raise IndexError) => (g', Ok tt)
           | (g', Raise e) => (g', Raise e)
           end
  end.
Definition g_clear (g : grid) : grid * res unit := g_clear_fuel (S (length (rows g))) g.

Definition g_contains (g : grid) (x : pyval) : bool := existsb (val_matches x) (rows g).
Definition g_count (g : grid) (x : pyval) : Z :=
  Z.of_nat (length (filter (val_matches x) (rows g))).

(* ---- operations as data ---- *)
Inductive gop :=
| GAppend (x : pyval) | GInsert (i : Z) (x : pyval) | GExtend (xs : list pyval) | GIAdd (xs : list pyval)
| GSetItem (i : Z) (x : pyval) | GDelItem (i : Z) | GDelSlice (sl : slice)
| GPop (i : option Z) | GRemove (x : pyval) | GReverse | GClear
| GLen | GGetItem (i : Z) | GGetSlice (sl : slice) | GContains (x : pyval) | GIndex (x : pyval) | GCount (x : pyval)
| GLookup (k : str) | GGet (k : str) | GReindex
| GSliceSelf (sl : slice)   (* continue on g[sl] *)
| GRebuild.                 (* continue on the grid that filter() builds when every row matches *)

Inductive gout :=
| ONone | OInt (z : Z) | ORow (r : row) | ORows (rs : list row) (pre3 given : bool) | OBool (b : bool) | OOptRow (r : option row).

Definition lift_u (r : grid * res unit) : grid * res gout :=
  match r with (g, Ok _) => (g, Ok ONone) | (g, Raise e) => (g, Raise e) end.
Definition lift_r (r : grid * res row) : grid * res gout :=
  match r with (g, Ok x) => (g, Ok (ORow x)) | (g, Raise e) => (g, Raise e) end.

Definition gstep (g : grid) (o : gop) : grid * res gout :=
  match o with
  | GAppend x => lift_u (g_append g x)
  | GInsert i x => lift_u (g_insert g i x)
  | GExtend xs => lift_u (g_extend g xs)
  | GIAdd xs => lift_u (g_extend g xs)
  | GSetItem i x => lift_u (g_setitem g i x)
  | GDelItem i => lift_u (g_delitem g i)
  | GDelSlice sl => lift_u (g_delslice g sl)
  | GPop i => lift_r (g_pop g (match i with Some i => i | None => -1 end))
  | GRemove x => lift_u (g_remove g x)
  | GReverse => lift_u (g_reverse g)
  | GClear => lift_u (g_clear g)
  | GLen => (g, Ok (OInt (g_len g)))
  | GGetItem i => (g, match g_getitem g i with Ok r => Ok (ORow r) | Raise e => Raise e end)
  | GGetSlice sl => (g, match g_getslice g sl with
                        | Ok s => Ok (ORows (rows s) (pre3 s) (given s))
                        | Raise e => Raise e
                        end)
  | GContains x => (g, Ok (OBool (g_contains g x)))
  | GIndex x => (g, match g_index g x with Ok i => Ok (OInt i) | Raise e => Raise e end)
  | GCount x => (g, Ok (OInt (g_count g x)))
  | GLookup k => lift_r (g_lookup g k)
  | GGet k => let '(g', r) := g_get g k in (g', Ok (OOptRow r))
  | GReindex => (reindex g, Ok ONone)
  | GSliceSelf sl => match g_getslice g sl with
                     | Ok s => (s, Ok ONone)
                     | Raise e => (g, Raise e)
                     end
  | GRebuild => (fst (g_append_all (grid_new (pre3 g) true) (map VRow (rows g))), Ok ONone)
  end.

Fixpoint grun (g : grid) (ops : list gop) : grid :=
  match ops with [] => g | o :: ops' => grun (fst (gstep g o)) ops' end.

(* ================================================================== *)
(* SPECIFICATION: a plain Python list of rows, and lookup by scanning.  *)

(* the last row whose id has that string form (what a dict built by scanning gives) *)
Definition scan_lookup (l : list row) (k : str) : option row :=
  fold_left (fun acc r => match rid r with
                          | Some i => if str_eqb (pystr i) k then Some r else acc
                          | None => acc
                          end) l None.

Definition has_id_key (k : str) (r : row) : bool :=
  match rid r with Some i => str_eqb (pystr i) k | None => false end.

(* list semantics of the sequence operations; rows only.  Values that are not
   dicts are refused with TypeError and a refused single-row operation leaves
   the list unchanged.  (Version refusals are part of C10, not of the list.) *)
Definition lst_step (l : list row) (o : gop) : list row * res gout :=
  match o with
  | GAppend (VRow r) => (l ++ [r], Ok ONone)
  | GInsert i (VRow r) => (py_ins i r l, Ok ONone)
  | GAppend (VNotDict _) | GInsert _ (VNotDict _) | GSetItem _ (VNotDict _) => (l, Raise TypeError)
  | GExtend xs | GIAdd xs =>
      (fix go (l : list row) (xs : list pyval) : list row * res gout :=
         match xs with
         | [] => (l, Ok ONone)
         | VRow r :: xs' => go (l ++ [r]) xs'
         | VNotDict _ :: _ => (l, Raise TypeError)
         end) l xs
  | GSetItem i (VRow r) => match py_set i r l with
                           | Some l' => (l', Ok ONone)
                           | None => (l, Raise IndexError)
                           end
  | GDelItem i => match py_del i l with Some l' => (l', Ok ONone) | None => (l, Raise IndexError) end
  | GDelSlice sl => match py_del_slice sl l with Some l' => (l', Ok ONone) | None => (l, Raise ValueError) end
  | GPop i => let i := match i with Some i => i | None => -1 end in
              match py_get i l, py_del i l with
              | Some r, Some l' => (l', Ok (ORow r))
              | _, _ => (l, Raise IndexError)
              end
  | GRemove x => match find_row x l O with
                 | Some n => (del_nat n l, Ok ONone)
                 | None => (l, Raise ValueError)
                 end
  | GReverse => (rev l, Ok ONone)
  | GClear => ([], Ok ONone)
  | GLen => (l, Ok (OInt (Z.of_nat (length l))))
  | GGetItem i => (l, match py_get i l with Some r => Ok (ORow r) | None => Raise IndexError end)
  | GGetSlice sl => (l, match py_get_slice sl l with
                        | Some rs => Ok (ORows rs false false)   (* version flags are not list data *)
                        | None => Raise ValueError
                        end)
  | GContains x => (l, Ok (OBool (existsb (val_matches x) l)))
  | GIndex x => (l, match find_row x l O with Some n => Ok (OInt (Z.of_nat n)) | None => Raise ValueError end)
  | GCount x => (l, Ok (OInt (Z.of_nat (length (filter (val_matches x) l)))))
  | GLookup k => (l, match scan_lookup l k with Some r => Ok (ORow r) | None => Raise KeyError end)
  | GGet k => (l, Ok (OOptRow (scan_lookup l k)))
  | GReindex => (l, Ok ONone)
  | GSliceSelf sl => match py_get_slice sl l with
                     | Some rs => (rs, Ok ONone)
                     | None => (l, Raise ValueError)
                     end
  | GRebuild => (l, Ok ONone)
  end.

(* ---- wire ---- *)
From Coq Require Import String.
Local Open Scope string_scope.

Definition srow (r : row) : sexp := SInt (Z.of_N (tag r)).
Definition sgout (o : gout) : sexp :=
  match o with
  | ONone => sym "none"
  | OInt z => SList [sym "int"; SInt z]
  | ORow r => SList [sym "row"; srow r]
  | ORows rs p g => SList [sym "rows"; SList (map srow rs); sbool p; sbool g]
  | OBool b => sbool b
  | OOptRow (Some r) => SList [sym "row"; srow r]
  | OOptRow None => sym "none"
  end.

Definition dec_optz (e : sexp) : option (option Z) :=
  match e with SInt z => Some (Some z) | _ => if is_sym "none" e then Some None else None end.

Definition dec_id (e : sexp) : option (option idval) :=
  match e with
  | SList [SStr t; SStr s] =>
      if str_eqb t (s_ "str") then Some (Some (IdStr s))
      else if str_eqb t (s_ "ref") then Some (Some (IdRef s None)) else None
  | SList [SStr t; SInt z] => if str_eqb t (s_ "int") then Some (Some (IdInt z)) else None
  | SList [SStr t; SStr s; SStr d] => if str_eqb t (s_ "refdis") then Some (Some (IdRef s (Some d))) else None
  | _ => if is_sym "none" e then Some None else None
  end.

(* (row tag id payload v3) | (notdict tag) *)
Definition dec_val (e : sexp) : option pyval :=
  match e with
  | SList [SStr t; SInt tg; i; SInt p; b] =>
      if str_eqb t (s_ "row") then
        match dec_id i with
        | Some i => Some (VRow (mkRow (Z.to_N tg) i p (is_sym "true" b)))
        | None => None
        end
      else None
  | SList [SStr t; SInt tg] => if str_eqb t (s_ "notdict") then Some (VNotDict (Z.to_N tg)) else None
  | _ => None
  end.

Fixpoint dec_vals (l : list sexp) : option (list pyval) :=
  match l with
  | [] => Some []
  | e :: l' => match dec_val e, dec_vals l' with
               | Some v, Some vs => Some (v :: vs)
               | _, _ => None
               end
  end.

Definition dec_slice (e : sexp) : option slice :=
  match e with
  | SList [a; b; c] => match dec_optz a, dec_optz b, dec_optz c with
                       | Some a, Some b, Some c => Some (a, b, c)
                       | _, _, _ => None
                       end
  | _ => None
  end.

Definition dec_gop (e : sexp) : option gop :=
  match e with
  | SList (SStr name :: args) =>
      let is n := str_eqb name (s_ n) in
      if is "append" then match args with [x] => option_map GAppend (dec_val x) | _ => None end
      else if is "insert" then
        match args with [SInt i; x] => option_map (GInsert i) (dec_val x) | _ => None end
      else if is "extend" then match args with [SList xs] => option_map GExtend (dec_vals xs) | _ => None end
      else if is "iadd" then match args with [SList xs] => option_map GIAdd (dec_vals xs) | _ => None end
      else if is "setitem" then
        match args with [SInt i; x] => option_map (GSetItem i) (dec_val x) | _ => None end
      else if is "delitem" then match args with [SInt i] => Some (GDelItem i) | _ => None end
      else if is "delslice" then match args with [sl] => option_map GDelSlice (dec_slice sl) | _ => None end
      else if is "pop" then match args with [i] => option_map GPop (dec_optz i) | _ => None end
      else if is "remove" then match args with [x] => option_map GRemove (dec_val x) | _ => None end
      else if is "reverse" then Some GReverse
      else if is "clear" then Some GClear
      else if is "len" then Some GLen
      else if is "getitem" then match args with [SInt i] => Some (GGetItem i) | _ => None end
      else if is "getslice" then match args with [sl] => option_map GGetSlice (dec_slice sl) | _ => None end
      else if is "contains" then match args with [x] => option_map GContains (dec_val x) | _ => None end
      else if is "index" then match args with [x] => option_map GIndex (dec_val x) | _ => None end
      else if is "count" then match args with [x] => option_map GCount (dec_val x) | _ => None end
      else if is "lookup" then match args with [SStr k] => Some (GLookup k) | _ => None end
      else if is "get" then match args with [SStr k] => Some (GGet k) | _ => None end
      else if is "reindex" then Some GReindex
      else if is "sliceself" then match args with [sl] => option_map GSliceSelf (dec_slice sl) | _ => None end
      else if is "rebuild" then Some GRebuild
      else None
  | _ => None
  end.

(* (grid-run pre3 given op ...): per step (result, rows, pre3, list-spec result, list-spec rows,
   idx keys or none) *)
Fixpoint g_trace (g : grid) (l : list row) (ops : list sexp) : list sexp :=
  match ops with
  | [] => []
  | e :: ops' =>
      match dec_gop e with
      | None => [bad_request]
      | Some o =>
          let '(g', r) := gstep g o in
          let '(l', r') := lst_step l o in
          SList [sres sgout r; SList (map srow (rows g')); sbool (pre3 g');
                 sres sgout r'; SList (map srow l');
                 match idx g' with
                 | Some m => SList (map (fun kv => SList [SStr (fst kv); srow (snd kv)]) m)
                 | None => sym "none"
                 end]
          :: g_trace g' l' ops'
      end
  end.

Definition cmd_grid_run (args : list sexp) : sexp :=
  match args with
  | p :: gv :: ops => SList (g_trace (grid_new (is_sym "true" p) (is_sym "true" gv)) [] ops)
  | _ => bad_request
  end.
