"""Lock-step execution of Grid operation sequences: extracted model (code
model + Python-list specification) vs hszinc.Grid vs a plain Python list.
Shared by C14 (list refinement) and C15 (lookup by id)."""
from common import Sym

# row descriptor: (tag, idspec, payload, v3); idspec: None | ('str', s) | ('int', n) | ('ref', name) | ('refdis', name, dis)
# not-a-dict descriptor: ('notdict', tag)


def enc_row(r):
    if r[0] == 'notdict':
        return [Sym('notdict'), r[1]]
    tag, idspec, payload, v3 = r
    if idspec is None:
        i = Sym('none')
    else:
        i = [Sym(idspec[0])] + list(idspec[1:])
    return [Sym('row'), tag, i, payload, bool(v3)]


def enc_opt(x):
    return Sym('none') if x is None else x


def enc_slice(sl):
    return [enc_opt(sl[0]), enc_opt(sl[1]), enc_opt(sl[2])]


def enc_op(op):
    n = op[0]
    if n in ('append', 'remove', 'contains', 'index', 'count'):
        return [Sym(n), enc_row(op[1])]
    if n in ('insert', 'setitem'):
        return [Sym(n), op[1], enc_row(op[2])]
    if n in ('extend', 'iadd'):
        return [Sym(n), [enc_row(r) for r in op[1]]]
    if n in ('delitem', 'getitem'):
        return [Sym(n), op[1]]
    if n in ('delslice', 'getslice', 'sliceself'):
        return [Sym(n), enc_slice(op[1])]
    if n == 'pop':
        return [Sym(n), enc_opt(op[1])]
    if n in ('lookup', 'get'):
        return [Sym(n), op[1]]
    return [Sym(n)]


class _NotDict(object):
    """an object with the mapping methods but no dict in its ancestry"""
    def items(self):
        return [('id', 'x')]

    def values(self):
        return ['x']

    def keys(self):
        return ['id']

    def __iter__(self):
        return iter(['id'])

    def __getitem__(self, k):
        return 'x'

    def __contains__(self, k):
        return k == 'id'


class _Str(str):
    pass


class _Num(int):
    pass


class Impl:
    nd_count = 0
    """hszinc.Grid driven by the same operations; rows are real dicts whose
    identity is tracked by tag."""

    def __init__(self, pre3, given):
        import hszinc
        from hszinc.version import VER_3_0
        self.hszinc = hszinc
        self.VER_3_0 = VER_3_0
        if given:
            self.g = hszinc.Grid(version='2.0' if pre3 else '3.0', columns={'id': {}, 'v': {}})
        else:
            self.g = hszinc.Grid(columns={'id': {}, 'v': {}})
        self.lst = []          # the plain Python list given the same operations
        self.objs = {}         # tag -> object
        self.tags = {}         # id(object) -> tag

    def obj(self, r):
        hs = self.hszinc
        if r[0] == 'notdict':
            tag = r[1]
            if tag not in self.objs:
                # what is not a dict changes from one grid to the next: a list, mappings that are not dicts (hszinc's own
                # SortableDict / MetadataObject, a UserDict), a tuple of pairs, None, a string, a number
                Impl.nd_count += 1
                k = Impl.nd_count % 9
                if k == 1:
                    from hszinc.sortabledict import SortableDict
                    o = SortableDict()
                    o['id'] = 'nd%d' % tag
                elif k == 2:
                    from hszinc.metadata import MetadataObject
                    o = MetadataObject()
                    o['v'] = tag
                elif k == 3:
                    import collections
                    o = collections.UserDict({'id': 'nd%d' % tag})
                elif k == 4:
                    o = (('id', 'nd%d' % tag),)
                elif k == 5:
                    o = _NotDict()
                elif k == 6:
                    o = _Str('nd%d' % tag)
                elif k == 7:
                    o = _Num(tag)
                elif k == 8:
                    o = frozenset([('id', tag)])
                else:
                    o = ['not', 'a', 'dict', tag]
                self.objs[tag] = o
                self.tags[id(o)] = tag
            return self.objs[tag]
        tag, idspec, payload, v3 = r
        if tag not in self.objs:
            d = {}
            if idspec is not None:
                k = idspec[0]
                if k == 'str':
                    d['id'] = idspec[1]
                elif k == 'int':
                    d['id'] = idspec[1]
                elif k == 'ref':
                    d['id'] = hs.Ref(idspec[1])
                elif k == 'refdis':
                    d['id'] = hs.Ref(idspec[1], idspec[2])
            d['v'] = payload
            if v3:
                d['x'] = [1]
            self.objs[tag] = d
            self.tags[id(d)] = tag
        return self.objs[tag]

    def tag(self, o):
        return self.tags.get(id(o), -1)

    def pre3(self):
        return bool(self.g.nearest_version < self.VER_3_0)

    def apply(self, op, target):
        """apply op to `target` (the Grid or the plain list); returns the wire form of the result"""
        n = op[0]
        t = target
        is_list = isinstance(t, list)
        if n == 'append':
            t.append(self.obj(op[1])); return 'none'
        if n == 'insert':
            t.insert(op[1], self.obj(op[2])); return 'none'
        if n == 'extend':
            t.extend([self.obj(r) for r in op[1]]); return 'none'
        if n == 'iadd':
            t += [self.obj(r) for r in op[1]]; return 'none'
        if n == 'setitem':
            t[op[1]] = self.obj(op[2]); return 'none'
        if n == 'delitem':
            del t[op[1]]; return 'none'
        if n == 'delslice':
            del t[slice(*op[1])]; return 'none'
        if n == 'pop':
            r = t.pop() if op[1] is None else t.pop(op[1])
            return ['row', self.tag(r)]
        if n == 'remove':
            t.remove(self.obj(op[1])); return 'none'
        if n == 'reverse':
            t.reverse(); return 'none'
        if n == 'clear':
            t.clear(); return 'none'
        if n == 'len':
            return ['int', len(t)]
        if n == 'getitem':
            return ['row', self.tag(t[op[1]])]
        if n == 'getslice':
            s = t[slice(*op[1])]
            if is_list:
                return ['rows', [self.tag(r) for r in s]]
            return ['rows', [self.tag(r) for r in s], bool(s.nearest_version < self.VER_3_0), bool(s._version_given),
                    str(s.version) == str(t.version) and list(s.metadata.items()) == list(t.metadata.items())
                    and list(s.column.keys()) == list(t.column.keys())]
        if n == 'contains':
            return bool(self.obj(op[1]) in t)
        if n == 'index':
            return ['int', t.index(self.obj(op[1]))]
        if n == 'count':
            return ['int', t.count(self.obj(op[1]))]
        if n == 'lookup':
            return ['row', self.tag(t[op[1]])]
        if n == 'get':
            r = t.get(op[1])
            return 'none' if r is None else ['row', self.tag(r)]
        if n == 'reindex':
            t.reindex(); return 'none'
        raise AssertionError(op)

    def step(self, op):
        """returns (grid result, grid rows, pre3, list result, list rows)"""
        n = op[0]
        if n == 'sliceself':
            try:
                self.g = self.g[slice(*op[1])]
                gr = ['ok', 'none']
            except Exception as e:  # noqa
                gr = ['raise', type(e).__name__]
            try:
                self.lst = self.lst[slice(*op[1])]
                lr = ['ok', 'none']
            except Exception as e:  # noqa
                lr = ['raise', type(e).__name__]
        elif n == 'rebuild':
            self.g = self.g.filter('v')          # every row has the tag v
            gr = lr = ['ok', 'none']
        else:
            try:
                gr = ['ok', self.apply(op, self.g)]
            except Exception as e:  # noqa
                gr = ['raise', type(e).__name__]
            if n in ('lookup', 'get', 'reindex'):
                lr = None            # not a list operation: judged by the scan below
            elif n in ('append', 'insert', 'setitem') and op[-1][0] == 'notdict':
                lr = ['raise', 'TypeError']      # the property: non-dict rows are refused, nothing changes
            elif n in ('extend', 'iadd') and any(r[0] == 'notdict' for r in op[1]):
                k = [r[0] == 'notdict' for r in op[1]].index(True)
                self.lst.extend([self.obj(r) for r in op[1][:k]])
                lr = ['raise', 'TypeError']
            else:
                try:
                    lr = ['ok', self.apply(op, self.lst)]
                except Exception as e:  # noqa
                    lr = ['raise', type(e).__name__]
        return gr, [self.tag(r) for r in self.g], self.pre3(), lr, [self.tag(r) for r in self.lst]

    def scan(self, key):
        """scan-based reference for lookups: tags of the current rows whose id has that string form"""
        return [self.tag(r) for r in self.g._row if isinstance(r, dict) and 'id' in r and str(r['id']) == key]


def norm_model(r):
    """model result -> comparable form"""
    if r[0] == 'raise':
        return ['raise', r[1]]
    v = r[1]
    if isinstance(v, list) and v and v[0] == 'rows':
        return ['ok', ['rows', v[1], v[2] == 'true', v[3] == 'true']]
    if v in ('true', 'false'):
        return ['ok', v == 'true']
    return ['ok', v]


def run_case(ctx, pre3, given, ops, want_v3_gate=False):
    """Returns None if all agree, else (kind, description)."""
    ans = ctx.model.ask([[Sym('grid-run'), bool(pre3), bool(given)] + [enc_op(o) for o in ops]])[0]
    return compare_case(ctx, pre3, given, ops, ans)


def compare_case(ctx, pre3, given, ops, ans, use_model=True):
    im = Impl(pre3, given)
    for i, op in enumerate(ops):
        gr, grows, gpre3, lr, lrows = im.step(op)
        if use_model:
            m_r, m_rows, m_pre3, s_r, s_rows, m_idx = ans[i]
            m_r = norm_model(m_r)
        where = 'after %r (grid created %s)' % (ops[:i + 1], 'version %s given' % ('2.0' if pre3 else '3.0') if given else 'without version')
        n = op[0]
        # ---------- property: the Grid against the real Python list / the scan
        if n in ('lookup', 'get'):
            cands = im.scan(op[1])
            if gr[0] == 'raise':
                ok = (n == 'lookup' and gr[1] == 'KeyError' and not cands)
            elif gr[1] == 'none':
                ok = (n == 'get' and not cands)
            else:
                ok = gr[1][1] in cands
            if not ok:
                return ('impl-counterexample', '%s: lookup returned %r but the rows currently holding that id are %r'
                        % (where, gr, cands))
        elif lr is not None:
            g_cmp = gr
            if gr[0] == 'ok' and isinstance(gr[1], list) and gr[1] and gr[1][0] == 'rows':
                if not gr[1][4]:
                    return ('impl-counterexample', '%s: the slice does not have the version/metadata/columns of the grid' % where)
                if gr[1][2] != gpre3:
                    return ('impl-counterexample', '%s: the slice reports another version than the grid' % where)
                g_cmp = ['ok', ['rows', gr[1][1]]]
            version_refusal = (gr == ['raise', 'ValueError'] and n in ('append', 'insert', 'setitem', 'extend', 'iadd'))
            if not version_refusal:
                if g_cmp != lr:
                    return ('impl-counterexample', '%s: grid gives %r, a Python list gives %r' % (where, g_cmp, lr))
                if grows != lrows:
                    return ('impl-counterexample', '%s: grid rows %r, Python list %r' % (where, grows, lrows))
            else:
                # refused: grid must be unchanged; bring the list back in line
                im.lst = [im.objs[t] for t in grows]
            if gr == ['raise', 'TypeError'] and n in ('append', 'insert', 'setitem') and grows != lrows:
                return ('impl-counterexample', '%s: a refused row changed the grid' % where)
        # ---------- correspondence: the code model
        if not use_model:
            continue
        mg = gr
        if gr[0] == 'ok' and isinstance(gr[1], list) and gr[1] and gr[1][0] == 'rows':
            mg = ['ok', ['rows', gr[1][1], gr[1][2], gr[1][3]]]
        if n in ('lookup', 'get') and gr[0] == 'ok' and gr[1] != 'none' and m_r[0] == 'ok' and m_r[1] != 'none':
            pass_lookup = True     # with duplicate ids model and code must still pick the same row
        if m_r != mg or m_rows != grows or (m_pre3 == 'true') != gpre3:
            return ('correspondence-broken', '%s: model of Grid says %r rows %r pre3=%s, implementation %r rows %r pre3=%s'
                    % (where, m_r, m_rows, m_pre3, mg, grows, gpre3))
    return None


# ---------------------------------------------------------------- generators
def mutators(rows, nd, idxs):
    named = list(rows.values())
    ops = []
    for r in named + [nd]:
        ops.append(('append', r))
    for i in (0, 1, -1, 5, -5):
        for r in named[:4] + [nd]:
            ops.append(('insert', i, r))
    ops.append(('extend', [named[0], named[-1]]))
    ops.append(('extend', [named[2], nd, named[0]]))
    ops.append(('extend', []))
    ops.append(('iadd', [named[1], named[3 % len(named)]]))
    for i in (0, 1, -1, 3, -4):
        for r in named[:4] + [nd]:
            ops.append(('setitem', i, r))
        ops.append(('delitem', i))
    for sl in ((0, 2, None), (None, None, 2), (1, None, None), (None, None, -1), (5, 7, None),
               (None, None, 0), (-2, None, None), (None, -1, None), (3, 0, -2)):
        ops.append(('delslice', sl))
    for i in (None, 0, -1, 3):
        ops.append(('pop', i))
    for r in named + [nd]:
        ops.append(('remove', r))
    ops.append(('reverse',))
    ops.append(('clear',))
    ops.append(('reindex',))
    ops.append(('sliceself', (1, None, None)))
    ops.append(('sliceself', (None, None, -1)))
    ops.append(('sliceself', (0, 2, None)))
    ops.append(('rebuild',))
    return ops


def observers(rows, nd, keys, with_lookups):
    named = list(rows.values())
    obs = [('len',), ('getitem', 0), ('getitem', -1), ('getitem', 2), ('getitem', -3),
           ('getslice', (0, 2, None)), ('getslice', (None, None, -1)), ('getslice', (1, None, 2)), ('getslice', (None, None, 0)),
           ('contains', named[1]), ('contains', named[-1]), ('contains', nd),
           ('index', named[-1]), ('index', named[2]), ('count', named[1])]
    if with_lookups:
        for k in keys:
            obs.append(('get', k))
        obs.append(('lookup', keys[0]))
        obs.append(('lookup', keys[-1]))
    return obs


def bases(rows, maxlen):
    import itertools
    named = list(rows.values())[:4]
    out = []
    for n in range(maxlen + 1):
        for combo in itertools.product(named, repeat=n):
            out.append([('append', r) for r in combo])
    return out


def explore(ctx, rows, nd, keys, rng, thorough, versions=((True, False),)):
    """Runs the cases; returns False when a violation was recorded."""
    muts = mutators(rows, nd, None)
    use_model = True
    seen = set()
    total = 0
    bl = bases(rows, 3 if thorough else 2)
    final = [('get', k) for k in keys] + [('lookup', keys[0])]
    cases = []
    for b in bl:
        for m in muts:
            for mode in (True, False):
                obs = observers(rows, nd, keys, mode)
                cases.append(b + [m] + obs + ([] if mode else final))
    npairs = 40000 if thorough else 5000
    for _ in range(npairs):
        b = rng.choice(bl)
        m1, m2 = rng.choice(muts), rng.choice(muts)
        mode = rng.random() < 0.5
        obs = observers(rows, nd, keys, mode)
        cases.append(b + [m1] + (obs if rng.random() < 0.5 else []) + [m2] + obs + ([] if mode else final))
    # random long sequences
    for _ in range(300 if thorough else 40):
        ops = []
        for _ in range(rng.choice([20, 60, 200])):
            ops.append(rng.choice(muts))
            if rng.random() < 0.3:
                ops.extend(rng.sample(observers(rows, nd, keys, True), 3))
        cases.append(ops + observers(rows, nd, keys, True))
    ctx.sample({'ops': repr(cases[len(cases) // 3])[:1500]})
    ctx.sample({'ops': repr(cases[-1])[:800]})
    for pre3, given in versions:
        for i in range(0, len(cases), 4000):
            chunk = cases[i:i + 4000]
            answers = ctx.model.ask_parallel([[Sym('grid-run'), bool(pre3), bool(given)] + [enc_op(o) for o in ops]
                                              for ops in chunk])
            for ops, ans in zip(chunk, answers):
                bad = compare_case(ctx, pre3, given, ops, ans, use_model)
                ctx.coverage['evaluations'] += 1
                total += 1
                if bad:
                    kind, what = bad
                    ctx.violation(kind, what, {'pre3': pre3, 'given': given, 'ops': ops})
                    if kind == 'impl-counterexample':
                        return False
                    # the model no longer corresponds: go on searching the implementation alone
                    use_model = False
                else:
                    ctx.coverage['traces_validated_against_impl'] += 1
                    seen.add(repr(ops))
                for o in ops:
                    ctx.count('op:' + o[0])
    ctx.coverage['distinct_nontrivial'] = len(seen)
    return not ctx.violations


def replay_case(ctx, data):
    def tup(o):
        out = []
        for x in o:
            if isinstance(x, list):
                out.append(tup(x) if not (x and isinstance(x[0], list)) else [tup(y) for y in x])
            else:
                out.append(x)
        return tuple(out)
    ops = []
    for o in data['ops']:
        n = o[0]
        if n in ('extend', 'iadd'):
            ops.append((n, [fix_row(r) for r in o[1]]))
        elif n in ('append', 'remove', 'contains', 'index', 'count'):
            ops.append((n, fix_row(o[1])))
        elif n in ('insert', 'setitem'):
            ops.append((n, o[1], fix_row(o[2])))
        elif n in ('delslice', 'getslice', 'sliceself'):
            ops.append((n, tuple(o[1])))
        else:
            ops.append(tuple(o))
    bad = run_case(ctx, data['pre3'], data['given'], ops)
    ctx.coverage['evaluations'] += 1
    if bad:
        ctx.violation(bad[0], bad[1], data)


def fix_row(r):
    if r[0] == 'notdict':
        return ('notdict', r[1])
    return (r[0], tuple(r[1]) if r[1] is not None else None, r[2], r[3])


def alias_probe(ctx, rows, keys, thorough):
    """A slice or a filtered copy of a grid is another grid: rows added to one of them afterwards must not become visible
    to lookups on the other (no index shared between them).  Implementation only - a functional model has no aliasing."""
    import itertools
    import hszinc
    named = list(rows.values())

    def make(desc):
        im = Impl(True, False)
        for r in desc:
            im.g.append(dict(im.obj(r)))
        return im.g

    def scan(g, key):
        return [r for r in g if 'id' in r and str(r['id']) == key]

    def views(g):
        n = len(g)
        out = [('g[:]', lambda: g[:]), ('g[0:len]', lambda: g[0:n]), ('g[-len:]', lambda: g[-n:] if n else g[0:0]), ('g[::1]', lambda: g[::1]),
               ("filter('', limit=len)", lambda: g.filter('', limit=n) if n else g[0:0]), ('g[1:]', lambda: g[1:]), ('g[::-1]', lambda: g[::-1])]
        return out

    combos = [c for n in range(0, 3 if not thorough else 4) for c in itertools.product(named[:5], repeat=n)]
    count = 0
    for desc in combos:
        for warm in (True, False):
            for vi in range(7):
                for who in ('view', 'parent'):
                    for how in ('append', 'insert'):
                        g = make(desc)
                        if warm:
                            for k in keys:
                                g.get(k)
                        name, mk = views(g)[vi]
                        v = mk()
                        if warm:
                            for k in keys:
                                v.get(k)
                        target, other = (v, g) if who == 'view' else (g, v)
                        new = {'id': 'fresh-id', 'v': 99}
                        if how == 'append':
                            target.append(new)
                        else:
                            target.insert(0, new)
                        count += 1
                        ctx.coverage['evaluations'] += 1
                        for obj, label in ((target, 'the grid that was mutated'), (other, 'the other grid')):
                            for k in list(keys) + ['fresh-id']:
                                want = scan(obj, k)
                                got = obj.get(k)
                                ok = (got is None and not want) or any(got is w for w in want)
                                if not ok:
                                    ctx.violation('impl-counterexample',
                                                  'after v = %s of a %d-row grid (index %s) and %s.%s(row with id fresh-id): %s answers get(%r) with %r, its rows say %r'
                                                  % (name, len(desc), 'built' if warm else 'not built', 'v' if who == 'view' else 'g', how, label, k,
                                                     None if got is None else dict(got), [dict(w) for w in want][:2]),
                                                  {'rows': [list(map(str, d)) for d in desc], 'view': name, 'mutated': who, 'how': how, 'index_built': warm})
                                    return False
    ctx.count('alias-probes', count)
    return True
