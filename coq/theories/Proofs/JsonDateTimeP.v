(* JSON date-times: Z or a numeric offset, with or without a zone name, with or without a fraction of seconds of any
   length (property C05).
   (DATETIME_RE also lets a lower-case z through, but iso8601.parse_date then refuses the text with its ParseError, a
   ValueError: a lower-case z is not Haystack JSON, and the theorem does not cover it.) *)
From Coq Require Import Lia ZifyBool String.
From HS Require Import Base.Prelude Gen.VersionData Gen.JsonData Model.Value Model.Version Model.Json Proofs.PreludeP Proofs.JsonP Proofs.JsonNumP.
Open Scope N_scope.

Inductive jospell := JZ (c : N) | JOff (sg hh mm : N).
Definition jo_ok (o : jospell) : Prop :=
  match o with JZ c => c = 90 | JOff sg hh mm => (sg = 43 \/ sg = 45) /\ hh < 100 /\ mm < 100 end.
Definition jo_text (o : jospell) : str := match o with JZ c => [c] | JOff sg hh mm => sg :: d2 hh ++ 58 :: d2 mm end.
Definition jzone_ok (zn : option str) : Prop := match zn with Some n => n <> [] /\ forallb is_tzname_char n = true | None => True end.
Definition jzone_text (zn : option str) : str := match zn with Some n => 32 :: n | None => [] end.

Definition jdt_body (y m d h mi s : N) (fr : str) (o : jospell) : str :=
  d4 y ++ 45 :: d2 m ++ 45 :: d2 d ++ 84 :: d2 h ++ 58 :: d2 mi ++ 58 :: d2 s ++ fr ++ jo_text o.

Lemma jo_hd o : jo_ok o -> exists c r, jo_text o = c :: r /\ (c = 43 \/ c = 45 \/ c = 90 \/ c = 122).
Proof. destruct o as [c|sg hh mm]; cbn [jo_ok jo_text]; [intros E|intros [[E|E] _]]; subst; eexists; eexists; split; try reflexivity; tauto. Qed.

Lemma opt_frac_before fr c rest :
  frac_ok fr -> (c = 43 \/ c = 45 \/ c = 90 \/ c = 122) ->
  opt_frac (fr ++ c :: rest) = (fr, c :: rest).
Proof.
  intros Hf Hs. destruct Hf as [E|[ds [E [Hne Hd]]]]; subst fr.
  - cbn [app]. unfold opt_frac. rewrite (hd_is_other 58 c) by (destruct Hs as [E|[E|[E|E]]]; subst; discriminate).
    unfold dot_digits. rewrite (hd_is_other 46 c) by (destruct Hs as [E|[E|[E|E]]]; subst; discriminate). reflexivity.
  - cbn [app]. unfold opt_frac. rewrite (hd_is_other 58 46) by discriminate.
    unfold dot_digits. rewrite hd_is_same.
    rewrite (span_app is_digit ds c rest (forallb_ascii_digit ds Hd))
      by (apply not_digit; destruct Hs as [E|[E|[E|E]]]; subst; lia).
    destruct ds; [contradiction|reflexivity].
Qed.

Definition after_off (rest : str) : Prop := rest = [] \/ exists r, rest = 32 :: r.

Lemma tz_part_spelled o rest : jo_ok o -> after_off rest -> tz_part (jo_text o ++ rest) = Some (jo_text o, rest).
Proof.
  intros Ho Hr. destruct o as [c|sg hh mm]; cbn [jo_ok jo_text app] in *.
  - subst c. reflexivity.
  - destruct Ho as [Hs [Hh Hm]]. unfold tz_part. rewrite <- ?app_assoc. cbn [app]. rewrite <- ?app_assoc.
    rewrite (hd_is_other 58 sg) by (destruct Hs; subst; discriminate).
    assert ((sg =? 122) || (sg =? 90) = false) as -> by (destruct Hs; subst; reflexivity).
    assert ((sg =? 43) || (sg =? 45) = true) as -> by (destruct Hs; subst; reflexivity).
    rewrite (span_app is_digit (d2 hh) 58 _ (forallb_d2_digits hh Hh)) by (apply not_digit; lia).
    unfold d2 at 1. rewrite hd_is_same.
    destruct Hr as [E|[r E]]; subst rest.
    + rewrite app_nil_r. rewrite (span_all is_digit (d2 mm) (forallb_d2_digits mm Hm)). reflexivity.
    + rewrite (span_app is_digit (d2 mm) 32 r (forallb_d2_digits mm Hm)) by (apply not_digit; lia). reflexivity.
Qed.

Theorem rt_datetime_spelled pre3 y m d h mi s fr o zn :
  y < 10000 -> m < 100 -> d < 100 -> h < 100 -> mi < 100 -> s < 100 -> frac_ok fr -> jo_ok o -> jzone_ok zn ->
  jparse_str pre3 (116 :: 58 :: jdt_body y m d h mi s fr o ++ jzone_text zn) = Ok (VDateTimeRaw (jdt_body y m d h mi s fr o) zn).
Proof.
  intros Hy Hm Hd Hh Hmi Hs Hu Ho Hz.
  unfold jparse_str. cbn -[match_datetime match_number jdt_body].
  assert (Etext : jdt_body y m d h mi s fr o ++ jzone_text zn
                  = d4 y ++ 45 :: d2 m ++ 45 :: d2 d ++ 84 :: d2 h ++ 58 :: d2 mi ++ 58 :: d2 s ++ fr ++ jo_text o ++ jzone_text zn).
  { unfold jdt_body. repeat (rewrite <- app_assoc; cbn [app]). reflexivity. }
  assert (Ehead : jdt_body y m d h mi s fr o
                  = d4 y ++ 45 :: d2 m ++ 45 :: d2 d ++ 84 :: d2 h ++ 58 :: d2 mi ++ [58] ++ (d2 s ++ fr) ++ jo_text o).
  { unfold jdt_body. repeat (rewrite <- app_assoc; cbn [app]). reflexivity. }
  rewrite Etext. unfold match_datetime.
  rewrite (four_digits_d4 y _ Hy), hd_is_same.
  rewrite (two_digits_d2 m _ Hm), hd_is_same.
  rewrite (two_digits_d2 d _ Hd), hd_is_same.
  rewrite (two_digits_d2 h _ Hh), hd_is_same.
  rewrite (two_digits_d2 mi _ Hmi).
  destruct (jo_hd o Ho) as [c [r [Eo Hc]]].
  assert (SP : secs_part (58 :: d2 s ++ fr ++ jo_text o ++ jzone_text zn) = Some ([58], d2 s ++ fr, jo_text o ++ jzone_text zn)).
  { apply secs_part_general; [exact Hs|]. rewrite Eo. cbn [app]. apply opt_frac_before; assumption. }
  rewrite SP.
  assert (AO : after_off (jzone_text zn)) by (destruct zn; [right; eexists; reflexivity|left; reflexivity]).
  rewrite (tz_part_spelled o (jzone_text zn) Ho AO).
  destruct zn as [name|]; cbn [jzone_text jzone_ok] in *.
  - destruct Hz as [Hne Hname]. rewrite (hd_is_other 58 32) by discriminate. rewrite hd_is_same.
    rewrite (span_all is_tzname_char name Hname). destruct name as [|c0 nm]; [contradiction|].
    cbn [at_eol]. rewrite Ehead. reflexivity.
  - rewrite !hd_is_nil. cbn [at_eol]. rewrite Ehead. reflexivity.
Qed.

Example rt_datetime_spelled_ex :
  jparse_str false (s_ "t:2020-02-29T23:59:59Z") = Ok (VDateTimeRaw (s_ "2020-02-29T23:59:59Z") None) /\
  jparse_str true (s_ "t:2020-02-29T23:59:59.000001+05:30 Kolkata") = Ok (VDateTimeRaw (s_ "2020-02-29T23:59:59.000001+05:30") (Some (s_ "Kolkata"))).
Proof. split; vm_compute; reflexivity. Qed.
Print Assumptions rt_datetime_spelled.
