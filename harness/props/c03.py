"""C03 - the ZINC reader accepts the whole surface syntax and decodes it correctly.

Theorems: coq/theories/Props/C03.v (Model/ZincParse.v).
Tie: reader model vs hszinc.parse on documents written by an independent
grammar-directed writer (this file): value x independently chosen legal spelling
per token.  Search: the implementation's result against the grid each document
denotes; str and bytes input in several charsets; single / multi-grid documents;
empty input."""
import datetime
import random

import codec
import zincsim
from codec import fbits

COMPONENTS = ['escape', 'version']

SHORT = {'\b': 'b', '\f': 'f', '\n': 'n', '\r': 'r', '\t': 't', '\\': '\\'}


def spell_text(rng, s, quote, extra_short, uri=False):
    out = [quote]
    for ch in s:
        o = ord(ch)
        choices = []
        if o >= 0x20 and ch not in (quote, '\\'):
            choices.append(ch)                       # raw
        if ch in SHORT:
            choices.append('\\' + SHORT[ch])
        if ch == quote or ch in extra_short:
            choices.append('\\' + ch)
        if o <= 0xffff:
            hx = '%04x' % o
            choices.append('\\u' + rng.choice([hx, hx.upper()]))
        out.append(rng.choice(choices))
    out.append(quote)
    return ''.join(out)


def spell_str(rng, s):
    return spell_text(rng, s, '"', '$')


def spell_uri(rng, s):
    # (\# keeps its backslash in hszinc by design of its tests; not spelled that way here)
    return spell_text(rng, s, '`', ':/?[]@&=;')


def underscore(rng, digits):
    """digits := digit (digit | "_")*: separators anywhere after the first digit, single or doubled, also trailing"""
    if not digits or not digits[0].isdigit():
        return digits
    for _ in range(rng.choice([0, 0, 1, 1, 2])):
        k = rng.randint(1, len(digits))
        digits = digits[:k] + rng.choice(['_', '_', '__']) + digits[k:]
    return digits


def spell_number(rng, x):
    """(text, float it denotes) for a finite float x"""
    style = rng.choice(['repr', 'int', 'exp', 'EXP', 'fixed'])
    if style == 'int' and abs(x) < 1e15:
        txt = '%d' % int(x)
    elif style == 'exp':
        txt = '%.5e' % x
    elif style == 'EXP':
        txt = ('%.3E' % x).replace('E+', 'E')
    elif style == 'fixed' and abs(x) < 1e15:
        txt = '%.4f' % x
    else:
        txt = repr(float(x))
    val = float(txt)
    # digit separators in the integer part
    sign = '-' if txt.startswith('-') else ''
    body = txt[len(sign):]
    ip = body.split('.')[0].split('e')[0].split('E')[0]
    tail = body[len(ip):]
    # ... and in the fraction and the exponent digits
    m = __import__('re').match(r'(\.)(\d+)(.*)\Z', tail)
    if m and rng.random() < 0.3:
        tail = m.group(1) + underscore(rng, m.group(2)) + m.group(3)
    m = __import__('re').match(r'(.*[eE][+-]?)(\d+)\Z', tail)
    if m and rng.random() < 0.3:
        tail = m.group(1) + underscore(rng, m.group(2))
    txt = sign + underscore(rng, ip) + tail
    return txt, val


def sp(rng):
    return rng.choice(['', '', ' ', '  '])


def spell_value(rng, pre3, depth, cell=False):
    """(zinc text, canonical form it denotes)"""
    kinds = ['null', 'marker', 'remove', 'bool', 'num', 'qty', 'nonfinite', 'str', 'uri', 'bin', 'ref', 'refdis',
             'date', 'time', 'datetime', 'coord']
    if cell:
        kinds.append('empty')
    if not pre3:
        kinds += ['na', 'xstr', 'xhex'] + (['list', 'dict', 'grid'] if depth > 0 else [])
    k = rng.choice(kinds)
    if k == 'empty':
        return '', ('null',)
    if k == 'null':
        return 'N', ('null',)
    if k == 'marker':
        return 'M', ('marker',)
    if k == 'remove':
        return 'R', ('remove',)
    if k == 'na':
        return 'NA', ('na',)
    if k == 'bool':
        b = rng.random() < 0.5
        return 'T' if b else 'F', ('bool', b)
    if k == 'num':
        t, x = spell_number(rng, codec.gen_number(rng, allow_nonfinite=False))
        return t, ('num', fbits(x), None)
    if k == 'qty':
        t, x = spell_number(rng, codec.gen_number(rng, allow_nonfinite=False))
        if t[-1] in 'eE' or 'e' in t or 'E' in t:
            unit = rng.choice(['kg', '%', '$', '°C', 'µg', 'kW/h'])
        else:
            unit = rng.choice(['kg', 'm', '%', '$', '°C', 'kW/h', 'µg', 'h', 'Ω', 'ft/min'])
        if unit[0] in 'eE' or unit.startswith('_'):
            unit = 'kg'
        return t + unit, ('num', fbits(x), unit)
    if k == 'nonfinite':
        t, x = rng.choice([('INF', float('inf')), ('-INF', float('-inf')), ('NaN', float('nan'))])
        return t, ('num', fbits(x), None)
    if k == 'str':
        s = codec.gen_text(rng)
        return spell_str(rng, s), ('str', s)
    if k == 'uri':
        s = codec.gen_text(rng).replace('#', '')
        return spell_uri(rng, s), ('uri', s)
    if k == 'bin':
        m = rng.choice(['text/plain', 'image/png', 'a b; c=d', 'x'])
        return 'Bin(%s)' % m, ('bin', m)
    if k == 'ref':
        n = rng.choice(['a', 'site-1', 'p:demo:r:1e85', 'A.b~c_d', '0'])
        return '@' + n, ('ref', n, None)
    if k == 'refdis':
        n = rng.choice(['a', 'site-1', 'x:y'])
        d = codec.gen_text(rng)
        return '@%s %s' % (n, spell_str(rng, d)), ('ref', n, d)
    if k == 'date':
        d = datetime.date(rng.randint(1, 9999), rng.randint(1, 12), rng.randint(1, 28))
        return d.isoformat(), ('date', d.year, d.month, d.day)
    if k == 'time':
        hh, mm, ss = rng.randint(0, 23), rng.randint(0, 59), rng.randint(0, 59)
        if rng.random() < 0.5:
            return '%02d:%02d:%02d' % (hh, mm, ss), ('time', hh, mm, ss, 0, False)
        frac = ''.join(rng.choice('0123456789') for _ in range(rng.randint(1, 6)))
        return '%02d:%02d:%02d.%s' % (hh, mm, ss, frac), ('time', hh, mm, ss, int(frac.ljust(6, '0')), False)
    if k == 'datetime':
        dt = codec.gen_scalar(rng, pre3, kinds=['datetime'])
        from hszinc.zoneinfo import timezone_name
        name = timezone_name(dt)
        off = dt.utcoffset()
        utc = dt.astimezone(datetime.timezone.utc).isoformat()
        T = rng.choice(['T', 't'])
        style = rng.choice(['full', 'noname', 'zulu'])
        offs = int(off.total_seconds())
        if style == 'zulu' or (offs % 60):
            u = dt.astimezone(datetime.timezone.utc).replace(tzinfo=None)
            zn = rng.choice([' UTC', ''])
            return u.isoformat().replace('T', T) + rng.choice(['Z', 'z']) + zn, ('dt-spec', utc, 0, 'UTC' if zn else None)
        iso = dt.isoformat().replace('T', T)
        if style == 'full':
            return '%s %s' % (iso, name), ('dt-spec', utc, offs, name)
        return iso, ('dt-spec', utc, offs, None)
    if k == 'coord':
        la, lo = round(rng.uniform(-90, 90), rng.choice([0, 2, 6])), round(rng.uniform(-180, 180), rng.choice([0, 2, 6]))
        ta, to = rng.choice(['%f', '%.2f', '%.0f']) % la, rng.choice(['%f', '%.3f']) % lo
        return 'C(%s%s,%s%s)' % (ta, sp(rng), sp(rng), to), ('coord', fbits(float(ta)), fbits(float(to)))
    if k == 'xstr':
        enc = rng.choice(['Foo', 'Text', 'Color'])
        s = codec.gen_text(rng)
        return '%s(%s)' % (enc, spell_str(rng, s)), ('xstr', enc, ('text', s))
    if k == 'xhex':
        hx = ''.join(rng.choice('0123456789abcdefABCDEF') for _ in range(2 * rng.randint(0, 5)))
        return 'hex("%s")' % hx, ('xstr', 'hex', hx.lower())
    if k == 'list':
        items = [spell_value(rng, pre3, depth - 1) for _ in range(rng.choice([0, 1, 2, 3]))]
        if not items:
            return rng.choice(['[]', '[ ]', '[  ]']), ('list',)
        body = ''
        for i, (t, _) in enumerate(items):
            body += t
            if i < len(items) - 1:
                body += sp(rng) + ',' + sp(rng)
        trail = rng.choice(['', ',', ', ', ' ,'])
        return '[' + sp(rng) + body + trail + sp(rng) + ']', ('list',) + tuple(c for _, c in items)
    if k == 'dict':
        d, parts = {}, []
        for _ in range(rng.choice([0, 1, 2, 3])):
            n = codec.gen_name(rng)
            if n in d:
                continue
            if rng.random() < 0.3:
                d[n] = ('marker',)
                parts.append(n)
            else:
                t, c = spell_value(rng, pre3, depth - 1)
                d[n] = c
                parts.append(n + ':' + sp(rng) + t)
        return '{' + sp(rng) + (' ' + sp(rng)).join(parts) + sp(rng) + '}', ('dict',) + tuple(d.items())
    if k == 'grid':
        t, c = spell_grid(rng, '3.0', depth - 1, nested=True)
        return '<<' + sp(rng) + t + sp(rng) + '>>', c
    raise AssertionError(k)


def spell_meta(rng, pre3, depth):
    d, parts = {}, []
    for _ in range(rng.choice([0, 0, 1, 2, 3])):
        n = codec.gen_name(rng)
        if n in d or n == 'ver':
            continue
        if rng.random() < 0.3:
            d[n] = ('marker',)
            parts.append(n)
        else:
            t, c = spell_value(rng, pre3, depth)
            d[n] = c
            parts.append(n + sp(rng) + ':' + sp(rng) + t)
    return ''.join(' ' + p for p in parts), tuple(d.items())


def spell_grid(rng, ver, depth, nested=False, crlf=None):
    pre3 = ver == '2.0'
    nl = '\r\n' if (crlf if crlf is not None else rng.random() < 0.2) else '\n'
    eol = lambda: sp(rng) + nl          # blanks may precede the line end
    mt, mc = spell_meta(rng, pre3, depth)
    names = []
    while len(names) < rng.choice([1, 2, 3]):
        n = codec.gen_name(rng)
        if n not in names:
            names.append(n)
    cols_t, cols_c = [], []
    for n in names:
        ct, cc = spell_meta(rng, pre3, depth)
        cols_t.append(n + ct)
        cols_c.append((n, cc))
    text = 'ver:"%s"%s%s' % (ver, mt, eol())
    text += (sp(rng) + ',' + sp(rng)).join(cols_t) + eol()
    rows_c = []
    for _ in range(rng.choice([0, 1, 2, 3])):
        cells = [spell_value(rng, pre3, depth, cell=True) for _ in names]
        if len(names) == 1 and cells[0][0] == '':
            cells[0] = ('N', ('null',))           # an empty line would be a grid separator
        text += (sp(rng) + ',' + sp(rng)).join(t for t, _ in cells) + eol()
        rows_c.append(tuple((n, c) for n, (_, c) in zip(names, cells)))
    return text, ('grid', ver, mc, tuple(cols_c), tuple(rows_c))


def run(ctx):
    h = codec.H()
    rng = random.Random(ctx.seed + 3)
    thorough = ctx.tier == 'thorough' or ctx.escalate
    n = 12000 if thorough else 600
    ctx.coverage['rule'] = ('documents written by an independent grammar-directed writer: every value kind x an independently chosen legal spelling per '
                            'token (blanks around commas and colons, empty cells, _ in digits, exponent forms, INF/-INF/NaN, raw / short / \\uXXXX escapes '
                            'in upper and lower case, CRLF, trailing commas and blanks in lists and dicts, T/t and Z/z, with and without zone name, blanks '
                            'before line ends, with and without final newline), as str and as bytes in utf-8 / utf-8-sig / utf-7 / utf-16 / utf-32 (native, LE and BE) / latin-1 / cp1252 / ascii / cp037 (EBCDIC), single and multi-grid; distinct by text')
    docs = []
    for _ in range(n):
        k = rng.choice([1, 1, 1, 1, 2, 3])
        crlf = rng.random() < 0.2
        gs = [spell_grid(rng, rng.choice(['2.0', '3.0', '3.0']), rng.choice([0, 1, 2]), crlf=crlf) for _ in range(k)]
        sep = '\n' * rng.choice([1, 1, 2]) if not crlf else '\n'
        text = sep.join(t for t, _ in gs)
        if rng.random() < 0.3:
            text = text.rstrip('\n').rstrip('\r') if not crlf else text
        docs.append((text, tuple(c for _, c in gs)))
    docs.append(('', ()))
    docs.append(('\n', ()))
    texts = [d[0] for d in docs]
    impl = zincsim.impl_parse_many(texts)
    model = zincsim.model_zparse(ctx, texts)
    seen = set()
    corr = False
    for (text, want), got, m in zip(docs, impl, model):
        ctx.coverage['evaluations'] += 1
        rep = {'document': text[:4000], 'denotes': repr(want)[:3000]}
        if got[0] != 'ok':
            ctx.violation('impl-counterexample', 'a well-formed document was rejected (%s at line %s col %s)' % (got[1], got[2], got[3]), rep)
            return
        got_c = zincsim.jsonsim.dt_to_spec(got[1])[1:]
        if got_c != want:
            ctx.violation('impl-counterexample', 'decoded %r, the document denotes %r' % _diff(got_c, want), rep)
            return
        if not corr and m[:2] != got[:2]:
            ctx.violation('correspondence-broken', 'model of the ZINC reader: %r, implementation %r' % _diff(m, got[:2]),
                          dict(rep, component='zparse'))
            corr = True
        ctx.coverage['traces_validated_against_impl'] += 1
        seen.add(text)
    # bytes input in several charsets, single flag
    for text, want in docs[:120 if not thorough else 1000]:
        for cs in ('utf-8', 'utf-16', 'latin-1', 'utf-16-le', 'utf-16-be', 'utf-32', 'utf-32-le', 'utf-32-be', 'utf-8-sig', 'utf-7', 'cp1252', 'ascii', 'cp037'):
            try:
                data = text.encode(cs)
            except UnicodeEncodeError:
                continue
            ctx.coverage['evaluations'] += 1
            ctx.count('charset:' + cs)
            try:
                r = h.parse(data, charset=cs, single=False)
                got_c = tuple(zincsim.jsonsim.dt_to_spec(codec.canon(g)) for g in r)
                first = h.parse(data, charset=cs, single=True)
            except Exception as e:  # noqa
                ctx.violation('impl-counterexample', 'bytes input (%s) was rejected with %s' % (cs, type(e).__name__), {'document': text[:3000], 'charset': cs})
                return
            if got_c != want:
                ctx.violation('impl-counterexample', 'bytes input (%s) decodes differently from str input' % cs, {'document': text[:3000], 'charset': cs})
                return
            if (first is None) != (not want) or (want and zincsim.jsonsim.dt_to_spec(codec.canon(first)) != want[0]):
                ctx.violation('impl-counterexample', 'single=True does not give the first grid / None', {'document': text[:3000]})
                return
    # dense sweep of fractional seconds in times and date-times (every digit count 1..6)
    scal = []
    for _ in range(30000 if thorough else 500):
        nd = rng.choice([1, 2, 3, 4, 5, 6, 6, 6])
        f = ''.join(rng.choice('0123456789') for _ in range(nd))
        hh, mm, ss = rng.randint(0, 23), rng.randint(0, 59), rng.randint(0, 59)
        us = int(f.ljust(6, '0'))
        if rng.random() < 0.6:
            scal.append(('%02d:%02d:%02d.%s' % (hh, mm, ss, f), (hh, mm, ss, us)))
        else:
            scal.append(('2021-03-04%s%02d:%02d:%02d.%s%s UTC' % (rng.choice('Tt'), hh, mm, ss, f, rng.choice('Zz')), (hh, mm, ss, us)))
    for t, want1 in scal:
        ctx.coverage['evaluations'] += 1
        ctx.count('fractional-seconds')
        try:
            v = h.parse_scalar(t, mode=h.MODE_ZINC)
        except Exception as e:  # noqa
            ctx.violation('impl-counterexample', 'the scalar %r was rejected with %s' % (t, type(e).__name__), {'scalar': t})
            return
        if (v.hour, v.minute, v.second, v.microsecond) != want1:
            ctx.violation('impl-counterexample', 'the scalar %r was decoded as %r, it denotes %r' % (t, (v.hour, v.minute, v.second, v.microsecond), want1), {'scalar': t})
            return
    # one date-time per mapped zone name: every label must be read back as that zone
    import datetime as _dt
    import pytz as _pytz
    from hszinc import zoneinfo as _zi
    for _zn, _olson in _zi.get_tz_map().items():
        _tz = _pytz.timezone(_olson)
        _v = _pytz.utc.localize(_dt.datetime(rng.choice([1999, 2012, 2024]), rng.randint(1, 12), rng.randint(1, 28), rng.randint(2, 21), rng.randint(0, 59), rng.randint(0, 59))).astimezone(_tz)
        _t = '%s %s' % (_v.isoformat(), _zn)
        ctx.coverage['evaluations'] += 1
        ctx.count('zone-label-sweep')
        try:
            _b = h.parse_scalar(_t, mode=h.MODE_ZINC)
        except Exception as e:  # noqa
            ctx.violation('impl-counterexample', 'the scalar %r was rejected with %s' % (_t, type(e).__name__), {'scalar': _t})
            return
        if _b != _v or _b.utcoffset() != _v.utcoffset() or getattr(_b.tzinfo, 'zone', None) != _olson:
            ctx.violation('impl-counterexample', 'the scalar %r was decoded as %s in zone %s, it denotes %s in %s' % (_t, _b.isoformat(), getattr(_b.tzinfo, 'zone', None), _v.isoformat(), _olson), {'scalar': _t})
            return
    ctx.sample({'document': sorted(seen, key=len)[len(seen) // 2][:1500]})
    ctx.coverage['distinct_nontrivial'] = len(seen) + len(set(t for t, _ in scal))


def _diff(a, b):
    if isinstance(a, tuple) and isinstance(b, tuple) and len(a) == len(b):
        for x, y in zip(a, b):
            if x != y:
                return _diff(x, y)
    return (a, b)


def replay(ctx, data):
    print(data.get('document', '')[:2000])
    run(ctx)
