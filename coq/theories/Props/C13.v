(* C13 - a filter's result is independent of other filters, earlier or concurrent.
   Statements about Model/FilterCache.v.  A filter is abstracted to its key; "the code compiled for key k"
   is k: the theorems say WHICH filter's code every call hands back.  What that code computes is C11. *)
From Coq Require Import List NArith Arith Bool.
From HS Require Import Base.Prelude Model.FilterCache.
From HS Require Import Proofs.FilterCacheP.
Import ListNotations.

(* the first filter ever, the thousandth, repeated ones, in any order, for ANY cache capacity (evictions
   included): every call hands back the code of its own filter *)
Theorem C13_sequential : forall cap ks s rs, run_calls cap cinit ks = (s, rs) -> rs = map Some ks.
Proof. intros cap ks s rs H. exact (proj1 (run_calls_correct cap ks cinit s rs SI_init H)). Qed.

(* the invariant behind it: cached wrappers have pairwise distinct names below the counter, and the module
   global of each still-cached wrapper is its own filter's code - so still-cached filters keep working *)
Theorem C13_cached_entries_stay_valid : forall cap ks s rs, run_calls cap cinit ks = (s, rs) ->
  (forall k n, In (k, n) (cache s) -> n < ctr s /\ glookup n (globals s) = Some k) /\ NoDup (map snd (cache s)).
Proof.
  intros cap ks s rs H. destruct (run_calls_correct cap ks cinit s rs SI_init H) as [_ [Ha [Hb _]]]. split; assumption.
Qed.

(* after any sequential history, any number of threads compiling and evaluating under ANY schedule
   (interleaving at the granularity of: ask the cache / take a name / exec the definition / store / get()):
   whatever state each thread is in, it works on its own filter, and a thread that is done got its own code.
   (No eviction in this first statement; C13_concurrent_with_eviction below lifts that.)  Real preemption is per
   bytecode, not per step: PARTIAL in that respect only. *)
Theorem C13_concurrent : forall cap hist ks sched s rs,
  run_calls cap cinit hist = (s, rs) ->
  let final := prun (mkP (ctr s) (globals s) (cache s) (map TStart ks)) sched in
  forall i k t, nth_error ks i = Some k -> nth_error (threads final) i = Some t ->
  match t with TDone r => r = Some k | _ => key_of t = Some k end.
Proof.
  intros cap hist ks sched s rs H final i k t Hk Ht.
  pose proof (concurrent_after_history cap hist ks sched s rs H) as HE. fold final in HE.
  destruct (Forall2_nth _ _ _ _ _ HE Ht) as [a [Ea Hag]]. rewrite Hk in Ea. inversion Ea; subst a. exact Hag.
Qed.

(* the same WITH eviction while the threads run (any capacity, capacity 0 and 1 included): storing a wrapper may
   drop the least recently used one, which is finalised - its module global deleted - as soon as no thread
   holds it; a thread that finishes releases its wrapper.  Still every thread ends with its own filter's code. *)
Theorem C13_concurrent_with_eviction : forall cap hist ks sched s rs,
  run_calls cap cinit hist = (s, rs) ->
  let final := prun2 cap (mkP (ctr s) (globals s) (cache s) (map TStart ks)) sched in
  forall i k t, nth_error ks i = Some k -> nth_error (threads final) i = Some t ->
  match t with TDone r => r = Some k | _ => key_of t = Some k end.
Proof.
  intros cap hist ks sched s rs H final i k t Hk Ht.
  pose proof (concurrent_with_eviction cap hist ks sched s rs H) as HE. fold final in HE.
  destruct (Forall2_nth _ _ _ _ _ HE Ht) as [a [Ea Hag]]. rewrite Hk in Ea. inversion Ea; subst a. exact Hag.
Qed.
Example C13_two_threads_capacity_one :
  threads (prun2 1 (mkP 0 [] [] [TStart 7%N; TStart 9%N; TStart 7%N]) [0; 1; 0; 1; 1; 0; 0; 1; 1; 0; 2; 2; 2; 2; 2; 2]) = [TDone (Some 7%N); TDone (Some 9%N); TDone (Some 7%N)].
Proof. vm_compute. reflexivity. Qed.

(* non-vacuity: two threads, fully interleaved, both finish with their own code; a capacity-2 history with evictions *)
Example C13_two_threads :
  threads (prun (mkP 0 [] [] [TStart 7%N; TStart 9%N]) [0; 1; 0; 1; 1; 0; 0; 1; 1; 0]) = [TDone (Some 7%N); TDone (Some 9%N)].
Proof. vm_compute. reflexivity. Qed.
Example C13_evictions :
  snd (run_calls 2 cinit [1; 2; 3; 1; 2; 3; 3; 1]%N) = map Some [1; 2; 3; 1; 2; 3; 3; 1]%N /\
  length (globals (fst (run_calls 2 cinit [1; 2; 3; 1; 2; 3; 3; 1]%N))) = 2.
Proof. vm_compute. split; reflexivity. Qed.

Print Assumptions C13_sequential.
Print Assumptions C13_cached_entries_stay_valid.
Print Assumptions C13_concurrent.
Print Assumptions C13_concurrent_with_eviction.
