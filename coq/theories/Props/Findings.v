(* Refuted statements: defects that were found on the pinned tree and repaired
   by `fix:` commits in /repo.  Each is stated against a frozen copy of the
   pre-fix definition so that the history stays checkable. *)
From HS Require Import Base.Prelude Model.Version.
Open Scope N_scope.

(* C18 / F12: before the fix, __hash__ was hash(str(self)) *)
Definition hash_key_legacy (v : ver) : str := vstr v.
Theorem C18_eq_hash_refuted_legacy :
  exists a b, veq a b = true /\ hash_key_legacy a <> hash_key_legacy b.
Proof. exists (mkVer [2] None), (mkVer [2;0] None). vm_compute. split; [reflexivity|discriminate]. Qed.
