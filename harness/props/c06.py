"""C06 - JSON writer emits well-formed Haystack JSON that denotes the grid.

Theorems: coq/theories/Props/C06.v (Model/Json.v jdump: the isinstance ladder of
jsondumper.dump_scalar, grid layout).  Tie: exact tree equality of the model's
output with json.loads(hszinc.dump(g, JSON)) on generated grids.  Search: valid
JSON, shape, per-kind prefix and lexical form, and an independent spec-derived
reader (harness/jsonsim.spec_read, shares no code with hszinc) must recover
the grid to six decimals; a list of grids gives a JSON array."""
import json
import random

import codec
import jsonsim

COMPONENTS = ['json', 'version']


def grids_for(rng, n):
    gs = []
    for i in range(n):
        gs.append(codec.gen_grid(rng, rng.choice(['2.0', '3.0', '3.0']), depth=rng.choice([0, 1, 2, 3])))
    gs += codec.zone_sweep_grids(rng)        # one date-time in every mapped zone
    gs += codec.reserved_tag_grids()         # dict values whose tags are the names of the JSON grid encoding (meta, cols, rows)
    return gs


def run(ctx):
    h = codec.H()
    rng = random.Random(ctx.seed + 6)
    thorough = ctx.tier == 'thorough' or ctx.escalate
    n = 40000 if thorough else 1200
    ctx.coverage['rule'] = ('grids generated over the Haystack value domain (every kind in metadata, column metadata and cells; all code points in '
                            'text; boundary floats, non-finite numbers, all mapped zones; nesting depth <= 3; versions 2.0 and 3.0), single and as lists; '
                            'a grid is non-trivial when it has at least one non-null value; distinct by dumped text')
    gs = grids_for(rng, n)
    answers = jsonsim.model_dump(ctx, gs)
    seen = set()
    corr = False
    for g, a in zip(gs, answers):
        ctx.coverage['evaluations'] += 1
        try:
            txt = h.dump(g, mode=h.MODE_JSON)
        except Exception as e:  # noqa
            ctx.violation('impl-counterexample', 'dumping a valid grid raised %s: %s' % (type(e).__name__, e),
                          {'grid': repr(codec.canon(g))[:3000]})
            return
        rep = {'grid_canonical': repr(codec.canon(g))[:4000], 'dumped': txt[:4000]}
        try:
            tree = json.loads(txt)
        except ValueError as e:
            ctx.violation('impl-counterexample', 'output is not valid JSON: %s' % e, rep)
            return
        p = jsonsim.grid_shape_problem(g, tree)
        if p:
            ctx.violation('impl-counterexample', 'writer output malformed: %s' % p, rep)
            return
        try:
            back = jsonsim.spec_read_grid(tree)
        except jsonsim.NotConformant as e:
            ctx.violation('impl-counterexample', 'independent reader rejects the output: %s' % e, rep)
            return
        want = jsonsim.expected6(g)
        if back != want:
            ctx.violation('impl-counterexample', 'independent reader recovers another grid: %r, expected %r' % (_diff(back, want)), rep)
            return
        # correspondence (exact tree)
        if not corr:
            if a[0] != 'ok' or codec.wire_to_json_canon(a[1]) != codec.json_canon(tree):
                ctx.violation('correspondence-broken', 'model of the JSON writer differs from the implementation on %s'
                              % txt[:300], dict(rep, component='jdump', model=repr(a)[:2000]))
                corr = True
        ctx.coverage['traces_validated_against_impl'] += 1
        if len(txt) > 60:
            seen.add(txt)
    # rows are dicts: the order in which a row dict lists its keys is not content - the same grid with its row dicts built in
    # another key order must be written as the same document
    twins = 0
    for g in gs:
        if twins >= (4000 if thorough else 400):
            break
        g2 = codec.shuffled_rows_twin(rng, g)
        if g2 is None:
            continue
        twins += 1
        ctx.coverage['evaluations'] += 1
        t1, t2 = json.loads(h.dump(g, mode=h.MODE_JSON)), json.loads(h.dump(g2, mode=h.MODE_JSON))
        if t1 != t2:
            ctx.violation('impl-counterexample', 'the same grid with its row dicts built in another key order is written differently '
                          '(cells under other columns): %r' % (_diff(t1.get('rows'), t2.get('rows')),),
                          {'grid_canonical': repr(codec.canon(g))[:3000], 'rows_as_given': repr([list(r.keys()) for r in g2])[:1000],
                           'dumped': json.dumps(t2)[:3000], 'dumped_in_column_order': json.dumps(t1)[:3000]})
            return
    ctx.count('row-key-order twins', twins)
    # lists of grids -> JSON array of such objects
    for k in (0, 1, 2, 3):
        sub = gs[:k]
        ctx.coverage['evaluations'] += 1
        txt = h.dump(sub, mode=h.MODE_JSON)
        tree = json.loads(txt)
        if not isinstance(tree, list) or len(tree) != k or any(jsonsim.grid_shape_problem(g, t) for g, t in zip(sub, tree)):
            ctx.violation('impl-counterexample', 'a list of %d grids is not dumped as a JSON array of %d grid objects' % (k, k),
                          {'dumped': txt[:2000]})
            return
    ctx.sample({'dumped': sorted(seen, key=len)[len(seen) // 2][:1500] if seen else ''})
    ctx.coverage['distinct_nontrivial'] = len(seen)


def _diff(a, b):
    if isinstance(a, tuple) and isinstance(b, tuple) and len(a) == len(b):
        for x, y in zip(a, b):
            if x != y:
                return _diff(x, y)
    return (a, b)


def replay(ctx, data):
    print(data.get('dumped', '')[:2000])
    run(ctx)
