From HS Require Import Base.Prelude Model.Json.
Theorem C05_placeholder : True. Proof. exact I. Qed.
