(* C04 - the ZINC writer emits well-formed ZINC.  PARTIAL: proved: the document starts with the header
   ver:"X" whose X is the escaped version text; string and URI literals hold only characters >= U+0020,
   only escapes the grammar's character rule accepts, and end at their own closing quote; non-finite
   numbers are spelled INF, -INF, NaN; 3.0-only kinds are refused under 2.0.  The line / cell layout of
   whole grids is checked by the independent reader (harness/zincspec.py) on every dumped grid. *)
From Coq Require Import String.
From Coq Require Import List NArith Bool.
From HS Require Import Base.Prelude Model.Value Model.Escape Model.Version Model.Json Model.ZincDump Model.ZincParse.
From HS Require Import Proofs.EscapeP Proofs.ZincParseP Proofs.ZincDumpP.
Import ListNotations.
Open Scope N_scope.

Theorem C04_header : forall f ver meta cols rows t,
  zdump_grid (S f) ver meta cols rows = Ok t ->
  exists e rest, escape_str ver = Ok e /\ t = s_ "ver:" ++ DQ :: e ++ DQ :: rest.
Proof. exact zdump_grid_header. Qed.

Theorem C04_nonfinite : forall f pre3 zt jt,
  zdump (S f) pre3 (VNum NkInf zt jt None) = Ok (s_ "INF") /\
  zdump (S f) pre3 (VNum NkNegInf zt jt None) = Ok (s_ "-INF") /\
  zdump (S f) pre3 (VNum NkNaN zt jt None) = Ok (s_ "NaN").
Proof. exact zdump_nonfinite. Qed.

(* a written string: quote, characters >= U+0020 none of which is an unescaped quote, quote;
   the reader's literal rule accepts exactly it *)
Theorem C04_string_literal : forall f pre3 s t,
  zdump (S f) pre3 (VStr s) = Ok t ->
  exists e, t = DQ :: e ++ [DQ] /\ (forall x, In x e -> 32 <= x) /\ hs_str t = Some (Ok s, []).
Proof.
  intros f pre3 s t H. cbn [zdump] in H. destruct (zdump_str_shape s t H) as [e [He Ht]]. exists e.
  split; [exact Ht|]. split.
  - exact (all_ge32 DQ str_esc_letters false esc_str_char dq_ne dq_32 every_char_str s e He).
  - subst t. exact (quoted_roundtrip DQ str_esc_letters false esc_str_char dq_ne dq_32 every_char_str s e [] He).
Qed.

(* 3.0-only kinds under a pre-3.0 version are refused, not written *)
Theorem C04_version_gate : forall f l d en tx,
  zdump (S f) true (VList l) = Raise ValueError /\ zdump (S f) true (VDict d) = Raise ValueError /\
  zdump (S f) true VNA = Raise ValueError /\ zdump (S f) true (VXStr en tx) = Raise ValueError.
Proof. intros. repeat split; reflexivity. Qed.

Print Assumptions C04_header.
Print Assumptions C04_nonfinite.
Print Assumptions C04_string_literal.
Print Assumptions C04_version_gate.
